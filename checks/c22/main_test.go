package c22

import (
	"bytes"
	"context"
	"encoding/binary"
	"encoding/hex"
	"encoding/json"
	"fmt"
	"os"
	"os/exec"
	"runtime"
	"runtime/debug"
	"sort"
	"strings"
	"sync"
	"testing"
	"testing/synctest"
	"time"

	"github.com/twmb/franz-go/pkg/kgo"
	"github.com/twmb/franz-go/pkg/kmsg"
	"verif.local/ev"
	"verif/checks/c21/sbroker"
)

// ---------------------------------------------------------------- one execution

type ReqResult struct {
	Returned bool   `json:"returned"`
	AtUs     int64  `json:"at_us"`
	OK       bool   `json:"ok"`
	Err      string `json:"err,omitempty"`
	Class    string `json:"class"`
	HasResp  bool   `json:"has_resp"`
	Marker   int32  `json:"marker"`
	Cluster  string `json:"cluster,omitempty"`
	Throttle int32  `json:"throttle,omitempty"`
}

type ConnObs struct {
	ID         int     `json:"id"`
	Handshakes []int16 `json:"handshakes"`
	Slots      []int   `json:"slots"`      // logical request index received as slot k (-1: undecodable)
	Corrs      []int32 `json:"corrs"`      // correlation id of slot k
	ArrivalUs  []int64 `json:"arrival_us"` // arrival time of slot k
	SentHex    string  `json:"sent_hex"`   // bytes the broker sent after the handshake
	Closed     bool    `json:"closed"`     // the broker closed the connection
	StepsDone  int     `json:"steps_done"`
}

type Obs struct {
	Reqs    []ReqResult `json:"requests"`
	Conns   []ConnObs   `json:"connections"`
	BoundUs int64       `json:"bound_us"`
	Leak    string      `json:"leak,omitempty"`
	Infra   string      `json:"infra,omitempty"`
}

func errClass(err error) string {
	if err == nil {
		return "ok"
	}
	s := err.Error()
	switch {
	case strings.Contains(s, "correlation ID mismatch"):
		return "err-corr"
	case strings.Contains(s, "invalid negative response size"):
		return "err-negsize"
	case strings.Contains(s, "invalid large response size"):
		return "err-oversize"
	case strings.Contains(s, "context canceled"):
		return "err-canceled"
	case strings.Contains(s, "connection has died"):
		return "err-dead"
	case strings.Contains(s, "enough data"):
		return "err-short"
	case strings.Contains(s, "immediately after a request was issued"):
		return "err-first-read-eof"
	case strings.Contains(s, "unexpected EOF"):
		return "err-ueof"
	case strings.Contains(s, "EOF"):
		return "err-eof"
	case strings.Contains(s, "timeout") || strings.Contains(s, "deadline"):
		return "err-timeout"
	case strings.Contains(s, "closed pipe"):
		return "err-closed"
	}
	return "err-other"
}

// bound is the longest a call may take (virtual time) after it was issued:
// at most n read timeouts in sequence on the first connection (the read
// deadline of a pipelined response starts when the previous response has been
// handled), one write timeout, one further read timeout on a replacement
// connection (dial and handshake are instantaneous here), every throttle the
// script can impose, and 100ms of slack for the script's own delays... which
// are all below one timeout and therefore inside the read timeouts above.
func bound(n int) time.Duration {
	return time.Duration(n+2)*overhead + time.Duration(n)*throttleMs*time.Millisecond + 100*time.Millisecond
}

func us(d time.Duration) int64 { return int64(d / time.Microsecond) }

func bubbleStacks() string {
	buf := make([]byte, 1<<20)
	buf = buf[:runtime.Stack(buf, true)]
	// goroutines leaked by earlier cases stay around: keep the newest bubble only
	bubbleOf := func(g string) int {
		i := strings.Index(g, "synctest bubble ")
		if i < 0 {
			return -1
		}
		n := -1
		fmt.Sscanf(g[i+len("synctest bubble "):], "%d", &n)
		return n
	}
	gs := strings.Split(string(buf), "\n\n")
	newest := -1
	for _, g := range gs {
		newest = max(newest, bubbleOf(g))
	}
	var out []string
	for _, g := range gs {
		if b := bubbleOf(g); b >= 0 && b == newest {
			lines := strings.Split(g, "\n")
			if len(lines) > 9 {
				lines = lines[:9]
			}
			out = append(out, strings.Join(lines, "\n"))
		}
	}
	if len(out) > 6 {
		out = out[:6]
	}
	return strings.Join(out, "\n\n")
}

// run executes one case in its own bubble.
func run(t *testing.T, c *Case) (o Obs) {
	defer func() {
		// synctest panics in the caller when the bubble's root goroutine
		// has returned (or is blocked) while goroutines of the bubble are
		// still blocked: something leaked past Client.Close.
		if r := recover(); r != nil {
			o.Leak = fmt.Sprint(r) + "\n" + bubbleStacks()
		}
	}()
	synctest.Test(t, func(t *testing.T) {
		br := &sbroker.Broker{
			Advertise: func(ak *kmsg.ApiVersionsResponseApiKey) bool {
				if ak.ApiKey == c.Key {
					ak.MaxVersion = c.Ver
				}
				return true
			},
			Script: c.script(),
			Honest: func(conn, slot int, q *sbroker.Request) []byte {
				if q.Key != c.Key {
					return nil
				}
				return respFrame(q.Key, q.Version, q.Corr, honestMarker(conn, slot), 0)
			},
		}
		br.Start()
		defer br.Stop()
		cl, err := kgo.NewClient(
			kgo.SeedBrokers("localhost:9092"),
			kgo.Dialer(br.Dial),
			kgo.RequestTimeoutOverhead(overhead),
			kgo.RequestRetries(0),
			kgo.BrokerMaxReadBytes(c.MaxRead),
			kgo.FetchMaxBytes(defaultMaxRead),
			kgo.FetchMaxPartitionBytes(defaultMaxRead),
			kgo.DisableClientMetrics(), // no KIP-714 telemetry requests of the client's own in between
		)
		if err != nil {
			o.Infra = "NewClient: " + err.Error()
			return
		}
		start := time.Now()
		results := make([]ReqResult, c.N) // o.Reqs is a snapshot taken at the deadline
		o.BoundUs = us(bound(c.N))
		var mu sync.Mutex
		var wg sync.WaitGroup
		cancels := make([]context.CancelFunc, c.N)
		ctxs := make([]context.Context, c.N)
		for i := range ctxs {
			ctxs[i], cancels[i] = context.WithCancel(context.Background())
		}
		handle := cl.SeedBrokers()[0]
		var last time.Duration
		for i := 0; i < c.N; i++ {
			at := time.Duration(c.IssueUs[i]) * time.Microsecond
			if at > last {
				last = at
			}
			if c.Cancel == i && c.CancelUs < 0 {
				cancels[i]()
			}
			wg.Add(1)
			go func() {
				defer wg.Done()
				if at > 0 {
					time.Sleep(at)
				}
				resp, err := handle.Request(ctxs[i], reqFor(c.Key, i))
				r := ReqResult{Returned: true, AtUs: us(time.Since(start)), OK: err == nil, Class: errClass(err)}
				if err != nil {
					r.Err = err.Error()
				}
				if resp != nil && resp.Key() == c.Key {
					if mk, ok := markerFrom(resp); ok {
						r.HasResp, r.Marker = true, mk
					}
				}
				if m, ok := resp.(*kmsg.MetadataResponse); ok && m != nil {
					r.Throttle = m.ThrottleMillis
					if m.ClusterID != nil {
						r.Cluster = *m.ClusterID
					}
				}
				mu.Lock()
				results[i] = r
				mu.Unlock()
			}()
		}
		finished := make(chan struct{})
		if c.Cancel >= 0 && c.CancelUs >= 0 {
			go func() {
				if c.CancelUs > 0 {
					tm := time.NewTimer(time.Duration(c.CancelUs) * time.Microsecond)
					defer tm.Stop()
					select {
					case <-tm.C:
					case <-finished:
						return
					}
				}
				cancels[c.Cancel]()
			}()
		}
		all := make(chan struct{})
		go func() { wg.Wait(); close(all) }()
		limit := time.NewTimer(last + bound(c.N) + time.Duration(scriptThrottleMs(c))*time.Millisecond)
		select {
		case <-all:
			limit.Stop()
		case <-limit.C:
		}
		// a cancellation scheduled after every call has returned still happens
		// (cancelling a context whose request is complete must be harmless)
		if c.Cancel >= 0 && c.CancelUs >= 0 {
			if rest := time.Duration(c.CancelUs)*time.Microsecond - time.Since(start); rest >= 0 {
				time.Sleep(rest + 10*time.Millisecond)
			}
		}
		close(finished)
		synctest.Wait()
		mu.Lock()
		o.Reqs = append([]ReqResult(nil), results...)
		mu.Unlock()
		for _, cn := range br.Conns() {
			co := ConnObs{ID: cn.ID, Handshakes: cn.Handshakes, SentHex: hex.EncodeToString(cn.Sent), Closed: cn.Closed, StepsDone: cn.StepsDone}
			for _, rq := range cn.Reqs {
				idx := -1
				if kr, err := rq.Req.Decode(); err == nil {
					if mr, ok := kr.(*kmsg.MetadataRequest); ok && len(mr.Topics) == 1 && mr.Topics[0].Topic != nil {
						fmt.Sscanf(*mr.Topics[0].Topic, "r%d", &idx)
					}
				}
				if rq.Req.Key != c.Key {
					idx = -3 // not one of the case's requests
				}
				if c.Key != 3 && rq.Req.Key == c.Key {
					// keyed families: requests are issued at distinct
					// instants and never throttled, so the arrival time
					// names the request
					for i, at := range c.IssueUs {
						if at == us(rq.At) {
							idx = i
						}
					}
					if rq.Req.Version != c.Ver && o.Infra == "" {
						o.Infra = fmt.Sprintf("the client wrote %s v%d, the case was built for v%d", kmsg.NameForKey(c.Key), rq.Req.Version, c.Ver)
					}
				}
				co.Slots = append(co.Slots, idx)
				co.Corrs = append(co.Corrs, rq.Req.Corr)
				co.ArrivalUs = append(co.ArrivalUs, us(rq.At))
			}
			o.Conns = append(o.Conns, co)
		}
		if c.Key != 3 {
			// keyed families: arrivals that match no issue instant (a request
			// that slept out a throttle first) are given, in arrival order,
			// to the earliest-issued request not yet placed: the broker's
			// request queue is FIFO.
			placed := map[int]bool{}
			for _, co := range o.Conns {
				for _, idx := range co.Slots {
					if idx >= 0 {
						placed[idx] = true
					}
				}
			}
			for {
				bc, bs := -1, -1
				for ci, co := range o.Conns {
					for s, idx := range co.Slots {
						if idx == -1 && (bc < 0 || co.ArrivalUs[s] < o.Conns[bc].ArrivalUs[bs]) {
							bc, bs = ci, s
						}
					}
				}
				if bc < 0 {
					break
				}
				pick := -2 // stays unknown: -2 so that the loop ends
				for i, at := range c.IssueUs {
					if !placed[i] && at <= o.Conns[bc].ArrivalUs[bs] && (pick < 0 || at < c.IssueUs[pick]) {
						pick = i
					}
				}
				o.Conns[bc].Slots[bs] = pick
				if pick >= 0 {
					placed[pick] = true
				}
			}
		}
		for _, cancel := range cancels {
			cancel()
		}
		cl.Close()
		br.Stop()
	})
	return o
}

// ---------------------------------------------------------------- reference model

type slotModel struct {
	OK     bool   `json:"ok"`
	Marker int32  `json:"marker"`
	Reason string `json:"reason,omitempty"`
}

// skipTags parses a tag buffer (uvarint count, then per tag uvarint key,
// uvarint size, size bytes); ok=false if malformed or truncated.
func skipTags(b []byte) (rest []byte, ok bool) {
	uvarint := func() (uint32, bool) {
		var v uint64
		for i := 0; i < 5; i++ {
			if len(b) == 0 {
				return 0, false
			}
			x := b[0]
			b = b[1:]
			v |= uint64(x&0x7f) << (7 * uint(i))
			if x&0x80 == 0 {
				if v > 0xffffffff {
					return 0, false
				}
				return uint32(v), true
			}
		}
		return 0, false
	}
	n, ok := uvarint()
	if !ok {
		return nil, false
	}
	for ; n > 0; n-- {
		if _, ok := uvarint(); !ok {
			return nil, false
		}
		sz, ok := uvarint()
		if !ok || uint64(sz) > uint64(len(b)) {
			return nil, false
		}
		b = b[sz:]
	}
	return b, true
}

// refModel is the reference reading of a response byte stream by a client
// that has `corrs` requests outstanding in order on one connection: frames are
// consumed strictly in order, one per request; a framing error (stream ends
// inside a frame, negative or oversized size, payload shorter than a
// correlation id, correlation id different from the waiting request's,
// malformed header tag buffer) fails that request and every later one on the
// connection; a body that does not decode fails only its own request.
func refModel(stream []byte, corrs []int32, key, ver int16, maxRead int32) []slotModel {
	out := make([]slotModel, len(corrs))
	dead := ""
	p := 0
	for k := range corrs {
		if dead != "" {
			out[k] = slotModel{Reason: "after-" + dead}
			continue
		}
		fail := func(reason string) {
			dead = reason
			out[k] = slotModel{Reason: reason}
		}
		if len(stream)-p < 4 {
			fail("stream-ends-in-size")
			continue
		}
		size := int32(binary.BigEndian.Uint32(stream[p:]))
		p += 4
		switch {
		case size < 0:
			fail("negative-size")
			continue
		case size > maxRead:
			fail("oversize")
			continue
		case len(stream)-p < int(size):
			fail("stream-ends-in-frame")
			continue
		}
		payload := stream[p : p+int(size)]
		p += int(size)
		if len(payload) < 4 {
			fail("payload-shorter-than-correlation-id")
			continue
		}
		if got := int32(binary.BigEndian.Uint32(payload)); got != corrs[k] {
			fail("correlation-id-mismatch")
			continue
		}
		body := payload[4:]
		resp := kmsg.ResponseForKey(key)
		resp.SetVersion(ver)
		// response header v1 (tag buffer) for flexible versions - except
		// ApiVersions, whose response header is always v0
		if resp.IsFlexible() && key != 18 {
			rest, ok := skipTags(body)
			if !ok {
				fail("malformed-header-tags")
				continue
			}
			body = rest
		}
		// an ApiVersions body answering with UNSUPPORTED_VERSION (35) is
		// always in v0 format
		if key == 18 && len(body) > 2 && body[1] == 35 {
			resp.SetVersion(0)
		}
		if err := resp.ReadFrom(body); err != nil {
			out[k] = slotModel{Reason: "body-does-not-decode"} // not fatal for the connection
			continue
		}
		mk, _ := markerFrom(resp)
		out[k] = slotModel{OK: true, Marker: mk}
	}
	return out
}

// scriptThrottleMs is the sum of the throttles (ThrottleMillis > 0) carried by
// every decodable response frame of the script, whatever its correlation id:
// the most the client may legitimately sleep on connection 1 while it lives
// (the client honours a throttle of any size, by design). Some hostile bodies
// decode to a response with a huge throttle by accident; this accounts for
// them as well as for the deliberate ones.
func scriptThrottleMs(c *Case) int64 {
	var stream []byte
	for _, s := range c.Steps {
		b, _ := hex.DecodeString(s.Hex)
		stream = append(stream, b...)
	}
	var sum int64
	for len(stream) >= 4 {
		size := int32(binary.BigEndian.Uint32(stream))
		if size < 4 || int(size) > len(stream)-4 {
			break
		}
		body := stream[8 : 4+size]
		stream = stream[4+size:]
		resp := kmsg.ResponseForKey(c.Key)
		resp.SetVersion(c.Ver)
		if resp.IsFlexible() && c.Key != 18 {
			rest, ok := skipTags(body)
			if !ok {
				continue
			}
			body = rest
		}
		if c.Key == 18 && len(body) > 2 && body[1] == 35 {
			resp.SetVersion(0)
		}
		if resp.ReadFrom(body) != nil {
			continue
		}
		if tr, ok := resp.(kmsg.ThrottleResponse); ok {
			if ms, _ := tr.Throttle(); ms > 0 {
				sum += int64(ms)
			}
		}
	}
	return sum
}

type verdict struct{ cls, what string }

// judge compares what the calls returned with the reference model evaluated on
// what the broker actually received and sent.
func judge(c *Case, o *Obs) (vs []verdict, models map[int][]slotModel) {
	models = map[int][]slotModel{}
	type receipt struct{ conn, slot int }
	where := map[int][]receipt{}
	for _, cn := range o.Conns {
		var m []slotModel
		if cn.ID == 1 {
			sent, _ := hex.DecodeString(cn.SentHex)
			m = refModel(sent, cn.Corrs, c.Key, c.Ver, c.MaxRead)
		} else {
			for s := range cn.Slots {
				m = append(m, slotModel{OK: true, Marker: honestMarker(cn.ID, s)})
			}
		}
		models[cn.ID] = m
		for s, idx := range cn.Slots {
			where[idx] = append(where[idx], receipt{cn.ID, s})
		}
	}
	// tDeath: the moment the client itself reported a connection-fatal error
	// to a caller (a read/write error, timeout, framing or correlation error,
	// or "connection has died" - not a cancellation, which returns through
	// the caller's context, and not a body that fails to decode, which leaves
	// the connection up). From then on the connection and any throttle its
	// broker imposed are gone: every call issued by then must return within
	// the ordinary timeouts, not after the rest of the throttle.
	tDeath := int64(-1)
	for _, r := range o.Reqs {
		if r.Returned && !r.OK && !r.HasResp && r.Class != "err-canceled" && r.Class != "err-other" && (tDeath < 0 || r.AtUs < tDeath) {
			tDeath = r.AtUs
		}
	}
	extraMs := scriptThrottleMs(c)
	extraUs := extraMs * 1000
	for i, r := range o.Reqs {
		if !r.Returned {
			vs = append(vs, verdict{"hang", fmt.Sprintf("request %d (issued at %dus) had not returned %dus after the last request was issued", i, c.IssueUs[i], o.BoundUs+extraUs)})
			continue
		}
		if r.AtUs > c.IssueUs[i]+o.BoundUs+extraUs {
			vs = append(vs, verdict{"hang", fmt.Sprintf("request %d (issued at %dus) returned only at %dus, later than the %dus bound plus %dus of scripted throttles", i, c.IssueUs[i], r.AtUs, o.BoundUs, extraUs)})
			continue
		}
		if tDeath >= 0 && r.AtUs > max(c.IssueUs[i], tDeath)+o.BoundUs {
			vs = append(vs, verdict{"late-after-connection-death", fmt.Sprintf("the client reported the connection's death to a caller at %dus, but request %d (issued at %dus) returned only at %dus (%s %q): more than the %dus bound later - it kept waiting (throttle of the dead connection: %dms scripted)",
				tDeath, i, c.IssueUs[i], r.AtUs, r.Class, r.Err, o.BoundUs, extraMs)})
			continue
		}
		rs := where[i]
		if r.OK {
			if !r.HasResp {
				vs = append(vs, verdict{"nil-response-without-error", fmt.Sprintf("request %d returned neither a response nor an error", i)})
				continue
			}
			if len(rs) == 0 {
				vs = append(vs, verdict{"response-without-request", fmt.Sprintf("request %d returned a response (marker %d) but the broker never received it", i, r.Marker)})
				continue
			}
			good := false
			var reasons []string
			for _, rc := range rs {
				m := models[rc.conn][rc.slot]
				if m.OK && m.Marker == r.Marker {
					good = true
				} else if m.OK {
					reasons = append(reasons, fmt.Sprintf("conn %d slot %d: the frame carrying its correlation id has marker %d", rc.conn, rc.slot, m.Marker))
				} else {
					reasons = append(reasons, fmt.Sprintf("conn %d slot %d: %s", rc.conn, rc.slot, m.Reason))
				}
			}
			if good {
				continue
			}
			cls := "misdelivered"
			m := models[rs[0].conn][rs[0].slot]
			if !m.OK {
				cls = "accepted-invalid/" + m.Reason
			}
			vs = append(vs, verdict{cls, fmt.Sprintf("request %d returned a response with marker %d, but the reference reading of the stream gives: %s", i, r.Marker, strings.Join(reasons, "; "))})
			continue
		}
		// error: must be an error if the model says so (trivially true
		// here); must NOT be an error when a valid response was sent in time
		// and nothing was cancelled.
		if c.Cancel < 0 {
			for _, rc := range rs {
				if m := models[rc.conn][rc.slot]; m.OK {
					vs = append(vs, verdict{"valid-response-not-delivered", fmt.Sprintf("request %d failed with %q although the broker sent a well-formed response with its correlation id in order (conn %d slot %d) and nothing was cancelled", i, r.Err, rc.conn, rc.slot)})
					break
				}
			}
		}
	}
	hung := false
	for _, v := range vs {
		hung = hung || v.cls == "hang"
	}
	if o.Leak != "" && !hung {
		vs = append(vs, verdict{"blocked-goroutines-after-close", "every call returned, but after Client.Close goroutines of the client remain blocked: " + o.Leak})
	}
	return vs, models
}

func outcomeKey(c *Case, o *Obs) string {
	var parts []string
	for _, r := range o.Reqs {
		if !r.Returned {
			parts = append(parts, "hang")
		} else {
			parts = append(parts, r.Class)
		}
	}
	return fmt.Sprintf("%s|k%dv%d|%s|conns=%d", c.Fam, c.Key, c.Ver, strings.Join(parts, ","), len(o.Conns))
}

// ---------------------------------------------------------------- workers

type found struct {
	Case   *Case               `json:"case"`
	Obs    *Obs                `json:"observed"`
	Models map[int][]slotModel `json:"reference_model_per_connection"`
	What   string              `json:"what"`
	Index  int64               `json:"index"`
	Count  int64               `json:"count"`
}

type childResult struct {
	Cases    int64
	Frames   int64
	Conns    int64
	ByFam    map[string]int64
	Outcomes map[string]int64
	ByKey    map[string]*found
	Samples  []found
	Other    map[string]int64 // texts of the errors classed err-other
	Infra    string
}

func caseSize(c *Case) int {
	n := c.N * 1000
	for _, s := range c.Steps {
		n += len(s.Hex)
	}
	if c.Cancel >= 0 {
		n += 500
	}
	return n
}

// checkpointFile: everything a worker has found for its cases with index <= Through
// (since it was started).
type checkpointFile struct {
	Through int64
	Res     *childResult
}

func childMain(t *testing.T, spec string) int {
	var w, n int
	if _, err := fmt.Sscanf(spec, "%d/%d", &w, &n); err != nil || n <= 0 {
		fmt.Fprintln(os.Stderr, "bad C22_CHILD", spec)
		return 2
	}
	out := os.Getenv("C22_OUT")
	skips := map[int64]bool{}
	for _, s := range strings.Split(os.Getenv("C22_SKIP"), ",") {
		var k int64
		if _, err := fmt.Sscanf(s, "%d", &k); err == nil {
			skips[k] = true
		}
	}
	prog, err := os.OpenFile(out+".progress", os.O_CREATE|os.O_WRONLY|os.O_TRUNC, 0o644)
	if err != nil {
		fmt.Fprintln(os.Stderr, err)
		return 2
	}
	defer prog.Close()
	res := &childResult{ByFam: map[string]int64{}, Outcomes: map[string]int64{}, ByKey: map[string]*found{}, Other: map[string]int64{}}
	var idx int64 = -1
	var pb [8]byte
	sampled := map[string]bool{}
	// A worker restarted after a crash resumes after the last checkpoint the
	// crashed one wrote (its results up to there were merged by the parent).
	var from int64
	fmt.Sscanf(os.Getenv("C22_FROM"), "%d", &from)
	sinceCkpt := 0
	checkpoint := func(through int64) {
		b, _ := json.Marshal(checkpointFile{Through: through, Res: res})
		if os.WriteFile(out+".ckpt.tmp", b, 0o644) == nil {
			os.Rename(out+".ckpt.tmp", out+".ckpt")
		}
	}
	enumerate(tierLimits(ev.Thorough()), func(c *Case) {
		idx++
		if idx < from || idx%int64(n) != int64(w) || skips[idx] || res.Infra != "" {
			return
		}
		if sinceCkpt++; sinceCkpt > 400 {
			sinceCkpt = 0
			checkpoint(idx - 1)
		}
		if f := os.Getenv("C22_FAMILY"); f != "" && f != c.Fam { // development aid
			return
		}
		binary.LittleEndian.PutUint64(pb[:], uint64(idx))
		prog.WriteAt(pb[:], 0)
		o := run(t, c)
		if o.Infra != "" {
			res.Infra = fmt.Sprintf("case %d (%s: %s): %s", idx, c.Fam, c.Desc, o.Infra)
			return
		}
		res.Cases++
		res.ByFam[c.Fam]++
		res.Conns += int64(len(o.Conns))
		for _, cn := range o.Conns {
			res.Frames += int64(2*len(cn.Handshakes) + len(cn.Slots))
			if cn.ID == 1 {
				res.Frames += int64(cn.StepsDone)
			} else {
				res.Frames += int64(len(cn.Slots))
			}
		}
		res.Outcomes[outcomeKey(c, &o)]++
		for _, rr := range o.Reqs {
			if rr.Class == "err-other" && (len(res.Other) < 20 || res.Other[rr.Err] > 0) {
				res.Other[rr.Err]++
			}
		}
		vs, models := judge(c, &o)
		for _, v := range vs {
			f := res.ByKey[v.cls]
			if f == nil {
				f = &found{}
				res.ByKey[v.cls] = f
			}
			if f.Case == nil || caseSize(c) < caseSize(f.Case) {
				f.Case, f.Obs, f.Models, f.What, f.Index = c, &o, models, v.what, idx
			}
			f.Count++
		}
		if len(vs) == 0 && !sampled[c.Fam] && idx%7 == 3 {
			sampled[c.Fam] = true
			res.Samples = append(res.Samples, found{Case: c, Obs: &o, Models: models, Index: idx})
		}
	})
	b, _ := json.Marshal(res)
	if err := os.WriteFile(out+".json", b, 0o644); err != nil {
		fmt.Fprintln(os.Stderr, err)
		return 2
	}
	return 0
}

func replay(t *testing.T, arg string) int {
	raw := []byte(arg)
	if !strings.HasPrefix(strings.TrimSpace(arg), "{") {
		b, err := os.ReadFile(arg)
		if err != nil {
			fmt.Println("replay:", err)
			return 2
		}
		raw = b
	}
	var art struct {
		Artefact struct {
			Case *Case `json:"case"`
		} `json:"artefact"`
	}
	var c *Case
	if err := json.Unmarshal(raw, &art); err == nil && art.Artefact.Case != nil {
		c = art.Artefact.Case
	} else {
		c = new(Case)
		if err := json.Unmarshal(raw, c); err != nil || c.N == 0 {
			fmt.Println("replay: not a case:", err)
			return 2
		}
	}
	if c.Key == 0 && c.Fam != "short" && !strings.HasPrefix(c.Fam, "keyed-") {
		c.Key = 3 // artefact written before the key became a dimension
	}
	fmt.Printf("replaying %s: %s (n=%d, %s, mode %s)\n", c.Fam, c.Desc, c.N, flavour{c.Key, c.Ver}, c.Mode)
	o := run(t, c)
	vs, models := judge(c, &o)
	b, _ := json.MarshalIndent(map[string]any{"observed": o, "reference_model_per_connection": models}, "", " ")
	fmt.Println(string(b))
	if len(vs) > 0 {
		for _, v := range vs {
			fmt.Printf("VIOLATION key=%s: %s\n", v.cls, v.what)
		}
		return 1
	}
	fmt.Println("held")
	return 0
}

func TestVerifC22(t *testing.T) {
	if os.Getenv("GOGC") == "" {
		debug.SetGCPercent(400)
	}
	if p := os.Getenv("C22_REPLAY"); p != "" {
		os.Exit(replay(t, p))
	}
	if spec := os.Getenv("C22_CHILD"); spec != "" {
		code := childMain(t, spec)
		if os.Getenv("C22_NOEXIT") != "" { // lets -test.cpuprofile flush; development aid only
			return
		}
		os.Exit(code)
	}
	lim := tierLimits(ev.Thorough())
	var cases []*Case // only when a crashed case has to be named
	var total int64
	fams := map[string]int64{}
	enumerate(lim, func(c *Case) { total++; fams[c.Fam]++ })
	if os.Getenv("C22_COUNT") != "" { // development aid
		fmt.Printf("tier=%s cases=%d %v\n", ev.Tier(), total, fams)
		os.Exit(0)
	}
	r := ev.New("C22", "model_checking")
	r.Rule("one case = (n concurrent Metadata requests on one connection of the seed broker handle, their issue times [simul: all at once; stagger: 1ms apart; late: last one between two " +
		"stream chunks; after: last one after the earlier answers], an optional cancellation of one request's context at one of 6 moments, the byte stream the scripted broker replies with, " +
		"and how the stream ends [idle / close / silence / resume after a pause]); response header flavours Metadata v8 (plain) and v12 (flexible). Families: corr (every assignment of " +
		"correlation ids from {own ids, max+1, 0, -1, 2^31-1} to n well-formed frames: in order, swapped, duplicated, wrong), trunc (stream cut at EVERY byte of every frame), size (size " +
		"field in {-1, min int32, 0, 1, 3, 4, 5, exact-1, exact, exact+1, max, max+1, 2^31-1, 'HTTP', TLS alert} and zero-padded frames of size exact+1/max/max+1), prefix (every <=2-byte " +
		"garbage prefix before the single frame [quick: <=1 byte + 9x256 pairs], with BrokerMaxReadBytes 1KiB and 1MiB; <=1-byte [thorough: <=2-byte] prefixes before the second of two " +
		"frames), tags (10 hostile response header tag buffers, flexible flavour), throttle (ThrottleMillis=300 in every response), cancel (whole stream and stream cut at every byte x " +
		"request x moment), tdeath (script alphabet per pipelined request R respond / T respond with ThrottleMillis=60s / W withhold, plus close-connection at every position or never: " +
		"every word of {R,T,W}^n x every close position, n = 2..maxN+1, issue modes simul/stagger/late/late2 [last two requests late]/after - a request issued after a T sleeps the " +
		"throttle out and the connection dies under it by EOF or by a withheld request's read timeout). The request KEY is a dimension of the hostile-reply families: besides " +
		"Metadata, ApiVersions issued on an established connection (v0, v3: response header never flexible, error-35 bodies re-read as v0), Produce v8/v11 and Fetch v11/v13 (their " +
		"dedicated connections), SASLHandshake v1 and SASLAuthenticate v1/v2 issued as plain requests, JoinGroup v5/v7 (group connection): families short (frame k correctly framed " +
		"but its payload only the first L bytes of the valid one, every L = 0..header+8, and error-35 body stubs; all 13 flavours), keyed-corr, keyed-trunc (cut at every byte), " +
		"keyed-size, keyed-prefix (<=1 byte), keyed-tags. Each case runs the real client in its own synctest bubble. " +
		"distinct_nontrivial = distinct (family, version, per-request outcome classes, connections used) tuples")
	r.Assume("the reference model reads the bytes the scripted broker actually sent on connection 1 strictly in order, one frame per outstanding request (Kafka's in-order pipelining); connections opened later are answered honestly",
		"the kmsg response type's ReadFrom (of the request's key and version) decides whether a correctly framed body is well-formed",
		"in the keyed families requests are issued at distinct virtual instants; the arrival instant (FIFO order for requests delayed by a throttle) tells which request the broker received in which slot",
		"throttles: whatever ThrottleMillis > 0 the decodable frames of the script carry is added to the no-death bound (the client honours throttles of any size by design)",
		"a call may take at most B = (n+2) x RequestTimeoutOverhead(1s) + n x 300ms throttle + 100ms of virtual time (n sequential read timeouts on the first connection, one write timeout, one read timeout on a replacement connection), plus the sum of the 60s throttles the script sent while the connection lived",
		"once the client itself has reported a connection-fatal error to any caller at time t (read/write error, timeout, framing or correlation error, 'connection has died'; not a cancellation, not an undecodable body), the connection and its broker's throttle are gone: every call issued by then must return by t + B (calls issued later: issue + B) - a throttle of a dead connection is not one of the configured timeouts",
		"a panic in any client goroutine kills the worker process and is attributed to the case that was running; a second completion of a request's promise panics (close of closed channel) and is caught the same way")

	workers := ev.Workers()
	dir := os.Getenv("BUILD")
	if dir == "" {
		dir = ev.Root() + "/build"
	}
	type child struct {
		w       int
		cmd     *exec.Cmd
		out     string
		stderr  bytes.Buffer
		skips   []string
		crashes int
		from    int64 // first case index not yet covered by a merged checkpoint
	}
	start := func(c *child) {
		c.stderr.Reset()
		os.Remove(c.out + ".json")
		os.Remove(c.out + ".ckpt")
		c.cmd = exec.Command(os.Args[0], "-test.run", "^TestVerifC22$", "-test.timeout", "0")
		c.cmd.Env = append(os.Environ(), "GOMAXPROCS=1", fmt.Sprintf("C22_CHILD=%d/%d", c.w, workers), "C22_OUT="+c.out,
			"C22_SKIP="+strings.Join(c.skips, ","), fmt.Sprintf("C22_FROM=%d", c.from))
		c.cmd.Stderr = &c.stderr
		c.cmd.Stdout = &c.stderr
		if err := c.cmd.Start(); err != nil {
			ev.InfraError("start worker: %v", err)
		}
	}
	var children []*child
	for w := 0; w < workers; w++ {
		c := &child{w: w, out: fmt.Sprintf("%s/c22-worker-%d-%d", dir, os.Getpid(), w)}
		start(c)
		children = append(children, c)
	}
	sum := &childResult{ByFam: map[string]int64{}, Outcomes: map[string]int64{}, ByKey: map[string]*found{}, Other: map[string]int64{}}
	var infra string
	type crash struct {
		idx  int64
		c    *Case
		tail string
	}
	var crashes []crash
	merge := func(res *childResult) {
		if res.Infra != "" && infra == "" {
			infra = res.Infra
		}
		sum.Cases += res.Cases
		sum.Frames += res.Frames
		sum.Conns += res.Conns
		for k, n := range res.ByFam {
			sum.ByFam[k] += n
		}
		for k, n := range res.Outcomes {
			sum.Outcomes[k] += n
		}
		for k, n := range res.Other {
			sum.Other[k] += n
		}
		for k, f := range res.ByKey {
			old := sum.ByKey[k]
			if old == nil {
				sum.ByKey[k] = f
				continue
			}
			n := old.Count + f.Count
			if caseSize(f.Case) < caseSize(old.Case) || caseSize(f.Case) == caseSize(old.Case) && f.Index < old.Index {
				sum.ByKey[k] = f
			}
			sum.ByKey[k].Count = n
		}
		sum.Samples = append(sum.Samples, res.Samples...)
	}
	for _, c := range children {
	again:
		err := c.cmd.Wait()
		b, rerr := os.ReadFile(c.out + ".json")
		if err != nil || rerr != nil {
			pb, perr := os.ReadFile(c.out + ".progress")
			tail := c.stderr.String()
			if len(tail) > 5000 {
				tail = tail[:2500] + "\n...\n" + tail[len(tail)-2500:]
			}
			if perr != nil || len(pb) < 8 || c.crashes >= 40 {
				if infra == "" {
					infra = fmt.Sprintf("worker %d failed: %v %v\n%s", c.w, err, rerr, tail)
				}
				continue
			}
			idx := int64(binary.LittleEndian.Uint64(pb))
			if cases == nil {
				enumerate(lim, func(cs *Case) { cases = append(cases, cs) })
			}
			if idx >= 0 && idx < int64(len(cases)) {
				crashes = append(crashes, crash{idx, cases[idx], tail})
			}
			c.crashes++
			c.skips = append(c.skips, fmt.Sprint(idx))
			// keep what the dead worker had checkpointed and resume after it
			if cb, err := os.ReadFile(c.out + ".ckpt"); err == nil {
				var ck checkpointFile
				if json.Unmarshal(cb, &ck) == nil && ck.Res != nil && ck.Through >= c.from {
					merge(ck.Res)
					c.from = ck.Through + 1
				}
				os.Remove(c.out + ".ckpt")
			}
			start(c)
			goto again
		}
		os.Remove(c.out + ".json")
		os.Remove(c.out + ".progress")
		os.Remove(c.out + ".ckpt")
		var res childResult
		if err := json.Unmarshal(b, &res); err != nil {
			infra = "worker result: " + err.Error()
			continue
		}
		merge(&res)
	}
	if infra != "" {
		ev.InfraError("%s", infra)
	}
	ran := sum.Cases + int64(len(crashes))
	r.Evals(ran)
	r.States(ran)
	r.Transitions(sum.Frames)
	r.Traces(ran)
	classes := map[string]bool{}
	for k := range sum.Outcomes {
		r.Distinct(k)
		for _, cl := range strings.Split(strings.Split(k, "|")[2], ",") {
			classes[cl] = true
		}
	}
	var cl []string
	for k := range classes {
		cl = append(cl, k)
	}
	sort.Strings(cl)
	r.Set("per_request_outcome_classes_seen", cl)
	r.Set("cases_per_family", sum.ByFam)
	r.Set("error_texts_classed_err-other", sum.Other)
	r.Set("cases_enumerated", total)
	r.Set("connections_opened", sum.Conns)
	r.Set("max_pipelined_requests", lim.maxN)
	r.Set("max_pipelined_requests_corr_family", lim.corrMaxN)
	r.Set("worker_processes", workers)
	r.Set("bound_completed", fmt.Sprintf("n <= %d pipelined requests (n <= %d in the corr family); all families complete (%d cases)", lim.maxN, lim.corrMaxN, total))
	if ran != total && os.Getenv("C22_FAMILY") == "" {
		r.NotExhaustive(fmt.Sprintf("%d of %d enumerated cases ran", ran, total))
	}
	seenFam := map[string]bool{}
	for _, s := range sum.Samples {
		if !seenFam[s.Case.Fam] {
			seenFam[s.Case.Fam] = true
			r.Sample(map[string]any{"case": s.Case, "requests": s.Obs.Reqs})
		}
	}
	keys := make([]string, 0, len(sum.ByKey))
	for k := range sum.ByKey {
		keys = append(keys, k)
	}
	sort.Strings(keys)
	for _, k := range keys {
		f := sum.ByKey[k]
		r.Violation(k, fmt.Sprintf("case #%d %s: %s (n=%d, %s, issue mode %s)\n%s\n(%d cases with this key)", f.Index, f.Case.Fam, f.Case.Desc, f.Case.N, flavour{f.Case.Key, f.Case.Ver}, f.Case.Mode, f.What, f.Count), f)
	}
	if len(crashes) > 0 {
		sort.Slice(crashes, func(i, j int) bool {
			if a, b := caseSize(crashes[i].c), caseSize(crashes[j].c); a != b {
				return a < b
			}
			return crashes[i].idx < crashes[j].idx
		})
		cr := crashes[0]
		var all []int64
		for _, x := range crashes {
			all = append(all, x.idx)
		}
		r.Violation("panic", fmt.Sprintf("case #%d %s: %s (n=%d, %s, issue mode %s)\nthe worker process died while this case was running:\n%s\n(%d cases killed their worker: %v)",
			cr.idx, cr.c.Fam, cr.c.Desc, cr.c.N, flavour{cr.c.Key, cr.c.Ver}, cr.c.Mode, cr.tail, len(crashes), all),
			map[string]any{"case": cr.c, "stderr": cr.tail, "all_crashing_case_indices": all})
	}
	os.Exit(r.Write())
}
