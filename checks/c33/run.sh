#!/bin/bash
# C33 kfake persistence survives crashes at any write (crash-point enumeration).
# usage: run.sh            run the check for $VERIF_TIER
#        run.sh --replay <violation.json>   recover the stored crash state and print what the protocol shows
set -eu
cd "$(dirname "$0")/../.."
. bin/env.sh
inpkg_test pkg/kfake "$VERIF_ROOT/hooks/inpkg/c33_kfake_test.go" "$BUILD/c33_kfake.test"
if [ "${1:-}" = "--replay" ]; then
  C33_REPLAY="$2" exec "$BUILD/c33_kfake.test" -test.run '^TestVerifC33$' -test.timeout 0
fi
exec "$BUILD/c33_kfake.test" -test.run '^TestVerifC33$' -test.timeout 0
