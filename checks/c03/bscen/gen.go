package bscen

import (
	"context"
	"fmt"
	"time"

	"github.com/twmb/franz-go/pkg/kfake"
	"github.com/twmb/franz-go/pkg/kgo"

	"verif.local/ev"

	"verif/lib/netctl"
	"verif/lib/nrun"
	"verif/lib/nscen"
)

// Generated family BG: the explorer chooses (cost 0, so every combination is
// run) the limit configuration, the call script of two producing threads, how
// many Flush calls a third thread makes and after how many of P1's calls it
// starts. The judge / gauge / flush oracles of the hand-written B scenarios
// follow any script (they are computed from the calls actually made).

type bcfg struct {
	name     string
	maxRecs  int
	maxBytes int
	manual   bool
	linger   time.Duration
}

var bcfgs = []bcfg{
	{"recs1", 1, 0, false, 0},
	{"recs2", 2, 0, false, 0},
	{"recs2-linger", 2, 0, false, 5 * time.Millisecond},
	{"bytes5", 10, 5, false, 0},
	{"manual-recs2", 2, 0, true, 0},
	{"manual-bytes5", 10, 5, true, 0},
}

// calls: P Produce, T TryProduce, C Produce with a context the C thread cancels
func scripts(n int) []string {
	out := []string{""}
	for i := 0; i < n; i++ {
		var next []string
		for _, s := range out {
			for _, op := range "PTC" {
				next = append(next, s+string(op))
			}
		}
		out = next
	}
	return out
}

func genScenario() *netctl.Scenario {
	sc := scenario("BG", 0, 0, false, 0) // Done / Final / Faults of the family; Setup replaced
	sc.Setup = func(x *netctl.Exec) {
		var names []string
		for _, c := range bcfgs {
			names = append(names, c.name)
		}
		p1s := scripts(3)
		p2s := []string{"TC", "PP", "CT"}
		gates := []string{"0", "1", "3"}
		if ev.Thorough() {
			p2s = scripts(2)
			gates = []string{"0", "1", "2", "3"}
		}
		cfg := bcfgs[x.ChooseOf("cfg", names)]
		p1 := p1s[x.ChooseOf("p1", p1s)]
		p2 := p2s[x.ChooseOf("p2", p2s)]
		nflush := x.ChooseOf("flushes", []string{"0", "1", "2"})
		if cfg.manual && nflush == 0 {
			nflush = 1 // under manual flushing nothing leaves without a Flush
		}
		var gate int
		fmt.Sscan(gates[x.ChooseOf("gate", gates)], &gate)

		c := x.Cluster(1, kfake.SeedTopics(1, "t"))
		st := &state{x: x, recs: map[string]*rec{}, byPtr: map[*kgo.Record]*rec{}, maxRecs: int64(cfg.maxRecs), maxBytes: int64(cfg.maxBytes), manual: cfg.manual, hooks: nscen.NewHookLedger()}
		x.Data = st
		opts := []kgo.Opt{
			kgo.RecordPartitioner(kgo.ManualPartitioner()),
			kgo.MaxBufferedRecords(cfg.maxRecs),
			kgo.ProducerLinger(cfg.linger),
			kgo.RecordRetries(5),
			kgo.ProduceRequestTimeout(5 * time.Second),
			kgo.RecordDeliveryTimeout(90 * time.Second),
			kgo.WithHooks(st.hooks),
		}
		if cfg.maxBytes > 0 {
			opts = append(opts, kgo.MaxBufferedBytes(cfg.maxBytes))
		}
		if cfg.manual {
			opts = append(opts, kgo.ManualFlushing())
		}
		st.cl = nscen.NewClient(x, "p", c, opts...)
		ctxC, cancel := context.WithCancel(context.Background())
		x.OnCleanup(cancel)
		bg := context.Background()
		gatesCh := make([]chan struct{}, 4)
		for i := range gatesCh {
			gatesCh[i] = make(chan struct{})
		}
		run := func(t *netctl.Thread, prefix, script string, after func(i int)) {
			for i, op := range script {
				name := fmt.Sprintf("%s%d", prefix, i+1)
				switch op {
				case 'P':
					t.Step("produce-" + name)
					st.produce(bg, name, false)
				case 'T':
					t.Step("tryproduce-" + name)
					st.produce(bg, name, true)
				case 'C':
					t.Step("produce-" + name + "-cancelable")
					st.produce(ctxC, name, false)
				}
				if after != nil {
					after(i)
				}
			}
		}
		p1done, p2done := make(chan struct{}), make(chan struct{})
		// F first: once its gate opens, its Flush comes before P1's next call.
		x.Thread("F", func(t *netctl.Thread) {
			<-gatesCh[gate]
			for i := 0; i < nflush; i++ {
				t.Step(fmt.Sprintf("flush-%d", i+1))
				ctx, cf := context.WithTimeout(bg, 3*time.Minute)
				st.flush(ctx)
				cf()
			}
			if cfg.manual { // the application's last Flush, once both producers are done
				<-p1done
				<-p2done
				t.Step("flush-last")
				ctx, cf := context.WithTimeout(bg, 3*time.Minute)
				st.flush(ctx)
				cf()
			}
		})
		x.Thread("P1", func(t *netctl.Thread) {
			defer close(p1done)
			close(gatesCh[0])
			run(t, "a", p1, func(i int) { close(gatesCh[i+1]) })
		})
		// P2's records are one byte longer than P1's (2 and 3 bytes), so that the byte limit 5 is hit exactly
		x.Thread("P2", func(t *netctl.Thread) { defer close(p2done); run(t, "bb", p2, nil) })
		x.Thread("C", func(t *netctl.Thread) {
			t.Step("cancel-ctx")
			cancel()
		})
	}
	return sc
}

// GenPlans: quick = the family on the default schedule; thorough = the larger
// family on the default schedule plus every single deviation (time-capped).
func GenPlans() []nrun.Plan {
	return []nrun.Plan{{Scenario: genScenario(), QuickBudget: 0, ThoroughBudget: 1, Weight: 3}}
}
