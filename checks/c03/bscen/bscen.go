// Package bscen holds the producer buffering scenarios (DESIGN.md §4 C03, engine N part).
package bscen

import (
	"context"
	"errors"
	"fmt"
	"sort"
	"sync"
	"time"

	"github.com/twmb/franz-go/pkg/kfake"
	"github.com/twmb/franz-go/pkg/kgo"

	"verif/lib/netctl"
	"verif/lib/nrun"
	"verif/lib/nscen"
)

type rec struct {
	name       string
	r          *kgo.Record
	size       int64
	called     bool // Produce/TryProduce invoked
	returned   bool // the call returned
	promised   bool
	err        error
	seqCall    int
	seqReturn  int
	seqPromise int
	fullAtCall, try, freedDuringCall bool
	before, beforeBytes              int64
}

type state struct {
	mu       sync.Mutex
	cl       *kgo.Client
	x        *netctl.Exec
	recs     map[string]*rec
	byPtr    map[*kgo.Record]*rec
	seq      int
	maxRecs  int64
	maxBytes int64
	manual   bool
	flushes  []*flushRec
	hooks    *nscen.HookLedger
	closed   bool
}

type flushRec struct {
	seqCall, seqReturn int
	err                error
	returned           bool
}

// inFlight = records whose produce call returned and whose promise has not run.
func (st *state) inFlightLocked() (n int64, bytes int64) {
	for _, r := range st.recs {
		if r.returned && !r.promised {
			n++
			bytes += r.size
		}
	}
	return
}

func (st *state) promise(r *kgo.Record, err error) {
	st.mu.Lock()
	defer st.mu.Unlock()
	rc := st.byPtr[r]
	if rc == nil {
		st.x.Violate("promise-for-unknown-record", "promise for a record never handed in")
		return
	}
	if rc.promised {
		st.x.Violate("promise-twice", "record %s promised twice", rc.name)
	}
	st.seq++
	rc.promised, rc.err, rc.seqPromise = true, err, st.seq
}

// produce performs one Produce/TryProduce and checks the admission rules that
// are decidable at this point. The explorer released this call at a quiescent
// point, so nothing inside the client is running concurrently when it starts.
func (st *state) produce(ctx context.Context, name string, try bool) {
	r := &kgo.Record{Topic: "t", Partition: 0, Value: []byte(name)}
	rc := &rec{name: name, r: r, size: int64(len(name))}
	st.mu.Lock()
	st.recs[name], st.byPtr[r] = rc, r2rec(rc)
	before, beforeBytes := st.inFlightLocked()
	st.seq++
	rc.called, rc.seqCall = true, st.seq
	st.mu.Unlock()
	full := before >= st.maxRecs || (st.maxBytes > 0 && beforeBytes+rc.size > st.maxBytes)
	if try {
		st.cl.TryProduce(ctx, r, st.promise)
	} else {
		st.cl.Produce(ctx, r, st.promise)
	}
	st.mu.Lock()
	defer st.mu.Unlock()
	st.seq++
	rc.returned, rc.seqReturn = true, st.seq
	rc.fullAtCall, rc.try, rc.before, rc.beforeBytes = full, try, before, beforeBytes
	for _, o := range st.recs {
		if o != rc && o.promised && o.seqPromise > rc.seqCall {
			rc.freedDuringCall = true
		}
	}
}

// judge applies the admission rules once every promise has run (promises are
// asynchronous, so the outcome of a call is only known then).
func (st *state) judge() {
	x := st.x
	type evn struct {
		seq   int
		delta int64
		bytes int64
		name  string
	}
	var evs []evn
	for _, r := range st.recs {
		if !r.returned || !r.promised {
			continue
		}
		refused := errors.Is(r.err, kgo.ErrMaxBuffered)
		gaveUp := r.fullAtCall && !r.try && (errors.Is(r.err, context.Canceled) || errors.Is(r.err, kgo.ErrClientClosed))
		// (2) at the limit TryProduce (and Produce under manual flushing) is refused with ErrMaxBuffered.
		if r.fullAtCall && (r.try || st.manual) && !refused {
			x.Violate("no-errmaxbuffered-at-limit", "%s issued with the buffer full (%d records, %d bytes) was not refused with ErrMaxBuffered (err=%v)", r.name, r.before, r.beforeBytes, r.err)
		}
		// (3) below the limit nothing is refused for lack of space.
		if !r.fullAtCall && refused {
			x.Violate("errmaxbuffered-below-limit", "%s refused with ErrMaxBuffered although only %d records / %d bytes were buffered", r.name, r.before, r.beforeBytes)
		}
		// (4) a blocking Produce issued at the limit returns only after a
		// promise freed space, or because its context / the client ended.
		if r.fullAtCall && !r.try && !st.manual && !r.freedDuringCall && !gaveUp {
			x.Violate("admitted-while-full", "blocking Produce(%s) issued with the buffer full returned although no promise ran meanwhile (err=%v)", r.name, r.err)
		}
		// (1) timeline of accepted records: from the call's return to the promise.
		if refused || gaveUp || r.seqPromise < r.seqReturn {
			continue
		}
		evs = append(evs, evn{r.seqReturn, 1, r.size, r.name}, evn{r.seqPromise, -1, -r.size, r.name})
	}
	sort.Slice(evs, func(i, j int) bool { return evs[i].seq < evs[j].seq })
	var n, b int64
	for _, e := range evs {
		n += e.delta
		b += e.bytes
		if n > st.maxRecs {
			x.Violate("over-max-buffered-records", "%d records accepted and unpromised when Produce(%s) returned; MaxBufferedRecords=%d", n, e.name, st.maxRecs)
		}
		if st.maxBytes > 0 && b > st.maxBytes {
			x.Violate("over-max-buffered-bytes", "%d bytes accepted and unpromised when Produce(%s) returned; MaxBufferedBytes=%d", b, e.name, st.maxBytes)
		}
	}
}

// gauge is evaluated at every quiescent point: the client's own gauge minus
// the producers that are still blocked inside Produce is what has been
// accepted and not yet promised.
func (st *state) gauge() {
	st.mu.Lock()
	blocked := int64(0)
	for _, r := range st.recs {
		if r.called && !r.returned {
			blocked++
		}
	}
	st.mu.Unlock()
	if st.closed {
		return
	}
	n := st.cl.BufferedProduceRecords() - blocked
	if n > st.maxRecs {
		st.x.Violate("over-max-buffered-records", "BufferedProduceRecords reports %d accepted records (+%d blocked) at a quiescent point; MaxBufferedRecords=%d", n, blocked, st.maxRecs)
	}
}

func r2rec(r *rec) *rec { return r }

func (st *state) flush(ctx context.Context) {
	f := &flushRec{}
	st.mu.Lock()
	st.seq++
	f.seqCall = st.seq
	st.flushes = append(st.flushes, f)
	st.mu.Unlock()
	err := st.cl.Flush(ctx)
	st.mu.Lock()
	defer st.mu.Unlock()
	st.seq++
	f.seqReturn, f.err, f.returned = st.seq, err, true
	if errors.Is(err, context.DeadlineExceeded) {
		pending := 0
		for _, r := range st.recs {
			if r.called && !r.promised {
				pending++
			}
		}
		if pending == 0 {
			st.x.Violate("flush-stuck", "Flush was still blocked after 3 virtual minutes although every record's promise had run (nothing buffered)")
		}
	}
	if err == nil {
		for _, r := range st.recs {
			if r.returned && r.seqReturn < f.seqCall && !r.promised {
				st.x.Violate("flush-returned-early", "Flush returned nil but record %s (produced before Flush began) has no promise yet", r.name)
			}
		}
	}
}

func faults(x *netctl.Exec, dir string, key int16, c *netctl.Conn) []string {
	if key == 0 && dir == "req" {
		return []string{"killbefore", "err:6", "stall"}
	}
	if key == 0 && dir == "resp" {
		return []string{"killafter"}
	}
	return nil
}

func scenario(name string, maxRecs int, maxBytes int, manual bool, linger time.Duration) *netctl.Scenario {
	return &netctl.Scenario{
		Name:    name,
		Faults:  faults,
		Horizon: 4 * time.Minute,
		Setup: func(x *netctl.Exec) {
			c := x.Cluster(1, kfake.SeedTopics(1, "t"))
			st := &state{x: x, recs: map[string]*rec{}, byPtr: map[*kgo.Record]*rec{}, maxRecs: int64(maxRecs), maxBytes: int64(maxBytes), manual: manual, hooks: nscen.NewHookLedger()}
			x.Data = st
			opts := []kgo.Opt{
				kgo.RecordPartitioner(kgo.ManualPartitioner()),
				kgo.MaxBufferedRecords(maxRecs),
				kgo.ProducerLinger(linger),
				kgo.RecordRetries(5),
				kgo.ProduceRequestTimeout(5 * time.Second),
				kgo.RecordDeliveryTimeout(90 * time.Second),
				kgo.WithHooks(st.hooks),
			}
			if maxBytes > 0 {
				opts = append(opts, kgo.MaxBufferedBytes(maxBytes))
			}
			if manual {
				opts = append(opts, kgo.ManualFlushing())
			}
			st.cl = nscen.NewClient(x, "p", c, opts...)
			ctxC, cancel := context.WithCancel(context.Background())
			x.OnCleanup(cancel)
			bg := context.Background()
			x.Thread("P1", func(t *netctl.Thread) {
				for _, n := range []string{"a1", "a2", "a3"} {
					t.Step("produce-" + n)
					st.produce(bg, n, false)
				}
			})
			x.Thread("P2", func(t *netctl.Thread) {
				t.Step("tryproduce-b1")
				st.produce(bg, "b1", true)
				t.Step("produce-b2-cancelable")
				st.produce(ctxC, "b2", false)
			})
			x.Thread("F", func(t *netctl.Thread) {
				t.Step("flush")
				ctx, cf := context.WithTimeout(bg, 3*time.Minute)
				defer cf()
				st.flush(ctx)
				if manual {
					t.Step("flush-2")
					st.flush(ctx)
				}
			})
			x.Thread("C", func(t *netctl.Thread) {
				t.Step("cancel-b2-ctx")
				cancel()
			})
		},
		Done: func(x *netctl.Exec) bool {
			st := x.Data.(*state)
			st.gauge()
			if !x.ThreadsDone() {
				return false
			}
			st.mu.Lock()
			defer st.mu.Unlock()
			for _, r := range st.recs {
				if !r.promised {
					return false
				}
			}
			return true
		},
		Final: func(x *netctl.Exec) {
			st := x.Data.(*state)
			if st.manual {
				// under manual flushing nothing leaves without a Flush
				ctx, cf := context.WithTimeout(context.Background(), 2*time.Minute)
				st.cl.Flush(ctx)
				cf()
			}
			deadline := time.Now().Add(3 * time.Minute)
			for time.Now().Before(deadline) {
				st.mu.Lock()
				pending := 0
				for _, r := range st.recs {
					if r.called && !r.promised {
						pending++
					}
				}
				st.mu.Unlock()
				if pending == 0 && x.ThreadsDone() {
					break
				}
				time.Sleep(100 * time.Millisecond)
			}
			st.mu.Lock()
			st.judge()
			var out []string
			for _, r := range st.recs {
				if r.called && !r.returned {
					x.Violate("produce-stuck", "Produce(%s) still blocked 3 virtual minutes into a fault-free suffix", r.name)
				} else if r.called && !r.promised {
					x.Violate("promise-never", "record %s never promised", r.name)
				}
				cls := "none"
				if r.promised {
					cls = nscen.ErrClass(r.err)
				}
				out = append(out, r.name+"="+cls)
			}
			for i, f := range st.flushes {
				if !f.returned {
					x.Violate("flush-stuck", "Flush #%d still blocked although nothing is buffered", i)
				}
			}
			st.mu.Unlock()
			if n, b := st.cl.BufferedProduceRecords(), st.cl.BufferedProduceBytes(); n != 0 || b != 0 {
				x.Violate("buffered-nonzero", "all promises ran but BufferedProduceRecords=%d BufferedProduceBytes=%d", n, b)
			}
			sort.Strings(out)
			x.Observe("%s", fmt.Sprint(out))
		},
	}
}

// Plans returns the C03 scenarios.
func Plans() []nrun.Plan {
	return []nrun.Plan{
		{Scenario: scenario("B-recs2", 2, 0, false, 0), QuickBudget: 1, ThoroughBudget: 2},
		{Scenario: scenario("B-recs1-linger", 1, 0, false, 5*time.Millisecond), QuickBudget: 1, ThoroughBudget: 2},
		{Scenario: scenario("B-bytes", 10, 5, false, 0), QuickBudget: 1, ThoroughBudget: 2},
		{Scenario: scenario("B-manual", 2, 0, true, 0), QuickBudget: 1, ThoroughBudget: 2},
	}
}
