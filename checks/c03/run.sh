#!/bin/bash
set -eu
cd "$(dirname "$0")/../.."
. bin/env.sh
go test -c -tags synctests,verif -o "$BUILD/c03.test" ./checks/c03
exec "$BUILD/c03.test" -test.run '^TestC03$' -test.timeout 0
