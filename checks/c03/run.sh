#!/bin/bash
set -eu
cd "$(dirname "$0")/../.."
. bin/env.sh
# --- engine S part: admission/promise/Flush core extracted from the tree
G="$BUILD/c03gen"; mkdir -p "$G"
go build -o "$BUILD/extract" ./cmd/extract
bin/extract_imports.sh "$REPO/pkg/kgo/ring.go" "$G/ring.go" main
"$BUILD/extract" -src "$REPO/pkg/kgo/producer.go" -pkg main -out "$G/producer.go" -imports '"context";"fmt";"github.com/twmb/franz-go/pkg/kerr"' \
  -decls "Client.produce,producer.promiseBatch,producer.promiseRecord,producer.promiseRecordBeforeBuf,producer.finishPromises,Client.finishRecordPromise,Client.Flush,type:batchPromise"
"$BUILD/extract" -src "$REPO/pkg/kgo/sink.go" -pkg main -out "$G/sink.go" -imports '"context"' -decls "type:promisedRec"
printf '{"Replace":{"%s":"%s","%s":"%s","%s":"%s"}}\n' "$VERIF_ROOT/checks/c03/s/zz_ring.go" "$G/ring.go" "$VERIF_ROOT/checks/c03/s/zz_producer.go" "$G/producer.go" "$VERIF_ROOT/checks/c03/s/zz_sink.go" "$G/sink.go" > "$G/overlay.json"
go build -overlay "$G/overlay.json" -o "$BUILD/c03s" ./checks/c03/s || { echo "EXTRACTION-ERROR: extracted producer slice no longer compiles against the stubs" >&2; exit 2; }
export C03S_OUT="$BUILD/c03_s.json"
rm -f "$C03S_OUT"
"$BUILD/c03s"
# --- engine N part (writes the evidence, merging the S summary)
go test -c -tags synctests,verif -o "$BUILD/c03.test" ./checks/c03
exec "$BUILD/c03.test" -test.run '^TestC03$' -test.timeout 0
