// C03, engine-S part: the producer's admission / promise / Flush core at the
// granularity of every mutex, condition-variable, atomic and channel
// operation. run.sh compiles into this package, from the current /repo tree:
//   zz_ring.go      ring.go (imports redirected)
//   zz_producer.go  Client.produce, producer.promiseBatch/promiseRecord/
//                   promiseRecordBeforeBuf/finishPromises,
//                   Client.finishRecordPromise, Client.Flush, batchPromise
//   zz_sink.go      promisedRec
// with go statements, channels and select rewritten to vrt operations. The
// stubs below stand for everything outside that slice: the partitioning path
// (loadPartsAndPartition puts the record on an in-flight queue that a
// "completer" thread later promises, as a sink would), config, logger, pools.
package main

import (
	"context"
	"encoding/json"
	"errors"
	"fmt"
	"os"
	"os/exec"
	"strings"
	"time"

	"verif.local/ev"

	"verif/lib/explore"
	"verif/lib/vrt"
	atomic "verif/lib/vrt/shim/atomic"
	sync "verif/lib/vrt/shim/sync"
	xsync "verif/lib/vrt/shim/xsync"
)

// ------------------------------------------------------------------ stubs

type RecordAttrs struct{ attrs uint8 }

type Record struct {
	Key, Value    []byte
	Topic         string
	Offset        int64
	ProducerID    int64
	ProducerEpoch int16
	LeaderEpoch   int32
	Attrs         RecordAttrs
	Context       context.Context
}

func (r *Record) userSize() int64 { return int64(len(r.Key) + len(r.Value)) }

type LogLevel int8

const (
	LogLevelInfo  LogLevel = 3
	LogLevelDebug LogLevel = 4
)

type logger struct{}

func (logger) Log(LogLevel, string, ...any) {}

type HookProduceRecordBuffered interface{ OnProduceRecordBuffered(*Record) }
type HookProduceRecordPartitioned interface{ OnProduceRecordPartitioned(*Record, int32) }
type HookProduceRecordUnbuffered interface {
	OnProduceRecordUnbuffered(*Record, error)
}

type cfg struct {
	defaultProduceTopicAlways bool
	defaultProduceTopic       string
	txnID                     *string
	maxBufferedBytes          int64
	maxBufferedRecords        int64
	manualFlushing            bool
	linger                    time.Duration
	logger                    logger
}

type recBufStub struct{}

func (recBufStub) unlingerAndManuallyDrain() {}

type partStub struct{ records recBufStub }
type partsDataStub struct{ partitions []*partStub }
type partsStub struct{ d *partsDataStub }

func (p *partsStub) load() *partsDataStub { return p.d }

type topicsPartitions struct{ m map[string]*partsStub }

func (t *topicsPartitions) load() map[string]*partsStub { return t.m }

type prsPool struct{}

func (prsPool) put([]promisedRec) {}

type producer struct {
	mu xsync.Mutex
	c  *sync.Cond

	bufferedRecords int64
	bufferedBytes   int64

	cl     *Client
	topics *topicsPartitions

	hooks *struct {
		buffered    []HookProduceRecordBuffered
		partitioned []HookProduceRecordPartitioned
		unbuffered  []HookProduceRecordUnbuffered
	}

	producingTxn atomic.Bool

	flushing     atomic.Int32
	blocked      atomic.Int32
	blockedBytes int64

	batchPromises ring[batchPromise]

	onBatchPromiseBroadcast func(moreQueued bool)

	producedInTxn atomic.Bool
}

type Client struct {
	cfg      cfg
	ctx      context.Context
	producer producer
	prsPool  prsPool
}

var (
	errNoTopic          = errors.New("no topic")
	errNotInTransaction = errors.New("not in transaction")
	ErrMaxBuffered      = errors.New("max buffered")
	ErrClientClosed     = errors.New("client closed")
)

func noPromise(*Record, error) {}

func (cl *Client) unlingerDueToMaxRecsBuffered() {}

// loadPartsAndPartition stands for the partition/sink path: the record is in
// flight until the completer promises it.
func (cl *Client) loadPartsAndPartition(pr promisedRec) {
	hw.inflight.Send(pr)
}

// ------------------------------------------------------------------ harness

type prec struct {
	name                           string
	r                              *Record
	called, returned, promised     bool
	err                            error
	seqCall, seqReturn, seqPromise int
	fullAtCall, try, freed         bool
}

type world struct {
	cl       *Client
	inflight *vrt.Chan[promisedRec]
	recs     map[*Record]*prec
	order    []*prec
	seq      int
	max      int64
	flushes  int
	stuck    string
	finals   []func()
}

var hw *world

func (w *world) promise(r *Record, err error) {
	p := w.recs[r]
	vrt.Assert(p != nil, "promise-for-unknown-record", "promise for unknown record")
	vrt.Assert(!p.promised, "promise-twice", "record %s promised twice", p.name)
	w.seq++
	p.promised, p.err, p.seqPromise = true, err, w.seq
}

func (w *world) accepted() int64 {
	var n int64
	for _, p := range w.order {
		if p.returned && !p.promised {
			n++
		}
	}
	return n
}

func (w *world) produce(ctx context.Context, name string, try bool) {
	r := &Record{Topic: "t", Value: []byte(name)}
	p := &prec{name: name, r: r, try: try}
	w.recs[r] = p
	w.order = append(w.order, p)
	w.seq++
	p.called, p.seqCall = true, w.seq
	// The buffer is full iff the client's own count says so (read without a
	// scheduling point: the harness thread is the only one running).
	p.fullAtCall = w.cl.producer.bufferedRecords >= w.max
	w.cl.produce(ctx, r, w.promise, !try)
	w.seq++
	p.returned, p.seqReturn = true, w.seq
	vrt.Assert(w.cl.producer.bufferedRecords <= w.max, "over-max-buffered-records", "bufferedRecords=%d exceeds MaxBufferedRecords=%d after %s", w.cl.producer.bufferedRecords, w.max, name)
	vrt.Assert(w.cl.producer.bufferedRecords >= 0, "buffered-negative", "bufferedRecords=%d", w.cl.producer.bufferedRecords)
}

func (w *world) flush(ctx context.Context) {
	w.seq++
	start := w.seq
	err := w.cl.Flush(ctx)
	w.flushes++
	if err == nil {
		for _, p := range w.order {
			if p.returned && p.seqReturn < start && !p.promised {
				vrt.Fail("flush-returned-early", "Flush returned nil but %s (produced before Flush began) is not promised", p.name)
			}
		}
	}
}

func newClient(max int64, manual bool) *Client {
	cl := &Client{ctx: context.Background()}
	cl.cfg.maxBufferedRecords = max
	cl.cfg.manualFlushing = manual
	cl.producer.cl = cl
	cl.producer.c = sync.NewCond(&cl.producer.mu)
	cl.producer.topics = &topicsPartitions{m: map[string]*partsStub{}}
	return cl
}

// scenario: producers, completer, flusher(s), canceller.
func scenario(max int64, nflush int, withCancel bool, tryToo bool) func() {
	return func() {
		w := &world{recs: map[*Record]*prec{}, max: max}
		hw = w
		w.cl = newClient(max, false)
		w.inflight = vrt.MakeChan[promisedRec](16)
		var producers vrt.WaitGroup
		producers.Add(2)
		bg := context.Background()
		cctx, cancel := vrt.WithCancel(bg)
		vrt.Go("P1", func() {
			w.produce(bg, "a1", false)
			w.produce(bg, "a2", false)
			producers.Done()
		})
		vrt.Go("P2", func() {
			if tryToo {
				w.produce(bg, "b1", true)
			}
			w.produce(cctx, "b2", false)
			producers.Done()
		})
		vrt.Go("completer", func() {
			for {
				pr, ok := w.inflight.Recv2()
				if !ok {
					return
				}
				// a sink finishing a batch of one record successfully
				w.cl.producer.promiseBatch(batchPromise{recs: []promisedRec{pr}})
			}
		})
		vrt.Go("closer", func() {
			producers.Wait()
			w.inflight.Close()
		})
		for i := 0; i < nflush; i++ {
			vrt.Go(fmt.Sprintf("F%d", i), func() { w.flush(bg) })
		}
		if withCancel {
			vrt.Go("canceller", func() { cancel() })
		}
		w.finals = append(w.finals, func() {
			for _, p := range w.order {
				vrt.Assert(p.promised, "promise-never", "record %s never promised at quiescence", p.name)
				// Whether a call found the buffer full is not observable here
				// (other threads run between the call and its admission check);
				// the refusal rules are judged by the engine-N part, where calls
				// start at quiescent points. A blocking Produce is never refused:
				if !p.try {
					vrt.Assert(!errors.Is(p.err, ErrMaxBuffered), "blocking-produce-refused", "blocking Produce(%s) refused with ErrMaxBuffered", p.name)
				}
			}
			pr := &w.cl.producer
			vrt.Assert(pr.bufferedRecords == 0 && pr.bufferedBytes == 0, "buffered-nonzero", "bufferedRecords=%d bufferedBytes=%d at quiescence", pr.bufferedRecords, pr.bufferedBytes)
			vrt.Assert(pr.blocked.Peek() == 0 && pr.blockedBytes == 0, "blocked-nonzero", "blocked=%d blockedBytes=%d at quiescence", pr.blocked.Peek(), pr.blockedBytes)
			vrt.Assert(pr.flushing.Peek() == 0, "flushing-nonzero", "flushing=%d at quiescence", pr.flushing.Peek())
			vrt.Assert(w.flushes == nflush, "flush-stuck", "%d of %d Flush calls returned", w.flushes, nflush)
		})
	}
}

var harnesses = map[string]func(){
	"A-max1-flush":        scenario(1, 1, false, false),
	"A-max1-flush-cancel": scenario(1, 1, true, false),
	"A-max1-try-cancel":   scenario(1, 0, true, true),
	"A-max2-2flush":       scenario(2, 2, false, true),
}

func runJob(job explore.Job) explore.Result {
	h, ok := harnesses[job.Scenario]
	if !ok {
		return explore.Result{Crash: "unknown harness " + job.Scenario}
	}
	hw = nil
	res := vrt.Run(job.Prefix, 4000, os.Getenv("VERIF_TRACE") != "", h)
	out := explore.Result{Points: res.Points, Steps: res.Steps, Capped: res.Capped, Diverged: res.Diverged}
	if res.Failure == "" && !res.Capped && !res.Diverged && hw != nil {
		fin := vrt.Run(nil, 10, false, func() {
			for _, f := range hw.finals {
				f()
			}
		})
		if fin.Failure != "" {
			res.Failure, res.FailKey = fin.Failure, fin.FailKey
		}
	}
	if res.Failure != "" {
		out.Viol = append(out.Viol, explore.Violation{Key: res.FailKey, What: res.Failure + "\nschedule: " + strings.Join(res.Trace, " | ")})
	}
	if hw != nil {
		var s []string
		for _, p := range hw.order {
			e := "ok"
			if p.err != nil {
				e = p.err.Error()
			}
			s = append(s, p.name+"="+e)
		}
		out.Obs = strings.Join(s, ",")
	}
	return out
}

type plan struct {
	name            string
	quick, thorough int
}

// The S part writes a summary that the N part's driver merges into evidence/C03.json.
type summary struct {
	Execs, Points, Steps int64
	Distinct             int
	Harnesses            map[string]any
	Viol                 []struct{ Key, What string; Artefact any }
	NotExhaustive        []string
}

func main() {
	vrt.FreeSwitchCost = 1 // deviation bounding: seven threads make the free-switch level too wide
	if explore.IsWorker() {
		explore.ServeWorker(runJob)
		return
	}
	if p := os.Getenv("VERIF_REPLAY"); p != "" {
		replay(p)
		return
	}
	plans := []plan{{"A-max1-flush", 2, 3}, {"A-max1-flush-cancel", 2, 3}, {"A-max1-try-cancel", 2, 3}, {"A-max2-2flush", 2, 3}}
	out := os.Getenv("C03S_OUT")
	sum := summary{Harnesses: map[string]any{}}
	deadline := ev.Deadline(45*time.Second, 8*time.Minute)
	distinct := map[string]struct{}{}
	for i, p := range plans {
		bound := p.quick
		if ev.Thorough() {
			bound = p.thorough
		}
		slice := time.Until(deadline) / time.Duration(len(plans)-i)
		nv := 0
		st := explore.Explore(explore.Config{
			Scenario: p.name, Budget: bound, Workers: ev.Workers(), Deadline: time.Now().Add(slice),
			Subprocess: func() *exec.Cmd {
				cmd := exec.Command(os.Args[0])
				cmd.Env = append(os.Environ(), "VERIF_WORKER=1", "GOMAXPROCS=2")
				cmd.Stderr = os.Stderr
				return cmd
			},
			OnResult: func(job explore.Job, res explore.Result) {
				distinct[p.name+"|"+res.Obs] = struct{}{}
				if res.Crash != "" {
					res.Viol = append(res.Viol, explore.Violation{Key: "worker-crash", What: res.Crash})
				}
				for _, v := range res.Viol {
					if nv < 3 {
						sum.Viol = append(sum.Viol, struct{ Key, What string; Artefact any }{"C03:S:" + p.name + ":" + v.Key, "engine S harness " + p.name + ": " + v.What, map[string]any{"check": "C03-S", "scenario": p.name, "prefix": job.Prefix}})
					}
					nv++
				}
			},
		})
		sum.Execs += st.Execs
		sum.Points += st.Points
		sum.Steps += st.Steps
		sum.Harnesses[p.name] = map[string]any{"preemption_bound": bound, "bound_completed": st.LevelCompleted, "cut_by_time": st.Cut, "executions": st.Execs, "per_level": st.LevelExecs}
		if st.Cut {
			sum.NotExhaustive = append(sum.NotExhaustive, fmt.Sprintf("S:%s: time slice ended inside preemption level %d", p.name, st.LevelCompleted+1))
		}
		fmt.Printf("  S:%-22s bound=%d completed=%d execs=%d cut=%v violations=%d\n", p.name, bound, st.LevelCompleted, st.Execs, st.Cut, nv)
	}
	sum.Distinct = len(distinct)
	b, _ := json.MarshalIndent(sum, "", " ")
	if out == "" {
		fmt.Println(string(b))
		return
	}
	if err := os.WriteFile(out, b, 0o644); err != nil {
		ev.InfraError("%v", err)
	}
}

func replay(path string) {
	b, err := os.ReadFile(path)
	if err != nil {
		ev.InfraError("%v", err)
	}
	var a struct {
		Artefact struct {
			Scenario string `json:"scenario"`
			Prefix   []int  `json:"prefix"`
		} `json:"artefact"`
	}
	json.Unmarshal(b, &a)
	os.Setenv("VERIF_TRACE", "1")
	res := runJob(explore.Job{Scenario: a.Artefact.Scenario, Prefix: a.Artefact.Prefix})
	fmt.Printf("replay %s prefix=%v obs=%s\n", a.Artefact.Scenario, a.Artefact.Prefix, res.Obs)
	for _, v := range res.Viol {
		fmt.Printf("VIOLATION-REPLAYED %s: %s\n", v.Key, v.What)
	}
	if len(res.Viol) > 0 {
		os.Exit(1)
	}
}
