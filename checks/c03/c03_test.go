package c03

import (
	"os"
	"testing"
	"time"

	"verif.local/ev"

	"verif/checks/c03/bscen"
	"verif/lib/nrun"
)

func TestC03(t *testing.T) {
	nrun.Main(t, &nrun.Check{
		ID: "C03", TestName: "TestC03", Plans: append(bscen.Plans(), bscen.GenPlans()...),
		QuickTime: 60 * time.Second, ThorTime: 12 * time.Minute,
		Rule: "two parts. Engine S: every interleaving within the deviation bound (each departure from the default thread schedule costs 1) of two producers (blocking Produce, TryProduce, a cancelable blocked Produce), a completer that promises in-flight records as a sink would, Flush callers and a canceller over Client.produce / promiseBatch / finishPromises / finishRecordPromise / Flush and the promise ring extracted from the current tree, at the granularity of every mutex, cond, atomic and channel operation. Engine N: every order of application calls, produce request/response deliveries, timer ticks and faults (kill before/after, NOT_LEADER, stall) within k deviations of the default order on the real client and kfake, for MaxBufferedRecords 1 and 2, MaxBufferedBytes, linger and ManualFlushing; admission rules judged per produce call, Flush rules per Flush return; plus the generated family BG on the default schedule (thorough: every single deviation, time-capped): every combination of 6 limit configurations (MaxBufferedRecords 1 / 2 / 2+linger, MaxBufferedBytes, ManualFlushing with either limit) x every 3-call script of producer P1 over {Produce, TryProduce, Produce with a cancellable context} x 3 (thorough: all 9) 2-call scripts of producer P2 x 0/1/2 Flush calls x the position where the Flush thread starts. distinct = distinct per-record outcome vectors",
		Assume: []string{"kfake is the broker (N part)", "synctests build of xsync (N part)", "S part: vrt primitives are faithful; stubs stand for config, logger, pools and the partitioning path (loadPartsAndPartition = put on an in-flight queue)"},
		Extra: func(r *ev.Run) {
			if p := os.Getenv("C03S_OUT"); p != "" {
				nrun.MergeSummary(r, p, "engine_s")
			}
		},
	})
}
