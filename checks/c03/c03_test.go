package c03

import (
	"testing"
	"time"

	"verif/checks/c03/bscen"
	"verif/lib/nrun"
)

func TestC03(t *testing.T) {
	nrun.Main(t, &nrun.Check{
		ID: "C03", TestName: "TestC03", Plans: bscen.Plans(),
		QuickTime: 75 * time.Second, ThorTime: 18 * time.Minute,
		Rule: "engine N: every order of application calls (two producers using Produce/TryProduce incl. a cancelable blocked Produce, a Flush caller, a canceller), produce request/response deliveries, timer ticks and faults (kill before/after, NOT_LEADER, stall) within k deviations of the default order, for MaxBufferedRecords 1 and 2, MaxBufferedBytes, linger and ManualFlushing configurations; admission rules are checked at every produce call, Flush rules at every Flush return; distinct = distinct per-record outcome vectors",
		Assume: []string{"kfake is the broker", "synctests build of xsync", "message-level granularity: the instruction-level interleavings of the admission path are covered only as far as C30's ring harness reaches"},
	})
}
