package c18

import (
	"fmt"
	"os"
	"testing"
)

// TestC18Table prints the release chosen per produce version and the size of
// both tiers' grids (development aid: C18_TABLE=1).
func TestC18Table(t *testing.T) {
	if os.Getenv("C18_TABLE") == "" {
		t.Skip("set C18_TABLE")
	}
	for v := 0; v <= 13; v++ {
		name, vs := releaseFor(v)
		line := fmt.Sprintf("produce v%-2d -> Kafka %-7s", v, name)
		for _, k := range []int16{0, 3, 10, 18, 22, 24, 26} {
			max, ok := vs.LookupMaxKeyVersion(k)
			if !ok {
				max = -1
			}
			line += fmt.Sprintf(" key%d=v%d", k, max)
		}
		fmt.Println(line)
	}
	for _, th := range []bool{false, true} {
		g := grid(th)
		n, skipped := 0, 0
		for _, c := range g {
			if _, ok, err := build(c); err != nil {
				t.Fatal(err)
			} else if ok {
				n++
			} else {
				skipped++
				if skipped <= 5 {
					fmt.Println("  not applicable:", c.id())
				}
			}
		}
		fmt.Printf("thorough=%v: %d grid cases, %d applicable, %d not\n", th, len(g), n, skipped)
	}
}
