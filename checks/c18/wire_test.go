package c18

// Produce REQUEST layout per version, written from the Kafka protocol
// documentation (https://kafka.apache.org/protocol#The_Messages_Produce), not
// from kmsg:
//
//	frame        => size:INT32 header body
//	header v1    => api_key:INT16 api_version:INT16 correlation_id:INT32 client_id:NULLABLE_STRING        (produce v0-8)
//	header v2    => header v1 TAG_BUFFER                                                                   (produce v9+)
//	body v0-2    => acks:INT16 timeout_ms:INT32 [topic_data]
//	body v3-8    => transactional_id:NULLABLE_STRING acks timeout_ms [topic_data]
//	  topic_data     => name:STRING [partition_data]
//	  partition_data => index:INT32 records:NULLABLE_BYTES
//	body v9-12   => transactional_id:COMPACT_NULLABLE_STRING acks timeout_ms (topic_data) TAG_BUFFER
//	  topic_data     => name:COMPACT_STRING (partition_data) TAG_BUFFER
//	  partition_data => index:INT32 records:COMPACT_NULLABLE_BYTES TAG_BUFFER
//	body v13     => as v9-12 with topic_data => topic_id:UUID (partition_data) TAG_BUFFER
//
// (x) is a COMPACT_ARRAY (UNSIGNED_VARINT n+1), [x] an ARRAY (INT32 n).

import (
	"encoding/binary"
	"errors"
	"fmt"
)

type reqPart struct {
	Index   int32
	Records []byte // nil = null
}

type reqTopic struct {
	Name  string   // v0-12
	ID    [16]byte // v13
	Parts []reqPart
}

type prodReq struct {
	FrameLen  int // 4 byte size prefix + everything it covers
	Key       int16
	Version   int16
	Corr      int32
	ClientID  *string
	TxnID     *string
	Acks      int16
	TimeoutMs int32
	Topics    []reqTopic
	Tags      int // number of tagged fields seen anywhere (the client is expected to write none)
}

type rd struct {
	b   []byte
	err error
}

func (r *rd) fail(what string) {
	if r.err == nil {
		r.err = errors.New(what)
	}
}

func (r *rd) take(n int, what string) []byte {
	if r.err != nil {
		return nil
	}
	if n < 0 || len(r.b) < n {
		r.fail(fmt.Sprintf("%s: need %d bytes, %d left", what, n, len(r.b)))
		return nil
	}
	out := r.b[:n:n]
	r.b = r.b[n:]
	return out
}

func (r *rd) i16(what string) int16 {
	if b := r.take(2, what); b != nil {
		return int16(binary.BigEndian.Uint16(b))
	}
	return 0
}

func (r *rd) i32(what string) int32 {
	if b := r.take(4, what); b != nil {
		return int32(binary.BigEndian.Uint32(b))
	}
	return 0
}

func (r *rd) uvarint(what string) uint32 {
	var v uint64
	for i := 0; i < 5; i++ {
		b := r.take(1, what)
		if b == nil {
			return 0
		}
		v |= uint64(b[0]&0x7f) << (7 * uint(i))
		if b[0]&0x80 == 0 {
			if v > 0xffffffff {
				r.fail(what + ": uvarint overflows 32 bits")
				return 0
			}
			return uint32(v)
		}
	}
	r.fail(what + ": uvarint longer than 5 bytes")
	return 0
}

func (r *rd) nullableString(what string) *string {
	l := r.i16(what)
	if r.err != nil || l == -1 {
		return nil
	}
	if l < -1 {
		r.fail(fmt.Sprintf("%s: string length %d", what, l))
		return nil
	}
	s := string(r.take(int(l), what))
	if r.err != nil {
		return nil
	}
	return &s
}

func (r *rd) compactNullableString(what string) *string {
	l := r.uvarint(what)
	if r.err != nil || l == 0 {
		return nil
	}
	s := string(r.take(int(l-1), what))
	if r.err != nil {
		return nil
	}
	return &s
}

func (r *rd) tags(what string) int {
	n := r.uvarint(what + " tag count")
	for i := uint32(0); i < n && r.err == nil; i++ {
		r.uvarint(what + " tag key")
		l := r.uvarint(what + " tag size")
		r.take(int(l), what+" tag value")
	}
	return int(n)
}

// decodeProduceFrame decodes one full request frame (size prefix included)
// that must be a Produce request.
func decodeProduceFrame(frame []byte) (*prodReq, error) {
	p := &prodReq{FrameLen: len(frame)}
	r := &rd{b: frame}
	size := r.i32("size")
	if r.err == nil && int(size) != len(frame)-4 {
		return nil, fmt.Errorf("size prefix %d, frame carries %d bytes after it", size, len(frame)-4)
	}
	p.Key = r.i16("api_key")
	p.Version = r.i16("api_version")
	p.Corr = r.i32("correlation_id")
	if r.err == nil && p.Key != 0 {
		return nil, fmt.Errorf("api key %d is not Produce", p.Key)
	}
	if r.err == nil && (p.Version < 0 || p.Version > 13) {
		return nil, fmt.Errorf("produce version %d unknown", p.Version)
	}
	p.ClientID = r.nullableString("client_id")
	flex := p.Version >= 9
	if flex {
		p.Tags += r.tags("header")
	}
	if p.Version >= 3 {
		if flex {
			p.TxnID = r.compactNullableString("transactional_id")
		} else {
			p.TxnID = r.nullableString("transactional_id")
		}
	}
	p.Acks = r.i16("acks")
	p.TimeoutMs = r.i32("timeout_ms")
	arrayLen := func(what string) int {
		if flex {
			n := r.uvarint(what)
			if r.err == nil && n == 0 {
				r.fail(what + ": null array")
			}
			return int(n) - 1
		}
		n := r.i32(what)
		if r.err == nil && n < 0 {
			r.fail(what + ": negative array length")
		}
		return int(n)
	}
	nt := arrayLen("topic_data length")
	for i := 0; i < nt && r.err == nil; i++ {
		var t reqTopic
		switch {
		case p.Version >= 13:
			copy(t.ID[:], r.take(16, "topic_id"))
		case flex:
			s := r.compactNullableString("topic name")
			if s == nil {
				r.fail("null topic name")
			} else {
				t.Name = *s
			}
		default:
			s := r.nullableString("topic name")
			if s == nil {
				r.fail("null topic name")
			} else {
				t.Name = *s
			}
		}
		np := arrayLen("partition_data length")
		for j := 0; j < np && r.err == nil; j++ {
			var pt reqPart
			pt.Index = r.i32("partition index")
			if flex {
				l := r.uvarint("records length")
				if l > 0 {
					pt.Records = r.take(int(l-1), "records")
				}
				p.Tags += r.tags("partition_data")
			} else {
				l := r.i32("records length")
				if l >= 0 {
					pt.Records = r.take(int(l), "records")
				} else if l != -1 {
					r.fail(fmt.Sprintf("records length %d", l))
				}
			}
			t.Parts = append(t.Parts, pt)
		}
		if flex {
			p.Tags += r.tags("topic_data")
		}
		p.Topics = append(p.Topics, t)
	}
	if flex {
		p.Tags += r.tags("request")
	}
	if r.err != nil {
		return nil, r.err
	}
	if len(r.b) != 0 {
		return nil, fmt.Errorf("%d bytes left after the request body", len(r.b))
	}
	return p, nil
}

// ---------------------------------------------------------------- encoder
//
// The reference encoder is used to compute exact frame sizes while searching
// record sizes that put a request on BrokerMaxWriteBytes-1 / +0 / +1, and in
// the self test of the decoder.

func putUvarint(dst []byte, v uint32) []byte {
	for v >= 0x80 {
		dst = append(dst, byte(v)|0x80)
		v >>= 7
	}
	return append(dst, byte(v))
}

func putI16(dst []byte, v int16) []byte { return binary.BigEndian.AppendUint16(dst, uint16(v)) }
func putI32(dst []byte, v int32) []byte { return binary.BigEndian.AppendUint32(dst, uint32(v)) }

func putNullableString(dst []byte, s *string) []byte {
	if s == nil {
		return putI16(dst, -1)
	}
	return append(putI16(dst, int16(len(*s))), *s...)
}

func putCompactNullableString(dst []byte, s *string) []byte {
	if s == nil {
		return append(dst, 0)
	}
	return append(putUvarint(dst, uint32(len(*s))+1), *s...)
}

// encodeProduceFrame encodes p (Version, Corr, ClientID, TxnID, Acks,
// TimeoutMs, Topics) as a full frame.
func encodeProduceFrame(p *prodReq) []byte {
	flex := p.Version >= 9
	b := make([]byte, 4, 256)
	b = putI16(b, 0)
	b = putI16(b, p.Version)
	b = putI32(b, p.Corr)
	b = putNullableString(b, p.ClientID)
	if flex {
		b = append(b, 0)
	}
	if p.Version >= 3 {
		if flex {
			b = putCompactNullableString(b, p.TxnID)
		} else {
			b = putNullableString(b, p.TxnID)
		}
	}
	b = putI16(b, p.Acks)
	b = putI32(b, p.TimeoutMs)
	arr := func(n int) {
		if flex {
			b = putUvarint(b, uint32(n)+1)
		} else {
			b = putI32(b, int32(n))
		}
	}
	arr(len(p.Topics))
	for _, t := range p.Topics {
		switch {
		case p.Version >= 13:
			b = append(b, t.ID[:]...)
		case flex:
			n := t.Name
			b = putCompactNullableString(b, &n)
		default:
			n := t.Name
			b = putNullableString(b, &n)
		}
		arr(len(t.Parts))
		for _, pt := range t.Parts {
			b = putI32(b, pt.Index)
			if flex {
				if pt.Records == nil {
					b = append(b, 0)
				} else {
					b = append(putUvarint(b, uint32(len(pt.Records))+1), pt.Records...)
				}
				b = append(b, 0)
			} else if pt.Records == nil {
				b = putI32(b, -1)
			} else {
				b = append(putI32(b, int32(len(pt.Records))), pt.Records...)
			}
		}
		if flex {
			b = append(b, 0)
		}
	}
	if flex {
		b = append(b, 0)
	}
	binary.BigEndian.PutUint32(b, uint32(len(b)-4))
	return b
}
