package c18

// One case = one synctest bubble: scripted broker + real kgo client; warm-up
// records, Flush, the case's records, Flush, Close; then the oracle.

import (
	"bytes"
	"context"
	"errors"
	"fmt"
	"net"
	"sort"
	"sync"
	"testing"
	"testing/synctest"
	"time"

	"github.com/twmb/franz-go/pkg/kerr"
	"github.com/twmb/franz-go/pkg/kgo"
	"github.com/twmb/franz-go/pkg/kmsg"
	"verif/checks/c06/reflog"
	"verif/checks/c06/reflog/codecs"
)

type violation struct {
	Class  string `json:"class"`
	Sub    string `json:"sub,omitempty"` // coarse magnitude for the size-limit classes (part of the key)
	Detail string `json:"detail"`
}

type caseResult struct {
	ID          string         `json:"case"`
	Note        string         `json:"size_search,omitempty"`
	BatchMax    int            `json:"batch_max"`
	WriteMax    int            `json:"write_max"`
	FrameLens   []int          `json:"frame_lens"`
	BatchLens   []int          `json:"batch_lens_written"`
	MaxUncomp   int            `json:"max_batch_len_uncompressed"`
	Batches     int            `json:"batches"`
	Compressed  int            `json:"batches_compressed"`
	Codecs      []int8         `json:"codecs_seen,omitempty"`
	Records     int            `json:"records_written"`
	Rejected    int            `json:"records_rejected_too_large"`
	MustReject  int            `json:"records_that_had_to_be_rejected"`
	NegTsDelta  int            `json:"records_with_negative_timestamp_delta"`
	PrefixPairs map[string]int `json:"compact_prefix_width_pairs,omitempty"` // v9+: "<codec>:<bytes before>><bytes after compression>"
	Versions    []int16        `json:"produce_versions_seen"`
	Viol        []violation    `json:"violations,omitempty"`
	Infra       string         `json:"infra,omitempty"`
}

type promised struct {
	calls  int
	err    error
	offset int64
	part   int32
}

var codecOpt = map[int8]func() kgo.CompressionCodec{
	0: kgo.NoCompression, 1: kgo.GzipCompression, 2: kgo.SnappyCompression, 3: kgo.Lz4Compression, 4: kgo.ZstdCompression,
}

func toKgo(b *built, r recSpec) *kgo.Record {
	kr := &kgo.Record{Topic: b.Topics[r.T].Name, Partition: r.P, Key: r.Key, Value: r.Val, Timestamp: time.UnixMilli(r.Ts)}
	for _, h := range r.Hdrs {
		kr.Headers = append(kr.Headers, kgo.RecordHeader{Key: h.K, Value: h.V})
	}
	return kr
}

// runCase executes one case on the real client and judges it.
func runCase(t *testing.T, b *built, verbose bool) *caseResult {
	res := &caseResult{ID: b.id(), Note: b.Note, BatchMax: int(b.BatchMax), WriteMax: int(b.WriteMax)}
	all := append(append([]recSpec(nil), b.Warm...), b.Recs...)
	proms := make([]promised, len(all))
	var frames [][]byte
	var problems []string
	var flushErr [2]error
	var endErr error

	synctest.Test(t, func(t *testing.T) {
		sb := newBroker(b, verbose)
		var prefs []kgo.CompressionCodec
		for _, c := range b.Prefs {
			prefs = append(prefs, codecOpt[c]())
		}
		opts := []kgo.Opt{
			kgo.SeedBrokers("c18:9092"),
			kgo.Dialer(func(ctx context.Context, network, addr string) (net.Conn, error) { return sb.dial(), nil }),
			kgo.ClientID(b.ClientID),
			kgo.ProducerBatchMaxBytes(b.BatchMax),
			kgo.BrokerMaxWriteBytes(b.WriteMax),
			kgo.ProducerBatchCompression(prefs...),
			kgo.RecordPartitioner(kgo.ManualPartitioner()),
		}
		if b.V <= 2 {
			// really pre-0.11: the client is pinned to the release, as an application would do
			opts = append(opts, kgo.MaxVersions(b.advertised()))
		}
		if b.TxnID != nil {
			opts = append(opts, kgo.TransactionalID(*b.TxnID))
		}
		if verbose {
			opts = append(opts, kgo.WithLogger(kgo.BasicLogger(logWriter{}, kgo.LogLevelDebug, nil)))
		}
		cl, err := kgo.NewClient(opts...)
		if err != nil {
			res.Infra = "NewClient: " + err.Error()
			return
		}
		var mu sync.Mutex
		produce := func(from, to int) {
			for i := from; i < to; i++ {
				i := i
				cl.Produce(context.Background(), toKgo(b, all[i]), func(r *kgo.Record, err error) {
					mu.Lock()
					proms[i].calls++
					proms[i].err, proms[i].offset, proms[i].part = err, r.Offset, r.Partition
					mu.Unlock()
				})
			}
		}
		flush := func(k int) {
			ctx, cancel := context.WithTimeout(context.Background(), 2*time.Minute)
			flushErr[k] = cl.Flush(ctx)
			cancel()
		}
		if b.TxnID != nil {
			if err := cl.BeginTransaction(); err != nil {
				res.Infra = "BeginTransaction: " + err.Error()
			}
		}
		if res.Infra == "" {
			if len(b.Warm) > 0 {
				produce(0, len(b.Warm))
				flush(0)
			}
			produce(len(b.Warm), len(all))
			flush(1)
			if b.TxnID != nil && flushErr[0] == nil && flushErr[1] == nil {
				ctx, cancel := context.WithTimeout(context.Background(), 2*time.Minute)
				endErr = cl.EndTransaction(ctx, kgo.TryCommit)
				cancel()
			}
		}
		cl.Close()
		sb.closeAll()
		synctest.Wait()
		sb.mu.Lock()
		frames, problems = sb.frames, sb.problems
		sb.mu.Unlock()
		mu.Lock() // promises are final after Close
		mu.Unlock()
	})
	if res.Infra != "" {
		return res
	}
	j := &judge{b: b, res: res, verbose: verbose}
	for _, p := range problems {
		j.viol("script-problem", "%s", p)
	}
	for k, e := range flushErr {
		if e != nil {
			j.viol("flush-failed", "Flush #%d returned %v", k, e)
		}
	}
	if endErr != nil {
		j.viol("end-transaction-failed", "EndTransaction returned %v", endErr)
	}
	j.judge(all, proms, frames)
	return res
}

type logWriter struct{}

func (logWriter) Write(p []byte) (int, error) { fmt.Printf("    kgo: %s", p); return len(p), nil }

// ------------------------------------------------------------------ oracle

type judge struct {
	b       *built
	res     *caseResult
	verbose bool
}

func (j *judge) viol(class, format string, a ...any) { j.violSub(class, "", format, a...) }

func (j *judge) violSub(class, sub, format string, a ...any) {
	if len(j.res.Viol) < 12 {
		j.res.Viol = append(j.res.Viol, violation{class, sub, fmt.Sprintf(format, a...)})
	}
}

// msgSetExcess grades by how much a message set (produce v0-2) exceeds the
// batch limit: up to one message header, or more.
func (j *judge) msgSetExcess(excess int) string {
	switch {
	case j.b.V >= 3:
		return ""
	case excess <= 34:
		return "by-at-most-one-message-header"
	}
	return "by-more-than-one-message-header"
}

func showBytes(b []byte) string {
	if b == nil {
		return "null"
	}
	if len(b) > 12 {
		return fmt.Sprintf("%d bytes %x..", len(b), b[:12])
	}
	return fmt.Sprintf("%d bytes %x", len(b), b)
}

// sameBytes distinguishes null from empty.
func sameBytes(a, b []byte) bool { return (a == nil) == (b == nil) && bytes.Equal(a, b) }

// singleLen is the encoded length of a batch / message set holding only r in
// the format of produce version v.
func singleLen(v int, r recSpec) int { return refBatchLen(v, []recSpec{r}) }

func (j *judge) judge(all []recSpec, proms []promised, frames [][]byte) {
	b := j.b
	// 1. promises: exactly once; a record is either accepted or rejected as too large.
	rejected := make([]bool, len(all))
	for i, p := range proms {
		r := all[i]
		own := singleLen(b.V, r)
		must := own > int(b.BatchMax)
		if must {
			j.res.MustReject++
		}
		if p.calls != 1 {
			j.viol("promise-count", "record %d: promise called %d times", i, p.calls)
			continue
		}
		switch {
		case p.err == nil:
			if must {
				j.violSub("oversized-record-accepted", j.msgSetExcess(own-int(b.BatchMax)), "record %d (topic %d partition %d) alone encodes to a %d byte batch > ProducerBatchMaxBytes %d but its promise reported success", i, r.T, r.P, own, b.BatchMax)
			}
		case errors.Is(p.err, kerr.MessageTooLarge):
			rejected[i] = true
			j.res.Rejected++
			// generous margin: the largest of the three formats plus the client's own prefix accounting
			worst := own
			for _, v := range []int{0, 2, 3} {
				if l := singleLen(v, r); l > worst {
					worst = l
				}
			}
			if worst+4+16 <= int(b.BatchMax) {
				j.viol("spurious-too-large", "record %d alone encodes to at most %d bytes, far below ProducerBatchMaxBytes %d, but was failed with %v", i, worst, b.BatchMax, p.err)
			}
		default:
			j.viol("record-failed", "record %d: promise error %v", i, p.err)
			rejected[i] = true
		}
	}

	// 2. what every partition must receive, in order.
	type pq struct {
		idx  []int // indices into all
		next int   // next expected
		seq  int32 // next expected base sequence
	}
	queues := map[tpKey]*pq{}
	for i, r := range all {
		if rejected[i] {
			continue
		}
		k := tpKey{b.Topics[r.T].Name, r.P}
		if queues[k] == nil {
			queues[k] = &pq{}
		}
		queues[k].idx = append(queues[k].idx, i)
	}

	expCodec := b.expectedCodec()
	codecSeen := map[int8]bool{}
	verSeen := map[int16]bool{}
	for fi, frame := range frames {
		j.res.FrameLens = append(j.res.FrameLens, len(frame))
		if j.verbose {
			fmt.Printf("  produce frame %d (%d bytes): %x\n", fi, len(frame), frame)
		}
		p, err := decodeProduceFrame(frame)
		if err != nil {
			j.viol("frame-undecodable", "produce frame %d (%d bytes): %v; first bytes %x", fi, len(frame), err, frame[:min(len(frame), 48)])
			continue
		}
		j.crossCheck(fi, frame, p)
		verSeen[p.Version] = true
		if int(p.Version) != b.V {
			j.viol("produce-version", "frame %d is produce v%d, the broker advertises max v%d", fi, p.Version, b.V)
			continue
		}
		if len(frame) > int(b.WriteMax) {
			sub := ""
			if p.Version >= 9 {
				// flexible versions end every partition / topic element with a tag-section byte
				sub = "beyond-the-partition-and-topic-tag-bytes"
				if len(frame)-int(b.WriteMax) < countParts(p)+len(p.Topics) {
					sub = "within-the-partition-and-topic-tag-bytes"
				}
			}
			j.violSub("frame-exceeds-write-limit", sub, "produce frame %d is %d bytes (4 byte size + %d) > BrokerMaxWriteBytes %d; %d topics %d partitions", fi, len(frame), len(frame)-4, b.WriteMax, len(p.Topics), countParts(p))
		}
		if p.ClientID == nil || *p.ClientID != b.ClientID {
			j.viol("request-field", "frame %d: client id differs from the configured one", fi)
		}
		if (p.TxnID == nil) != (b.TxnID == nil) || (p.TxnID != nil && *p.TxnID != *b.TxnID) {
			j.viol("request-field", "frame %d: transactional id differs from the configured one", fi)
		}
		if p.Acks != -1 || p.TimeoutMs != 10000 {
			j.viol("request-field", "frame %d: acks %d timeout %d, configured -1 / 10000", fi, p.Acks, p.TimeoutMs)
		}
		if len(p.Topics) == 0 {
			j.viol("empty-request", "frame %d has no topics", fi)
		}
		seenT := map[string]bool{}
		for _, t := range p.Topics {
			name := t.Name
			if p.Version >= 13 {
				name = b.topicByID(t.ID)
			}
			known := false
			for _, bt := range b.Topics {
				known = known || bt.Name == name
			}
			if !known {
				j.viol("unknown-topic", "frame %d names topic %q / id %x", fi, t.Name, t.ID)
				continue
			}
			if seenT[name] {
				j.viol("topic-twice-in-request", "frame %d lists topic %s twice", fi, name)
			}
			seenT[name] = true
			if len(t.Parts) == 0 {
				j.viol("empty-request", "frame %d: topic %s without partitions", fi, name)
			}
			seenP := map[int32]bool{}
			for _, pt := range t.Parts {
				if seenP[pt.Index] {
					j.viol("partition-twice-in-request", "frame %d lists %s/%d twice", fi, name, pt.Index)
					continue
				}
				seenP[pt.Index] = true
				q := queues[tpKey{name, pt.Index}]
				if q == nil {
					j.viol("unexpected-partition", "frame %d carries %s/%d, which got no (accepted) record", fi, name, pt.Index)
					continue
				}
				where := fmt.Sprintf("frame %d %s/%d", fi, name, pt.Index)
				n := j.judgePartition(where, pt.Records, all, q.idx[q.next:], q.seq, expCodec, codecSeen)
				q.next = min(q.next+n, len(q.idx)) // more records than handed in were reported above
				q.seq = int32((int64(q.seq) + int64(n)) % (1 << 31))
			}
		}
	}
	for k, q := range queues {
		if q.next != len(q.idx) {
			j.viol("records-missing", "%s/%d: %d of %d accepted records never appeared in a produce frame (first missing: record %d)", k.T, k.P, len(q.idx)-q.next, len(q.idx), q.idx[q.next])
		}
	}
	// 3. offsets reported to the promises = position in the partition.
	for k, q := range queues {
		for pos, i := range q.idx {
			if proms[i].calls == 1 && proms[i].err == nil && (proms[i].offset != int64(pos) || proms[i].part != k.P) {
				j.viol("promise-offset", "record %d is accepted record #%d of %s/%d but its promise reported offset %d partition %d", i, pos, k.T, k.P, proms[i].offset, proms[i].part)
				break
			}
		}
	}
	for c := range codecSeen {
		j.res.Codecs = append(j.res.Codecs, c)
	}
	sort.Slice(j.res.Codecs, func(a, c int) bool { return j.res.Codecs[a] < j.res.Codecs[c] })
	for v := range verSeen {
		j.res.Versions = append(j.res.Versions, v)
	}
	sort.Slice(j.res.Versions, func(a, c int) bool { return j.res.Versions[a] < j.res.Versions[c] })
}

func codecName(c int8) string {
	for n, k := range codecNum {
		if k == c {
			return n
		}
	}
	return fmt.Sprintf("codec%d", c)
}

func countParts(p *prodReq) int {
	n := 0
	for _, t := range p.Topics {
		n += len(t.Parts)
	}
	return n
}

// crossCheck compares the independent decoder's view with kmsg's (a
// disagreement is reported for a human to classify: it is either a malformed
// request that one of the two tolerates, or an error in wire_test.go).
func (j *judge) crossCheck(fi int, frame []byte, p *prodReq) {
	req, err := decodeOther(frame)
	if err != nil {
		j.viol("decoder-disagreement", "frame %d: independent decoder accepts, kmsg: %v", fi, err)
		return
	}
	k := req.(*kmsg.ProduceRequest)
	bad := len(k.Topics) != len(p.Topics) || (k.TransactionID == nil) != (p.TxnID == nil) || k.Acks != p.Acks || k.TimeoutMillis != p.TimeoutMs
	for i := 0; !bad && i < len(k.Topics); i++ {
		kt, pt := k.Topics[i], p.Topics[i]
		bad = kt.Topic != pt.Name || kt.TopicID != pt.ID || len(kt.Partitions) != len(pt.Parts)
		for x := 0; !bad && x < len(kt.Partitions); x++ {
			bad = kt.Partitions[x].Partition != pt.Parts[x].Index || !sameBytes(kt.Partitions[x].Records, pt.Parts[x].Records)
		}
	}
	if bad {
		j.viol("decoder-disagreement", "frame %d: independent decoder and kmsg see different requests", fi)
	}
}

// judgePartition checks one partition's records bytes against the records
// still expected for it (want: indices into all) and returns how many records
// it consumed.
func (j *judge) judgePartition(where string, recs []byte, all []recSpec, want []int, seq int32, expCodec int8, codecSeen map[int8]bool) int {
	b := j.b
	if recs == nil {
		j.viol("null-records", "%s: null records", where)
		return 0
	}
	j.res.Batches++
	j.res.BatchLens = append(j.res.BatchLens, len(recs))
	if len(recs) > int(b.BatchMax) {
		j.violSub("batch-exceeds-max", j.msgSetExcess(len(recs)-int(b.BatchMax)), "%s: the written batch is %d bytes > ProducerBatchMaxBytes %d", where, len(recs), b.BatchMax)
	}
	d := reflog.Decode(recs, reflog.Options{Decompress: codecs.Decompress})
	if d.Tail != reflog.TailNone {
		j.viol("records-undecodable", "%s: %d bytes, reference decoder stops after %d units / %d bytes: %s: %v; first bytes %x", where, len(recs), len(d.Units), d.Consumed, d.Tail, d.TailErr, recs[:min(len(recs), 80)])
		return countRecords(int16(b.V), recs)
	}
	var got []reflog.Record
	var codec int8
	uncompressed := 0
	if b.V >= 3 {
		if len(d.Units) != 1 || d.Units[0].Magic != 2 {
			j.viol("not-one-batch", "%s: %d units (magic of the first: %d); produce v%d must carry exactly one record batch per partition", where, len(d.Units), d.Units[0].Magic, b.V)
			return countRecords(int16(b.V), recs)
		}
		u := &d.Units[0]
		got, codec = u.Records, u.Codec
		n := len(u.Records)
		// header consistency
		if u.Offset != 0 {
			j.viol("batch-header", "%s: base offset %d (a producer writes 0)", where, u.Offset)
		}
		if int(u.NumRecords) != n || int(u.LastOffsetDelta) != n-1 {
			j.viol("batch-header", "%s: %d records, header count %d lastOffsetDelta %d", where, n, u.NumRecords, u.LastOffsetDelta)
		}
		if u.TimestampType != reflog.CreateTime || u.Control || u.Transactional != (b.TxnID != nil) || u.Attributes&^0x17 != 0 {
			j.viol("batch-attributes", "%s: attributes %#x (transactional id configured: %v)", where, u.Attributes, b.TxnID != nil)
		}
		if u.ProducerID != scriptPID || u.ProducerEpoch != scriptEpoch {
			j.viol("producer-id-epoch", "%s: producer id %d epoch %d, InitProducerID answered %d / %d", where, u.ProducerID, u.ProducerEpoch, scriptPID, scriptEpoch)
		}
		if u.BaseSequence != seq {
			j.viol("base-sequence", "%s: base sequence %d, previous batches of the partition held %d records", where, u.BaseSequence, seq)
		}
		var maxTs int64
		uncompressed = 61
		for i := range u.Records {
			r := &u.Records[i]
			if r.Offset-u.Offset != int64(i) {
				j.viol("offset-delta", "%s: record %d has offset delta %d", where, i, r.Offset-u.Offset)
			}
			if i == 0 || r.Timestamp > maxTs {
				maxTs = r.Timestamp
			}
			if r.Timestamp < u.BaseTimestamp {
				j.res.NegTsDelta++
			}
			if r.RecordAttrs != 0 {
				j.viol("record-attributes", "%s: record %d attributes %#x", where, i, r.RecordAttrs)
			}
			uncompressed += len(reflog.EncodeRecord(reflog.RecSpec{
				TimestampDelta: r.Timestamp - u.BaseTimestamp, OffsetDelta: int32(r.Offset - u.Offset), Key: r.Key, Value: r.Value, Headers: r.Headers,
			}))
		}
		if n > 0 && u.MaxTimestamp != maxTs {
			j.viol("max-timestamp", "%s: max timestamp %d, largest record timestamp %d", where, u.MaxTimestamp, maxTs)
		}
		if n > 0 && len(want) > 0 && u.BaseTimestamp != all[want[0]].Ts {
			j.viol("base-timestamp", "%s: base timestamp %d, first record was handed in with %d (deltas are relative to the first record)", where, u.BaseTimestamp, all[want[0]].Ts)
		}
	} else {
		magic := int8(b.V >> 1)
		for ui := range d.Units {
			u := &d.Units[ui]
			if u.Magic != magic {
				j.viol("message-magic", "%s: message magic %d in produce v%d (must be %d)", where, u.Magic, b.V, magic)
			}
			if u.Wrapper && len(d.Units) != 1 {
				j.viol("not-one-batch", "%s: a compressed wrapper next to %d other messages", where, len(d.Units)-1)
			}
			if u.TimestampType == reflog.LogAppendTime {
				j.viol("batch-attributes", "%s: LogAppendTime attribute on a produced message", where)
			}
			codec = u.Codec
			got = append(got, u.Records...)
		}
		for i := range got {
			if got[i].Offset != int64(i) {
				j.viol("offset-delta", "%s: message %d has offset %d", where, i, got[i].Offset)
			}
			uncompressed += 26 + len(got[i].Key) + len(got[i].Value)
			if magic == 1 {
				uncompressed += 8
			}
		}
	}
	if len(got) == 0 {
		j.viol("empty-batch", "%s: batch without records", where)
	}
	j.res.Records += len(got)
	codecSeen[codec] = true
	if codec != reflog.CodecNone {
		j.res.Compressed++
		if codec != expCodec {
			j.viol("codec-unexpected", "%s: codec %d in the attributes; preference %s with produce v%d allows %d (or none)", where, codec, b.Codec, b.V, expCodec)
		}
		// "If a batch compresses poorly and actually grows the batch, the uncompressed form will be used."
		if len(recs) > uncompressed {
			j.viol("compression-grew-batch", "%s: compressed form %d bytes > uncompressed form %d bytes", where, len(recs), uncompressed)
		}
	} else if uncompressed != len(recs) {
		j.viol("records-length", "%s: %d bytes written, records re-encode to %d", where, len(recs), uncompressed)
	}
	if uncompressed > j.res.MaxUncomp {
		j.res.MaxUncomp = uncompressed
	}
	if b.V >= 9 && expCodec != reflog.CodecNone {
		// which (width before, width after compression) pair of the compact length prefix this batch exercised
		pair := fmt.Sprintf("%s:%d>%d", codecName(expCodec), uvarintWidth(uncompressed+1), uvarintWidth(len(recs)+1))
		if codec == reflog.CodecNone {
			pair = fmt.Sprintf("%s:%d kept uncompressed", codecName(expCodec), uvarintWidth(uncompressed+1))
		}
		if j.res.PrefixPairs == nil {
			j.res.PrefixPairs = map[string]int{}
		}
		j.res.PrefixPairs[pair]++
	}
	// "this is the maximum size of a record batch before compression"
	if uncompressed > int(b.BatchMax) {
		j.violSub("batch-exceeds-max", j.msgSetExcess(uncompressed-int(b.BatchMax)), "%s: the batch is %d bytes before compression > ProducerBatchMaxBytes %d (%d records)", where, uncompressed, b.BatchMax, len(got))
	}
	// content
	if len(got) > len(want) {
		j.viol("records-mismatch", "%s: batch holds %d records, only %d more were handed in for the partition", where, len(got), len(want))
		return len(got)
	}
	for i := range got {
		g, w := &got[i], all[want[i]]
		what := ""
		switch {
		case !sameBytes(g.Key, w.Key):
			what = fmt.Sprintf("key %s, handed in %s", showBytes(g.Key), showBytes(w.Key))
		case !sameBytes(g.Value, w.Val):
			what = fmt.Sprintf("value %s, handed in %s", showBytes(g.Value), showBytes(w.Val))
		case b.V >= 2 && g.Timestamp != w.Ts:
			what = fmt.Sprintf("timestamp %d, handed in %d", g.Timestamp, w.Ts)
		case b.V >= 3 && len(g.Headers) != len(w.Hdrs):
			what = fmt.Sprintf("%d headers, handed in %d", len(g.Headers), len(w.Hdrs))
		}
		if what == "" && b.V >= 3 {
			for h := range g.Headers {
				if g.Headers[h].Key != w.Hdrs[h].K || !sameBytes(g.Headers[h].Value, w.Hdrs[h].V) {
					what = fmt.Sprintf("header %d is %q=%s, handed in %q=%s", h, g.Headers[h].Key, showBytes(g.Headers[h].Value), w.Hdrs[h].K, showBytes(w.Hdrs[h].V))
					break
				}
			}
		}
		if what != "" {
			class := "records-mismatch"
			if b.V >= 2 && sameBytes(g.Key, w.Key) && sameBytes(g.Value, w.Val) && g.Timestamp != w.Ts {
				class = "timestamp-mismatch"
			}
			j.viol(class, "%s: record %d of the batch (record %d of the case): %s", where, i, want[i], what)
			break
		}
	}
	return len(got)
}
