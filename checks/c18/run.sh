#!/bin/bash
# C18 Produce requests encode the batched records within size limits.
#   run.sh                       run the tier in $VERIF_TIER
#   run.sh --replay <artefact>   re-run the case of one violation artefact verbosely
#   run.sh --replay 'case:<id>'  re-run a literal case id (as printed in samples / violations)
set -eu
cd "$(dirname "$0")/../.."
. bin/env.sh
if [ "${1:-}" = "--replay" ]; then
  export C18_REPLAY="$2"
fi
# checks/c06/reflog/codecs imports klauspost/compress and pierrec/lz4 directly;
# they are "// indirect" in the shared go.mod and `-mod=mod` would rewrite it.
# Build against a private copy of the (possibly VERIF_REPO-adjusted) modfile.
cp "$VERIF_MODFILE" "$BUILD/c18.mod"
cp "${VERIF_MODFILE%.mod}.sum" "$BUILD/c18.sum"
go test -c -vet=off -tags synctests,verif -modfile="$BUILD/c18.mod" -o "$BUILD/c18.test" ./checks/c18
exec "$BUILD/c18.test" -test.run '^TestVerifC18$' -test.timeout 0
