package c18

// The scripted broker: one goroutine per client connection (the server end of a
// net.Pipe handed to the client by kgo.Dialer) answering ApiVersions, Metadata,
// InitProducerID, FindCoordinator, AddPartitionsToTxn and EndTxn from a script
// and RECORDING every Produce frame verbatim before acknowledging it. kmsg is
// used for the boring requests and for building responses; the Produce
// request is decoded by decodeProduceFrame (wire_test.go).

import (
	"encoding/binary"
	"fmt"
	"io"
	"net"
	"sync"

	"github.com/twmb/franz-go/pkg/kbin"
	"github.com/twmb/franz-go/pkg/kmsg"
	"github.com/twmb/franz-go/pkg/kversion"
)

const (
	scriptPID   int64 = 0x1122334455 // needs all 8 bytes' worth of position checking
	scriptEpoch int16 = 0x0607
	brokerNode  int32 = 1
)

type tpKey struct {
	T string
	P int32
}

type sbroker struct {
	mu       sync.Mutex
	b        *built
	vers     *kversion.Versions
	frames   [][]byte // produce frames, verbatim, in arrival order
	nextOff  map[tpKey]int64
	problems []string // things the script cannot answer sensibly (reported as violations of class "broker-script")
	counts   map[int16]int
	conns    []net.Conn
	addParts map[tpKey]bool // partitions added with AddPartitionsToTxn
	endTxn   int
	verbose  bool
}

func newBroker(b *built, verbose bool) *sbroker {
	return &sbroker{b: b, vers: b.advertised(), nextOff: map[tpKey]int64{}, counts: map[int16]int{}, addParts: map[tpKey]bool{}, verbose: verbose}
}

func (sb *sbroker) problem(format string, a ...any) {
	sb.mu.Lock()
	if len(sb.problems) < 8 {
		sb.problems = append(sb.problems, fmt.Sprintf(format, a...))
	}
	sb.mu.Unlock()
}

// dial is the kgo.Dialer: every connection is a fresh pipe served by a new goroutine.
func (sb *sbroker) dial() net.Conn {
	c, s := net.Pipe()
	sb.mu.Lock()
	sb.conns = append(sb.conns, s)
	sb.mu.Unlock()
	go sb.serve(s)
	return c
}

func (sb *sbroker) closeAll() {
	sb.mu.Lock()
	conns := sb.conns
	sb.conns = nil
	sb.mu.Unlock()
	for _, c := range conns {
		c.Close()
	}
}

func (sb *sbroker) serve(c net.Conn) {
	defer c.Close()
	var hdr [4]byte
	for {
		if _, err := io.ReadFull(c, hdr[:]); err != nil {
			return
		}
		size := int32(binary.BigEndian.Uint32(hdr[:]))
		if size < 8 || size > 64<<20 {
			sb.problem("request size prefix %d", size)
			return
		}
		frame := make([]byte, 4+int(size))
		copy(frame, hdr[:])
		if _, err := io.ReadFull(c, frame[4:]); err != nil {
			return
		}
		resp := sb.handle(frame)
		if resp == nil {
			return
		}
		if _, err := c.Write(resp); err != nil {
			return
		}
	}
}

func frameResponse(resp kmsg.Response, corr int32) []byte {
	b := make([]byte, 8, 128)
	binary.BigEndian.PutUint32(b[4:], uint32(corr))
	if resp.IsFlexible() && resp.Key() != 18 { // ApiVersions keeps the v0 response header
		b = append(b, 0)
	}
	b = resp.AppendTo(b)
	binary.BigEndian.PutUint32(b, uint32(len(b)-4))
	return b
}

// decodeOther decodes a non-produce request with kmsg.
func decodeOther(frame []byte) (kmsg.Request, error) {
	key := int16(binary.BigEndian.Uint16(frame[4:]))
	ver := int16(binary.BigEndian.Uint16(frame[6:]))
	req := kmsg.RequestForKey(key)
	if req == nil {
		return nil, fmt.Errorf("unknown request key %d", key)
	}
	req.SetVersion(ver)
	r := kbin.Reader{Src: frame[12:]}
	r.NullableString()
	if req.IsFlexible() {
		for n := r.Uvarint(); n > 0; n-- {
			r.Uvarint()
			r.Span(int(r.Uvarint()))
		}
	}
	if err := req.ReadFrom(r.Src); err != nil {
		return nil, fmt.Errorf("%s v%d: %v", kmsg.NameForKey(key), ver, err)
	}
	return req, nil
}

func (sb *sbroker) handle(frame []byte) []byte {
	key := int16(binary.BigEndian.Uint16(frame[4:]))
	ver := int16(binary.BigEndian.Uint16(frame[6:]))
	corr := int32(binary.BigEndian.Uint32(frame[8:]))
	sb.mu.Lock()
	sb.counts[key]++
	sb.mu.Unlock()
	if sb.verbose {
		fmt.Printf("    broker <- %s v%d (%d bytes)\n", kmsg.NameForKey(key), ver, len(frame))
	}
	if max, ok := sb.vers.LookupMaxKeyVersion(key); key == 18 && ok && ver > max {
		// What Kafka does with an ApiVersions version it does not know: a v0
		// response with UNSUPPORTED_VERSION; since 2.4 (KIP-511, ApiVersions
		// v3) it names the version to retry with.
		resp := kmsg.NewPtrApiVersionsResponse()
		resp.Version = 0
		resp.ErrorCode = 35
		if max >= 3 {
			resp.ApiKeys = append(resp.ApiKeys, kmsg.ApiVersionsResponseApiKey{ApiKey: 18, MinVersion: 0, MaxVersion: max})
		}
		return frameResponse(resp, corr)
	} else if !ok || ver > max {
		sb.problem("client sent %s v%d, the script advertises max v%d (known=%v)", kmsg.NameForKey(key), ver, max, ok)
		return nil
	}
	if key == 0 {
		return sb.handleProduce(frame, ver, corr)
	}
	req, err := decodeOther(frame)
	if err != nil {
		sb.problem("undecodable request: %v", err)
		return nil
	}
	switch q := req.(type) {
	case *kmsg.ApiVersionsRequest:
		resp := q.ResponseKind().(*kmsg.ApiVersionsResponse)
		sb.vers.EachMaxKeyVersion(func(k, v int16) {
			resp.ApiKeys = append(resp.ApiKeys, kmsg.ApiVersionsResponseApiKey{ApiKey: k, MinVersion: 0, MaxVersion: v})
		})
		if sb.b.kip890() && ver >= 3 {
			resp.SupportedFeatures = append(resp.SupportedFeatures, kmsg.ApiVersionsResponseSupportedFeature{Name: "transaction.version", MinVersion: 0, MaxVersion: 2})
			resp.FinalizedFeaturesEpoch = 1
			resp.FinalizedFeatures = append(resp.FinalizedFeatures, kmsg.ApiVersionsResponseFinalizedFeature{Name: "transaction.version", MaxVersionLevel: 2, MinVersionLevel: 2})
		}
		return frameResponse(resp, corr)

	case *kmsg.MetadataRequest:
		resp := q.ResponseKind().(*kmsg.MetadataResponse)
		br := kmsg.NewMetadataResponseBroker()
		br.NodeID, br.Host, br.Port = brokerNode, "c18", 9092
		resp.Brokers = append(resp.Brokers, br)
		resp.ControllerID = brokerNode
		cid := "c18cluster"
		resp.ClusterID = &cid
		add := func(name string, known bool, idx int) {
			t := kmsg.NewMetadataResponseTopic()
			n := name
			t.Topic = &n
			if !known {
				t.ErrorCode = 3 // UNKNOWN_TOPIC_OR_PARTITION
				resp.Topics = append(resp.Topics, t)
				return
			}
			t.TopicID = sb.b.Topics[idx].ID
			for p := 0; p < sb.b.NP; p++ {
				mp := kmsg.NewMetadataResponseTopicPartition()
				mp.Partition = int32(p)
				mp.Leader = brokerNode
				mp.LeaderEpoch = 0
				mp.Replicas = []int32{brokerNode}
				mp.ISR = []int32{brokerNode}
				t.Partitions = append(t.Partitions, mp)
			}
			resp.Topics = append(resp.Topics, t)
		}
		if q.Topics == nil {
			for i, t := range sb.b.Topics {
				add(t.Name, true, i)
			}
		}
		for _, qt := range q.Topics {
			idx := -1
			for i, t := range sb.b.Topics {
				if (qt.Topic != nil && *qt.Topic == t.Name) || (qt.Topic == nil && qt.TopicID == t.ID) {
					idx = i
				}
			}
			switch {
			case idx >= 0:
				add(sb.b.Topics[idx].Name, true, idx)
			case qt.Topic != nil:
				add(*qt.Topic, false, 0)
			default:
				sb.problem("metadata request for an unknown topic id")
			}
		}
		return frameResponse(resp, corr)

	case *kmsg.InitProducerIDRequest:
		resp := q.ResponseKind().(*kmsg.InitProducerIDResponse)
		if (q.TransactionalID == nil) != (sb.b.TxnID == nil) || (q.TransactionalID != nil && *q.TransactionalID != *sb.b.TxnID) {
			sb.problem("InitProducerID carries a transactional id different from the configured one")
		}
		resp.ProducerID, resp.ProducerEpoch = scriptPID, scriptEpoch
		return frameResponse(resp, corr)

	case *kmsg.FindCoordinatorRequest:
		resp := q.ResponseKind().(*kmsg.FindCoordinatorResponse)
		resp.NodeID, resp.Host, resp.Port = brokerNode, "c18", 9092
		keys := q.CoordinatorKeys
		if ver < 4 {
			keys = []string{q.CoordinatorKey}
		}
		for _, k := range keys {
			c := kmsg.NewFindCoordinatorResponseCoordinator()
			c.Key, c.NodeID, c.Host, c.Port = k, brokerNode, "c18", 9092
			resp.Coordinators = append(resp.Coordinators, c)
		}
		return frameResponse(resp, corr)

	case *kmsg.AddPartitionsToTxnRequest:
		resp := q.ResponseKind().(*kmsg.AddPartitionsToTxnResponse)
		if ver >= 4 {
			sb.problem("AddPartitionsToTxn v%d (batched form) is not scripted", ver)
			return nil
		}
		for _, t := range q.Topics {
			rt := kmsg.NewAddPartitionsToTxnResponseTopic()
			rt.Topic = t.Topic
			for _, p := range t.Partitions {
				rp := kmsg.NewAddPartitionsToTxnResponseTopicPartition()
				rp.Partition = p
				rt.Partitions = append(rt.Partitions, rp)
				sb.mu.Lock()
				sb.addParts[tpKey{t.Topic, p}] = true
				sb.mu.Unlock()
			}
			resp.Topics = append(resp.Topics, rt)
		}
		return frameResponse(resp, corr)

	case *kmsg.EndTxnRequest:
		resp := q.ResponseKind().(*kmsg.EndTxnResponse)
		sb.mu.Lock()
		sb.endTxn++
		sb.mu.Unlock()
		resp.ProducerID, resp.ProducerEpoch = scriptPID, scriptEpoch // v5+: not bumped; one transaction per case
		if ver >= 5 {
			resp.ProducerEpoch = scriptEpoch + 1
		}
		return frameResponse(resp, corr)
	}
	sb.problem("request %s v%d is not scripted", kmsg.NameForKey(key), ver)
	return nil
}

// handleProduce records the frame verbatim and acknowledges every partition
// with increasing base offsets. The partition list comes from the independent
// decoder; when that fails the kmsg view is used so the run still terminates
// (the failed decode is reported by the oracle from the recorded frame).
func (sb *sbroker) handleProduce(frame []byte, ver int16, corr int32) []byte {
	sb.mu.Lock()
	defer sb.mu.Unlock()
	sb.frames = append(sb.frames, frame)

	type tp struct {
		name string
		id   [16]byte
		part int32
		n    int64
	}
	var parts []tp
	if p, err := decodeProduceFrame(frame); err == nil {
		for _, t := range p.Topics {
			name := t.Name
			if ver >= 13 {
				name = sb.b.topicByID(t.ID)
			}
			for _, pt := range t.Parts {
				parts = append(parts, tp{name, t.ID, pt.Index, int64(countRecords(ver, pt.Records))})
			}
		}
	} else if req, kerr := decodeOther(frame); kerr == nil {
		for _, t := range req.(*kmsg.ProduceRequest).Topics {
			name := t.Topic
			if ver >= 13 {
				name = sb.b.topicByID(t.TopicID)
			}
			for _, pt := range t.Partitions {
				parts = append(parts, tp{name, t.TopicID, pt.Partition, int64(countRecords(ver, pt.Records))})
			}
		}
	} else {
		return nil // neither decoder understands the frame: drop the connection
	}
	resp := kmsg.NewPtrProduceResponse()
	resp.Version = ver
	idx := map[string]int{}
	for _, p := range parts {
		i, ok := idx[p.name]
		if !ok {
			rt := kmsg.NewProduceResponseTopic()
			rt.Topic, rt.TopicID = p.name, p.id
			resp.Topics = append(resp.Topics, rt)
			i = len(resp.Topics) - 1
			idx[p.name] = i
		}
		rp := kmsg.NewProduceResponseTopicPartition()
		rp.Partition = p.part
		k := tpKey{p.name, p.part}
		rp.BaseOffset = sb.nextOff[k]
		sb.nextOff[k] += p.n
		rp.LogAppendTime = -1
		resp.Topics[i].Partitions = append(resp.Topics[i].Partitions, rp)
	}
	return frameResponse(resp, corr)
}

// countRecords is the broker's cheap view of how many records a partition's
// bytes hold (only used to advance base offsets; the oracle decodes fully).
func countRecords(ver int16, recs []byte) int {
	if len(recs) < 17 {
		return 0
	}
	if recs[16] == 2 {
		if len(recs) < 61 {
			return 0
		}
		return int(int32(binary.BigEndian.Uint32(recs[57:])))
	}
	// message set: the last message's offset + 1 (a wrapper carries the last inner offset)
	n, pos := 0, 0
	for pos+12 <= len(recs) {
		off := int64(binary.BigEndian.Uint64(recs[pos:]))
		size := int(int32(binary.BigEndian.Uint32(recs[pos+8:])))
		if size < 0 || pos+12+size > len(recs) {
			break
		}
		n = int(off) + 1
		pos += 12 + size
	}
	return n
}
