// Package c18 is the check for property C18 "Produce requests encode the
// batched records within size limits". A scripted broker (this package) takes
// the place of a Kafka broker behind kgo.Dialer + net.Pipe; the real kgo
// client batches and writes records (Produce x N, Flush) inside a
// testing/synctest bubble and every produce frame it writes is decoded by an
// independent decoder (the request layout in wire_test.go, the log formats in
// checks/c06/reflog) and compared with what the application handed in.
//
// Everything lives in _test.go files because every case runs in a synctest
// bubble; run.sh compiles the package with `go test -c` and runs TestVerifC18.
package c18
