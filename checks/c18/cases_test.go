package c18

// The enumerated space: produce version x codec preference x client id length
// x transactional id length x topic layout x record-set shape (x cold/warm).
// Everything here is a pure function of the case id; record sizes that put a
// batch / request on a limit are searched with the reference encoders.

import (
	"fmt"
	"strconv"
	"strings"

	"github.com/twmb/franz-go/pkg/kversion"
	"verif/checks/c06/reflog"
)

type hdrSpec struct {
	K string
	V []byte // nil = null
}

type recSpec struct {
	T    int
	P    int32
	Key  []byte // nil = null
	Val  []byte // nil = null
	Hdrs []hdrSpec
	Ts   int64 // unix milliseconds
}

type topicSpec struct {
	Name string
	ID   [16]byte
}

type caseSpec struct {
	V     int    `json:"produce_version"`
	Codec string `json:"codec_preference"`
	Cid   int    `json:"client_id_len"`
	Txn   int    `json:"transactional_id_len"`
	NT    int    `json:"topics"`
	NP    int    `json:"partitions_per_topic"`
	Shape string `json:"shape"`
	Cold  bool   `json:"cold"`
}

func (c caseSpec) id() string {
	mode := "warm"
	if c.Cold {
		mode = "cold"
	}
	return fmt.Sprintf("v%d/%s/cid%d/txn%d/%dx%d/%s/%s", c.V, c.Codec, c.Cid, c.Txn, c.NT, c.NP, c.Shape, mode)
}

func parseCaseID(s string) (caseSpec, error) {
	var c caseSpec
	f := strings.Split(s, "/")
	if len(f) != 7 {
		return c, fmt.Errorf("case id %q: want 7 fields", s)
	}
	var err error
	num := func(s, prefix string) int {
		n, e := strconv.Atoi(strings.TrimPrefix(s, prefix))
		if e != nil && err == nil {
			err = e
		}
		return n
	}
	c.V = num(f[0], "v")
	c.Codec = f[1]
	c.Cid = num(f[2], "cid")
	c.Txn = num(f[3], "txn")
	lay := strings.Split(f[4], "x")
	if len(lay) != 2 {
		return c, fmt.Errorf("case id %q: layout", s)
	}
	c.NT, c.NP = num(lay[0], ""), num(lay[1], "")
	c.Shape = f[5]
	c.Cold = f[6] == "cold"
	return c, err
}

// built is a case with everything derived from its id.
type built struct {
	caseSpec
	ClientID string
	TxnID    *string
	Topics   []topicSpec
	BatchMax int32
	WriteMax int32
	Prefs    []int8    // codec preference (reflog codec numbers)
	Warm     []recSpec // produced and flushed first (makes the produce version and all topics known)
	Recs     []recSpec // the record set of the case
	Note     string    // what the size search produced
}

var codecNum = map[string]int8{"none": 0, "gzip": 1, "snappy": 2, "lz4": 3, "zstd": 4}

func parsePrefs(s string) ([]int8, error) {
	var out []int8
	for _, n := range strings.Split(s, ",") {
		c, ok := codecNum[n]
		if !ok {
			return nil, fmt.Errorf("unknown codec %q", n)
		}
		out = append(out, c)
	}
	return out, nil
}

// expectedCodec transcribes the documented preference rule: the first
// preferred codec the broker supports; zstd needs produce v7+ (Kafka 2.1); if
// nothing is left the batch is not compressed.
func (b *built) expectedCodec() int8 {
	for _, c := range b.Prefs {
		if c == reflog.CodecZstd && b.V < 7 {
			continue
		}
		return c
	}
	return reflog.CodecNone
}

func (b *built) kip890() bool { return b.TxnID != nil && b.V >= 12 }

func (b *built) topicByID(id [16]byte) string {
	for _, t := range b.Topics {
		if t.ID == id {
			return t.Name
		}
	}
	return fmt.Sprintf("?unknown-topic-id-%x", id)
}

var releases = []struct {
	name string
	fn   func() *kversion.Versions
}{
	{"0.8.0", kversion.V0_8_0}, {"0.9.0", kversion.V0_9_0}, {"0.10.0", kversion.V0_10_0}, {"0.11.0", kversion.V0_11_0},
	{"1.0.0", kversion.V1_0_0}, {"1.1.0", kversion.V1_1_0}, {"2.0.0", kversion.V2_0_0}, {"2.1.0", kversion.V2_1_0},
	{"2.4.0", kversion.V2_4_0}, {"2.6.0", kversion.V2_6_0}, {"2.8.0", kversion.V2_8_0}, {"3.0.0", kversion.V3_0_0},
	{"3.4.0", kversion.V3_4_0}, {"3.7.0", kversion.V3_7_0}, {"3.8.0", kversion.V3_8_0}, {"3.9.0", kversion.V3_9_0},
	{"4.0.0", kversion.V4_0_0}, {"4.1.0", kversion.V4_1_0}, {"4.2.0", kversion.V4_2_0},
}

// releaseFor returns the oldest listed Kafka release whose Produce max version
// is >= v, with Produce capped at exactly v: Metadata / InitProducerID /
// ApiVersions versions are those of that release.
func releaseFor(v int) (string, *kversion.Versions) {
	for _, r := range releases {
		vs := r.fn()
		if max, ok := vs.LookupMaxKeyVersion(0); ok && int(max) >= v {
			vs.SetMaxKeyVersion(0, int16(v))
			// no client-telemetry plugin on the broker (KIP-714 keys are only advertised with one)
			vs.SetMaxKeyVersion(71, -1)
			vs.SetMaxKeyVersion(72, -1)
			return r.name, vs
		}
	}
	return "", nil
}

var advertisedCache [14]*kversion.Versions // read-only after creation; a worker process runs one case at a time

func (b *built) advertised() *kversion.Versions {
	if advertisedCache[b.V] == nil {
		_, vs := releaseFor(b.V)
		vs.HasKey(0) // force the lazy initialisation now
		advertisedCache[b.V] = vs
	}
	return advertisedCache[b.V]
}

func topicName(i int) string { return fmt.Sprintf("c18-%d%s", i, strings.Repeat("x", 3*i)) }

// fill returns n deterministic bytes (never nil): incompressible ones from a
// xorshift generator keyed by seed, or a three letter pattern.
func fill(n int, seed uint64, compressible bool) []byte {
	out := make([]byte, n)
	if compressible {
		for i := range out {
			out[i] = 'a' + byte((uint64(i)+seed)%3)
		}
		return out
	}
	x := seed*0x9E3779B97F4A7C15 + 0x1234567
	for i := range out {
		x ^= x << 13
		x ^= x >> 7
		x ^= x << 17
		out[i] = byte(x >> 24)
	}
	return out
}

const tsBase int64 = 1_700_000_000_000

// ------------------------------------------------------- reference lengths

func toRefRecs(recs []recSpec) []reflog.RecSpec {
	out := make([]reflog.RecSpec, len(recs))
	for i, r := range recs {
		rs := reflog.RecSpec{TimestampDelta: r.Ts - recs[0].Ts, OffsetDelta: int32(i), Key: r.Key, Value: r.Val}
		for _, h := range r.Hdrs {
			rs.Headers = append(rs.Headers, reflog.Header{Key: h.K, Value: h.V})
		}
		out[i] = rs
	}
	return out
}

// refRecordsBytes encodes recs (one partition, one batch / message set) the
// way produce version v must carry them, uncompressed.
func refRecordsBytes(v int, recs []recSpec) []byte {
	if v >= 3 {
		ref := toRefRecs(recs)
		maxTs := recs[0].Ts
		for _, r := range recs {
			if r.Ts > maxTs {
				maxTs = r.Ts
			}
		}
		out, _ := reflog.EncodeBatch(reflog.BatchSpec{
			LeaderEpoch: -1, LastOffsetDelta: int32(len(recs) - 1), BaseTimestamp: recs[0].Ts, MaxTimestamp: maxTs,
			ProducerID: scriptPID, ProducerEpoch: scriptEpoch, Records: ref,
		}, nil)
		return out
	}
	var out []byte
	for i, r := range recs {
		m := reflog.MsgSpec{Magic: int8(v >> 1), Offset: int64(i), Key: r.Key, Value: r.Val}
		if m.Magic == 1 {
			m.Timestamp = r.Ts
		}
		out = append(out, reflog.EncodeMessage(m)...)
	}
	return out
}

// refBatchLen is the uncompressed encoded length of one batch (v3+) or message
// set (v0-2) holding recs.
func refBatchLen(v int, recs []recSpec) int { return len(refRecordsBytes(v, recs)) }

// refFrameLen is the exact length of ONE produce request frame carrying one
// batch per partition for all of recs (grouped by partition, in order).
func (b *built) refFrameLen(recs []recSpec) int {
	p := &prodReq{Version: int16(b.V), ClientID: &b.ClientID, TxnID: b.TxnID, Acks: -1, TimeoutMs: 10000}
	for ti, t := range b.Topics {
		rt := reqTopic{Name: t.Name, ID: t.ID}
		for pi := 0; pi < b.NP; pi++ {
			var mine []recSpec
			for _, r := range recs {
				if r.T == ti && int(r.P) == pi {
					mine = append(mine, r)
				}
			}
			if len(mine) > 0 {
				rt.Parts = append(rt.Parts, reqPart{Index: int32(pi), Records: refRecordsBytes(b.V, mine)})
			}
		}
		if len(rt.Parts) > 0 {
			p.Topics = append(p.Topics, rt)
		}
	}
	return len(encodeProduceFrame(p))
}

// padTo returns the n in [0,maxN] with size(n) == target, or -1 when the sizes
// jump over the target (a length varint growing by a byte).
func padTo(size func(n int) int, target, maxN int) int {
	// size(n) - size(0) is n plus at most a few length-prefix bytes: skip ahead
	start := target - size(0) - 12
	if start < 0 {
		start = 0
	}
	for n := start; n <= maxN; n++ {
		s := size(n)
		if s == target {
			return n
		}
		if s > target {
			return -1
		}
	}
	return -1
}

// --------------------------------------------------------------- shapes

func (b *built) small(t int, p int32, i int) recSpec {
	return recSpec{T: t, P: p, Key: []byte("k"), Val: []byte(fmt.Sprintf("v%d", i)), Ts: tsBase + int64(i)}
}

// others appends one small record for every partition except (0,0).
func (b *built) others(recs []recSpec) []recSpec {
	for t := 0; t < b.NT; t++ {
		for p := 0; p < b.NP; p++ {
			if t == 0 && p == 0 {
				continue
			}
			recs = append(recs, b.small(t, int32(p), t*b.NP+p))
		}
	}
	return recs
}

func (b *built) edgeFixed(flavor string) (fixed []recSpec, last recSpec, compressible bool, ok bool) {
	switch flavor {
	case "plain": // incompressible payloads, increasing timestamps, no headers
		for i := 0; i < 3; i++ {
			fixed = append(fixed, recSpec{Key: fill(3, uint64(i), false), Val: fill(100, uint64(10+i), false), Ts: tsBase + int64(i)})
		}
		last = recSpec{Key: fill(2, 7, false), Ts: tsBase + 3}
		return fixed, last, false, true
	case "hdr": // compressible payloads, decreasing timestamps, 0-2 headers, nil / empty keys and values
		fixed = []recSpec{
			{Key: []byte{}, Val: fill(90, 1, true), Hdrs: []hdrSpec{{"h1", []byte("x")}}, Ts: tsBase},
			{Key: nil, Val: fill(80, 2, true), Hdrs: []hdrSpec{{"a", nil}, {"", []byte{}}}, Ts: tsBase - 1000},
			{Key: fill(5, 3, true), Val: []byte{}, Ts: tsBase - 2000},
		}
		last = recSpec{Key: fill(2, 7, true), Hdrs: []hdrSpec{{"trace", fill(9, 4, true)}, {"n", nil}}, Ts: tsBase - 70000}
		return fixed, last, true, true
	case "bigts": // large positive and negative timestamp deltas (5-6 byte varlongs), null values
		fixed = []recSpec{
			{Key: fill(10, 1, false), Val: nil, Ts: tsBase},
			{Key: fill(40, 2, false), Val: fill(50, 5, false), Ts: tsBase + 1<<31},
			{Key: nil, Val: nil, Ts: tsBase - 1<<33},
		}
		last = recSpec{Key: fill(2, 7, false), Ts: tsBase + 64}
		return fixed, last, false, true
	}
	return nil, recSpec{}, false, false
}

// shapeEdge: partition (0,0) gets four records that as ONE batch would encode
// to BatchMax+d bytes, every other partition one small record in between, and
// (0,0) one more small record at the end.
func (b *built) shapeEdge(d int, flavor string) bool {
	fixed, last, compressible, ok := b.edgeFixed(flavor)
	if !ok {
		return false
	}
	target := int(b.BatchMax) + d
	for tweak := 0; tweak < 4; tweak++ {
		f := append([]recSpec(nil), fixed...)
		f[0].Key = append(append([]byte(nil), f[0].Key...), fill(tweak, 99, compressible)...)
		n := padTo(func(n int) int {
			l := last
			l.Val = fill(n, 8, compressible)
			return refBatchLen(b.V, append(append([]recSpec(nil), f...), l))
		}, target, int(b.BatchMax)+16)
		if n < 0 {
			continue
		}
		last.Val = fill(n, 8, compressible)
		b.Recs = append(b.Recs, f...)
		b.Recs = b.others(b.Recs)
		b.Recs = append(b.Recs, last, b.small(0, 0, 1000))
		b.Note = fmt.Sprintf("records 0-2 and %d of partition (0,0) as one batch: %d bytes = BatchMax%+d", len(b.Recs)-2, target, d)
		return true
	}
	return false
}

// shapeTooLarge: one record whose single-record batch encodes to BatchMax+d
// bytes between two small records of (0,0), one small record elsewhere.
func (b *built) shapeTooLarge(d int) bool {
	target := int(b.BatchMax) + d
	big := recSpec{Key: fill(4, 1, false), Ts: tsBase + 1}
	if d%2 == 0 {
		big.Hdrs = []hdrSpec{{"h", []byte("1")}}
	}
	for tweak := 0; tweak < 4; tweak++ {
		big.Key = fill(4+tweak, 1, false)
		n := padTo(func(n int) int {
			r := big
			r.Val = fill(n, 2, false)
			return refBatchLen(b.V, []recSpec{r})
		}, target, int(b.BatchMax)+16)
		if n < 0 {
			continue
		}
		big.Val = fill(n, 2, false)
		b.Recs = append(b.Recs, b.small(0, 0, 1), big, b.small(0, 0, 2))
		b.Recs = b.others(b.Recs)
		b.Recs = append(b.Recs, b.small(0, 0, 3))
		b.Note = fmt.Sprintf("record 1 alone in a batch: %d bytes = BatchMax%+d", target, d)
		return true
	}
	return false
}

// shapePack: one record per partition, sized so that ONE request carrying all
// partitions is exactly WriteMax+d bytes.
func (b *built) shapePack(d int) bool {
	nparts := b.NT * b.NP
	if nparts < 2 {
		return false
	}
	mk := func(per, lastN, tweak int) []recSpec {
		var recs []recSpec
		i := 0
		for p := 0; p < b.NP; p++ {
			for t := 0; t < b.NT; t++ {
				n := per
				if i == nparts-1 {
					n = lastN
				}
				k := 2
				if i == 0 {
					k += tweak
				}
				recs = append(recs, recSpec{T: t, P: int32(p), Key: fill(k, uint64(i), false), Val: fill(n, uint64(100+i), false), Ts: tsBase + int64(i)})
				i++
			}
		}
		return recs
	}
	target := int(b.WriteMax) + d
	empty := b.refFrameLen(mk(0, 0, 0))
	per := (target - empty) / nparts
	if per < 1 {
		return false
	}
	if per > 8 {
		per -= 2 // leave room for length varints growing
	}
	for tweak := 0; tweak < 4; tweak++ {
		n := padTo(func(n int) int { return b.refFrameLen(mk(per, n, tweak)) }, target, per+3*nparts+64)
		if n < 0 {
			continue
		}
		recs := mk(per, n, tweak)
		for _, r := range recs {
			if refBatchLen(b.V, []recSpec{r})+24 > int(b.BatchMax) {
				return false // a partition alone would come close to the batch limit: not this shape's subject
			}
		}
		b.Recs = recs
		b.Note = fmt.Sprintf("one request with all %d partitions: %d bytes = WriteMax%+d", nparts, target, d)
		return true
	}
	return false
}

// shapeTinyEdge: many minimal records (offset deltas past 63 need two varint
// bytes) plus one padded record so that one batch would be BatchMax+d bytes.
func (b *built) shapeTinyEdge(d int) bool {
	n := 110
	if b.V < 3 {
		n = 25
	}
	var recs []recSpec
	for i := 0; i < n; i++ {
		recs = append(recs, recSpec{Ts: tsBase})
	}
	target := int(b.BatchMax) + d
	for tweak := 0; tweak < 4; tweak++ {
		recs[0].Key = fill(tweak, 1, false)
		pad := padTo(func(k int) int {
			return refBatchLen(b.V, append(append([]recSpec(nil), recs...), recSpec{Val: fill(k, 3, false), Ts: tsBase}))
		}, target, int(b.BatchMax))
		if pad < 0 {
			continue
		}
		b.Recs = append(recs, recSpec{Val: fill(pad, 3, false), Ts: tsBase})
		b.Recs = b.others(b.Recs)
		b.Recs = append(b.Recs, b.small(0, 0, 5))
		b.Note = fmt.Sprintf("%d minimal records + one padded record of partition (0,0) as one batch: %d bytes = BatchMax%+d", n, target, d)
		return true
	}
	return false
}

func (b *built) shapeTiny(n int) bool {
	for i := 0; i < n; i++ {
		b.Recs = append(b.Recs, recSpec{Ts: tsBase + int64(i%2)})
	}
	b.Recs = b.others(b.Recs)
	return true
}

var mixedSizes = []int{0, 1, 50, 63, 64, 120, 180, 127, 128, 200, 7, 300}

func (b *built) shapeMixed(compressible bool) bool {
	type q struct {
		t, p, n int
	}
	var qs []q
	most := 0
	for t := 0; t < b.NT; t++ {
		for p := 0; p < b.NP; p++ {
			n := 1 + (t*b.NP+p)%3
			if (t == 0 && p == 0) || (t == b.NT-1 && p == b.NP-1) {
				n = len(mixedSizes)
			}
			qs = append(qs, q{t, p, n})
			if n > most {
				most = n
			}
		}
	}
	for i := 0; i < most; i++ { // round robin over the partitions
		for _, x := range qs {
			if i >= x.n {
				continue
			}
			seed := uint64(x.t*100 + x.p*10 + i)
			r := recSpec{T: x.t, P: int32(x.p), Val: fill(mixedSizes[(i+x.p)%len(mixedSizes)], seed, compressible)}
			switch i % 3 {
			case 0:
				r.Key = nil
			case 1:
				r.Key = []byte{}
			default:
				r.Key = fill(1+i, seed+1, compressible)
			}
			if i%4 == 3 {
				r.Val = nil
			}
			for h := 0; h < i%3; h++ {
				hv := fill(h*5, seed+2, compressible)
				if (i+h)%2 == 0 {
					hv = nil
				}
				r.Hdrs = append(r.Hdrs, hdrSpec{fmt.Sprintf("h%d", h), hv})
			}
			sign := int64(1)
			if i%2 == 1 {
				sign = -1
			}
			r.Ts = tsBase + sign*int64(i)*37
			b.Recs = append(b.Recs, r)
		}
	}
	return true
}

var tsDeltas = []int64{0, 63, 64, -64, -65, 8191, 8192, -8192, -8193, 1 << 20, -(1 << 20) - 1, 1<<34 - 1, -(1 << 34), 1, -1}

func (b *built) shapeTsEdge() bool {
	for i, d := range tsDeltas {
		b.Recs = append(b.Recs, recSpec{Key: []byte{byte(i)}, Val: fill(i, uint64(i), true), Ts: tsBase + d})
	}
	b.Recs = b.others(b.Recs)
	return true
}

// ------------------------------------------------ compact length prefix shapes
//
// For flexible produce versions the partition's records are COMPACT_BYTES:
// UNSIGNED_VARINT(len+1) + bytes. The client writes the prefix for the
// uncompressed batch first and repairs it after compression, which may make
// it 1, 2 or 3 bytes narrower. uvarintWidth: 1 byte up to 127, 2 up to 16383,
// 3 up to 2097151, 4 up to 268435455.

func uvarintWidth(v int) int {
	w := 1
	for v >= 0x80 {
		v >>= 7
		w++
	}
	return w
}

func zigzagLen32(v int32) int { return uvarintWidth64(uint64(uint32(v<<1) ^ uint32(v>>31))) }
func zigzagLen64(v int64) int { return uvarintWidth64(uint64(v<<1) ^ uint64(v>>63)) }
func uvarintWidth64(v uint64) int {
	w := 1
	for v >= 0x80 {
		v >>= 7
		w++
	}
	return w
}

// fastBatchLen computes refBatchLen for v3+ without building the bytes
// (megabyte-sized batches are searched with it; build verifies the result
// against the real reference encoder once).
func fastBatchLen(recs []recSpec) int {
	total := 61
	for i, r := range recs {
		bl := func(b []byte) int {
			if b == nil {
				return 1
			}
			return zigzagLen32(int32(len(b))) + len(b)
		}
		l := 1 + zigzagLen64(r.Ts-recs[0].Ts) + zigzagLen32(int32(i)) + bl(r.Key) + bl(r.Val) + zigzagLen32(int32(len(r.Hdrs)))
		for _, h := range r.Hdrs {
			l += zigzagLen32(int32(len(h.K))) + len(h.K) + bl(h.V)
		}
		total += zigzagLen32(int32(l)) + l
	}
	return total
}

// payloadBytes: "zero" all-zero, "rep" three-letter pattern, "rnd"
// incompressible, "mix" three quarters incompressible then zeros (compresses
// by about a quarter: the compressed form stays in a wide prefix class).
func payloadBytes(kind string, n int, seed uint64) []byte {
	switch kind {
	case "zero":
		return make([]byte, n)
	case "rep":
		return fill(n, seed, true)
	case "mix":
		out := make([]byte, n)
		copy(out, fill(n*3/4, seed, false))
		return out
	}
	return fill(n, seed, false)
}

// prefixLimits picks limits that hold a batch of l1-1 bytes and a second partition.
func prefixLimits(l1 int) (batchMax, writeMax int32) {
	switch {
	case l1 <= 500:
		return 512, 1024
	case l1 <= 32000:
		return 32768, 65536
	case l1 <= 130000:
		return 131072, 262144
	}
	return 4 << 20, 8 << 20
}

// shapePrefix: partition (0,0) gets nrec records that as one batch encode to
// exactly l1-1 bytes, i.e. the compact length prefix of the uncompressed batch
// is UNSIGNED_VARINT(l1); every other partition gets one small record so that
// its bytes follow (or precede) the repaired batch in the same request.
func (b *built) shapePrefix(l1 int, payload string, nrec int) bool {
	if b.V < 3 || nrec < 1 {
		return false
	}
	target := l1 - 1
	body := target - 61
	each := body/nrec - 12
	if each < 0 {
		each = 0
	}
	var recs []recSpec
	for i := 0; i < nrec-1; i++ {
		recs = append(recs, recSpec{Key: []byte{byte('a' + i)}, Val: payloadBytes(payload, each, uint64(i+1)), Ts: tsBase + int64(i)})
	}
	last := recSpec{Ts: tsBase + int64(nrec-1)}
	for tweak := 0; tweak < 4; tweak++ {
		if tweak > 0 {
			last.Key = make([]byte, tweak-1) // empty, then growing: moves the total by one byte
		}
		probe := make([]byte, target) // only its length matters while searching
		n := padTo(func(n int) int {
			l := last
			l.Val = probe[:n]
			return fastBatchLen(append(append([]recSpec(nil), recs...), l))
		}, target, target)
		if n < 0 {
			continue
		}
		last.Val = payloadBytes(payload, n, 77)
		recs = append(recs, last)
		if refBatchLen(b.V, recs) != target {
			return false // fastBatchLen and the reference encoder disagree: never expected
		}
		b.Recs = b.others(recs)
		b.Note = fmt.Sprintf("%d %s records of partition (0,0) as one batch: %d bytes, compact length prefix UNSIGNED_VARINT(%d) = %d bytes before compression", nrec, payload, target, l1, uvarintWidth(l1))
		return true
	}
	return false
}

// build derives everything from the case id; ok=false: the shape does not
// apply to this combination (e.g. packing a request with one partition).
func build(c caseSpec) (b *built, ok bool, err error) {
	b = &built{caseSpec: c}
	if b.Prefs, err = parsePrefs(c.Codec); err != nil {
		return nil, false, err
	}
	if c.V < 0 || c.V > 13 || c.NT < 1 || c.NP < 1 || c.Cid < 0 || c.Cid > 256 {
		return nil, false, fmt.Errorf("case %s out of range", c.id())
	}
	if c.Txn > 0 && c.V < 3 {
		return nil, false, nil // no transactions before produce v3
	}
	b.ClientID = strings.Repeat("c", c.Cid)
	if c.Txn > 0 {
		s := strings.Repeat("T", c.Txn)
		b.TxnID = &s
	}
	for i := 0; i < c.NT; i++ {
		t := topicSpec{Name: topicName(i)}
		for j := range t.ID {
			t.ID[j] = byte(0xC0 + 16*i + j)
		}
		b.Topics = append(b.Topics, t)
	}
	// The smallest limits config validation accepts: batch 512, write 1024.
	b.BatchMax, b.WriteMax = 512, 1024
	name, arg, _ := strings.Cut(c.Shape, ":")
	args := strings.Split(arg, ":")
	d := 0
	if len(args) > 0 && args[0] != "" && name != "mixed" {
		if d, err = strconv.Atoi(args[0]); err != nil {
			return nil, false, fmt.Errorf("shape %q: %v", c.Shape, err)
		}
	}
	switch name {
	case "pack":
		if c.NT*c.NP > 8 {
			b.WriteMax = 4096
		}
	case "tiny", "tinyedge":
		b.BatchMax, b.WriteMax = 1024, 2048
	case "prefix":
		b.BatchMax, b.WriteMax = prefixLimits(d)
	case "bigpack": // pack with batches of > 16383 bytes: three byte compact length prefixes at the write limit
		b.BatchMax, b.WriteMax = 32768, 65536
	}
	if c.Txn > 64 {
		// a long transactional id eats the request: keep the room for batches the same
		b.WriteMax += int32(c.Txn)
	}
	switch name {
	case "edge":
		if len(args) != 2 {
			return nil, false, fmt.Errorf("shape %q: want edge:<d>:<flavor>", c.Shape)
		}
		ok = b.shapeEdge(d, args[1])
	case "toolarge":
		ok = b.shapeTooLarge(d)
	case "pack", "bigpack":
		ok = b.shapePack(d)
	case "tinyedge":
		ok = b.shapeTinyEdge(d)
	case "tiny":
		ok = b.shapeTiny(d)
	case "mixed":
		ok = b.shapeMixed(arg == "compressible")
	case "tsedge":
		ok = b.shapeTsEdge()
	case "prefix":
		nrec := 0
		if len(args) == 3 {
			nrec, _ = strconv.Atoi(strings.TrimPrefix(args[2], "r"))
		}
		if nrec < 1 {
			return nil, false, fmt.Errorf("shape %q: want prefix:<len+1>:<zero|rep|mix|rnd>:r<records>", c.Shape)
		}
		ok = b.shapePrefix(d, args[1], nrec)
	default:
		return nil, false, fmt.Errorf("unknown shape %q", c.Shape)
	}
	if !ok {
		return b, false, nil
	}
	if !c.Cold {
		for t := 0; t < c.NT; t++ {
			b.Warm = append(b.Warm, recSpec{T: t, P: 0, Key: []byte("warm"), Val: []byte{byte(t)}, Ts: tsBase - 5})
		}
	}
	return b, true, nil
}

// --------------------------------------------------------------- the grid

func rangeInts(lo, hi int) []int {
	var out []int
	for i := lo; i <= hi; i++ {
		out = append(out, i)
	}
	return out
}

type shapeMode struct {
	shape string
	cold  bool
}

func shapeList(thorough bool) []shapeMode {
	var out []shapeMode
	add := func(cold bool, format string, a ...any) {
		out = append(out, shapeMode{fmt.Sprintf(format, a...), cold})
	}
	if thorough {
		for _, fl := range []string{"plain", "hdr", "bigts"} {
			for _, d := range rangeInts(-8, 2) {
				add(false, "edge:%d:%s", d, fl)
			}
		}
		for _, d := range rangeInts(-8, 2) {
			add(false, "toolarge:%d", d)
			add(true, "edge:%d:plain", d)
		}
		for _, d := range []int{-2, -1, 0, 1, 2, 3, 4, 6, 8, 12, 20, 37} {
			add(false, "pack:%d", d)
		}
		for _, d := range []int{-1, 0, 1, 8} {
			add(true, "pack:%d", d)
		}
		for _, d := range rangeInts(-6, 1) {
			add(false, "tinyedge:%d", d)
		}
		for _, n := range []int{64, 65, 200} {
			add(false, "tiny:%d", n)
		}
		add(false, "mixed:compressible")
		add(false, "mixed:incompressible")
		add(true, "mixed:compressible")
		add(true, "mixed:incompressible")
		add(false, "tsedge")
		add(true, "toolarge:1")
		add(true, "toolarge:-6")
		return out
	}
	for _, d := range []int{-5, -4, -3, -2, -1, 0, 1} {
		add(false, "edge:%d:plain", d)
	}
	for _, d := range []int{-4, -2, 0} {
		add(false, "edge:%d:hdr", d)
		add(false, "edge:%d:bigts", d)
	}
	for _, d := range []int{-4, -2, 0, 1} {
		add(false, "toolarge:%d", d)
	}
	for _, d := range []int{-1, 0, 1, 2, 4, 8} {
		add(false, "pack:%d", d)
	}
	add(true, "pack:1")
	add(true, "edge:-4:plain")
	for _, d := range []int{-4, -2, 0} {
		add(false, "tinyedge:%d", d)
	}
	add(false, "tiny:65")
	add(false, "mixed:compressible")
	add(true, "mixed:incompressible")
	add(false, "tsedge")
	return out
}

type layout struct{ nt, np int }

// grid enumerates the cases of a tier in a fixed order.
func grid(thorough bool) []caseSpec {
	codecs := []string{"none", "gzip", "zstd"}
	cids := []int{0, 256}
	layouts := []layout{{1, 3}, {8, 4}}
	txns := []int{0}
	if thorough {
		codecs = []string{"none", "gzip", "snappy", "lz4", "zstd", "zstd,gzip", "zstd,lz4,none"}
		cids = []int{0, 1, 256}
		layouts = []layout{{1, 1}, {1, 3}, {3, 2}, {8, 4}}
		txns = []int{0, 1, 16382}
	}
	shapes := shapeList(thorough)
	var out []caseSpec
	for v := 0; v <= 13; v++ {
		for _, codec := range codecs {
			for _, cid := range cids {
				for _, lay := range layouts {
					for _, txn := range txns {
						if txn > 0 && v < 3 {
							continue
						}
						for _, sm := range shapes {
							if txn > 0 && !txnShape(sm, codec, cid) {
								continue
							}
							out = append(out, caseSpec{V: v, Codec: codec, Cid: cid, Txn: txn, NT: lay.nt, NP: lay.np, Shape: sm.shape, Cold: sm.cold})
						}
					}
				}
			}
		}
	}
	// the sub-grid with the megabyte batches goes first: better balance over
	// the workers, and a soft-deadline cut never lands on it
	return append(prefixGrid(thorough), out...)
}

// prefixGrid: the compact length prefix sub-grid. Uncompressed batch lengths
// whose prefix value len+1 sits just below / on / above the uvarint width
// boundaries 128, 16384 and 2097152 (plus 20 KiB, 64 KiB and 3 MiB inside the
// classes), crossed with payloads that compress to a narrower class (zero,
// rep), to about three quarters (mix) or not at all (rnd), single- and
// multi-record batches, alone in the request or next to other partitions, for
// every compressor. Quick: v9-13; thorough: v3-13 (v3-8 carry a fixed INT32
// prefix: control group).
// expectedPairs lists the (codec, prefix width before > after compression)
// pairs a complete run of the tier is known to reach on the unchanged tree; a
// run that misses one of them reports an infrastructure error instead of a
// vacuous "held".
func expectedPairs(thorough bool) []string {
	out := []string{
		"gzip:1>1", "gzip:2>1", "gzip:2>2", "gzip:3>1", "gzip:3>2", "gzip:4>2",
		"snappy:1>1", "snappy:2>1", "snappy:2>2", "snappy:3>2",
		"lz4:2>1", "lz4:2>2", "lz4:3>2",
		"zstd:1>1", "zstd:2>1", "zstd:2>2", "zstd:3>1", "zstd:3>2", "zstd:4>2",
	}
	if thorough {
		out = append(out, thoroughPairs...)
	}
	return out
}

// thoroughPairs: the additional pairs reached by the thorough sizes (64 KiB, 2 MiB +-, 3 MiB) and payloads.
// Never reached by any compressor: 4>1 (2 MiB do not compress to < 66 bytes of
// gzip / snappy / lz4 / zstd), lz4/snappy 3>1 and snappy 4>2.
var thoroughPairs = []string{
	"gzip:3>3", "gzip:4>3", "gzip:4>4",
	"snappy:3>3", "snappy:4>3", "snappy:4>4",
	"lz4:1>1", "lz4:3>3", "lz4:4>2", "lz4:4>3", "lz4:4>4",
	"zstd:3>3", "zstd:4>3", "zstd:4>4",
}

func prefixGrid(thorough bool) []caseSpec {
	var out []caseSpec
	add := func(v int, codec string, lay layout, cold bool, l1 int, payload string, nrec int) {
		out = append(out, caseSpec{V: v, Codec: codec, NT: lay.nt, NP: lay.np, Cold: cold, Shape: fmt.Sprintf("prefix:%d:%s:r%d", l1, payload, nrec)})
	}
	codecs := []string{"gzip", "snappy", "lz4", "zstd"}
	// bigpack: requests packed to BrokerMaxWriteBytes+d with batches whose compact prefix is three bytes
	if thorough {
		for v := 3; v <= 13; v++ {
			for _, codec := range []string{"none", "gzip"} {
				for _, lay := range []layout{{1, 3}, {3, 2}} {
					for _, d := range rangeInts(-4, 3) {
						out = append(out, caseSpec{V: v, Codec: codec, NT: lay.nt, NP: lay.np, Shape: fmt.Sprintf("bigpack:%d", d)})
					}
					for _, d := range []int{0, 1} {
						out = append(out, caseSpec{V: v, Codec: codec, NT: lay.nt, NP: lay.np, Cold: true, Shape: fmt.Sprintf("bigpack:%d", d)})
					}
				}
			}
		}
	} else {
		for v := 9; v <= 13; v++ {
			for _, d := range rangeInts(-3, 2) {
				out = append(out, caseSpec{V: v, Codec: "none", NT: 1, NP: 3, Shape: fmt.Sprintf("bigpack:%d", d)})
			}
		}
	}
	if !thorough {
		for v := 9; v <= 13; v++ {
			for _, codec := range codecs {
				for _, lay := range []layout{{1, 1}, {1, 2}} {
					for _, l1 := range []int{127, 128, 16383, 16384, 20481} {
						for _, payload := range []string{"zero", "mix", "rnd"} {
							for _, nrec := range []int{1, 4} {
								add(v, codec, lay, false, l1, payload, nrec)
							}
						}
					}
				}
			}
		}
		for _, v := range []int{9, 13} {
			for _, codec := range []string{"gzip", "zstd"} {
				for _, l1 := range []int{2097151, 2097152} {
					add(v, codec, layout{1, 2}, false, l1, "zero", 1)
				}
			}
		}
		return out
	}
	small := []int{126, 127, 128, 129, 16382, 16383, 16384, 16385, 20481, 65537}
	big := []int{2097150, 2097151, 2097152, 2097153, 3145729}
	payloads := []string{"zero", "rep", "mix", "rnd"}
	for v := 3; v <= 13; v++ {
		for _, codec := range append(append([]string(nil), codecs...), "zstd,gzip") {
			for _, lay := range []layout{{1, 1}, {1, 2}, {3, 2}} {
				for _, l1 := range small {
					for _, payload := range payloads {
						for _, nrec := range []int{1, 4} {
							add(v, codec, lay, false, l1, payload, nrec)
						}
					}
				}
			}
			if v >= 9 {
				for _, l1 := range []int{128, 16384, 20481} {
					add(v, codec, layout{1, 2}, true, l1, "zero", 1)
				}
			}
		}
		if v < 9 {
			continue
		}
		for _, codec := range codecs {
			for _, lay := range []layout{{1, 1}, {1, 2}} {
				for _, l1 := range big {
					for _, payload := range payloads {
						for _, nrec := range []int{1, 4} {
							add(v, codec, lay, false, l1, payload, nrec)
						}
					}
				}
			}
		}
	}
	return out
}

// txnShape restricts the transactional part of the grid (thorough only): the
// transactional id only changes the request prefix and the batch attributes,
// so it is crossed with the request-packing and a few batch shapes, two
// codecs and the extreme client id lengths.
func txnShape(sm shapeMode, codec string, cid int) bool {
	if codec != "none" && codec != "zstd,gzip" {
		return false
	}
	if cid == 1 {
		return false
	}
	name, _, _ := strings.Cut(sm.shape, ":")
	switch name {
	case "pack":
		return true
	case "edge":
		return strings.HasSuffix(sm.shape, ":hdr") && !sm.cold
	case "toolarge":
		return sm.shape == "toolarge:1" || sm.shape == "toolarge:-4"
	case "mixed":
		return sm.shape == "mixed:compressible"
	}
	return false
}
