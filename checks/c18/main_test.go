package c18

import (
	"bytes"
	"encoding/json"
	"fmt"
	"os"
	"os/exec"
	"runtime/debug"
	"sort"
	"strconv"
	"strings"
	"testing"
	"time"

	"verif.local/ev"
)

// childResult is what one worker process reports.
type childResult struct {
	Cases     int64
	Skipped   int64 // shape not applicable to the combination
	WithFrame []string
	Frames    int64
	Batches   int64
	Comp      int64
	Records   int64
	Rejected  int64
	MustRej   int64
	NegTs     int64
	Versions  map[int16]int64
	Codecs    map[int8]int64
	// closest approach to the limits, per limit value: limit -> max length seen
	MaxFrame  map[int]int
	MaxBatch  map[int]int // written form
	MaxUncomp map[int]int
	AtLimit   map[string]int64 // frames / batches exactly on their limit
	Samples   []*caseResult
	ByClass   map[string]*caseResult // first violating case per class
	CountCl   map[string]int64
	ViolCases int64
	TimedOut  bool
	Infra     string
}

func newChildResult() *childResult {
	return &childResult{Versions: map[int16]int64{}, Codecs: map[int8]int64{}, MaxFrame: map[int]int{}, MaxBatch: map[int]int{}, MaxUncomp: map[int]int{},
		AtLimit: map[string]int64{}, ByClass: map[string]*caseResult{}, CountCl: map[string]int64{}}
}

func (c *childResult) add(res *caseResult) {
	c.Cases++
	if len(res.FrameLens) > 0 {
		c.WithFrame = append(c.WithFrame, res.ID)
	}
	c.Frames += int64(len(res.FrameLens))
	c.Batches += int64(res.Batches)
	c.Comp += int64(res.Compressed)
	c.Records += int64(res.Records)
	c.Rejected += int64(res.Rejected)
	c.MustRej += int64(res.MustReject)
	c.NegTs += int64(res.NegTsDelta)
	for _, v := range res.Versions {
		c.Versions[v]++
	}
	for _, k := range res.Codecs {
		c.Codecs[k]++
	}
	for _, l := range res.FrameLens {
		if l > c.MaxFrame[res.WriteMax] {
			c.MaxFrame[res.WriteMax] = l
		}
		if l == res.WriteMax {
			c.AtLimit["frames_exactly_at_write_limit"]++
		}
	}
	for k, n := range res.PrefixPairs {
		c.AtLimit["pair|"+k] += int64(n)
	}
	for _, l := range res.BatchLens {
		if l > c.MaxBatch[res.BatchMax] {
			c.MaxBatch[res.BatchMax] = l
		}
	}
	if res.MaxUncomp > c.MaxUncomp[res.BatchMax] {
		c.MaxUncomp[res.BatchMax] = res.MaxUncomp
	}
	if len(res.Viol) > 0 {
		c.ViolCases++
		seen := map[string]bool{}
		cs, _ := parseCaseID(res.ID)
		for _, v := range res.Viol {
			key := violKey(v, cs.V)
			if seen[key] {
				continue
			}
			seen[key] = true
			c.CountCl[key]++
			mode := "warm"
			if cs.Cold {
				mode = "cold"
			}
			c.CountCl[fmt.Sprintf("%s|v%d %s", key, cs.V, mode)]++
			if old := c.ByClass[key]; old == nil || simpler(res, old) {
				c.ByClass[key] = res
			}
		}
	}
}

// simpler orders violating cases so that the reported one is small and stable.
func simpler(a, b *caseResult) bool {
	rank := func(r *caseResult) []int {
		c, _ := parseCaseID(r.ID)
		codec, cold := 0, 0
		if c.Codec != "none" {
			codec = 1
		}
		if c.Cold {
			cold = 1
		}
		return []int{codec, c.Txn, c.NT * c.NP, c.Cid, cold, len(r.FrameLens), c.V}
	}
	ra, rb := rank(a), rank(b)
	for i := range ra {
		if ra[i] != rb[i] {
			return ra[i] < rb[i]
		}
	}
	return a.ID < b.ID
}

func (c *childResult) merge(o *childResult) {
	c.Cases += o.Cases
	c.Skipped += o.Skipped
	c.WithFrame = append(c.WithFrame, o.WithFrame...)
	c.Frames += o.Frames
	c.Batches += o.Batches
	c.Comp += o.Comp
	c.Records += o.Records
	c.Rejected += o.Rejected
	c.MustRej += o.MustRej
	c.NegTs += o.NegTs
	c.ViolCases += o.ViolCases
	c.TimedOut = c.TimedOut || o.TimedOut
	for k, v := range o.Versions {
		c.Versions[k] += v
	}
	for k, v := range o.Codecs {
		c.Codecs[k] += v
	}
	for k, v := range o.AtLimit {
		c.AtLimit[k] += v
	}
	for _, m := range []struct{ dst, src map[int]int }{{c.MaxFrame, o.MaxFrame}, {c.MaxBatch, o.MaxBatch}, {c.MaxUncomp, o.MaxUncomp}} {
		for k, v := range m.src {
			if v > m.dst[k] {
				m.dst[k] = v
			}
		}
	}
	c.Samples = append(c.Samples, o.Samples...)
	for k, v := range o.CountCl {
		c.CountCl[k] += v
	}
	for k, v := range o.ByClass {
		if old := c.ByClass[k]; old == nil || simpler(v, old) {
			c.ByClass[k] = v
		}
	}
}

func envInt(k string, def int) int {
	if v, err := strconv.Atoi(os.Getenv(k)); err == nil {
		return v
	}
	return def
}

// selected applies the development filter C18_ONLY (substring of the case id).
func selected(cs []caseSpec) []caseSpec {
	only := os.Getenv("C18_ONLY")
	if only == "" {
		return cs
	}
	var out []caseSpec
	for _, c := range cs {
		if strings.Contains(c.id(), only) {
			out = append(out, c)
		}
	}
	return out
}

func childMain(t *testing.T, spec string) int {
	var idx, n int
	if _, err := fmt.Sscanf(spec, "%d/%d", &idx, &n); err != nil || n <= 0 {
		fmt.Fprintln(os.Stderr, "bad C18_CHILD", spec)
		return 2
	}
	dl, _ := strconv.ParseInt(os.Getenv("C18_DEADLINE"), 10, 64)
	deadline := time.Unix(dl, 0)
	res := newChildResult()
	cases := selected(grid(ev.Thorough()))
	for i := idx; i < len(cases); i += n {
		if time.Now().After(deadline) {
			res.TimedOut = true
			break
		}
		b, ok, err := build(cases[i])
		if err != nil {
			res.Infra = err.Error()
			break
		}
		if !ok {
			res.Skipped++
			continue
		}
		cr := runCase(t, b, false)
		if cr.Infra != "" {
			res.Infra = cr.ID + ": " + cr.Infra
			break
		}
		res.add(cr)
		if i%(len(cases)/7+1) == 0 { // seven samples spread over the grid
			res.Samples = append(res.Samples, cr)
		}
	}
	out, _ := json.Marshal(res)
	if err := os.WriteFile(os.Getenv("C18_OUT"), out, 0o644); err != nil {
		fmt.Fprintln(os.Stderr, err)
		return 2
	}
	return 0
}

func TestVerifC18(t *testing.T) {
	if os.Getenv("GOGC") == "" {
		debug.SetGCPercent(400)
	}
	if p := os.Getenv("C18_REPLAY"); p != "" {
		os.Exit(replay(t, p))
	}
	if spec := os.Getenv("C18_CHILD"); spec != "" {
		code := childMain(t, spec)
		if os.Getenv("C18_NOEXIT") != "" { // lets -test.cpuprofile flush; development aid only
			return
		}
		os.Exit(code)
	}
	if err := selfTest(); err != nil {
		ev.InfraError("decoder self test: %v", err)
	}
	r := ev.New("C18", "exploration")
	deadline := ev.Deadline(10*time.Minute, 45*time.Minute) // safety nets for a loaded machine; idle 16 cores: ~30 s / ~10 min
	thorough := ev.Thorough()
	cases := selected(grid(thorough))

	r.Rule("full cross product (tier lists below) of produce version 0..13 (scripted broker advertises the versions of the oldest Kafka release with that produce version; v0-2 also pin the client with kgo.MaxVersions) " +
		"x codec preference x client id length x transactional id length (thorough, v3+) x topics x partitions x record-set shape x cold/warm (warm: one record per topic flushed first, so the produce version and topics are known while batching). " +
		"Shapes: edge:<d>:<flavor> four records that as one batch encode to ProducerBatchMaxBytes+d (flavors: plain / 0-2 headers with null+empty keys, values, header values and decreasing timestamps / 5-6 byte timestamp deltas), " +
		"toolarge:<d> a single record whose own batch is ProducerBatchMaxBytes+d, pack:<d> one record per partition sized so that one request with all partitions is BrokerMaxWriteBytes+d, " +
		"tinyedge:<d> 110 minimal records (2-byte offset-delta varints) + one padded to ProducerBatchMaxBytes+d, tiny:<n>, mixed (many batches, sizes 0..300 around varint boundaries), tsedge (timestamp deltas on varlong boundaries); " +
		"sizes are searched with the reference encoders. Limits are the smallest config validation accepts (batch 512 / write 1024; 1024/2048 for tiny*, write 4096 for pack on 32 partitions; + transactional id length when that is long). " +
		"Compact-length-prefix sub-grid (own cross product: quick v9-13, thorough v3-13 x gzip/snappy/lz4/zstd(+[zstd,gzip]) x layouts 1x1,1x2(,3x2)): prefix:<L+1>:<payload>:r<n> = n records (1 or 4) that as one batch encode to exactly L bytes with " +
		"L+1 (the value of the COMPACT_BYTES uvarint prefix) in {126..129, 16382..16385, 20481, 65537, 2097150..2097153, 3145729} (quick: 127,128,16383,16384,20481 and 2097151/2097152 for v9,v13 gzip/zstd) and payload zero / rep (three-letter pattern) / mix (3/4 incompressible) / rnd, " +
		"limits 32 KiB/64 KiB, 128 KiB/256 KiB or 4 MiB/8 MiB as needed; bigpack:<d> = pack with 20-30 KiB batches (three byte prefixes) and write limit 65536. The (prefix bytes before > after compression) pairs reached per codec are reported and a fixed list of them is required. " +
		"distinct_nontrivial = distinct cases that made the client write at least one produce frame")
	r.Assume("package reflog (checks/c06/reflog, shared with C06) and wire_test.go's produce request decoder are the specification of the wire formats; kmsg's ProduceRequest decoder is used as a cross-check only",
		"the scripted broker acknowledges every produce request (no retries, no errors); one broker; ManualPartitioner",
		"testing/synctest virtual time; the linger never fires before Flush")

	workers := ev.Workers()
	if workers > len(cases) && len(cases) > 0 {
		workers = len(cases)
	}
	dir := os.Getenv("BUILD")
	if dir == "" {
		dir = ev.Root() + "/build"
	}
	type child struct {
		cmd    *exec.Cmd
		out    string
		stderr bytes.Buffer
	}
	var children []*child
	for w := 0; w < workers; w++ {
		c := &child{out: fmt.Sprintf("%s/c18-worker-%d-%d.json", dir, os.Getpid(), w)}
		c.cmd = exec.Command(os.Args[0], "-test.run", "^TestVerifC18$", "-test.timeout", "0")
		c.cmd.Env = append(os.Environ(), "GOMAXPROCS=1", fmt.Sprintf("C18_CHILD=%d/%d", w, workers), "C18_OUT="+c.out,
			fmt.Sprintf("C18_DEADLINE=%d", deadline.Unix()))
		c.cmd.Stderr = &c.stderr
		c.cmd.Stdout = &c.stderr
		if err := c.cmd.Start(); err != nil {
			ev.InfraError("start worker: %v", err)
		}
		children = append(children, c)
	}
	total := newChildResult()
	var infra string
	for _, c := range children {
		err := c.cmd.Wait()
		b, rerr := os.ReadFile(c.out)
		os.Remove(c.out)
		if err != nil || rerr != nil {
			tail := c.stderr.String()
			if len(tail) > 4000 {
				tail = tail[len(tail)-4000:]
			}
			if infra == "" {
				infra = fmt.Sprintf("worker failed: %v %v\n%s", err, rerr, tail)
			}
			continue
		}
		res := newChildResult()
		if err := json.Unmarshal(b, res); err != nil {
			infra = "worker result: " + err.Error()
			continue
		}
		if res.Infra != "" && infra == "" {
			infra = res.Infra
		}
		total.merge(res)
	}
	if infra != "" {
		ev.InfraError("%s", infra)
	}

	r.Evals(total.Cases)
	for _, id := range total.WithFrame {
		r.Distinct(id)
	}
	sort.Slice(total.Samples, func(i, j int) bool { return total.Samples[i].ID < total.Samples[j].ID })
	for _, s := range total.Samples {
		r.Sample(map[string]any{"case": s.ID, "size_search": s.Note, "frame_lens": s.FrameLens, "write_max": s.WriteMax, "batch_lens": s.BatchLens, "batch_max": s.BatchMax,
			"records_written": s.Records, "records_rejected_too_large": s.Rejected})
	}
	var vs []int
	for v := range total.Versions {
		vs = append(vs, int(v))
	}
	sort.Ints(vs)
	r.Set("produce_versions_covered", vs)
	cn := map[string]int64{}
	for c, n := range total.Codecs {
		for name, num := range codecNum {
			if num == c {
				cn[name] = n
			}
		}
	}
	r.Set("codecs_seen_on_the_wire_cases", cn)
	limits := func(m map[int]int) map[string]int {
		out := map[string]int{}
		for lim, max := range m {
			out[fmt.Sprintf("limit_%d", lim)] = max
		}
		return out
	}
	r.Set("max_frame_len_seen_by_write_limit", limits(total.MaxFrame))
	r.Set("max_written_batch_len_seen_by_batch_limit", limits(total.MaxBatch))
	r.Set("max_uncompressed_batch_len_seen_by_batch_limit", limits(total.MaxUncomp))
	r.Set("frames_exactly_at_write_limit", total.AtLimit["frames_exactly_at_write_limit"])
	pairs := map[string]int64{}
	for k, n := range total.AtLimit {
		if strings.HasPrefix(k, "pair|") {
			pairs[k[5:]] = n
		}
	}
	// keys: "<codec>:<prefix bytes before>><after compression>"
	r.Set("v9plus_compact_prefix_width_pairs_batches", pairs)
	// (a violating run may well lose pairs: undecodable batches are not classified)
	if os.Getenv("C18_ONLY") == "" && !total.TimedOut && total.ViolCases == 0 {
		var unseen []string
		for _, p := range expectedPairs(thorough) {
			if pairs[p] == 0 {
				unseen = append(unseen, p)
			}
		}
		if len(unseen) > 0 {
			ev.InfraError("the compact-prefix sub-grid became vacuous: width pairs never exercised: %v", unseen)
		}
	}
	r.Set("cases_in_grid", len(cases))
	r.Set("cases_shape_not_applicable", total.Skipped)
	r.Set("produce_frames_decoded", total.Frames)
	r.Set("batches_decoded", total.Batches)
	r.Set("batches_compressed", total.Comp)
	r.Set("records_decoded", total.Records)
	r.Set("records_rejected_message_too_large", total.Rejected)
	r.Set("records_that_had_to_be_rejected", total.MustRej)
	r.Set("records_with_negative_timestamp_delta", total.NegTs)
	r.Set("violating_cases", total.ViolCases)
	r.Set("worker_processes", workers)
	r.Set("bound_completed", fmt.Sprintf("%d of %d grid cases (%d more: shape not applicable)", total.Cases, len(cases), total.Skipped))
	if total.TimedOut {
		r.NotExhaustive("soft deadline reached before all cases ran")
	}
	if os.Getenv("C18_ONLY") != "" {
		r.NotExhaustive("C18_ONLY development filter")
	}

	keys := make([]string, 0, len(total.ByClass))
	for k := range total.ByClass {
		keys = append(keys, k)
	}
	sort.Strings(keys)
	for _, k := range keys {
		res := total.ByClass[k]
		cs, _ := parseCaseID(res.ID)
		var detail []string
		for _, v := range res.Viol {
			if violKey(v, cs.V) == k && len(detail) < 3 {
				detail = append(detail, v.Detail)
			}
		}
		var where []string
		for ck, n := range total.CountCl {
			if strings.HasPrefix(ck, k+"|") {
				where = append(where, fmt.Sprintf("%s: %d", ck[len(k)+1:], n))
			}
		}
		sort.Strings(where)
		r.Violation(k, fmt.Sprintf("%d cases (%s); simplest: %s\n%s\n%s", total.CountCl[k], strings.Join(where, ", "), res.ID, res.Note, strings.Join(detail, "\n")), res)
	}
	os.Exit(r.Write())
}

// violKey is the stable class of a violation: what went wrong, in which family
// of produce versions, and (size limits) a coarse magnitude.
func violKey(v violation, version int) string {
	k := v.Class + ":" + versionClass(version)
	if v.Sub != "" {
		k += ":" + v.Sub
	}
	return k
}

// versionClass groups produce versions by request / log format.
func versionClass(v int) string {
	switch {
	case v <= 2:
		return "message-set-v0-2"
	case v <= 8:
		return "v3-8"
	case v <= 12:
		return "flexible-v9-12"
	}
	return "topic-id-v13"
}

func replay(t *testing.T, arg string) int {
	var id string
	if strings.HasPrefix(arg, "case:") {
		id = arg[5:]
	} else {
		raw, err := os.ReadFile(arg)
		if err != nil {
			fmt.Println("replay:", err)
			return 2
		}
		var art struct {
			Artefact caseResult `json:"artefact"`
		}
		if err := json.Unmarshal(raw, &art); err != nil {
			fmt.Println("replay:", err)
			return 2
		}
		id = art.Artefact.ID
	}
	c, err := parseCaseID(id)
	if err != nil {
		fmt.Println("replay:", err)
		return 2
	}
	b, ok, err := build(c)
	if err != nil || !ok {
		fmt.Println("replay: case cannot be built:", err, "applicable:", ok)
		return 2
	}
	rel, _ := releaseFor(b.V)
	fmt.Printf("replaying %s\n  broker advertises Kafka %s with Produce capped at v%d; ProducerBatchMaxBytes=%d BrokerMaxWriteBytes=%d; %d warm-up + %d records\n  %s\n",
		b.id(), rel, b.V, b.BatchMax, b.WriteMax, len(b.Warm), len(b.Recs), b.Note)
	res := runCase(t, b, os.Getenv("C18_VERBOSE") != "")
	if res.Infra != "" {
		fmt.Println("INFRA-ERROR:", res.Infra)
		return 2
	}
	fmt.Printf("  frames: %v (limit %d)\n  batches written: %v (limit %d; largest before compression %d)\n  records written %d, rejected as too large %d (had to be: %d), compressed batches %d\n",
		res.FrameLens, res.WriteMax, res.BatchLens, res.BatchMax, res.MaxUncomp, res.Records, res.Rejected, res.MustReject, res.Compressed)
	for _, v := range res.Viol {
		fmt.Printf("VIOLATION class=%s: %s\n", v.Class, v.Detail)
	}
	if len(res.Viol) > 0 {
		return 1
	}
	fmt.Println("held")
	return 0
}

// selfTest: the independent request decoder inverts the reference encoder for
// every version, and kmsg reads the reference encoding the same way.
func selfTest() error {
	cid, txn := "client", "txn-id"
	for v := int16(0); v <= 13; v++ {
		p := &prodReq{Version: v, Corr: 7, ClientID: &cid, Acks: -1, TimeoutMs: 10000}
		if v >= 3 && v%2 == 1 {
			p.TxnID = &txn
		}
		for ti := 0; ti < 3; ti++ {
			t := reqTopic{Name: topicName(ti)}
			if v >= 13 {
				t.Name = ""
				t.ID[0], t.ID[15] = byte(ti+1), 9
			}
			for pi := 0; pi <= ti; pi++ {
				t.Parts = append(t.Parts, reqPart{Index: int32(pi), Records: fill(100*ti+pi*70, uint64(pi), false)})
			}
			p.Topics = append(p.Topics, t)
		}
		frame := encodeProduceFrame(p)
		q, err := decodeProduceFrame(frame)
		if err != nil {
			return fmt.Errorf("v%d: %v", v, err)
		}
		p.FrameLen = len(frame)
		a, _ := json.Marshal(p)
		b, _ := json.Marshal(q)
		if !bytes.Equal(a, b) {
			return fmt.Errorf("v%d: decode(encode(x)) != x\n%s\n%s", v, a, b)
		}
		j := &judge{b: &built{}, res: &caseResult{}}
		j.crossCheck(0, frame, q)
		if len(j.res.Viol) > 0 {
			return fmt.Errorf("v%d: kmsg disagrees with the reference encoding: %s", v, j.res.Viol[0].Detail)
		}
	}
	return nil
}
