#!/bin/bash
# C24 protocol tables. The lists of exported names that kerr / kmsg / kversion
# do not expose as values (known errors, Key constants, release constructors)
# are extracted from the source of the tree under test by checks/c24/gen and
# overlaid into the harness package as zz_tables_gen.go (nothing is written
# into the repository or into checks/).
set -eu
cd "$(dirname "$0")/../.."
. bin/env.sh
gen="$BUILD/c24_tables_gen.go"
go build -o "$BUILD/c24gen" ./checks/c24/gen || exit 2
"$BUILD/c24gen" "$REPO" "$gen" || exit 2
ov="$BUILD/c24-overlay.json"
printf '{"Replace":{"%s":"%s"}}\n' "$VERIF_ROOT/checks/c24/zz_tables_gen.go" "$gen" > "$ov"
go build -overlay="$ov" -o "$BUILD/c24" ./checks/c24 || exit 2
exec "$BUILD/c24" "$@"
