// C24: protocol tables are mutually consistent (pkg/kerr code table, pkg/kmsg
// key dispatch, pkg/kversion release tables).
//
// Bounded exhaustive exploration, engine Q: the complete int16 domain of every
// lookup function, and every named release x every int16 key. The lists of
// exported names that the packages do not expose (known errors, Key constants,
// release constructors) are extracted from the source of the tree under test
// by checks/c24/gen and overlaid as zz_tables_gen.go by run.sh.
package main

import (
	"encoding/json"
	"fmt"
	"math"
	"os"
	"reflect"
	"sort"

	"github.com/twmb/franz-go/pkg/kerr"
	"github.com/twmb/franz-go/pkg/kmsg"
	"github.com/twmb/franz-go/pkg/kversion"
	"verif.local/ev"
)

type namedAny struct {
	Name string
	V    any
}
type namedKey struct {
	Name string
	K    kmsg.Key
}
type namedVersions struct {
	Name string
	Fn   func() *kversion.Versions
}

// art is the replayable description of one failing table element.
type art struct {
	Table   string `json:"table"` // kerr | kerr-unique | kmsg | kmsg-const | kversion
	Code    int16  `json:"code,omitempty"`
	Key     int16  `json:"key,omitempty"`
	Release string `json:"release,omitempty"`
	Name    string `json:"name,omitempty"`
}

type failure struct {
	key, what string
	a         art
}

type checker struct {
	fails []failure
}

func (c *checker) fail(key, what string, a art) { c.fails = append(c.fails, failure{key, what, a}) }

// guard turns a panic inside a table lookup into a failure.
func (c *checker) guard(key string, a art, fn func()) {
	defer func() {
		if p := recover(); p != nil {
			c.fail(key+":panic", fmt.Sprintf("panic: %v", p), a)
		}
	}()
	fn()
}

// ---- kerr -------------------------------------------------------------------

// knownErrors returns the exported *kerr.Error variables by code.
func knownErrors() (byCode map[int16][]namedAny, n int) {
	byCode = map[int16][]namedAny{}
	for _, v := range genKerrVars {
		if e, ok := v.V.(*kerr.Error); ok && e != nil {
			byCode[e.Code] = append(byCode[e.Code], v)
			n++
		}
	}
	return byCode, n
}

func (c *checker) kerrCode(code int16, byCode map[int16][]namedAny) (class string) {
	a := art{Table: "kerr", Code: code}
	c.guard("C24:kerr", a, func() {
		e := kerr.ErrorForCode(code)
		te := kerr.TypedErrorForCode(code)
		exported := byCode[code]
		switch {
		case code == 0:
			class = "none"
			if e != nil {
				c.fail("C24:kerr:code0-not-nil", fmt.Sprintf("ErrorForCode(0) = %v, want nil", e), a)
			}
			if te != nil {
				c.fail("C24:kerr:code0-not-nil", fmt.Sprintf("TypedErrorForCode(0) = %v, want nil", te), a)
			}
			if len(exported) > 0 {
				c.fail("C24:kerr:code0-error", fmt.Sprintf("kerr.%s carries code 0, which means no error", exported[0].Name), a)
			}
		case e == nil:
			class = "nil"
			c.fail("C24:kerr:nil-for-nonzero", fmt.Sprintf("ErrorForCode(%d) = nil; only code 0 means no error", code), a)
		default:
			ke, ok := e.(*kerr.Error)
			if !ok || ke == nil {
				class = "foreign"
				c.fail("C24:kerr:not-kerr-error", fmt.Sprintf("ErrorForCode(%d) = %T, want *kerr.Error", code, e), a)
				return
			}
			if te != ke {
				c.fail("C24:kerr:typed-differs", fmt.Sprintf("TypedErrorForCode(%d) = %v but ErrorForCode(%d) = %v", code, te, code, ke), a)
			}
			if ke == kerr.UnknownServerError && code != kerr.UnknownServerError.Code {
				class = "unknown"
				// an unknown code; it must not be the code of any exported error
				if len(exported) > 0 {
					c.fail("C24:kerr:known-code-unmapped", fmt.Sprintf("kerr.%s has code %d but ErrorForCode(%d) = UNKNOWN_SERVER_ERROR", exported[0].Name, code, code), a)
				}
				return
			}
			class = "known"
			if ke.Code != code {
				c.fail("C24:kerr:wrong-code", fmt.Sprintf("ErrorForCode(%d) = %s which carries code %d", code, ke.Message, ke.Code), a)
			}
			for _, x := range exported {
				if x.V.(*kerr.Error) != ke {
					c.fail("C24:kerr:known-code-unmapped", fmt.Sprintf("kerr.%s has code %d but ErrorForCode(%d) = %s (code %d)", x.Name, code, code, ke.Message, ke.Code), a)
				}
			}
		}
	})
	return class
}

// kerrUnique: no two distinct exported errors share a code.
func (c *checker) kerrUnique(byCode map[int16][]namedAny) {
	codes := make([]int, 0, len(byCode))
	for code := range byCode {
		codes = append(codes, int(code))
	}
	sort.Ints(codes)
	for _, code := range codes {
		vs := byCode[int16(code)]
		for i := 1; i < len(vs); i++ {
			if vs[i].V.(*kerr.Error) != vs[0].V.(*kerr.Error) {
				c.fail("C24:kerr:duplicate-code", fmt.Sprintf("kerr.%s and kerr.%s are distinct errors with the same code %d", vs[0].Name, vs[i].Name, code),
					art{Table: "kerr-unique", Code: int16(code), Name: vs[i].Name})
			}
		}
	}
	if kerr.UnknownServerError == nil || kerr.UnknownServerError.Code != -1 {
		c.fail("C24:kerr:unknown-server-error-code", "kerr.UnknownServerError must carry code -1", art{Table: "kerr-unique", Code: -1})
	}
}

// ---- kmsg -------------------------------------------------------------------

func unknownName(s string) bool { return s == "" || s == "Unknown" }

func typeName(v any) string {
	t := reflect.TypeOf(v)
	if t == nil {
		return "<nil>"
	}
	for t.Kind() == reflect.Pointer {
		t = t.Elem()
	}
	return t.Name()
}

func (c *checker) kmsgKey(key int16) (defined bool) {
	a := art{Table: "kmsg", Key: key}
	c.guard("C24:kmsg", a, func() {
		req := kmsg.RequestForKey(key)
		resp := kmsg.ResponseForKey(key)
		name := kmsg.NameForKey(key)
		defined = req != nil
		if (resp != nil) != defined || !unknownName(name) != defined {
			c.fail("C24:kmsg:tables-disagree-on-defined", fmt.Sprintf("key %d: RequestForKey nil=%v, ResponseForKey nil=%v, NameForKey=%q", key, req == nil, resp == nil, name), a)
		}
		k := kmsg.Key(key)
		if k.Name() != name || (k.Request() != nil) != (req != nil) || (k.Response() != nil) != (resp != nil) || k.Int16() != key {
			c.fail("C24:kmsg:Key-helpers", fmt.Sprintf("kmsg.Key(%d) helper methods disagree with the *ForKey functions", key), a)
		}
		if req == nil || resp == nil {
			return
		}
		if key < 0 || key > kmsg.MaxKey {
			c.fail("C24:kmsg:beyond-MaxKey", fmt.Sprintf("key %d is defined (%s) but MaxKey is %d", key, name, kmsg.MaxKey), a)
		}
		if req.Key() != key || resp.Key() != key {
			c.fail("C24:kmsg:wrong-key", fmt.Sprintf("key %d (%s): request.Key()=%d response.Key()=%d", key, name, req.Key(), resp.Key()), a)
		}
		if req.MaxVersion() != resp.MaxVersion() || req.MaxVersion() < 0 {
			c.fail("C24:kmsg:max-version", fmt.Sprintf("key %d (%s): request.MaxVersion()=%d response.MaxVersion()=%d", key, name, req.MaxVersion(), resp.MaxVersion()), a)
		}
		rk := req.ResponseKind()
		if rk == nil || rk.Key() != key || reflect.TypeOf(rk) != reflect.TypeOf(resp) {
			c.fail("C24:kmsg:ResponseKind", fmt.Sprintf("key %d (%s): request.ResponseKind() is %T (key %v), ResponseForKey gives %T", key, name, rk, keyOf(rk), resp), a)
		}
		qk := resp.RequestKind()
		if qk == nil || qk.Key() != key || reflect.TypeOf(qk) != reflect.TypeOf(req) {
			c.fail("C24:kmsg:RequestKind", fmt.Sprintf("key %d (%s): response.RequestKind() is %T, RequestForKey gives %T", key, name, qk, req), a)
		}
		if reflect.TypeOf(k.Request()) != reflect.TypeOf(req) || reflect.TypeOf(k.Response()) != reflect.TypeOf(resp) {
			c.fail("C24:kmsg:Key-helpers", fmt.Sprintf("kmsg.Key(%d).Request()/Response() give %T/%T, want %T/%T", key, k.Request(), k.Response(), req, resp), a)
		}
		// request and response agree on the name: <Name>Request / <Name>Response
		if typeName(req) != name+"Request" || typeName(resp) != name+"Response" {
			c.fail("C24:kmsg:name", fmt.Sprintf("key %d: NameForKey=%q but the types are %s / %s", key, name, typeName(req), typeName(resp)), a)
		}
	})
	return defined
}

func keyOf(r kmsg.Response) any {
	if r == nil {
		return nil
	}
	return r.Key()
}

// kmsgConsts: the exported Key constants name exactly the defined keys.
func (c *checker) kmsgConsts(defined map[int16]bool) {
	seen := map[int16]string{}
	for _, k := range genKmsgKeys {
		a := art{Table: "kmsg-const", Key: int16(k.K), Name: k.Name}
		if !defined[int16(k.K)] {
			c.fail("C24:kmsg:const-undefined-key", fmt.Sprintf("kmsg.%s = %d but no request is defined for key %d", k.Name, k.K, k.K), a)
			continue
		}
		if n := kmsg.NameForKey(int16(k.K)); n != k.Name {
			c.fail("C24:kmsg:const-name", fmt.Sprintf("kmsg.%s = %d but NameForKey(%d) = %q", k.Name, k.K, k.K, n), a)
		}
		if prev, dup := seen[int16(k.K)]; dup {
			c.fail("C24:kmsg:const-duplicate", fmt.Sprintf("kmsg.%s and kmsg.%s are both key %d", prev, k.Name, k.K), a)
		}
		seen[int16(k.K)] = k.Name
	}
	for key := range defined {
		if _, ok := seen[key]; !ok {
			c.fail("C24:kmsg:const-missing", fmt.Sprintf("key %d (%s) is defined but has no kmsg.Key constant", key, kmsg.NameForKey(key)), art{Table: "kmsg-const", Key: key})
		}
	}
	if !defined[kmsg.MaxKey] {
		c.fail("C24:kmsg:MaxKey-undefined", fmt.Sprintf("MaxKey = %d but no request is defined for it", kmsg.MaxKey), art{Table: "kmsg", Key: kmsg.MaxKey})
	}
}

// ---- kversion -----------------------------------------------------------------

type release struct {
	name string
	get  func() *kversion.Versions
}

// releases enumerates every named release reachable through the package API:
// each VersionStrings() entry through FromString, and every exported
// func() *Versions (Stable, Tip, V0_8_0 ... ) found in the source.
func releases() []release {
	var out []release
	for _, s := range kversion.VersionStrings() {
		s := s
		out = append(out, release{"FromString(" + s + ")", func() *kversion.Versions { return kversion.FromString(s) }})
	}
	for _, f := range genKversionFuncs {
		out = append(out, release{f.Name + "()", f.Fn})
	}
	return out
}

// kversionRelease checks one release against every int16 key. Returns the
// number of (key, version) pairs the release defines.
func (c *checker) kversionRelease(rel release, onlyKey *int16) (pairs int) {
	a := art{Table: "kversion", Release: rel.name}
	c.guard("C24:kversion", a, func() {
		vs := rel.get()
		if vs == nil {
			c.fail("C24:kversion:nil-release", rel.name+" returned nil", a)
			return
		}
		each := map[int16]int16{}
		vs.EachMaxKeyVersion(func(k, v int16) {
			if _, dup := each[k]; dup {
				c.fail("C24:kversion:duplicate-key", fmt.Sprintf("%s: EachMaxKeyVersion reported key %d twice", rel.name, k), art{Table: "kversion", Release: rel.name, Key: k})
			}
			each[k] = v
		})
		pairs = len(each)
		for key := math.MinInt16; key <= math.MaxInt16; key++ {
			k := int16(key)
			if onlyKey != nil && *onlyKey != k {
				continue
			}
			ak := art{Table: "kversion", Release: rel.name, Key: k}
			v, has := vs.LookupMaxKeyVersion(k)
			ev, inEach := each[k]
			if has != inEach || (has && v != ev) || vs.HasKey(k) != has {
				c.fail("C24:kversion:lookup-vs-each", fmt.Sprintf("%s key %d: LookupMaxKeyVersion=(%d,%v) HasKey=%v EachMaxKeyVersion=(%d,%v)", rel.name, k, v, has, vs.HasKey(k), ev, inEach), ak)
			}
			if !has {
				continue
			}
			req := kmsg.RequestForKey(k)
			if req == nil {
				c.fail("C24:kversion:undefined-key", fmt.Sprintf("%s allows key %d up to version %d but kmsg defines no request for that key", rel.name, k, v), ak)
				continue
			}
			if v < 0 || v > req.MaxVersion() {
				c.fail("C24:kversion:beyond-codec-max", fmt.Sprintf("%s allows %s (key %d) version %d but the codec encodes at most version %d", rel.name, kmsg.NameForKey(k), k, v, req.MaxVersion()), ak)
			}
		}
	})
	return pairs
}

// ---- driver ------------------------------------------------------------------

func main() {
	if len(os.Args) == 3 && os.Args[1] == "--replay" {
		replay(os.Args[2])
		return
	}
	r := ev.New("C24", "exploration")
	r.Rule("one case = one int16 argument of one table lookup (error code, API key) or one (named release, int16 key) pair; the int16 domain is enumerated completely by counter; " +
		"distinct_nontrivial counts the non-default cells: known error codes, defined API keys, and (release, key) pairs the release defines")
	r.Assume("the names listed by checks/c24/gen (exported vars of pkg/kerr, Key constants of pkg/kmsg, exported func() *Versions of pkg/kversion) are parsed from the source of the tree under test with go/parser",
		"the codec's limit for a key is RequestForKey(key).MaxVersion()",
		"NameForKey marks unknown keys by \"\" or \"Unknown\"",
		"release tables that the package does not expose (KRaft controller releases, KRaft broker releases before 4.0) are only seen through Stable()'s merge")
	c := &checker{}
	report := func() {
		for _, f := range c.fails {
			r.Violation(f.key, f.what, f.a)
		}
		c.fails = nil
	}

	// 1. error codes
	byCode, nErr := knownErrors()
	classes := map[string]int{}
	for code := math.MinInt16; code <= math.MaxInt16; code++ {
		cl := c.kerrCode(int16(code), byCode)
		classes[cl]++
		if cl == "known" {
			r.Distinct(fmt.Sprintf("kerr/%d", code))
		}
	}
	c.kerrUnique(byCode)
	report()
	r.Evals(2 * 65536) // ErrorForCode and TypedErrorForCode
	r.Set("kerr_exported_errors", nErr)
	r.Set("kerr_code_classes", classes)
	if nErr < 2 {
		ev.InfraError("only %d exported *kerr.Error found: the generator missed them", nErr)
	}

	// 2. API keys
	defined := map[int16]bool{}
	for key := math.MinInt16; key <= math.MaxInt16; key++ {
		if c.kmsgKey(int16(key)) {
			defined[int16(key)] = true
			r.Distinct(fmt.Sprintf("kmsg/%d", key))
		}
	}
	c.kmsgConsts(defined)
	report()
	r.Evals(3 * 65536) // RequestForKey, ResponseForKey, NameForKey
	r.Set("kmsg_defined_keys", len(defined))
	r.Set("kmsg_MaxKey", kmsg.MaxKey)
	r.Set("kmsg_key_constants", len(genKmsgKeys))

	// 3. releases x keys
	rels := releases()
	names := []string{}
	pairs := 0
	for _, rel := range rels {
		n := c.kversionRelease(rel, nil)
		pairs += n
		names = append(names, fmt.Sprintf("%s:%d keys", rel.name, n))
		vs := rel.get()
		if vs != nil {
			vs.EachMaxKeyVersion(func(k, v int16) { r.Distinct(fmt.Sprintf("kversion/%s/%d", rel.name, k)) })
		}
		r.Evals(65536)
	}
	report()
	r.Set("kversion_releases", len(rels))
	r.Set("kversion_release_key_pairs", pairs)
	r.Set("kversion_release_list", names)
	if len(kversion.VersionStrings()) == 0 {
		ev.InfraError("kversion.VersionStrings() is empty")
	}

	r.Sample(map[string]any{"table": "kerr", "code": 133, "error": fmt.Sprint(kerr.ErrorForCode(133))})
	r.Sample(map[string]any{"table": "kerr", "code": 134, "error": fmt.Sprint(kerr.ErrorForCode(134))})
	if req := kmsg.RequestForKey(kmsg.MaxKey); req != nil {
		r.Sample(map[string]any{"table": "kmsg", "key": kmsg.MaxKey, "name": kmsg.NameForKey(kmsg.MaxKey), "max_version": req.MaxVersion()})
	}
	if r.Violations() == 0 {
		if v, ok := kversion.Stable().LookupMaxKeyVersion(1); ok {
			r.Sample(map[string]any{"table": "kversion", "release": "Stable()", "key": 1, "version": v, "codec_max": kmsg.RequestForKey(1).MaxVersion()})
		}
	}
	r.Set("bound_completed", "all 65536 error codes; all 65536 API keys; every named release x all 65536 keys")
	r.Finish()
}

// replay re-runs the table element named by one violation file.
func replay(path string) {
	b, err := os.ReadFile(path)
	if err != nil {
		ev.InfraError("%v", err)
	}
	var f struct {
		Key      string `json:"key"`
		Artefact art    `json:"artefact"`
	}
	if err := json.Unmarshal(b, &f); err != nil {
		ev.InfraError("%v", err)
	}
	c := &checker{}
	a := f.Artefact
	byCode, _ := knownErrors()
	switch a.Table {
	case "kerr":
		c.kerrCode(a.Code, byCode)
	case "kerr-unique":
		c.kerrUnique(byCode)
	case "kmsg":
		c.kmsgKey(a.Key)
		if a.Key == kmsg.MaxKey && kmsg.RequestForKey(a.Key) == nil {
			c.fail("C24:kmsg:MaxKey-undefined", "MaxKey has no request", a)
		}
	case "kmsg-const":
		defined := map[int16]bool{}
		for key := math.MinInt16; key <= math.MaxInt16; key++ {
			if kmsg.RequestForKey(int16(key)) != nil {
				defined[int16(key)] = true
			}
		}
		c.kmsgConsts(defined)
	case "kversion":
		for _, rel := range releases() {
			if rel.name == a.Release {
				k := a.Key
				c.kversionRelease(rel, &k)
			}
		}
	default:
		ev.InfraError("unknown artefact table %q", a.Table)
	}
	for _, x := range c.fails {
		fmt.Printf("  key=%s\n  %s\n", x.key, x.what)
	}
	if len(c.fails) > 0 {
		fmt.Printf("replay %s: VIOLATED (%d)\n", f.Key, len(c.fails))
		os.Exit(1)
	}
	fmt.Printf("replay %s: holds\n", f.Key)
}
