// Package c32 is the check for property C32 "kfake behaves like a Kafka
// partition log". Everything lives in _test.go files because every history is
// executed inside a testing/synctest bubble (virtual clock for transaction
// timeouts); run.sh compiles the package with `go test -c` and runs
// TestVerifC32.
package c32
