package c32

import (
	"fmt"
	"os"
	"testing"
)

// TestC32Count prints the size of the history space per depth (development aid:
// C32_COUNT=<depth> go test -run TestC32Count).
func TestC32Count(t *testing.T) {
	d := envInt("C32_COUNT", 0)
	if d == 0 {
		t.Skip("set C32_COUNT")
	}
	for k := 1; k <= d; k++ {
		var n, withTxn int64
		mask := fullMask
		if os.Getenv("C32_COUNT_DEEP") != "" {
			mask = deepMask
		}
		if os.Getenv("C32_COUNT_TRIO") != "" {
			mask = trioMask
		}
		enumerate(newModel(false), nil, k, mask, func(h []sym) {
			n++
			if firstOf(h, 1<<sT3) >= 0 || (mask == fullMask && firstOf(h, txnSyms) >= 0) {
				withTxn++
			}
		})
		fmt.Fprintf(os.Stdout, "depth %d: histories %d, with T (T3 in the trio pass) %d\n", k, n, withTxn)
	}
}
