#!/bin/bash
# C32: kfake behaves like a Kafka partition log (bounded exhaustive history
# exploration through a raw protocol client, each history in a synctest bubble).
#   run.sh                      run the tier in $VERIF_TIER
#   run.sh --replay <artefact>  re-run one violation artefact verbosely
#   run.sh --replay 'hist:T1 P A1 G'   (or hist890:...) re-run a literal history
set -eu
cd "$(dirname "$0")/../.."
. bin/env.sh
if [ "${1:-}" = "--replay" ]; then
  export C32_REPLAY="$2"
fi
go test -c -p 4 -vet=off -tags synctests -o "$BUILD/c32.test" ./checks/c32
exec "$BUILD/c32.test" -test.run '^TestVerifC32$' -test.timeout 0
