package c32

import (
	"context"
	"encoding/json"
	"fmt"
	"os"
	"sort"
	"strconv"
	"sync"
	"sync/atomic"
	"testing"
	"testing/synctest"
	"time"

	"github.com/twmb/franz-go/pkg/kfake"
	"verif.local/ev"
)

// runHistory executes one history on a fresh single-broker kfake cluster
// inside its own synctest bubble. Steps with index >= checkFrom are followed
// by the full observation (those prefixes have not been observed by an
// earlier execution). onState is called with the model after each observed
// step.
func runHistory(t *testing.T, hist []sym, tv2 bool, checkFrom int, verbose bool, onState func(m *model)) (viol *violation, infra error, final *model, requests int64) {
	synctest.Test(t, func(t *testing.T) {
		var vnet kfake.VirtualNetwork
		c, err := kfake.NewCluster(
			kfake.NumBrokers(1),
			kfake.Ports(9092),
			kfake.SeedTopics(2, topic),
			kfake.ListenFn(vnet.Listen),
		)
		if err != nil {
			infra = fmt.Errorf("NewCluster: %w", err)
			return
		}
		defer c.Close()
		conn, err := vnet.DialContext(context.Background(), "tcp", c.ListenAddrs()[0])
		if err != nil {
			infra = fmt.Errorf("dial: %w", err)
			return
		}
		defer conn.Close()
		h := &harness{conn: &rawConn{c: conn}, verbose: verbose}
		m := &model{tv2: tv2}
		m.prods[1].first, m.prods[2].first = -1, -1
		final = m
		for i, s := range hist {
			if !m.enabled(s) {
				infra = fmt.Errorf("history %q: step %d (%s) not enabled", histString(hist), i, symName[s])
				return
			}
			m.exec(s, h)
			if !h.bad() && i >= checkFrom {
				m.observe(h)
				if !h.bad() && onState != nil {
					onState(m)
				}
			}
			if h.bad() {
				break
			}
		}
		viol, infra = h.viol, h.infra
		requests = h.conn.nreq
	})
	return
}

type unit struct {
	prefix  []sym
	lcpPrev int
}

func lcp(a, b []sym) int {
	n := 0
	for n < len(a) && n < len(b) && a[n] == b[n] {
		n++
	}
	return n
}

func newModel(tv2 bool) *model {
	m := &model{tv2: tv2}
	m.prods[1].first, m.prods[2].first = -1, -1
	return m
}

// enumerate calls leaf for every enabled history of exactly `depth` steps
// extending prefix, in lexicographic order.
func enumerate(m *model, hist []sym, depth int, leaf func(h []sym)) {
	if len(hist) == depth {
		leaf(hist)
		return
	}
	for s := sym(0); s < nSym; s++ {
		if !m.enabled(s) {
			continue
		}
		c := m.clone()
		c.exec(s, nil)
		enumerate(c, append(hist, s), depth, leaf)
	}
}

func genUnits(tv2 bool, unitLen int) []unit {
	var us []unit
	var prev []sym
	enumerate(newModel(tv2), nil, unitLen, func(h []sym) {
		u := unit{prefix: append([]sym(nil), h...)}
		if prev != nil {
			u.lcpPrev = lcp(prev, h)
		}
		prev = u.prefix
		us = append(us, u)
	})
	return us
}

func hasTxn(h []sym) int {
	for i, s := range h {
		if s == sT1 || s == sT2 {
			return i
		}
	}
	return -1
}

type found struct {
	Hist   string    `json:"history"`
	TV2    bool      `json:"kip890_flavour"`
	Viol   violation `json:"violation"`
	length int
}

type agg struct {
	mu        sync.Mutex
	byKey     map[string]*found
	countKey  map[string]int64
	infra     error
	states    map[uint64]struct{}
	statesCap bool
}

const maxStates = 6_000_000

func (a *agg) addStates(local map[uint64]struct{}) {
	a.mu.Lock()
	for k := range local {
		if len(a.states) >= maxStates {
			a.statesCap = true
			break
		}
		a.states[k] = struct{}{}
	}
	a.mu.Unlock()
}

func envInt(k string, def int) int {
	if v, err := strconv.Atoi(os.Getenv(k)); err == nil {
		return v
	}
	return def
}

func TestVerifC32(t *testing.T) {
	if p := os.Getenv("C32_REPLAY"); p != "" {
		os.Exit(replay(t, p))
	}
	r := ev.New("C32", "model_checking")
	depth, depthTV2 := 5, 4
	if ev.Thorough() {
		depth, depthTV2 = 6, 6
	}
	depth = envInt("C32_DEPTH", depth)
	depthTV2 = envInt("C32_DEPTH_TV2", depthTV2)
	deadline := ev.Deadline(6*time.Minute, 50*time.Minute)

	r.Rule("every history of exactly d steps (all shorter histories are its prefixes and are observed once each) over the alphabet " +
		"{I idempotent produce p0, R retry of last idempotent batch, O idempotent produce with sequence gap, P plain produce p0, Q plain produce p1, " +
		"T1/T2 transactional produce p0 by producer 1/2, C1/A1/C2/A2 EndTxn commit/abort, X virtual clock +6s (transaction timeouts 4s/9s), " +
		"D DeleteRecords(p0, logStart+1), F/G read_uncommitted/read_committed incremental-fetch-session request}; a symbol is enabled when the reference model says so " +
		"(R,O after an I; C/A/X with an open transaction; D while logStart<HWM); batches carry 1 or 2 records by step parity; each history runs on a fresh 1-broker kfake " +
		"cluster (1 topic, 2 partitions) in its own synctest bubble, driven by hand-framed kmsg requests on one connection. Two protocol flavours: classic " +
		"(AddPartitionsToTxn + Produce v11 + EndTxn v4) and KIP-890 (Produce v12 implicit add + EndTxn v5 epoch bump; only histories containing T1/T2). " +
		"distinct_nontrivial = distinct reference-model states reached and validated against kfake")
	r.Assume("kfake is deterministic for a given request sequence on one connection (each history prefix is observed in one execution only)",
		"the reference model (lists of batches, transaction outcomes, log start, per-session last-seen triples) is the specification; LSO with a log start beyond an open transaction's first offset follows the statement literally (first offset of the open transaction)",
		"sequence numbers stay far from 2^31 (wrap is C29's subject)",
		"testing/synctest virtual time: nothing but the harness' Sleep advances the clock")

	a := &agg{byKey: map[string]*found{}, countKey: map[string]int64{}, states: map[uint64]struct{}{}}
	var leaves, nodes, steps, requests, violHist atomic.Int64
	var cov coverage
	var covMu sync.Mutex
	timedOut := atomic.Bool{}

	type job struct {
		tv2   bool
		depth int
		u     unit
	}
	var jobs []job
	for _, fl := range []struct {
		tv2 bool
		d   int
	}{{false, depth}, {true, depthTV2}} {
		if fl.d <= 0 {
			continue
		}
		ul := 3
		if fl.d < 4 {
			ul = 1
		}
		for _, u := range genUnits(fl.tv2, ul) {
			jobs = append(jobs, job{fl.tv2, fl.d, u})
		}
	}
	var next atomic.Int64
	workers := ev.Workers()
	var wg sync.WaitGroup
	for w := 0; w < workers; w++ {
		wg.Add(1)
		go func() {
			defer wg.Done()
			for {
				i := int(next.Add(1) - 1)
				if i >= len(jobs) {
					return
				}
				j := jobs[i]
				local := map[uint64]struct{}{}
				var lLeaves, lNodes, lSteps, lReq int64
				var lcov coverage
				var prev []sym
				first := true
				m := newModel(j.tv2)
				for _, s := range j.u.prefix {
					m.exec(s, nil)
				}
				enumerate(m, append([]sym(nil), j.u.prefix...), j.depth, func(h []sym) {
					if timedOut.Load() {
						return
					}
					if time.Now().After(deadline) {
						timedOut.Store(true)
						return
					}
					checkFrom := 0
					if first {
						checkFrom = j.u.lcpPrev
					} else {
						checkFrom = lcp(prev, h)
					}
					if j.tv2 {
						ft := hasTxn(h)
						if ft < 0 {
							return // identical to the classic flavour
						}
						if ft > checkFrom {
							checkFrom = ft
						}
					}
					first = false
					prev = append(prev[:0], h...)
					viol, infra, fm, nreq := runHistory(t, h, j.tv2, checkFrom, false, func(m *model) {
						local[m.hash()] = struct{}{}
						lNodes++
					})
					lLeaves++
					lReq += nreq
					if fm != nil {
						lSteps += int64(fm.step)
						lcov.sessIncluded += fm.cov.sessIncluded
						lcov.sessOmitted += fm.cov.sessOmitted
						lcov.sessIncr += fm.cov.sessIncr
						lcov.rcAbortedHidden += fm.cov.rcAbortedHidden
					}
					if infra != nil {
						a.mu.Lock()
						if a.infra == nil {
							a.infra = fmt.Errorf("history %q (kip890=%v): %w", histString(h), j.tv2, infra)
						}
						a.mu.Unlock()
						timedOut.Store(true)
						return
					}
					if viol != nil {
						violHist.Add(1)
						trunc := h[:viol.Step+1]
						key := viol.Class + "@" + viol.Sym
						f := &found{Hist: histString(trunc), TV2: j.tv2, Viol: *viol, length: len(trunc)}
						a.mu.Lock()
						a.countKey[key]++
						if old := a.byKey[key]; old == nil || f.length < old.length || (f.length == old.length && (f.Hist < old.Hist || (f.Hist == old.Hist && !f.TV2 && old.TV2))) {
							a.byKey[key] = f
						}
						a.mu.Unlock()
					}
				})
				leaves.Add(lLeaves)
				nodes.Add(lNodes)
				steps.Add(lSteps)
				requests.Add(lReq)
				a.addStates(local)
				covMu.Lock()
				cov.sessIncluded += lcov.sessIncluded
				cov.sessOmitted += lcov.sessOmitted
				cov.sessIncr += lcov.sessIncr
				cov.rcAbortedHidden += lcov.rcAbortedHidden
				covMu.Unlock()
			}
		}()
	}
	wg.Wait()
	if a.infra != nil {
		ev.InfraError("%v", a.infra)
	}

	for k := range a.states {
		r.DistinctHash(k)
	}
	r.Evals(leaves.Load())
	r.States(nodes.Load())
	r.Transitions(steps.Load())
	r.Traces(leaves.Load())
	r.Set("depth_classic", depth)
	r.Set("depth_kip890", depthTV2)
	r.Set("bound_completed", fmt.Sprintf("all histories of length <= %d (classic flavour), <= %d (KIP-890 flavour, histories with a transactional produce)", depth, depthTV2))
	r.Set("histories_observed_distinct_prefixes", nodes.Load())
	r.Set("histories_executed_maximal", leaves.Load())
	r.Set("distinct_model_states", len(a.states))
	r.Set("distinct_model_states_capped", a.statesCap)
	r.Set("protocol_requests", requests.Load())
	r.Set("session_incremental_requests", cov.sessIncr)
	r.Set("session_partitions_included", cov.sessIncluded)
	r.Set("session_partitions_omitted_unchanged", cov.sessOmitted)
	r.Set("read_committed_fetches_hiding_aborted_data", cov.rcAbortedHidden)
	r.Set("violating_histories", violHist.Load())
	r.Set("alphabet", symName[:])
	if timedOut.Load() {
		r.NotExhaustive("soft deadline reached before all histories were executed")
	}
	for _, h := range []string{"T1 P A1 G", "I R O I", "T1 T2 X X G", "P P D D F F"} {
		r.Sample(map[string]any{"history": h, "note": "one of the enumerated histories (symbols as in rule)"})
	}

	keys := make([]string, 0, len(a.byKey))
	for k := range a.byKey {
		keys = append(keys, k)
	}
	sort.Slice(keys, func(i, j int) bool {
		if a.byKey[keys[i]].length != a.byKey[keys[j]].length {
			return a.byKey[keys[i]].length < a.byKey[keys[j]].length
		}
		return keys[i] < keys[j]
	})
	for _, k := range keys {
		f := a.byKey[k]
		r.Violation(k, fmt.Sprintf("shortest failing history (of %d with this key): %q (kip890 flavour=%v)\nafter step %d (%s): %s",
			a.countKey[k], f.Hist, f.TV2, f.Viol.Step, f.Viol.Sym, f.Viol.Detail), f)
	}
	code := r.Write()
	if os.Getenv("C32_NOEXIT") != "" { // lets -test.cpuprofile flush; development aid only
		return
	}
	os.Exit(code)
}

// replay re-runs the history of a violation artefact (or a literal history
// given as "hist:T1 P A1 G" / "hist890:...") verbosely and prints the verdict.
func replay(t *testing.T, path string) int {
	var f found
	if len(path) > 5 && path[:5] == "hist:" {
		f.Hist = path[5:]
	} else if len(path) > 8 && path[:8] == "hist890:" {
		f.Hist, f.TV2 = path[8:], true
	} else {
		b, err := os.ReadFile(path)
		if err != nil {
			fmt.Println("replay:", err)
			return 2
		}
		var art struct {
			Artefact found `json:"artefact"`
		}
		if err := json.Unmarshal(b, &art); err != nil {
			fmt.Println("replay:", err)
			return 2
		}
		f = art.Artefact
	}
	h, err := parseHist(f.Hist)
	if err != nil {
		fmt.Println("replay:", err)
		return 2
	}
	fmt.Printf("replaying %q (kip890 flavour=%v)\n", f.Hist, f.TV2)
	viol, infra, m, _ := runHistory(t, h, f.TV2, 0, true, nil)
	if infra != nil {
		fmt.Println("INFRA-ERROR:", infra)
		return 2
	}
	if m != nil {
		for p := range m.parts {
			fmt.Printf("  model p%d: logStart=%d hwm=%d lso=%d\n", p, m.parts[p].start, m.parts[p].hwm, m.lso(p))
			for i := range m.parts[p].log {
				fmt.Printf("    %v\n", &m.parts[p].log[i])
			}
		}
	}
	if viol != nil {
		fmt.Printf("VIOLATION key=%s@%s after step %d: %s\n", viol.Class, viol.Sym, viol.Step, viol.Detail)
		return 1
	}
	fmt.Println("held")
	return 0
}
