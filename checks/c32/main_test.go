package c32

import (
	"bytes"
	"context"
	"encoding/binary"
	"encoding/json"
	"fmt"
	"os"
	"os/exec"
	"runtime/debug"
	"sort"
	"strconv"
	"testing"
	"testing/synctest"
	"time"

	"github.com/twmb/franz-go/pkg/kfake"
	"verif.local/ev"
)

// runHistory executes one history on a fresh single-broker kfake cluster
// inside its own synctest bubble. Steps with index >= checkFrom are followed
// by the full observation (those prefixes have not been observed by an
// earlier execution). onState is called with the model after each observed
// step.
func runHistory(t *testing.T, hist []sym, tv2 bool, checkFrom int, verbose bool, onState func(m *model)) (viol *violation, infra error, final *model, requests int64) {
	synctest.Test(t, func(t *testing.T) {
		var vnet kfake.VirtualNetwork
		c, err := kfake.NewCluster(
			kfake.NumBrokers(1),
			kfake.Ports(9092),
			kfake.SeedTopics(2, topic),
			kfake.ListenFn(vnet.Listen),
		)
		if err != nil {
			infra = fmt.Errorf("NewCluster: %w", err)
			return
		}
		defer c.Close()
		conn, err := vnet.DialContext(context.Background(), "tcp", c.ListenAddrs()[0])
		if err != nil {
			infra = fmt.Errorf("dial: %w", err)
			return
		}
		defer conn.Close()
		h := &harness{conn: &rawConn{c: conn}, verbose: verbose}
		m := newModel(tv2)
		final = m
		for i, s := range hist {
			if !m.enabled(s) {
				infra = fmt.Errorf("history %q: step %d (%s) not enabled", histString(hist), i, symName[s])
				return
			}
			m.exec(s, h)
			if !h.bad() && i >= checkFrom {
				m.observe(h)
				if !h.bad() && onState != nil {
					onState(m)
				}
			}
			if h.bad() {
				break
			}
		}
		viol, infra = h.viol, h.infra
		requests = h.conn.nreq
	})
	return
}

type unit struct {
	prefix  []sym
	lcpPrev int
}

func lcp(a, b []sym) int {
	n := 0
	for n < len(a) && n < len(b) && a[n] == b[n] {
		n++
	}
	return n
}

func newModel(tv2 bool) *model {
	m := &model{tv2: tv2}
	for k := range m.prods {
		m.prods[k].first = -1
	}
	return m
}

// enumerate calls leaf for every enabled history of exactly `depth` steps
// extending prefix, in lexicographic order.
func enumerate(m *model, hist []sym, depth int, mask uint32, leaf func(h []sym)) {
	if len(hist) == depth {
		leaf(hist)
		return
	}
	for s := sym(0); s < nSym; s++ {
		if mask&(1<<s) == 0 || !m.enabled(s) {
			continue
		}
		c := m.clone()
		c.exec(s, nil)
		enumerate(c, append(hist, s), depth, mask, leaf)
	}
}

// baseMask: the 15 symbols common to both flavours.
const baseMask = uint32(1)<<sT3 - 1

// fullMask is the main alphabet of the classic flavour: baseMask plus N1/N2
// (AddPartitionsToTxn without data). fullMask890 is the KIP-890 flavour's
// (no explicit AddPartitionsToTxn there).
const (
	fullMask    = baseMask | 1<<sN1 | 1<<sN2
	fullMask890 = baseMask | 1<<sS1 | 1<<sS2 // S1/S2 are never enabled unless C32_STALE is set
)

// trioMask is the alphabet of the three-producer pass: three concurrently open
// transactions, so that ending one leaves a minimum over two others.
const trioMask = uint32(1)<<sP | 1<<sT1 | 1<<sT2 | 1<<sT3 | 1<<sC1 | 1<<sA1 | 1<<sC2 | 1<<sA2 | 1<<sC3 | 1<<sA3 | 1<<sX | 1<<sG

// deepMask is the transaction/session-focused sub-alphabet of the deep pass.
const deepMask = uint32(1)<<sP | 1<<sT1 | 1<<sT2 | 1<<sC1 | 1<<sA1 | 1<<sA2 | 1<<sX | 1<<sD | 1<<sG

func maskNames(mask uint32) []string {
	var out []string
	for s := sym(0); s < nSym; s++ {
		if mask&(1<<s) != 0 {
			out = append(out, symName[s])
		}
	}
	return out
}

func genUnits(tv2 bool, unitLen int, mask uint32) []unit {
	var us []unit
	var prev []sym
	enumerate(newModel(tv2), nil, unitLen, mask, func(h []sym) {
		u := unit{prefix: append([]sym(nil), h...)}
		if prev != nil {
			u.lcpPrev = lcp(prev, h)
		}
		prev = u.prefix
		us = append(us, u)
	})
	return us
}

// firstOf returns the index of the first symbol of h that is in mask, or -1.
func firstOf(h []sym, mask uint32) int {
	for i, s := range h {
		if mask&(1<<s) != 0 {
			return i
		}
	}
	return -1
}

const txnSyms = uint32(1)<<sT1 | 1<<sT2 | 1<<sT3

type found struct {
	Hist   string    `json:"history"`
	TV2    bool      `json:"kip890_flavour"`
	Viol   violation `json:"violation"`
	Length int       `json:"length"`
}

func better(f, old *found) bool {
	if old == nil || f.Length != old.Length {
		return old == nil || f.Length < old.Length
	}
	if f.Hist != old.Hist {
		return f.Hist < old.Hist
	}
	return !f.TV2 && old.TV2
}

// childResult is what one worker process reports to the coordinator.
type childResult struct {
	Leaves, Nodes, Steps, Requests, ViolHist int64
	Cov                                      coverage
	TimedOut                                 bool
	Infra                                    string
	ByKey                                    map[string]*found
	CountKey                                 map[string]int64
}

type job struct {
	tv2      bool
	depth    int
	mask     uint32
	need     uint32 // only histories containing one of these symbols (the others belong to another pass)
	minDepth int    // histories of length <= minDepth were observed by another pass
	u        unit
}

// depths returns the history-length bounds of the four passes: full alphabet
// in the classic and in the KIP-890 flavour, the deep pass over the focused
// sub-alphabet and the three-producer pass (0 = off). The C32_DEPTH* variables
// are development overrides.
func depths() (classic, tv2, deep, trio int) {
	classic, tv2, deep, trio = 5, 5, 0, 5
	if ev.Thorough() {
		classic, tv2, deep, trio = 6, 6, 8, 6
	}
	return envInt("C32_DEPTH", classic), envInt("C32_DEPTH_TV2", tv2), envInt("C32_DEPTH_DEEP", deep), envInt("C32_DEPTH_TRIO", trio)
}

func allJobs() []job {
	depth, depthTV2, deep, trio := depths()
	var jobs []job
	for _, fl := range []struct {
		tv2  bool
		d    int
		mask uint32
		need uint32
		min  int
	}{
		{false, depth, fullMask, 0, 0},
		{true, depthTV2, fullMask890, txnSyms, 0}, // without a transactional produce both flavours send identical requests
		{false, trio, trioMask, 1 << sT3, 0},
		{false, deep, deepMask, 0, depth},
	} {
		if fl.d <= fl.min {
			continue
		}
		ul := 3 // work units = prefixes of this length, dealt round-robin to the workers
		if fl.d < 4 {
			ul = 1
		} else if fl.d >= 7 {
			ul = 4
		}
		for _, u := range genUnits(fl.tv2, ul, fl.mask) {
			jobs = append(jobs, job{fl.tv2, fl.d, fl.mask, fl.need, fl.min, u})
		}
	}
	return jobs
}

func envInt(k string, def int) int {
	if v, err := strconv.Atoi(os.Getenv(k)); err == nil {
		return v
	}
	return def
}

// runJobs executes jobs idx, idx+stride, ... sequentially (one bubble at a time).
func runJobs(t *testing.T, jobs []job, idx, stride int, deadline time.Time, states map[uint64]struct{}) *childResult {
	res := &childResult{ByKey: map[string]*found{}, CountKey: map[string]int64{}}
	for i := idx; i < len(jobs) && !res.TimedOut && res.Infra == ""; i += stride {
		j := jobs[i]
		var prev []sym
		first := true
		m := newModel(j.tv2)
		for _, s := range j.u.prefix {
			m.exec(s, nil)
		}
		enumerate(m, append([]sym(nil), j.u.prefix...), j.depth, j.mask, func(h []sym) {
			if res.TimedOut || res.Infra != "" {
				return
			}
			if time.Now().After(deadline) {
				res.TimedOut = true
				return
			}
			checkFrom := 0
			if first {
				checkFrom = j.u.lcpPrev
			} else {
				checkFrom = lcp(prev, h)
			}
			if j.need != 0 {
				ft := firstOf(h, j.need)
				if ft < 0 {
					return // covered by another pass
				}
				if ft > checkFrom {
					checkFrom = ft
				}
			}
			if j.minDepth > checkFrom {
				checkFrom = j.minDepth // shorter prefixes belong to the full-alphabet pass
			}
			first = false
			prev = append(prev[:0], h...)
			viol, infra, fm, nreq := runHistory(t, h, j.tv2, checkFrom, false, func(m *model) {
				states[m.hash()] = struct{}{}
				res.Nodes++
			})
			res.Leaves++
			res.Requests += nreq
			if fm != nil {
				res.Steps += int64(fm.step)
				res.Cov.SessIncluded += fm.cov.SessIncluded
				res.Cov.SessOmitted += fm.cov.SessOmitted
				res.Cov.SessIncr += fm.cov.SessIncr
				res.Cov.RcAbortedHidden += fm.cov.RcAbortedHidden
			}
			if infra != nil {
				res.Infra = fmt.Sprintf("history %q (kip890=%v): %v", histString(h), j.tv2, infra)
				return
			}
			if viol != nil && checkFrom > 0 {
				// Unobserved earlier steps may already have been wrong: re-run
				// observing every step so that the key names the first failing step.
				if v2, _, _, _ := runHistory(t, h, j.tv2, 0, false, nil); v2 != nil {
					viol = v2
				}
			}
			if viol != nil {
				res.ViolHist++
				trunc := h[:viol.Step+1]
				key := viol.Class + "@" + viol.Sym
				f := &found{Hist: histString(trunc), TV2: j.tv2, Viol: *viol, Length: len(trunc)}
				res.CountKey[key]++
				if better(f, res.ByKey[key]) {
					res.ByKey[key] = f
				}
			}
		})
	}
	return res
}

// childMain is one worker process: GOMAXPROCS=1, every idx-th job.
func childMain(t *testing.T, spec string) int {
	var idx, n int
	if _, err := fmt.Sscanf(spec, "%d/%d", &idx, &n); err != nil || n <= 0 {
		fmt.Fprintln(os.Stderr, "bad C32_CHILD", spec)
		return 2
	}
	out := os.Getenv("C32_OUT")
	dl, _ := strconv.ParseInt(os.Getenv("C32_DEADLINE"), 10, 64)
	states := map[uint64]struct{}{}
	res := runJobs(t, allJobs(), idx, n, time.Unix(dl, 0), states)
	b, _ := json.Marshal(res)
	if err := os.WriteFile(out+".json", b, 0o644); err != nil {
		fmt.Fprintln(os.Stderr, err)
		return 2
	}
	sb := make([]byte, 0, 8*len(states))
	for k := range states {
		sb = binary.LittleEndian.AppendUint64(sb, k)
	}
	if err := os.WriteFile(out+".states", sb, 0o644); err != nil {
		fmt.Fprintln(os.Stderr, err)
		return 2
	}
	return 0
}

const maxStates = 8_000_000

func TestVerifC32(t *testing.T) {
	if os.Getenv("GOGC") == "" {
		debug.SetGCPercent(400)
	}
	if p := os.Getenv("C32_REPLAY"); p != "" {
		os.Exit(replay(t, p))
	}
	if spec := os.Getenv("C32_CHILD"); spec != "" {
		code := childMain(t, spec)
		if os.Getenv("C32_NOEXIT") != "" { // lets -test.cpuprofile flush; development aid only
			return
		}
		os.Exit(code)
	}
	r := ev.New("C32", "model_checking")
	depth, depthTV2, deep, trio := depths()
	deadline := ev.Deadline(8*time.Minute, 60*time.Minute)

	r.Rule("every history of exactly d steps (all shorter histories are its prefixes and are observed once each) over the alphabet " +
		"{I idempotent produce p0, R retry of last idempotent batch, O idempotent produce with sequence gap, P plain produce p0, Q plain produce p1, " +
		"T1/T2 transactional produce p0 by producer 1/2, N1/N2 AddPartitionsToTxn(p0) without data (classic flavour only, enabled while that producer has no open transaction), " +
		"C1/A1/C2/A2 EndTxn commit/abort, X virtual clock +6s (transaction timeouts 4s/9s), " +
		"D DeleteRecords(p0, logStart+1), F/G read_uncommitted/read_committed incremental-fetch-session request}; a symbol is enabled when the reference model says so " +
		"(R,O after an I; C/A/X with an open transaction; D while logStart<HWM); batches carry 1 or 2 records by step parity; each history runs on a fresh 1-broker kfake " +
		"cluster (1 topic, 2 partitions) in its own synctest bubble, driven by hand-framed kmsg requests on one connection. Two protocol flavours: classic " +
		"(AddPartitionsToTxn + Produce v11 + EndTxn v4) and KIP-890 (Produce v12 implicit add + EndTxn v5 epoch bump; only histories containing T1/T2). " +
		"Extra passes (classic flavour): a three-producer pass over {P,T1,T2,T3,C1,A1,C2,A2,C3,A3,X,G} (third producer, timeout 14s; histories containing T3) and, in the thorough tier, " +
		"a deeper pass over the sub-alphabet {P,T1,T2,C1,A1,A2,X,D,G}. " +
		"distinct_nontrivial = distinct reference-model states reached and validated against kfake")
	r.Assume("kfake is deterministic for a given request sequence on one connection (each history prefix is observed in one execution only)",
		"the reference model (lists of batches, transaction outcomes, log start, per-session last-seen triples) is the specification; LSO with a log start beyond an open transaction's first offset follows the statement literally (first offset of the open transaction)",
		"sequence numbers stay far from 2^31 (wrap is C29's subject)",
		"testing/synctest virtual time: nothing but the harness' Sleep advances the clock")

	// Worker processes (GOMAXPROCS=1 each: a bubble is a chain of goroutine
	// hand-offs, which is several times cheaper without cross-thread wake-ups).
	workers := ev.Workers()
	dir := os.Getenv("BUILD")
	if dir == "" {
		dir = ev.Root() + "/build"
	}
	type child struct {
		cmd    *exec.Cmd
		out    string
		stderr bytes.Buffer
	}
	var children []*child
	for w := 0; w < workers; w++ {
		c := &child{out: fmt.Sprintf("%s/c32-worker-%d-%d", dir, os.Getpid(), w)}
		c.cmd = exec.Command(os.Args[0], "-test.run", "^TestVerifC32$", "-test.timeout", "0")
		c.cmd.Env = append(os.Environ(), "GOMAXPROCS=1", fmt.Sprintf("C32_CHILD=%d/%d", w, workers), "C32_OUT="+c.out,
			fmt.Sprintf("C32_DEADLINE=%d", deadline.Unix()))
		c.cmd.Stderr = &c.stderr
		c.cmd.Stdout = &c.stderr
		if err := c.cmd.Start(); err != nil {
			ev.InfraError("start worker: %v", err)
		}
		children = append(children, c)
	}
	total := &childResult{ByKey: map[string]*found{}, CountKey: map[string]int64{}}
	statesCapped := false
	var infra string
	for _, c := range children {
		err := c.cmd.Wait()
		b, rerr := os.ReadFile(c.out + ".json")
		sb, _ := os.ReadFile(c.out + ".states")
		os.Remove(c.out + ".json")
		os.Remove(c.out + ".states")
		if err != nil || rerr != nil {
			tail := c.stderr.String()
			if len(tail) > 3000 {
				tail = tail[len(tail)-3000:]
			}
			if infra == "" {
				infra = fmt.Sprintf("worker failed: %v %v\n%s", err, rerr, tail)
			}
			continue
		}
		var res childResult
		if err := json.Unmarshal(b, &res); err != nil {
			infra = "worker result: " + err.Error()
			continue
		}
		total.Leaves += res.Leaves
		total.Nodes += res.Nodes
		total.Steps += res.Steps
		total.Requests += res.Requests
		total.ViolHist += res.ViolHist
		total.Cov.SessIncluded += res.Cov.SessIncluded
		total.Cov.SessOmitted += res.Cov.SessOmitted
		total.Cov.SessIncr += res.Cov.SessIncr
		total.Cov.RcAbortedHidden += res.Cov.RcAbortedHidden
		total.TimedOut = total.TimedOut || res.TimedOut
		if res.Infra != "" && infra == "" {
			infra = res.Infra
		}
		for k, f := range res.ByKey {
			if better(f, total.ByKey[k]) {
				total.ByKey[k] = f
			}
		}
		for k, n := range res.CountKey {
			total.CountKey[k] += n
		}
		for ; len(sb) >= 8; sb = sb[8:] {
			if r.NumDistinct() >= maxStates {
				statesCapped = true
				break
			}
			r.DistinctHash(binary.LittleEndian.Uint64(sb))
		}
	}
	if infra != "" {
		ev.InfraError("%s", infra)
	}

	r.Evals(total.Leaves)
	r.States(total.Nodes)
	r.Transitions(total.Steps)
	r.Traces(total.Leaves)
	r.Set("depth_classic", depth)
	r.Set("depth_kip890", depthTV2)
	r.Set("depth_three_producer_pass", trio)
	r.Set("three_producer_pass_alphabet", maskNames(trioMask))
	r.Set("depth_deep_pass", deep)
	r.Set("deep_pass_alphabet", maskNames(deepMask))
	bound := fmt.Sprintf("all histories of length <= %d (classic flavour), <= %d (KIP-890 flavour, histories with a transactional produce)", depth, depthTV2)
	if trio > 0 {
		bound += fmt.Sprintf("; all histories of length <= %d over %v containing T3 (classic flavour)", trio, maskNames(trioMask))
	}
	if deep > depth {
		bound += fmt.Sprintf("; all histories of length <= %d over the sub-alphabet %v (classic flavour)", deep, maskNames(deepMask))
	}
	r.Set("bound_completed", bound)
	r.Set("histories_observed_distinct_prefixes", total.Nodes)
	r.Set("histories_executed_maximal", total.Leaves)
	r.Set("distinct_model_states", r.NumDistinct())
	r.Set("distinct_model_states_capped", statesCapped)
	r.Set("protocol_requests", total.Requests)
	r.Set("session_incremental_requests", total.Cov.SessIncr)
	r.Set("session_partitions_included", total.Cov.SessIncluded)
	r.Set("session_partitions_omitted_unchanged", total.Cov.SessOmitted)
	r.Set("read_committed_fetches_hiding_aborted_data", total.Cov.RcAbortedHidden)
	r.Set("violating_histories", total.ViolHist)
	r.Set("worker_processes", workers)
	r.Set("alphabet", maskNames(fullMask))
	r.Set("alphabet_kip890", maskNames(baseMask))
	r.Set("stale_epoch_symbols_enabled", staleOn)
	if total.TimedOut {
		r.NotExhaustive("soft deadline reached before all histories were executed")
	}
	for _, h := range []string{"T1 P A1 G", "I R O I", "T1 T2 X X G", "P P D D F F"} {
		r.Sample(map[string]any{"history": h, "note": "one of the enumerated histories (symbols as in rule)"})
	}

	keys := make([]string, 0, len(total.ByKey))
	for k := range total.ByKey {
		keys = append(keys, k)
	}
	sort.Slice(keys, func(i, j int) bool {
		if total.ByKey[keys[i]].Length != total.ByKey[keys[j]].Length {
			return total.ByKey[keys[i]].Length < total.ByKey[keys[j]].Length
		}
		return keys[i] < keys[j]
	})
	for _, k := range keys {
		f := total.ByKey[k]
		r.Violation(k, fmt.Sprintf("shortest failing history (of %d with this key): %q (kip890 flavour=%v)\nafter step %d (%s): %s",
			total.CountKey[k], f.Hist, f.TV2, f.Viol.Step, f.Viol.Sym, f.Viol.Detail), f)
	}
	os.Exit(r.Write())
}

// replay re-runs the history of a violation artefact (or a literal history
// given as "hist:T1 P A1 G" / "hist890:...") verbosely and prints the verdict.
func replay(t *testing.T, path string) int {
	staleOn = true // S1/S2 are replayable without C32_STALE
	var f found
	if len(path) > 5 && path[:5] == "hist:" {
		f.Hist = path[5:]
	} else if len(path) > 8 && path[:8] == "hist890:" {
		f.Hist, f.TV2 = path[8:], true
	} else {
		b, err := os.ReadFile(path)
		if err != nil {
			fmt.Println("replay:", err)
			return 2
		}
		var art struct {
			Artefact found `json:"artefact"`
		}
		if err := json.Unmarshal(b, &art); err != nil {
			fmt.Println("replay:", err)
			return 2
		}
		f = art.Artefact
	}
	h, err := parseHist(f.Hist)
	if err != nil {
		fmt.Println("replay:", err)
		return 2
	}
	fmt.Printf("replaying %q (kip890 flavour=%v)\n", f.Hist, f.TV2)
	viol, infra, m, _ := runHistory(t, h, f.TV2, 0, true, nil)
	if infra != nil {
		fmt.Println("INFRA-ERROR:", infra)
		return 2
	}
	if m != nil {
		for p := range m.parts {
			fmt.Printf("  model p%d: logStart=%d hwm=%d lso=%d\n", p, m.parts[p].start, m.parts[p].hwm, m.lso(p))
			for i := range m.parts[p].log {
				fmt.Printf("    %v\n", &m.parts[p].log[i])
			}
		}
	}
	if viol != nil {
		fmt.Printf("VIOLATION key=%s@%s after step %d: %s\n", viol.Class, viol.Sym, viol.Step, viol.Detail)
		return 1
	}
	fmt.Println("held")
	return 0
}
