package c32

import (
	"encoding/binary"
	"errors"
	"fmt"
	"hash/crc32"
	"io"
	"net"
	"sort"

	"github.com/twmb/franz-go/pkg/kbin"
	"github.com/twmb/franz-go/pkg/kmsg"
)

// rawConn is the whole "client": Kafka framing over one net.Conn, one request
// in flight at a time. There is no kgo producer / consumer / metadata logic.
type rawConn struct {
	c    net.Conn
	corr int32
	wbuf []byte
	nreq int64
}

var clientID = "c32"

func (r *rawConn) do(req kmsg.Request) (kmsg.Response, error) {
	r.corr++
	r.nreq++
	b := append(r.wbuf[:0], 0, 0, 0, 0)
	b = kbin.AppendInt16(b, req.Key())
	b = kbin.AppendInt16(b, req.GetVersion())
	b = kbin.AppendInt32(b, r.corr)
	b = kbin.AppendNullableString(b, &clientID)
	if req.IsFlexible() {
		b = append(b, 0) // empty tagged fields (request header v2)
	}
	b = req.AppendTo(b)
	binary.BigEndian.PutUint32(b[:4], uint32(len(b)-4))
	r.wbuf = b
	if _, err := r.c.Write(b); err != nil {
		return nil, fmt.Errorf("write: %w", err)
	}
	var sz [4]byte
	if _, err := io.ReadFull(r.c, sz[:]); err != nil {
		return nil, fmt.Errorf("read size: %w", err)
	}
	body := make([]byte, binary.BigEndian.Uint32(sz[:]))
	if _, err := io.ReadFull(r.c, body); err != nil {
		return nil, fmt.Errorf("read body: %w", err)
	}
	if len(body) < 4 {
		return nil, errors.New("short response")
	}
	if got := int32(binary.BigEndian.Uint32(body)); got != r.corr {
		return nil, fmt.Errorf("correlation id %d, want %d", got, r.corr)
	}
	resp := req.ResponseKind()
	rd := kbin.Reader{Src: body[4:]}
	if resp.IsFlexible() && resp.Key() != 18 {
		kmsg.SkipTags(&rd)
	}
	if err := resp.ReadFrom(rd.Src); err != nil {
		return nil, fmt.Errorf("parse response key %d: %w", req.Key(), err)
	}
	return resp, nil
}

var crc32c = crc32.MakeTable(crc32.Castagnoli)

// encodeBatch builds one v2 record batch. Every record carries a 4-byte value
// (its payload id) and a null key.
func encodeBatch(pid int64, epoch int16, seq int32, txnl bool, ts int64, vals []uint32) []byte {
	var recs []byte
	for i, v := range vals {
		var body []byte
		body = append(body, 0)                   // attributes
		body = kbin.AppendVarlong(body, 0)       // timestamp delta
		body = kbin.AppendVarint(body, int32(i)) // offset delta
		body = kbin.AppendVarintBytes(body, nil)
		body = kbin.AppendVarintBytes(body, binary.BigEndian.AppendUint32(nil, v))
		body = kbin.AppendVarint(body, 0) // headers
		recs = kbin.AppendVarint(recs, int32(len(body)))
		recs = append(recs, body...)
	}
	var attrs int16
	if txnl {
		attrs |= 0x10
	}
	b := kmsg.RecordBatch{
		PartitionLeaderEpoch: -1,
		Magic:                2,
		Attributes:           attrs,
		LastOffsetDelta:      int32(len(vals) - 1),
		FirstTimestamp:       ts,
		MaxTimestamp:         ts,
		ProducerID:           pid,
		ProducerEpoch:        epoch,
		FirstSequence:        seq,
		NumRecords:           int32(len(vals)),
		Records:              recs,
	}
	enc := b.AppendTo(nil)
	b.Length = int32(len(enc) - 12)
	b.CRC = int32(crc32.Checksum(enc[21:], crc32c))
	return b.AppendTo(nil)
}

// rbatch is a record batch decoded from a fetch response.
type rbatch struct {
	base      int64
	n         int32
	lastDelta int32
	attrs     int16
	pid       int64
	epoch     int16
	seq       int32
	recs      []rrec
}

type rrec struct {
	delta int32
	key   []byte
	val   []byte
}

func (b *rbatch) last() int64 { return b.base + int64(b.lastDelta) }
func (b *rbatch) ctrl() bool  { return b.attrs&0x20 != 0 }
func (b *rbatch) txnl() bool  { return b.attrs&0x10 != 0 }

func (b *rbatch) String() string {
	k := "data"
	if b.ctrl() {
		k = "ctrl"
		if len(b.recs) == 1 && len(b.recs[0].key) == 4 {
			if b.recs[0].key[3] == 1 {
				k = "COMMIT"
			} else {
				k = "ABORT"
			}
		}
	}
	return fmt.Sprintf("[%d..%d %s txnl=%v pid=%d epoch=%d seq=%d]", b.base, b.last(), k, b.txnl(), b.pid, b.epoch, b.seq)
}

// decodeBatches splits the RecordBatches bytes of a fetch response partition.
func decodeBatches(raw []byte) ([]rbatch, error) {
	var out []rbatch
	for len(raw) > 0 {
		if len(raw) < 12 {
			return out, fmt.Errorf("trailing %d bytes", len(raw))
		}
		l := int(int32(binary.BigEndian.Uint32(raw[8:12])))
		if l < 49 || 12+l > len(raw) {
			return out, fmt.Errorf("batch length %d with %d bytes left", l, len(raw)-12)
		}
		var kb kmsg.RecordBatch
		if err := kb.ReadFrom(raw[:12+l]); err != nil {
			return out, err
		}
		if got := int32(crc32.Checksum(raw[21:12+l], crc32c)); got != kb.CRC {
			return out, fmt.Errorf("batch at %d: crc mismatch", kb.FirstOffset)
		}
		if kb.Magic != 2 || kb.Attributes&0x7 != 0 {
			return out, fmt.Errorf("batch at %d: magic %d attrs %#x", kb.FirstOffset, kb.Magic, kb.Attributes)
		}
		rb := rbatch{base: kb.FirstOffset, n: kb.NumRecords, lastDelta: kb.LastOffsetDelta, attrs: kb.Attributes,
			pid: kb.ProducerID, epoch: kb.ProducerEpoch, seq: kb.FirstSequence}
		rd := kbin.Reader{Src: kb.Records}
		for i := int32(0); i < kb.NumRecords; i++ {
			ln := rd.Varint()
			body := rd.Span(int(ln))
			if !rd.Ok() {
				return out, fmt.Errorf("batch at %d: short record %d", kb.FirstOffset, i)
			}
			br := kbin.Reader{Src: body}
			br.Int8()
			br.Varlong()
			d := br.Varint()
			k := br.VarintBytes()
			v := br.VarintBytes()
			if !br.Ok() {
				return out, fmt.Errorf("batch at %d: bad record %d", kb.FirstOffset, i)
			}
			rb.recs = append(rb.recs, rrec{delta: d, key: k, val: v})
		}
		if len(rd.Src) != 0 {
			return out, fmt.Errorf("batch at %d: %d bytes after records", kb.FirstOffset, len(rd.Src))
		}
		out = append(out, rb)
		raw = raw[12+l:]
	}
	return out, nil
}

type abortedTxn struct {
	pid   int64
	first int64
}

type delivered struct {
	off int64
	val uint32
}

// clientFilter is what a spec-conforming read_committed consumer does with a
// fetch response (the Java consumer's CompletedFetch logic): aborted
// transactions are consumed in firstOffset order; a producer becomes
// "aborted" once a batch whose last offset reaches the listed firstOffset is
// seen and stops being aborted at its ABORT marker; control batches are never
// delivered; records below the fetch offset are dropped.
func clientFilter(bs []rbatch, aborted []abortedTxn, from int64, readCommitted bool) []delivered {
	q := append([]abortedTxn(nil), aborted...)
	sort.SliceStable(q, func(i, j int) bool { return q[i].first < q[j].first })
	abortedPids := map[int64]bool{}
	var out []delivered
	for i := range bs {
		b := &bs[i]
		if readCommitted {
			for len(q) > 0 && q[0].first <= b.last() {
				abortedPids[q[0].pid] = true
				q = q[1:]
			}
		}
		if b.ctrl() {
			if readCommitted && len(b.recs) == 1 && len(b.recs[0].key) >= 4 && b.recs[0].key[3] == 0 {
				delete(abortedPids, b.pid)
			}
			continue
		}
		if readCommitted && b.txnl() && abortedPids[b.pid] {
			continue
		}
		for _, r := range b.recs {
			off := b.base + int64(r.delta)
			if off < from {
				continue
			}
			var v uint32 = 0xffffffff
			if len(r.val) == 4 {
				v = binary.BigEndian.Uint32(r.val)
			}
			out = append(out, delivered{off, v})
		}
	}
	return out
}
