package c32

import (
	"encoding/binary"
	"fmt"
	"hash/fnv"
	"os"
	"strings"
	"time"

	"github.com/twmb/franz-go/pkg/kmsg"
)

// ---------------------------------------------------------------------------
// Alphabet

type sym uint8

const (
	sI  sym = iota // idempotent produce to p0, next sequence
	sR             // retry of the last idempotent batch (same sequence, same bytes)
	sO             // idempotent produce with a sequence gap (next+1) -> OUT_OF_ORDER_SEQUENCE_NUMBER
	sP             // plain produce to p0
	sQ             // plain produce to p1
	sT1            // transactional produce to p0 by producer 1 (begins a transaction if none is open)
	sT2            // ... producer 2
	sC1            // EndTxn commit producer 1
	sA1            // EndTxn abort producer 1
	sC2            // EndTxn commit producer 2
	sA2            // EndTxn abort producer 2
	sX             // virtual clock +6s: open transactions past their timeout are aborted by the broker
	sD             // DeleteRecords(p0, logStart+1)
	sF             // read_uncommitted fetch through incremental fetch session 0
	sG             // read_committed fetch through incremental fetch session 1
	sT3            // third transactional producer: only in the three-producer pass
	sC3
	sA3
	sN1 // producer 1: AddPartitionsToTxn(p0) without data (begins a transaction if none is open); classic flavour only
	sN2 // ... producer 2
	sS1 // producer 1, fenced by a timeout abort and not yet re-initialised: transactional produce with the stale epoch (must be rejected); KIP-890 flavour only
	sS2 // ... producer 2
	nSym
)

var symName = [nSym]string{"I", "R", "O", "P", "Q", "T1", "T2", "C1", "A1", "C2", "A2", "X", "D", "F", "G", "T3", "C3", "A3", "N1", "N2", "S1", "S2"}

func histString(h []sym) string {
	var sb strings.Builder
	for i, s := range h {
		if i > 0 {
			sb.WriteByte(' ')
		}
		sb.WriteString(symName[s])
	}
	return sb.String()
}

func parseHist(s string) ([]sym, error) {
	var out []sym
outer:
	for _, f := range strings.Fields(s) {
		for i, n := range symName {
			if n == f {
				out = append(out, sym(i))
				continue outer
			}
		}
		return nil, fmt.Errorf("unknown symbol %q", f)
	}
	return out, nil
}

const (
	topic     = "t"
	tickMs    = 6000 // X advances the virtual clock by this much
	errOOR    = 1    // OFFSET_OUT_OF_RANGE
	errOOOSN  = 45   // OUT_OF_ORDER_SEQUENCE_NUMBER
	bigBytes  = 1 << 20
	noProd    = -1
	nProd     = 4 // 0 idempotent, 1..3 transactional
	pending   = 0
	committed = 1
	aborted   = 2
)

// staleOn enables S1/S2 (opt-in, C32_STALE=1). Off by default because the
// unchanged kfake disagrees with a real broker there: a Produce v12 rejected
// with INVALID_PRODUCER_EPOCH still registers the partition and begins a
// transaction (pids.get runs before the epoch check), which later times out and
// writes an ABORT marker that Kafka would never write ("T1 X S1 T2 X" in the
// KIP-890 flavour: key hwm@X). Reported to the orchestrator; not decided here.
var staleOn = os.Getenv("C32_STALE") != ""

var (
	txids      = [nProd]string{"", "c32-tx1", "c32-tx2", "c32-tx3"}
	txTimeouts = [nProd]int32{0, 4000, 9000, 14000} // distinct residues mod the 6s tick: two expiries never coincide
)

// ---------------------------------------------------------------------------
// Reference model: a list of appended batches per partition, transaction
// outcomes, log start, producer sequence bookkeeping, and what each fetch
// session has already been told.

type mbatch struct {
	base   int64
	n      int32
	prod   int8 // -1 plain, 0 idempotent, 1..3 transactional producers
	txnl   bool
	ctrl   bool
	commit bool  // control batches only
	txn    int16 // transaction serial, -1 if none
	seq    int32
	vals   []uint32
	// learned from the implementation at run time (not part of the state hash)
	pid   int64
	epoch int16
}

func (b *mbatch) last() int64 { return b.base + int64(b.n) - 1 }

func (b *mbatch) String() string {
	k := "data"
	if b.ctrl {
		k = "ABORT"
		if b.commit {
			k = "COMMIT"
		}
	}
	return fmt.Sprintf("[%d..%d %s prod=%d txnl=%v txn=%d seq=%d]", b.base, b.last(), k, b.prod, b.txnl, b.txn, b.seq)
}

type mpart struct {
	log   []mbatch
	hwm   int64
	start int64
}

type mprod struct {
	init   bool
	fenced bool // its transaction timed out: the broker bumped the epoch, the client must re-init
	seq    int32
	open   bool
	txn    int16
	start  int64 // virtual ms at which the transaction began
	first  int64 // first offset of the open transaction on p0
	// run time
	pid   int64
	epoch int16
}

type msess struct {
	created bool
	pos     [2]int64    // the client's next fetch offset
	dirty   [2]bool     // position changed since the last request => must be listed in the next one
	known   [2]bool     // last[] valid
	last    [2][3]int64 // (hwm, lso, logStart) in the most recent response that carried the partition
	// run time
	id    int32
	epoch int32
}

type model struct {
	tv2     bool // KIP-890 flavour: Produce v12 implicit partition add, EndTxn v5 epoch bump
	now     int64
	step    int
	parts   [2]mpart
	prods   [nProd]mprod
	outcome []uint8
	idem    struct {
		ok   bool
		seq  int32
		vals []uint32
		base int64
		ts   int64
	}
	sess [2]msess

	// coverage counters (not state)
	cov coverage
}

type coverage struct {
	SessOmitted, SessIncluded, SessIncr int64
	RcAbortedHidden                     int64
}

func (m *model) clone() *model {
	c := *m
	for p := range c.parts {
		c.parts[p].log = append([]mbatch(nil), m.parts[p].log...)
	}
	c.outcome = append([]uint8(nil), m.outcome...)
	return &c
}

func (m *model) lso(p int) int64 {
	l := m.parts[p].hwm
	if p == 0 {
		for k := 1; k < nProd; k++ {
			if pr := &m.prods[k]; pr.open && pr.first >= 0 && pr.first < l {
				l = pr.first
			}
		}
	}
	return l
}

func (m *model) enabled(s sym) bool {
	switch s {
	case sR, sO:
		return m.idem.ok
	case sC1, sA1:
		return m.prods[1].open
	case sC2, sA2:
		return m.prods[2].open
	case sC3, sA3:
		return m.prods[3].open
	case sN1:
		return !m.tv2 && !m.prods[1].open
	case sN2:
		return !m.tv2 && !m.prods[2].open
	case sS1:
		return staleOn && m.tv2 && m.prods[1].fenced
	case sS2:
		return staleOn && m.tv2 && m.prods[2].fenced
	case sX:
		return m.prods[1].open || m.prods[2].open || m.prods[3].open
	case sD:
		return m.parts[0].start+1 <= m.parts[0].hwm
	}
	return true
}

func (m *model) nrec() int { return 1 + m.step%2 }

func (m *model) newVals(n int) []uint32 {
	v := make([]uint32, n)
	for i := range v {
		v[i] = uint32(m.step+1)<<8 | uint32(i)
	}
	return v
}

func (m *model) push(p int, b mbatch) *mbatch {
	pt := &m.parts[p]
	b.base = pt.hwm
	pt.hwm += int64(b.n)
	pt.log = append(pt.log, b)
	return &pt.log[len(pt.log)-1]
}

// visible returns the model batches a fetch from `from` bounded by `bound`
// returns: every batch that still holds an offset >= from and begins below bound.
func (m *model) visible(p int, from, bound int64) []mbatch {
	var out []mbatch
	for _, b := range m.parts[p].log {
		if b.last() >= from && b.base < bound {
			out = append(out, b)
		}
	}
	return out
}

func (m *model) endTxn(k int, commit bool) *mbatch {
	pr := &m.prods[k]
	b := m.push(0, mbatch{n: 1, prod: int8(k), txnl: true, ctrl: true, commit: commit, txn: pr.txn, seq: -1, pid: pr.pid, epoch: pr.epoch})
	if commit {
		m.outcome[pr.txn] = committed
	} else {
		m.outcome[pr.txn] = aborted
	}
	pr.open = false
	pr.first = -1
	return b
}

// hash is the 64-bit digest of the abstract model state (payload ids, pids and
// epochs excluded), used to count distinct model states reached.
func (m *model) hash() uint64 {
	h := fnv.New64a()
	var buf [8]byte
	w := func(v int64) { binary.LittleEndian.PutUint64(buf[:], uint64(v)); h.Write(buf[:]) }
	wb := func(b bool) {
		if b {
			w(1)
		} else {
			w(0)
		}
	}
	wb(m.tv2)
	w(m.now)
	w(int64(m.step % 2))
	for p := range m.parts {
		pt := &m.parts[p]
		w(pt.hwm)
		w(pt.start)
		w(int64(len(pt.log)))
		for i := range pt.log {
			b := &pt.log[i]
			w(b.base)
			w(int64(b.n))
			w(int64(b.prod))
			wb(b.ctrl)
			wb(b.commit)
			if b.txn >= 0 {
				w(int64(m.outcome[b.txn]))
			} else {
				w(-1)
			}
			w(int64(b.seq))
		}
	}
	for k := range m.prods {
		pr := &m.prods[k]
		wb(pr.init)
		wb(pr.fenced)
		w(int64(pr.seq))
		wb(pr.open)
		w(pr.start)
		w(pr.first)
	}
	wb(m.idem.ok)
	w(int64(m.idem.seq))
	w(m.idem.base)
	w(int64(len(m.idem.vals)))
	for i := range m.sess {
		s := &m.sess[i]
		wb(s.created)
		for p := 0; p < 2; p++ {
			w(s.pos[p])
			wb(s.dirty[p])
			wb(s.known[p])
			if s.known[p] {
				w(s.last[p][0])
				w(s.last[p][1])
				w(s.last[p][2])
			}
		}
	}
	return h.Sum64()
}

// ---------------------------------------------------------------------------
// Harness: one raw connection to one fresh kfake cluster; records the first
// violation of a history.

type violation struct {
	Class  string `json:"class"`
	Step   int    `json:"step"` // index of the step at/after which it was observed
	Sym    string `json:"sym"`
	Detail string `json:"detail"`
}

type harness struct {
	conn    *rawConn
	viol    *violation
	step    int
	sym     sym
	verbose bool
	infra   error
}

func (h *harness) fail(class, format string, a ...any) {
	if h.viol == nil {
		h.viol = &violation{Class: class, Step: h.step, Sym: symName[h.sym], Detail: fmt.Sprintf(format, a...)}
	}
}

func (h *harness) bad() bool { return h.viol != nil || h.infra != nil }

func (h *harness) logf(format string, a ...any) {
	if h.verbose {
		fmt.Printf("    "+format+"\n", a...)
	}
}

func (h *harness) do(req kmsg.Request) kmsg.Response {
	if h.infra != nil {
		return nil
	}
	resp, err := h.conn.do(req)
	if err != nil {
		h.infra = fmt.Errorf("step %d (%s): request key %d: %w", h.step, symName[h.sym], req.Key(), err)
		return nil
	}
	return resp
}

func (h *harness) initProducer(k int) (int64, int16, bool) {
	req := kmsg.NewPtrInitProducerIDRequest()
	req.Version = 4
	req.ProducerID, req.ProducerEpoch = -1, -1
	if k > 0 {
		id := txids[k]
		req.TransactionalID = &id
		req.TransactionTimeoutMillis = txTimeouts[k]
	}
	r := h.do(req)
	if r == nil {
		return 0, 0, false
	}
	resp := r.(*kmsg.InitProducerIDResponse)
	if resp.ErrorCode != 0 {
		h.fail("init-producer-error", "InitProducerID(producer %d) error code %d", k, resp.ErrorCode)
		return 0, 0, false
	}
	h.logf("InitProducerID(%d) -> pid=%d epoch=%d", k, resp.ProducerID, resp.ProducerEpoch)
	return resp.ProducerID, resp.ProducerEpoch, true
}

func (h *harness) produce(tv2 bool, part int32, pid int64, epoch int16, seq int32, txid string, ts int64, vals []uint32) (code int16, base int64, ok bool) {
	req := kmsg.NewPtrProduceRequest()
	req.Version = 11
	if tv2 {
		req.Version = 12
	}
	if txid != "" {
		req.TransactionID = &txid
	}
	req.Acks = -1
	req.TimeoutMillis = 1000
	rt := kmsg.NewProduceRequestTopic()
	rt.Topic = topic
	rp := kmsg.NewProduceRequestTopicPartition()
	rp.Partition = part
	rp.Records = encodeBatch(pid, epoch, seq, txid != "", ts, vals)
	rt.Partitions = append(rt.Partitions, rp)
	req.Topics = append(req.Topics, rt)
	r := h.do(req)
	if r == nil {
		return 0, 0, false
	}
	resp := r.(*kmsg.ProduceResponse)
	if len(resp.Topics) != 1 || len(resp.Topics[0].Partitions) != 1 || resp.Topics[0].Partitions[0].Partition != part {
		h.fail("produce-response-shape", "produce response does not carry exactly partition %d", part)
		return 0, 0, false
	}
	sp := resp.Topics[0].Partitions[0]
	h.logf("Produce(p%d pid=%d epoch=%d seq=%d txnl=%v n=%d) -> code=%d base=%d", part, pid, epoch, seq, txid != "", len(vals), sp.ErrorCode, sp.BaseOffset)
	return sp.ErrorCode, sp.BaseOffset, true
}

type fetchPart struct {
	p      int
	offset int64
}

func (h *harness) fetch(iso int8, sid, sepoch int32, parts []fetchPart) (*kmsg.FetchResponse, map[int]*kmsg.FetchResponseTopicPartition) {
	req := kmsg.NewPtrFetchRequest()
	req.Version = 12
	req.ReplicaID = -1
	req.MaxWaitMillis = 0
	req.MinBytes = 0
	req.MaxBytes = bigBytes
	req.IsolationLevel = iso
	req.SessionID = sid
	req.SessionEpoch = sepoch
	if len(parts) > 0 {
		rt := kmsg.NewFetchRequestTopic()
		rt.Topic = topic
		for _, fp := range parts {
			rp := kmsg.NewFetchRequestTopicPartition()
			rp.Partition = int32(fp.p)
			rp.FetchOffset = fp.offset
			rp.CurrentLeaderEpoch = -1
			rp.LastFetchedEpoch = -1
			rp.LogStartOffset = -1
			rp.PartitionMaxBytes = bigBytes
			rt.Partitions = append(rt.Partitions, rp)
		}
		req.Topics = append(req.Topics, rt)
	}
	r := h.do(req)
	if r == nil {
		return nil, nil
	}
	resp := r.(*kmsg.FetchResponse)
	got := map[int]*kmsg.FetchResponseTopicPartition{}
	for i := range resp.Topics {
		if resp.Topics[i].Topic != topic {
			continue
		}
		for j := range resp.Topics[i].Partitions {
			rp := &resp.Topics[i].Partitions[j]
			if _, dup := got[int(rp.Partition)]; dup {
				h.fail("fetch-response-shape", "partition %d listed twice in one fetch response", rp.Partition)
			}
			got[int(rp.Partition)] = rp
		}
	}
	return resp, got
}

func (h *harness) listOffsets(ts int64, iso int8) (out [2]int64, ok bool) {
	req := kmsg.NewPtrListOffsetsRequest()
	req.Version = 7
	req.ReplicaID = -1
	req.IsolationLevel = iso
	rt := kmsg.NewListOffsetsRequestTopic()
	rt.Topic = topic
	for p := int32(0); p < 2; p++ {
		rp := kmsg.NewListOffsetsRequestTopicPartition()
		rp.Partition = p
		rp.CurrentLeaderEpoch = -1
		rp.Timestamp = ts
		rt.Partitions = append(rt.Partitions, rp)
	}
	req.Topics = append(req.Topics, rt)
	r := h.do(req)
	if r == nil {
		return out, false
	}
	resp := r.(*kmsg.ListOffsetsResponse)
	seen := 0
	for _, t := range resp.Topics {
		for _, p := range t.Partitions {
			if p.Partition < 0 || p.Partition > 1 {
				continue
			}
			if p.ErrorCode != 0 {
				h.fail("list-offsets-error", "ListOffsets(ts=%d iso=%d) p%d error code %d", ts, iso, p.Partition, p.ErrorCode)
				return out, false
			}
			out[p.Partition] = p.Offset
			seen++
		}
	}
	if seen != 2 {
		h.fail("list-offsets-error", "ListOffsets(ts=%d iso=%d) returned %d partitions", ts, iso, seen)
		return out, false
	}
	return out, true
}

// ---------------------------------------------------------------------------
// Steps. Every function mutates the model; with h != nil it also drives the
// real cluster and compares. With h == nil it is the dry model used to
// enumerate enabled histories.

func (m *model) exec(s sym, h *harness) {
	if h != nil {
		h.sym = s
		h.step = m.step
		h.logf("step %d: %s", m.step, symName[s])
	}
	switch s {
	case sI:
		m.doIdem(h)
	case sR:
		m.doRetry(h)
	case sO:
		m.doGap(h)
	case sP:
		m.doPlain(h, 0)
	case sQ:
		m.doPlain(h, 1)
	case sT1:
		m.doTxnProduce(h, 1)
	case sT2:
		m.doTxnProduce(h, 2)
	case sC1:
		m.doEnd(h, 1, true)
	case sA1:
		m.doEnd(h, 1, false)
	case sC2:
		m.doEnd(h, 2, true)
	case sA2:
		m.doEnd(h, 2, false)
	case sT3:
		m.doTxnProduce(h, 3)
	case sC3:
		m.doEnd(h, 3, true)
	case sA3:
		m.doEnd(h, 3, false)
	case sN1:
		m.doRegister(h, 1)
	case sN2:
		m.doRegister(h, 2)
	case sS1:
		m.doStale(h, 1)
	case sS2:
		m.doStale(h, 2)
	case sX:
		m.doTick(h)
	case sD:
		m.doDelete(h)
	case sF:
		m.doSession(h, 0)
	case sG:
		m.doSession(h, 1)
	}
	m.step++
}

func nowMs() int64 { return time.Now().UnixMilli() }

func (m *model) ensureInit(h *harness, k int) bool {
	pr := &m.prods[k]
	if pr.init && !pr.fenced {
		return true
	}
	if h != nil {
		pid, epoch, ok := h.initProducer(k)
		if !ok {
			return false
		}
		pr.pid, pr.epoch = pid, epoch
	}
	pr.init, pr.fenced, pr.seq = true, false, 0
	return true
}

// appendChecked sends one batch that the model says must be appended at the
// current high watermark and records it in the model.
func (m *model) appendChecked(h *harness, p int, prod int, txid string, vals []uint32) *mbatch {
	pid, epoch, seq := int64(-1), int16(-1), int32(-1)
	if prod >= 0 {
		pr := &m.prods[prod]
		pid, epoch, seq = pr.pid, pr.epoch, pr.seq
	}
	want := m.parts[p].hwm
	ts := int64(0)
	if h != nil {
		ts = nowMs()
		code, base, ok := h.produce(m.tv2, int32(p), pid, epoch, seq, txid, ts, vals)
		if !ok {
			return nil
		}
		if code != 0 {
			h.fail("produce-error", "produce to p%d (producer %d, seq %d, %d records) failed with error code %d", p, prod, seq, len(vals), code)
			return nil
		}
		if base != want {
			h.fail("produce-offset", "produce to p%d returned base offset %d, previous high watermark was %d", p, base, want)
			return nil
		}
	}
	b := m.push(p, mbatch{n: int32(len(vals)), prod: int8(prod), txnl: txid != "", txn: -1, seq: seq, vals: vals, pid: pid, epoch: epoch})
	if prod >= 0 {
		m.prods[prod].seq += int32(len(vals))
	}
	if prod == 0 {
		m.idem.ok, m.idem.seq, m.idem.vals, m.idem.base, m.idem.ts = true, seq, vals, want, ts
	}
	return b
}

func (m *model) doIdem(h *harness) {
	if !m.ensureInit(h, 0) {
		return
	}
	m.appendChecked(h, 0, 0, "", m.newVals(m.nrec()))
}

func (m *model) doPlain(h *harness, p int) {
	m.appendChecked(h, p, noProd, "", m.newVals(m.nrec()))
}

func (m *model) doRetry(h *harness) {
	if h == nil {
		return
	}
	pr := &m.prods[0]
	code, base, ok := h.produce(m.tv2, 0, pr.pid, pr.epoch, m.idem.seq, "", m.idem.ts, m.idem.vals)
	if !ok {
		return
	}
	if code != 0 {
		h.fail("dup-retry-error", "retry of idempotent batch seq %d failed with error code %d", m.idem.seq, code)
		return
	}
	if base != m.idem.base {
		h.fail("dup-retry-offset", "retry of idempotent batch seq %d returned base offset %d, the original append returned %d", m.idem.seq, base, m.idem.base)
	}
}

func (m *model) doGap(h *harness) {
	vals := m.newVals(m.nrec())
	if h == nil {
		return
	}
	pr := &m.prods[0]
	code, base, ok := h.produce(m.tv2, 0, pr.pid, pr.epoch, pr.seq+1, "", nowMs(), vals)
	if !ok {
		return
	}
	if code == 0 {
		h.fail("ooo-seq-accepted", "idempotent batch with sequence %d accepted (base %d) although the next expected sequence is %d", pr.seq+1, base, pr.seq)
	} else if code != errOOOSN {
		h.fail("ooo-seq-error-code", "idempotent batch with sequence %d (expected %d) rejected with error code %d, want OUT_OF_ORDER_SEQUENCE_NUMBER (45)", pr.seq+1, pr.seq, code)
	}
}

// beginTxn opens producer k's transaction: in the classic flavour with an
// explicit AddPartitionsToTxn(p0); in the KIP-890 flavour the first produce
// adds the partition implicitly.
func (m *model) beginTxn(h *harness, k int) bool {
	pr := &m.prods[k]
	if h != nil && !m.tv2 {
		req := kmsg.NewPtrAddPartitionsToTxnRequest()
		req.Version = 3
		req.TransactionalID = txids[k]
		req.ProducerID, req.ProducerEpoch = pr.pid, pr.epoch
		rt := kmsg.NewAddPartitionsToTxnRequestTopic()
		rt.Topic = topic
		rt.Partitions = []int32{0}
		req.Topics = append(req.Topics, rt)
		r := h.do(req)
		if r == nil {
			return false
		}
		resp := r.(*kmsg.AddPartitionsToTxnResponse)
		if len(resp.Topics) != 1 || len(resp.Topics[0].Partitions) != 1 || resp.Topics[0].Partitions[0].ErrorCode != 0 {
			code := int16(-1)
			if len(resp.Topics) == 1 && len(resp.Topics[0].Partitions) == 1 {
				code = resp.Topics[0].Partitions[0].ErrorCode
			}
			h.fail("add-partitions-error", "AddPartitionsToTxn(producer %d) error code %d", k, code)
			return false
		}
		h.logf("AddPartitionsToTxn(producer %d, p0) -> ok", k)
	}
	pr.open = true
	pr.txn = int16(len(m.outcome))
	m.outcome = append(m.outcome, pending)
	pr.start = m.now
	pr.first = -1
	return true
}

func (m *model) doTxnProduce(h *harness, k int) {
	if !m.ensureInit(h, k) {
		return
	}
	pr := &m.prods[k]
	if !pr.open && !m.beginTxn(h, k) {
		return
	}
	b := m.appendChecked(h, 0, k, txids[k], m.newVals(m.nrec()))
	if b == nil {
		if h != nil && !h.bad() {
			panic("unreachable")
		}
		return
	}
	b.txn = pr.txn
	if pr.first < 0 {
		pr.first = b.base
	}
}

// doRegister is N_k: the transaction is begun and p0 registered in it, but no
// data is produced. Like a real broker, the model writes the end marker to
// every registered partition (so a later C/A/timeout appends one control batch
// to p0), the LSO is not held back by a registered-but-empty partition, and no
// aborted-transaction range exists for it.
func (m *model) doRegister(h *harness, k int) {
	if !m.ensureInit(h, k) {
		return
	}
	m.beginTxn(h, k)
}

// doStale is S_k: producer k's transaction was aborted by the timeout (the
// broker bumped its epoch) and the client, not having noticed, sends a
// transactional batch with the old epoch. It must be rejected and nothing may
// be appended.
func (m *model) doStale(h *harness, k int) {
	vals := m.newVals(m.nrec())
	if h == nil {
		return
	}
	pr := &m.prods[k]
	code, base, ok := h.produce(m.tv2, 0, pr.pid, pr.epoch, pr.seq, txids[k], nowMs(), vals)
	if !ok {
		return
	}
	if code == 0 {
		h.fail("stale-epoch-accepted", "transactional batch of producer %d with epoch %d accepted (base %d) after its transaction timed out and the epoch was bumped", k, pr.epoch, base)
	}
}

func (m *model) doEnd(h *harness, k int, commit bool) {
	pr := &m.prods[k]
	newPid, newEpoch := pr.pid, pr.epoch
	if h != nil {
		req := kmsg.NewPtrEndTxnRequest()
		req.Version = 4
		if m.tv2 {
			req.Version = 5
		}
		req.TransactionalID = txids[k]
		req.ProducerID, req.ProducerEpoch = pr.pid, pr.epoch
		req.Commit = commit
		r := h.do(req)
		if r == nil {
			return
		}
		resp := r.(*kmsg.EndTxnResponse)
		h.logf("EndTxn(%d commit=%v) -> code=%d pid=%d epoch=%d", k, commit, resp.ErrorCode, resp.ProducerID, resp.ProducerEpoch)
		if resp.ErrorCode != 0 {
			h.fail("end-txn-error", "EndTxn(producer %d, commit=%v) of an open transaction failed with error code %d", k, commit, resp.ErrorCode)
			return
		}
		if m.tv2 {
			newPid, newEpoch = resp.ProducerID, resp.ProducerEpoch
		}
	}
	m.endTxn(k, commit)
	if m.tv2 {
		// KIP-890: every EndTxn v5 bumps the epoch, sequences restart.
		pr.pid, pr.epoch, pr.seq = newPid, newEpoch, 0
	}
}

func (m *model) doTick(h *harness) {
	if h != nil {
		time.Sleep(tickMs * time.Millisecond)
	}
	m.now += tickMs
	// Expire in order of expiry time (each abort marker takes the next offset).
	for {
		best := 0
		var bestAt int64
		for k := 1; k < nProd; k++ {
			pr := &m.prods[k]
			if !pr.open {
				continue
			}
			at := pr.start + int64(txTimeouts[k])
			if at <= m.now && (best == 0 || at < bestAt) {
				best, bestAt = k, at
			}
		}
		if best == 0 {
			return
		}
		m.endTxn(best, false)
		m.prods[best].fenced = true
	}
}

func (m *model) doDelete(h *harness) {
	to := m.parts[0].start + 1
	if h != nil {
		req := kmsg.NewPtrDeleteRecordsRequest()
		req.Version = 2
		req.TimeoutMillis = 1000
		rt := kmsg.NewDeleteRecordsRequestTopic()
		rt.Topic = topic
		rp := kmsg.NewDeleteRecordsRequestTopicPartition()
		rp.Partition = 0
		rp.Offset = to
		rt.Partitions = append(rt.Partitions, rp)
		req.Topics = append(req.Topics, rt)
		r := h.do(req)
		if r == nil {
			return
		}
		resp := r.(*kmsg.DeleteRecordsResponse)
		if len(resp.Topics) != 1 || len(resp.Topics[0].Partitions) != 1 {
			h.fail("delete-records-error", "DeleteRecords response shape")
			return
		}
		sp := resp.Topics[0].Partitions[0]
		h.logf("DeleteRecords(p0, %d) -> code=%d low=%d", to, sp.ErrorCode, sp.LowWatermark)
		if sp.ErrorCode != 0 {
			h.fail("delete-records-error", "DeleteRecords(p0, %d) with log start %d and high watermark %d failed with error code %d", to, m.parts[0].start, m.parts[0].hwm, sp.ErrorCode)
			return
		}
		if sp.LowWatermark != to {
			h.fail("delete-records-low-watermark", "DeleteRecords(p0, %d) returned low watermark %d", to, sp.LowWatermark)
			return
		}
	}
	m.parts[0].start = to
}

// ---------------------------------------------------------------------------
// Fetch validation

func cmpBatch(exp *mbatch, got *rbatch) string {
	if got.base != exp.base || got.n != exp.n || got.lastDelta != exp.n-1 {
		return fmt.Sprintf("offsets: got %v, model %v", got, exp)
	}
	if got.ctrl() != exp.ctrl || got.txnl() != exp.txnl {
		return fmt.Sprintf("attributes: got %v, model %v", got, exp)
	}
	if got.pid != exp.pid {
		return fmt.Sprintf("producer id: got %v, model pid %d", got, exp.pid)
	}
	if int32(len(got.recs)) != exp.n {
		return fmt.Sprintf("record count: got %d records in %v", len(got.recs), got)
	}
	if exp.ctrl {
		k := got.recs[0].key
		want := byte(0)
		if exp.commit {
			want = 1
		}
		if len(k) != 4 || k[0] != 0 || k[1] != 0 || k[2] != 0 || k[3] != want {
			return fmt.Sprintf("control record key %v, model %v", k, exp)
		}
		return ""
	}
	if got.epoch != exp.epoch || got.seq != exp.seq {
		return fmt.Sprintf("producer epoch/sequence: got %v, model epoch %d seq %d", got, exp.epoch, exp.seq)
	}
	for i, r := range got.recs {
		if r.delta != int32(i) || len(r.val) != 4 || binary.BigEndian.Uint32(r.val) != exp.vals[i] || r.key != nil {
			return fmt.Sprintf("record %d of %v: delta %d value %x, model value %08x", i, got, r.delta, r.val, exp.vals[i])
		}
	}
	return ""
}

// checkFetchPart validates one partition of a fetch response against the
// model. It returns the client's next fetch offset and whether the response
// was the expected OFFSET_OUT_OF_RANGE.
func (m *model) checkFetchPart(h *harness, what string, p int, iso int8, from int64, rp *kmsg.FetchResponseTopicPartition) (next int64, oor bool) {
	pt := &m.parts[p]
	next = from
	if from < pt.start || from > pt.hwm {
		if rp.ErrorCode != errOOR {
			cl := "fetch-below-log-start"
			if from > pt.hwm {
				cl = "fetch-above-hwm"
			}
			h.fail(cl, "%s: fetch p%d at offset %d (log start %d, high watermark %d) returned error code %d with %d bytes, want OFFSET_OUT_OF_RANGE", what, p, from, pt.start, pt.hwm, rp.ErrorCode, len(rp.RecordBatches))
		}
		return next, true
	}
	if rp.ErrorCode != 0 {
		h.fail("fetch-error", "%s: fetch p%d at offset %d (log start %d, high watermark %d) returned error code %d", what, p, from, pt.start, pt.hwm, rp.ErrorCode)
		return
	}
	lso := m.lso(p)
	if rp.HighWatermark != pt.hwm {
		h.fail("hwm", "%s: p%d high watermark %d, model %d", what, p, rp.HighWatermark, pt.hwm)
		return
	}
	if rp.LastStableOffset != lso {
		h.fail("lso", "%s: p%d last stable offset %d, model %d (high watermark %d)", what, p, rp.LastStableOffset, lso, pt.hwm)
		return
	}
	if rp.LogStartOffset != pt.start {
		h.fail("log-start", "%s: p%d log start offset %d, model %d", what, p, rp.LogStartOffset, pt.start)
		return
	}
	got, err := decodeBatches(rp.RecordBatches)
	if err != nil {
		h.fail("fetch-corrupt", "%s: p%d from %d: %v", what, p, from, err)
		return
	}
	if len(got) > 0 {
		next = got[len(got)-1].last() + 1
	}
	if iso == 0 {
		exp := m.visible(p, from, pt.hwm)
		if len(rp.AbortedTransactions) != 0 {
			// harmless for a read_uncommitted client; not checked
			_ = 0
		}
		for i := 0; i < len(exp) || i < len(got); i++ {
			if i >= len(got) {
				h.fail("ru-fetch-missing", "%s: read_uncommitted fetch p%d from %d misses model batch %v (got %d batches, high watermark %d)", what, p, from, &exp[i], len(got), pt.hwm)
				return
			}
			if i >= len(exp) {
				h.fail("ru-fetch-extra", "%s: read_uncommitted fetch p%d from %d returned unexpected batch %v", what, p, from, &got[i])
				return
			}
			if d := cmpBatch(&exp[i], &got[i]); d != "" {
				h.fail("ru-fetch-content", "%s: read_uncommitted fetch p%d from %d, batch %d: %s", what, p, from, i, d)
				return
			}
		}
		return
	}

	// read_committed: raw batches must be the model's batches below the LSO;
	// only batches of aborted transactions and markers may be left out.
	exp := m.visible(p, from, lso)
	j := 0
	for i := range exp {
		e := &exp[i]
		if j < len(got) && got[j].base == e.base {
			if d := cmpBatch(e, &got[j]); d != "" {
				h.fail("rc-fetch-content", "%s: read_committed fetch p%d from %d: %s", what, p, from, d)
				return
			}
			j++
			continue
		}
		if e.ctrl || (e.txn >= 0 && m.outcome[e.txn] == aborted) {
			continue
		}
		h.fail("rc-fetch-missing", "%s: read_committed fetch p%d from %d (LSO %d) misses committed batch %v", what, p, from, lso, e)
		return
	}
	if j < len(got) {
		cl := "rc-fetch-extra"
		if got[j].base >= lso {
			cl = "rc-fetch-beyond-lso"
		}
		h.fail(cl, "%s: read_committed fetch p%d from %d (LSO %d, high watermark %d) returned unexpected batch %v", what, p, from, lso, pt.hwm, &got[j])
		return
	}
	var ab []abortedTxn
	for _, a := range rp.AbortedTransactions {
		ab = append(ab, abortedTxn{a.ProducerID, a.FirstOffset})
	}
	del := clientFilter(got, ab, from, true)
	var want []delivered
	hidden := false
	for i := range exp {
		e := &exp[i]
		if e.ctrl {
			continue
		}
		if e.txn >= 0 && m.outcome[e.txn] == aborted {
			hidden = true
			continue
		}
		for k, v := range e.vals {
			if off := e.base + int64(k); off >= from {
				want = append(want, delivered{off, v})
			}
		}
	}
	if hidden {
		m.cov.RcAbortedHidden++
	}
	for i := 0; i < len(want) || i < len(del); i++ {
		switch {
		case i >= len(del) || (i < len(want) && del[i].off > want[i].off):
			h.fail("rc-committed-dropped", "%s: read_committed fetch p%d from %d: a conforming client drops committed record at offset %d (aborted list %v)", what, p, from, want[i].off, ab)
			return
		case i >= len(want) || del[i].off < want[i].off:
			h.fail("rc-aborted-visible", "%s: read_committed fetch p%d from %d: a conforming client delivers offset %d which belongs to an aborted transaction (aborted list %v)", what, p, from, del[i].off, ab)
			return
		case del[i].val != want[i].val:
			h.fail("rc-fetch-content", "%s: read_committed fetch p%d from %d: offset %d value %08x, model %08x", what, p, from, del[i].off, del[i].val, want[i].val)
			return
		}
	}
	return
}

// doSession is F (iso 0) / G (iso 1): one request in the incremental fetch
// session of that isolation level, issued the way a KIP-227 client does: the
// first request is a full fetch (epoch 0) listing both partitions; later
// requests carry the session id and epoch and list only partitions whose
// fetch offset changed (none, if no data was received).
func (m *model) doSession(h *harness, iso int8) {
	s := &m.sess[iso]
	full := !s.created
	var resp *kmsg.FetchResponse
	var got map[int]*kmsg.FetchResponseTopicPartition
	what := fmt.Sprintf("session fetch (iso %d, full=%v)", iso, full)
	if h != nil {
		var parts []fetchPart
		for p := 0; p < 2; p++ {
			if full || s.dirty[p] {
				parts = append(parts, fetchPart{p, s.pos[p]})
			}
		}
		sid, sep := s.id, s.epoch
		if full {
			sid, sep = 0, 0
		}
		resp, got = h.fetch(iso, sid, sep, parts)
		if resp == nil || h.bad() {
			return
		}
		h.logf("%s listing %v -> code=%d session=%d partitions=%d", what, parts, resp.ErrorCode, resp.SessionID, len(got))
		if resp.ErrorCode != 0 {
			h.fail("session-error", "%s with id %d epoch %d failed with error code %d", what, sid, sep, resp.ErrorCode)
			return
		}
		if full {
			if resp.SessionID <= 0 {
				h.fail("session-error", "%s: no session id assigned (%d)", what, resp.SessionID)
				return
			}
			s.id, s.epoch = resp.SessionID, 1
		} else {
			if resp.SessionID != s.id {
				h.fail("session-error", "%s: response session id %d, want %d", what, resp.SessionID, s.id)
				return
			}
			s.epoch++
		}
	}
	if !full {
		m.cov.SessIncr++
	}
	s.created = true
	for p := 0; p < 2; p++ {
		pt := &m.parts[p]
		from := s.pos[p]
		lso := m.lso(p)
		triple := [3]int64{pt.hwm, lso, pt.start}
		bound := pt.hwm
		if iso == 1 {
			bound = lso
		}
		oor := from < pt.start || from > pt.hwm
		var data []mbatch
		if !oor {
			data = m.visible(p, from, bound)
		}
		changed := s.known[p] && s.last[p] != triple
		must := full || oor || len(data) > 0 || changed
		present := must
		if h != nil {
			_, present = got[p]
		}
		if !present {
			if must {
				why := "its (high watermark, LSO, log start) changed"
				if len(data) > 0 {
					why = "new data is available"
				}
				if oor {
					why = "its fetch offset is out of range"
				}
				h.fail("session-omit", "%s omitted p%d although %s: session last saw %v (known=%v), now %v; client fetch offset %d, %d model batches available",
					what, p, why, s.last[p], s.known[p], triple, from, len(data))
				return
			}
			m.cov.SessOmitted++
			s.dirty[p] = false
			continue
		}
		m.cov.SessIncluded++
		next := from
		if h != nil {
			var gotOOR bool
			next, gotOOR = m.checkFetchPart(h, what, p, iso, from, got[p])
			if h.bad() {
				return
			}
			if gotOOR != oor {
				panic("unreachable: checkFetchPart disagrees on out-of-range")
			}
		} else if len(data) > 0 {
			next = data[len(data)-1].last() + 1
		}
		if oor {
			// auto.offset.reset=earliest: ask the broker, continue from there
			if h != nil {
				e, ok := h.listOffsets(-2, 0)
				if !ok {
					return
				}
				if e[p] != pt.start {
					h.fail("log-start", "ListOffsets(earliest) p%d = %d, model %d", p, e[p], pt.start)
					return
				}
			}
			s.pos[p], s.dirty[p], s.known[p] = pt.start, true, false
			continue
		}
		s.dirty[p] = next != from
		s.pos[p] = next
		s.known[p] = true
		s.last[p] = triple
	}
}

// observe is run after a step: out-of-session full fetches at both isolation
// levels, ListOffsets (earliest, latest, last stable), fetches below the log
// start, and read_committed / read_uncommitted fetches from every retained
// offset of p0.
func (m *model) observe(h *harness) {
	e, ok1 := h.listOffsets(-2, 0)
	l, ok2 := h.listOffsets(-1, 0)
	st, ok3 := h.listOffsets(-1, 1)
	if !ok1 || !ok2 || !ok3 || h.bad() {
		return
	}
	for p := 0; p < 2; p++ {
		pt := &m.parts[p]
		if l[p] != pt.hwm {
			h.fail("hwm", "ListOffsets(latest) p%d = %d, model high watermark %d", p, l[p], pt.hwm)
			return
		}
		if st[p] > l[p] {
			h.fail("lso-above-hwm", "ListOffsets p%d: last stable offset %d above high watermark %d", p, st[p], l[p])
			return
		}
		if want := m.lso(p); st[p] != want {
			h.fail("lso", "ListOffsets(latest, read_committed) p%d = %d, model last stable offset %d (high watermark %d)", p, st[p], want, pt.hwm)
			return
		}
		if e[p] != pt.start {
			h.fail("log-start", "ListOffsets(earliest) p%d = %d, model log start %d", p, e[p], pt.start)
			return
		}
	}
	for iso := int8(0); iso <= 1; iso++ {
		what := fmt.Sprintf("full fetch (iso %d)", iso)
		_, got := h.fetch(iso, 0, -1, []fetchPart{{0, m.parts[0].start}, {1, m.parts[1].start}})
		if h.bad() {
			return
		}
		for p := 0; p < 2; p++ {
			rp, ok := got[p]
			if !ok {
				h.fail("fetch-response-shape", "%s: p%d missing from a sessionless fetch response", what, p)
				return
			}
			m.checkFetchPart(h, what, p, iso, m.parts[p].start, rp)
			if h.bad() {
				return
			}
		}
	}
	one := func(iso int8, off int64, what string) bool {
		_, got := h.fetch(iso, 0, -1, []fetchPart{{0, off}})
		if h.bad() {
			return false
		}
		rp, ok := got[0]
		if !ok {
			h.fail("fetch-response-shape", "%s: p0 missing from a sessionless fetch response", what)
			return false
		}
		m.checkFetchPart(h, what, 0, iso, off, rp)
		return !h.bad()
	}
	if s0 := m.parts[0].start; s0 > 0 {
		offs := []int64{0}
		if s0-1 != 0 {
			offs = append(offs, s0-1)
		}
		for _, off := range offs {
			for iso := int8(0); iso <= 1; iso++ {
				if !one(iso, off, fmt.Sprintf("fetch below log start (iso %d)", iso)) {
					return
				}
			}
		}
	}
	for off := m.parts[0].start + 1; off <= m.parts[0].hwm; off++ {
		for iso := int8(1); iso >= 0; iso-- {
			if !one(iso, off, fmt.Sprintf("offset sweep (iso %d)", iso)) {
				return
			}
		}
	}
}
