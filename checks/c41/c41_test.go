package c41

import (
	"testing"
	"time"

	"verif/checks/c01/pscen"
	"verif/lib/nrun"
)

// C41: the end-to-end scenario families of the other engine-N checks, built
// with -race and stepped in BURST mode (VERIF_BURST=1, set by run.sh): at every
// decision point all enabled events are released back to back, so their
// handling overlaps inside the client; the race detector judges each run.
func plans() []nrun.Plan {
	var out []nrun.Plan
	add := func(ps []nrun.Plan, quick, thorough int) {
		for _, p := range ps {
			p.QuickBudget, p.ThoroughBudget = quick, thorough
			p.QuickFaultOnlyFrom, p.ThoroughFaultOnlyFrom = 0, 0
			p.Allow = nil // scenario-specific deviation filters speak the controlled-mode labels
			out = append(out, p)
		}
	}
	out = append(out, apiPlans()...) // API-surface scenarios first: cheap and dense in concurrent calls
	add(pscen.Plans(), 1, 2)
	add(extraPlans(), 0, 1)
	// generated families (configurations x scripts x gates), bursts of the default schedule
	for _, p := range append(pscen.GenPlans(), genExtra()...) {
		p.QuickBudget, p.ThoroughBudget, p.Weight = 0, 0, 5
		p.Allow = nil
		out = append(out, p)
	}
	// FREE pass: every scenario (for the families: every cost-0 combination)
	// once more, free-running: no controller decisions and no synctest.Wait
	// between events, so that the detector also sees races whose two accesses
	// are rounds apart (a burst round boundary is a happens-before edge).
	n := len(out)
	for _, p := range out[:n] {
		sc := *p.Scenario
		sc.Free = true
		sc.Name += "/free"
		q := p
		q.Scenario = &sc
		q.QuickBudget, q.ThoroughBudget = 0, 0
		out = append(out, q)
	}
	return out
}

func TestC41(t *testing.T) {
	nrun.Main(t, &nrun.Check{
		ID: "C41", TestName: "TestC41", Plans: plans(),
		QuickTime: 150 * time.Second, ThorTime: 18 * time.Minute,
		Rule: "engine N in burst mode under the Go race detector: for each end-to-end scenario, at every quiescent point ALL enabled application calls and frame deliveries are released concurrently (k=0), and every single 'hold one event back for a round' deviation (k=1; k=2 thorough); plus a FREE pass of every scenario and of every cost-0 combination of the generated families (API-direct/API-group call-script offsets, PG, BG): no controller decisions and no synctest.Wait between events, calls paced 400 virtual ms apart, so that races whose accesses are rounds apart are visible too; a data race report from the detector (halt_on_error) is the violation; distinct = distinct terminal outcomes",
		Assume: []string{"the race detector's happens-before analysis generalises over timings with the same synchronisation order", "within a burst the goroutine schedule is the Go runtime's", "synctests build of xsync (channel mutexes give the detector the same edges)"},
		// In burst mode several application calls and deliveries are released at
		// once, so the scenario oracles written for one-event-at-a-time stepping
		// are not valid; only the race detector (a dead worker) judges here.
		// The one state oracle that is valid in burst mode: immutability of
		// the client's published copy-on-write maps (lib/cowwatch, VERIF_COW=1).
		Keep: func(_, key string) bool { return key == "worker-crash" || key == "cow-mutated" },
		KeyOf: func(scenario, key string) string {
			if key == "worker-crash" {
				return "C41:" + scenario + ":race-or-crash"
			}
			if key == "cow-mutated" {
				return "C41:" + scenario + ":published-snapshot-mutated"
			}
			return "C41:" + scenario + ":" + key
		},
	})
}
