#!/bin/bash
set -eu
cd "$(dirname "$0")/../.."
. bin/env.sh
go test -c -race -tags synctests,verif -o "$BUILD/c41.test" ./checks/c41
export VERIF_BURST=1 VERIF_COW=1
exec "$BUILD/c41.test" -test.run '^TestC41$' -test.timeout 0
