package c41

import (
	"context"
	"fmt"
	"time"

	"github.com/twmb/franz-go/pkg/kadm"
	"github.com/twmb/franz-go/pkg/kfake"
	"github.com/twmb/franz-go/pkg/kgo"

	"verif/lib/netctl"
	"verif/lib/nrun"
	"verif/lib/nscen"
)

// API-surface scenarios for the race detector: several application goroutines
// call the methods the client documents as safe for concurrent use, one call
// per thread per burst round, while fetch loops, metadata updates (and, for
// the group flavour, heartbeats and commits) run. Within a burst every
// thread's current call is released at once; the explorer chooses (cost 0:
// every alternative is run) the offset at which the second management thread
// starts in the shared call script, so every ordered pair of management calls
// coincides in some execution, and every management call coincides with polls
// and with fetch requests being built.
//
// (Added after an independent seeded change was missed: a shallow clone of
// the copy-on-write paused set made PauseFetchPartitions write a map the
// fetch loop reads. No scenario paused individual partitions repeatedly.)

// growU adds a partition to topic u (set per execution; one execution at a time per process).
var growU = func() {}

type apiCall struct {
	name string
	f    func(cl *kgo.Client)
}

func apiScript(group bool) []apiCall {
	part := func(p int32) map[string][]int32 { return map[string][]int32{"t": {p}} }
	s := []apiCall{
		{"pause-t0", func(cl *kgo.Client) { cl.PauseFetchPartitions(part(0)) }},
		{"pause-t1", func(cl *kgo.Client) { cl.PauseFetchPartitions(part(1)) }},
		{"resume-t0", func(cl *kgo.Client) { cl.ResumeFetchPartitions(part(0)) }},
		{"pause-topic", func(cl *kgo.Client) { cl.PauseFetchTopics("t") }},
		{"resume-topic", func(cl *kgo.Client) { cl.ResumeFetchTopics("t") }},
		{"resume-t1", func(cl *kgo.Client) { cl.ResumeFetchPartitions(part(1)) }},
		{"set-offsets", func(cl *kgo.Client) {
			cl.SetOffsets(map[string]map[int32]kgo.EpochOffset{"t": {2: {Epoch: -1, Offset: 1}}})
		}},
		{"getters", func(cl *kgo.Client) {
			cl.PauseFetchPartitions(nil)
			cl.PauseFetchTopics()
			cl.BufferedFetchRecords()
			cl.BufferedFetchBytes()
			cl.GetConsumeTopics()
			cl.DiscoveredBrokers()
			cl.SeedBrokers()
			cl.PartitionLeader("t", 0)
			if group {
				cl.UncommittedOffsets()
				cl.CommittedOffsets()
				cl.MarkedOffsets()
				cl.GroupMetadata()
			}
		}},
		{"add-topic-u", func(cl *kgo.Client) { cl.AddConsumeTopics("u") }},
		{"refresh", func(cl *kgo.Client) { cl.ForceMetadataRefresh() }},
		{"purge-u", func(cl *kgo.Client) { cl.PurgeTopicsFromConsuming("u") }},
	}
	if group {
		s = append(s,
			apiCall{"commit", func(cl *kgo.Client) {
				ctx, cancel := context.WithTimeout(context.Background(), 5*time.Second)
				cl.CommitUncommittedOffsets(ctx)
				cancel()
			}},
			apiCall{"force-rebalance", func(cl *kgo.Client) { cl.ForceRebalance() }},
			// the partition count of a topic only ANOTHER member consumes changes (the
			// leader tracks it as an external topic and rebalances); twice, so that the
			// second growth lands while the first rebalance is still being handled
		)
	} else {
		s = append(s,
			apiCall{"add-parts-v0", func(cl *kgo.Client) {
				cl.AddConsumePartitions(map[string]map[int32]kgo.Offset{"v": {0: kgo.NewOffset().AtStart()}})
			}},
			apiCall{"remove-parts-v0", func(cl *kgo.Client) { cl.RemoveConsumePartitions(map[string][]int32{"v": {0}}) }},
		)
	}
	return s
}

func apiScenario(name string, group bool) *netctl.Scenario {
	return &netctl.Scenario{
		Name:    name,
		Horizon: 3 * time.Minute,
		Setup: func(x *netctl.Exec) {
			script := apiScript(group)
			var offs []string
			for i := range script {
				offs = append(offs, fmt.Sprint(i))
			}
			off := x.ChooseOf("g-offset", offs)
			c := x.Cluster(1, kfake.SeedTopics(3, "t"), kfake.SeedTopics(1, "u"), kfake.SeedTopics(1, "v"))
			h := nscen.Helper(x, c, kgo.RecordPartitioner(kgo.ManualPartitioner()))
			var recs []*kgo.Record
			for p := int32(0); p < 3; p++ {
				for i := 0; i < 40; i++ {
					recs = append(recs, &kgo.Record{Topic: "t", Partition: p, Value: []byte(fmt.Sprintf("t%d-%02d", p, i))})
				}
			}
			for _, tp := range []string{"u", "v"} {
				for i := 0; i < 5; i++ {
					recs = append(recs, &kgo.Record{Topic: tp, Partition: 0, Value: []byte(fmt.Sprintf("%s-%d", tp, i))})
				}
			}
			if err := h.ProduceSync(context.Background(), recs...).FirstErr(); err != nil {
				panic(fmt.Sprintf("preload: %v", err))
			}
			h.Close()
			opts := []kgo.Opt{
				kgo.ConsumeTopics("t"),
				kgo.ConsumeResetOffset(kgo.NewOffset().AtStart()),
				kgo.FetchMaxWait(300 * time.Millisecond),
				kgo.FetchMaxPartitionBytes(200), // a few records per fetch: requests are being built all the time
			}
			if group {
				opts = append(opts, kgo.ConsumerGroup("g"), kgo.AutoCommitInterval(700*time.Millisecond), kgo.HeartbeatInterval(500*time.Millisecond))
			}
			cl := nscen.NewClient(x, "c", c, opts...)
			rounds := len(script)
			growU = func() {}
			if group {
				// member B of the same group consumes only u: for the leader (the
				// first member, "c") u is an external topic
				admc := nscen.Helper(x, c)
				x.OnCleanup(admc.Close)
				adm := kadm.NewClient(admc)
				growU = func() {
					ctx, cancel := context.WithTimeout(context.Background(), 5*time.Second)
					adm.CreatePartitions(ctx, 1, "u")
					cancel()
				}
				// the environment grows u in every other round while the leader
				// refreshes its metadata in every round: a Metadata response that
				// reports a new partition count of the external topic is in flight
				// in the rounds in which the leader handles the JoinGroup responses
				// of the rebalances the earlier growths caused
				x.Thread("ENVG", func(t *netctl.Thread) {
					for i := 0; i < rounds; i++ {
						t.Step(fmt.Sprintf("envg-%d", i))
						if i%2 == 1 && i < 12 {
							growU()
						}
					}
					// two LATE growths, after the group has settled with c as leader
					// tracking u as an external topic (the early ones all land before
					// the leader's external map exists): the leader's metadata update
					// rewrites the count of an external topic in a published map
					// (immutability oracle, lib/cowwatch; seed C41b)
					for i := 0; i < 2; i++ {
						time.Sleep(2 * time.Second) // virtual
						t.Step(fmt.Sprintf("envg-late-%d", i))
						growU()
						cl.ForceMetadataRefresh()
					}
				})
				x.Thread("RF", func(t *netctl.Thread) {
					for i := 0; i < rounds; i++ {
						t.Step(fmt.Sprintf("refresh-%d", i))
						cl.ForceMetadataRefresh()
					}
				})
				x.Thread("B", func(t *netctl.Thread) {
					t.Step("b-join")
					b := nscen.NewClient(x, "b", c, kgo.ConsumeTopics("u"), kgo.ConsumerGroup("g"),
						kgo.ConsumeResetOffset(kgo.NewOffset().AtStart()), kgo.FetchMaxWait(300*time.Millisecond),
						kgo.HeartbeatInterval(500*time.Millisecond))
					for i := 0; i < rounds; i++ {
						t.Step(fmt.Sprintf("b-poll-%d", i))
						ctx, cancel := context.WithTimeout(context.Background(), 150*time.Millisecond)
						b.PollFetches(ctx)
						cancel()
					}
				})
			}
			x.Thread("POLL", func(t *netctl.Thread) {
				for i := 0; i < rounds+2; i++ {
					t.Step(fmt.Sprintf("poll-%d", i))
					ctx, cancel := context.WithTimeout(context.Background(), 150*time.Millisecond)
					if i%2 == 0 {
						cl.PollRecords(ctx, 4)
					} else {
						cl.PollFetches(ctx)
					}
					cancel()
				}
			})
			x.Thread("M", func(t *netctl.Thread) {
				for i := 0; i < rounds; i++ {
					t.Step("m-" + script[i].name)
					script[i].f(cl)
				}
			})
			x.Thread("G", func(t *netctl.Thread) {
				for i := 0; i < rounds; i++ {
					call := script[(i+off)%len(script)]
					t.Step("g-" + call.name)
					call.f(cl)
				}
			})
		},
	}
}

// apiPlans: burst rounds of the default schedule for every offset (k=0);
// thorough adds every single "hold one event back for a round" deviation.
func apiPlans() []nrun.Plan {
	return []nrun.Plan{
		{Scenario: apiScenario("API-direct", false), QuickBudget: 0, ThoroughBudget: 1, Weight: 3},
		{Scenario: apiScenario("API-group", true), QuickBudget: 0, ThoroughBudget: 1, Weight: 3},
	}
}
