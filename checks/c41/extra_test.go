package c41

import (
	"verif/checks/c02/iscen"
	"verif/checks/c03/bscen"
	"verif/checks/c04/cscen"
	"verif/checks/c07/gscen"
	"verif/checks/c10/escen"
	"verif/checks/c11/tscen"
	"verif/checks/c13/xscen"
	"verif/lib/nrun"
)

// extraPlans collects the scenario families of the other engine-N checks
// (their importable scenario packages). Only the first scenario(s) of the
// larger families are taken: under -race an execution costs ~30x.
func extraPlans() []nrun.Plan {
	var out []nrun.Plan
	take := func(ps []nrun.Plan, n int) {
		if n > len(ps) {
			n = len(ps)
		}
		out = append(out, ps[:n]...)
	}
	take(iscen.Plans(), 2)    // idempotent producer, two partitions / fail paths
	take(bscen.Plans(), 2)    // buffering limits, blocked Produce, Flush
	take(cscen.Plans(), 4)    // direct consumer: topics, read_committed, explicit partitions, split fetches
	take(gscen.PlansC07(), 3) // group joins/leaves: eager, cooperative, 848
	take(gscen.PlansC08(), 2) // autocommit with restarts
	take(tscen.Plans(), 2)    // transactions
	take(escen.Plans(), 1)    // GroupTransactSession ETL
	take(xscen.Plans(), 4)    // Close placements: produce, consume, consume-limited, group
	return out
}

// genExtra: generated families of other checks (C03 BG).
func genExtra() []nrun.Plan { return bscen.GenPlans() }
