package c41

import "verif/lib/nrun"

// extraPlans collects the scenario families of the other engine-N checks as
// they become importable packages.
func extraPlans() []nrun.Plan { return nil }
