#!/bin/bash
set -eu
cd "$(dirname "$0")/../.."
. bin/env.sh
go test -c -tags synctests,verif -o "$BUILD/c23.test" ./checks/c23
exec "$BUILD/c23.test" -test.run '^TestC23$' -test.timeout 0
