// Package shscen holds the C23 scenario family: one sharded request issued by a
// controlled client against a small kfake cluster, enumerated over request
// kinds, cluster layouts and item sets (DESIGN.md §4 C23).
package shscen

import (
	"fmt"
	"strconv"

	"github.com/twmb/franz-go/pkg/kmsg"
)

// Names is what a request builder may refer to: the cluster size and the
// group / transactional id names chosen for the layout.
type Names struct {
	NB         int
	GA, GB, GU string // two groups that exist, one that does not
	TA, TB, TU string // two transactional ids that exist, one that does not
	PidA, PidB int64
	EpA, EpB   int16
}

// Shapes of the requested item set.
const (
	ShapeAll = "all" // every known item
	ShapeUnk = "unk" // known items + unknown ones (unknown topic u, unknown partition t/7, group / id that does not exist, broker 9)
	ShapeDup = "dup" // known items + one of them a second time
	ShapeOne = "one" // a single item (legacy single-item request form where the protocol has one)
	// ShapeMix (topic-routed kinds only): known items + items that fail the
	// metadata mapping with two DISTINCT errors: unknown topic u and unknown
	// partition t/7 (UNKNOWN_TOPIC_OR_PARTITION) and topic d, which exists
	// but which the client's user is denied (TOPIC_AUTHORIZATION_FAILED).
	// The cluster of this shape runs with SASL and ACLs; the client is user
	// alice, helpers are the superuser.
	ShapeMix = "mix"
)

// Kind is one row of the table: a request kind the client splits.
type Kind struct {
	Name string
	Key  int16
	// Cat: how the client routes the pieces.
	//  part    partition leader         replica  every replica of the partition
	//  group   group coordinator        txn      transaction coordinator
	//  find    any broker, batched keys config   broker resources to that broker, the rest anywhere
	//  brokers identical request to every broker
	Cat string
	// Build makes the request for a shape.
	Build func(n *Names, shape string) kmsg.Request
	// ReqItems / RespItems: the item extractor pair (items of a request, items
	// of a response), with multiplicity. For Cat "brokers" the shard item is
	// the broker the shard went to and RespItems lists what the merged
	// response must contain once (groups / transactional ids).
	ReqItems  func(kmsg.Request) []string
	RespItems func(kmsg.Response) []string
	// ReqSub / RespSub (optional): the topic-partitions nested below a group item.
	ReqSub  func(kmsg.Request) []string
	RespSub func(kmsg.Response) []string
	// ErrCodes: retriable codes offered as err:<code> on a shard request.
	ErrCodes []int16
	// Important: one of the five kinds explored deeper.
	Important bool
}

func tp(t string, p int32) string { return t + "/" + strconv.Itoa(int(p)) }

// partition lists per shape for topic t (3 partitions), topic s (1 partition,
// led by the leader of t/0, so that one broker answers for two topics) and
// unknown topic u.
type tps struct {
	topic string
	parts []int32
}

func shapeTPs(shape string) []tps {
	switch shape {
	case ShapeAll:
		return []tps{{"t", []int32{0, 1, 2}}, {"s", []int32{0}}}
	case ShapeUnk:
		return []tps{{"t", []int32{0, 1, 2, 7}}, {"u", []int32{0}}, {"s", []int32{0}}}
	case ShapeDup:
		return []tps{{"t", []int32{0, 1, 2, 1}}, {"s", []int32{0}}}
	case ShapeMix:
		return []tps{{"t", []int32{0, 1, 2, 7}}, {"u", []int32{0, 1}}, {"d", []int32{0}}, {"s", []int32{0}}}
	case ShapeOne:
		return []tps{{"t", []int32{1}}}
	}
	panic("shape " + shape)
}

func shapeGroups(n *Names, shape string) []string {
	switch shape {
	case ShapeAll:
		return []string{n.GA, n.GB}
	case ShapeUnk:
		return []string{n.GA, n.GB, n.GU}
	case ShapeDup:
		return []string{n.GA, n.GB, n.GA}
	case ShapeOne:
		return []string{n.GB}
	}
	panic("shape " + shape)
}

func shapeTxns(n *Names, shape string) []string {
	switch shape {
	case ShapeAll:
		return []string{n.TA, n.TB}
	case ShapeUnk:
		return []string{n.TA, n.TB, n.TU}
	case ShapeDup:
		return []string{n.TA, n.TB, n.TA}
	case ShapeOne:
		return []string{n.TB}
	}
	panic("shape " + shape)
}

type res struct {
	typ  kmsg.ConfigResourceType
	name string
}

func shapeResources(n *Names, shape string) []res {
	last := strconv.Itoa(n.NB - 1)
	known := []res{{kmsg.ConfigResourceTypeTopic, "t"}, {kmsg.ConfigResourceTypeBroker, "0"}}
	if n.NB > 1 {
		known = append(known, res{kmsg.ConfigResourceTypeBroker, last})
	}
	switch shape {
	case ShapeAll:
		return known
	case ShapeUnk:
		return append(known, res{kmsg.ConfigResourceTypeTopic, "u"}, res{kmsg.ConfigResourceTypeBroker, "9"})
	case ShapeDup:
		return append(known, res{kmsg.ConfigResourceTypeBroker, "0"}, res{kmsg.ConfigResourceTypeTopic, "t"})
	case ShapeOne:
		return []res{{kmsg.ConfigResourceTypeBroker, last}}
	}
	panic("shape " + shape)
}

func resItem(t kmsg.ConfigResourceType, name string) string {
	return fmt.Sprintf("r:%d:%s", int(t), name)
}

// Kinds is the table, in the order of the switch in Client.shardedRequest.
var Kinds = []*Kind{
	{
		Name: "ListOffsets", Key: 2, Cat: "part", ErrCodes: []int16{6}, Important: true,
		Build: func(n *Names, shape string) kmsg.Request {
			req := kmsg.NewPtrListOffsetsRequest()
			for _, x := range shapeTPs(shape) {
				rt := kmsg.NewListOffsetsRequestTopic()
				rt.Topic = x.topic
				for _, p := range x.parts {
					rp := kmsg.NewListOffsetsRequestTopicPartition()
					rp.Partition = p
					rp.Timestamp = -1
					rt.Partitions = append(rt.Partitions, rp)
				}
				req.Topics = append(req.Topics, rt)
			}
			return req
		},
		ReqItems: func(r kmsg.Request) (out []string) {
			for _, t := range r.(*kmsg.ListOffsetsRequest).Topics {
				for _, p := range t.Partitions {
					out = append(out, tp(t.Topic, p.Partition))
				}
			}
			return
		},
		RespItems: func(r kmsg.Response) (out []string) {
			for _, t := range r.(*kmsg.ListOffsetsResponse).Topics {
				for _, p := range t.Partitions {
					out = append(out, tp(t.Topic, p.Partition))
				}
			}
			return
		},
	},
	{
		Name: "OffsetFetch", Key: 9, Cat: "group", ErrCodes: []int16{16, 15}, Important: true,
		Build: func(n *Names, shape string) kmsg.Request {
			req := kmsg.NewPtrOffsetFetchRequest()
			if shape == ShapeOne { // the v0-v7 single-group form
				req.Group = n.GB
				rt := kmsg.NewOffsetFetchRequestTopic()
				rt.Topic = "t"
				rt.Partitions = []int32{0, 2}
				req.Topics = append(req.Topics, rt)
				return req
			}
			for i, g := range shapeGroups(n, shape) {
				rg := kmsg.NewOffsetFetchRequestGroup()
				rg.Group = g
				if i%2 == 1 { // every second group names its partitions, the others ask for everything committed
					rt := kmsg.NewOffsetFetchRequestGroupTopic()
					rt.Topic = "t"
					rt.Partitions = []int32{0, 1}
					rg.Topics = append(rg.Topics, rt)
				}
				req.Groups = append(req.Groups, rg)
			}
			return req
		},
		ReqItems: func(r kmsg.Request) (out []string) {
			req := r.(*kmsg.OffsetFetchRequest)
			if len(req.Groups) == 0 {
				return []string{"g:" + req.Group}
			}
			for _, g := range req.Groups {
				out = append(out, "g:"+g.Group)
			}
			return
		},
		RespItems: func(r kmsg.Response) (out []string) {
			for _, g := range r.(*kmsg.OffsetFetchResponse).Groups {
				out = append(out, "g:"+g.Group)
			}
			return
		},
		ReqSub: func(r kmsg.Request) (out []string) {
			req := r.(*kmsg.OffsetFetchRequest)
			if len(req.Groups) == 0 {
				for _, t := range req.Topics {
					for _, p := range t.Partitions {
						out = append(out, "g:"+req.Group+":"+tp(t.Topic, p))
					}
				}
				return
			}
			for _, g := range req.Groups {
				for _, t := range g.Topics {
					for _, p := range t.Partitions {
						out = append(out, "g:"+g.Group+":"+tp(t.Topic, p))
					}
				}
			}
			return
		},
		RespSub: func(r kmsg.Response) (out []string) {
			for _, g := range r.(*kmsg.OffsetFetchResponse).Groups {
				if g.ErrorCode != 0 {
					// a failed group carries no partitions: the wildcard stands for all of them
					out = append(out, "g:"+g.Group+":*")
					continue
				}
				for _, t := range g.Topics {
					for _, p := range t.Partitions {
						out = append(out, "g:"+g.Group+":"+tp(t.Topic, p.Partition))
					}
				}
			}
			return
		},
	},
	{
		Name: "FindCoordinator", Key: 10, Cat: "find", ErrCodes: []int16{15}, Important: true,
		Build: func(n *Names, shape string) kmsg.Request {
			req := kmsg.NewPtrFindCoordinatorRequest()
			req.CoordinatorType = 0
			if shape == ShapeOne { // the v0-v3 single-key form
				req.CoordinatorKey = n.GB
				return req
			}
			req.CoordinatorKeys = shapeGroups(n, shape)
			return req
		},
		ReqItems: func(r kmsg.Request) (out []string) {
			req := r.(*kmsg.FindCoordinatorRequest)
			if len(req.CoordinatorKeys) == 0 {
				return []string{"k:" + req.CoordinatorKey}
			}
			for _, k := range req.CoordinatorKeys {
				out = append(out, "k:"+k)
			}
			return
		},
		RespItems: func(r kmsg.Response) (out []string) {
			for _, c := range r.(*kmsg.FindCoordinatorResponse).Coordinators {
				out = append(out, "k:"+c.Key)
			}
			return
		},
	},
	{
		Name: "DescribeGroups", Key: 15, Cat: "group", ErrCodes: []int16{16, 15}, Important: true,
		Build: func(n *Names, shape string) kmsg.Request {
			req := kmsg.NewPtrDescribeGroupsRequest()
			req.Groups = shapeGroups(n, shape)
			return req
		},
		ReqItems: func(r kmsg.Request) (out []string) {
			for _, g := range r.(*kmsg.DescribeGroupsRequest).Groups {
				out = append(out, "g:"+g)
			}
			return
		},
		RespItems: func(r kmsg.Response) (out []string) {
			for _, g := range r.(*kmsg.DescribeGroupsResponse).Groups {
				out = append(out, "g:"+g.Group)
			}
			return
		},
	},
	{
		Name: "ListGroups", Key: 16, Cat: "brokers", ErrCodes: []int16{14},
		Build: func(n *Names, shape string) kmsg.Request { return kmsg.NewPtrListGroupsRequest() },
		RespItems: func(r kmsg.Response) (out []string) {
			for _, g := range r.(*kmsg.ListGroupsResponse).Groups {
				out = append(out, "g:"+g.Group)
			}
			return
		},
	},
	{
		Name: "DeleteRecords", Key: 21, Cat: "part", ErrCodes: []int16{6}, Important: true,
		Build: func(n *Names, shape string) kmsg.Request {
			req := kmsg.NewPtrDeleteRecordsRequest()
			req.TimeoutMillis = 5000
			for _, x := range shapeTPs(shape) {
				rt := kmsg.NewDeleteRecordsRequestTopic()
				rt.Topic = x.topic
				for _, p := range x.parts {
					rp := kmsg.NewDeleteRecordsRequestTopicPartition()
					rp.Partition = p
					rp.Offset = -1
					rt.Partitions = append(rt.Partitions, rp)
				}
				req.Topics = append(req.Topics, rt)
			}
			return req
		},
		ReqItems: func(r kmsg.Request) (out []string) {
			for _, t := range r.(*kmsg.DeleteRecordsRequest).Topics {
				for _, p := range t.Partitions {
					out = append(out, tp(t.Topic, p.Partition))
				}
			}
			return
		},
		RespItems: func(r kmsg.Response) (out []string) {
			for _, t := range r.(*kmsg.DeleteRecordsResponse).Topics {
				for _, p := range t.Partitions {
					out = append(out, tp(t.Topic, p.Partition))
				}
			}
			return
		},
	},
	{
		Name: "OffsetForLeaderEpoch", Key: 23, Cat: "part", ErrCodes: []int16{6},
		Build: func(n *Names, shape string) kmsg.Request {
			req := kmsg.NewPtrOffsetForLeaderEpochRequest()
			for _, x := range shapeTPs(shape) {
				rt := kmsg.NewOffsetForLeaderEpochRequestTopic()
				rt.Topic = x.topic
				for _, p := range x.parts {
					rp := kmsg.NewOffsetForLeaderEpochRequestTopicPartition()
					rp.Partition = p
					rp.LeaderEpoch = 0
					rt.Partitions = append(rt.Partitions, rp)
				}
				req.Topics = append(req.Topics, rt)
			}
			return req
		},
		ReqItems: func(r kmsg.Request) (out []string) {
			for _, t := range r.(*kmsg.OffsetForLeaderEpochRequest).Topics {
				for _, p := range t.Partitions {
					out = append(out, tp(t.Topic, p.Partition))
				}
			}
			return
		},
		RespItems: func(r kmsg.Response) (out []string) {
			for _, t := range r.(*kmsg.OffsetForLeaderEpochResponse).Topics {
				for _, p := range t.Partitions {
					out = append(out, tp(t.Topic, p.Partition))
				}
			}
			return
		},
	},
	{
		// kfake implements only the single-transaction (v0-v3) body of this
		// request: it ignores the v4+ Transactions array. The scenarios
		// therefore keep the two transactional ids on different coordinators
		// (the client then sends one v3 request per coordinator).
		Name: "AddPartitionsToTxn", Key: 24, Cat: "txn", ErrCodes: []int16{16},
		Build: func(n *Names, shape string) kmsg.Request {
			req := kmsg.NewPtrAddPartitionsToTxnRequest()
			pid := map[string]int64{n.TA: n.PidA, n.TB: n.PidB, n.TU: 4242}
			ep := map[string]int16{n.TA: n.EpA, n.TB: n.EpB, n.TU: 0}
			if shape == ShapeOne { // the v0-v3 top-level form
				req.TransactionalID = n.TB
				req.ProducerID = n.PidB
				req.ProducerEpoch = n.EpB
				rt := kmsg.NewAddPartitionsToTxnRequestTopic()
				rt.Topic = "t"
				rt.Partitions = []int32{0, 2}
				req.Topics = append(req.Topics, rt)
				return req
			}
			ids := []string{n.TA, n.TB}
			parts := [][]int32{{0, 1}, {2}}
			if shape == ShapeDup {
				parts = [][]int32{{0, 1, 1}, {2}}
			}
			for i, id := range ids {
				tx := kmsg.NewAddPartitionsToTxnRequestTransaction()
				tx.TransactionalID = id
				tx.ProducerID = pid[id]
				tx.ProducerEpoch = ep[id]
				tt := kmsg.NewAddPartitionsToTxnRequestTransactionTopic()
				tt.Topic = "t"
				tt.Partitions = parts[i]
				tx.Topics = append(tx.Topics, tt)
				if shape == ShapeUnk && i == 1 {
					tu := kmsg.NewAddPartitionsToTxnRequestTransactionTopic()
					tu.Topic = "u"
					tu.Partitions = []int32{0}
					tx.Topics = append(tx.Topics, tu)
				}
				req.Transactions = append(req.Transactions, tx)
			}
			return req
		},
		ReqItems: func(r kmsg.Request) (out []string) {
			req := r.(*kmsg.AddPartitionsToTxnRequest)
			if len(req.Transactions) == 0 {
				for _, t := range req.Topics {
					for _, p := range t.Partitions {
						out = append(out, "x:"+req.TransactionalID+":"+tp(t.Topic, p))
					}
				}
				return
			}
			for _, tx := range req.Transactions {
				for _, t := range tx.Topics {
					for _, p := range t.Partitions {
						out = append(out, "x:"+tx.TransactionalID+":"+tp(t.Topic, p))
					}
				}
			}
			return
		},
		RespItems: func(r kmsg.Response) (out []string) {
			for _, tx := range r.(*kmsg.AddPartitionsToTxnResponse).Transactions {
				for _, t := range tx.Topics {
					for _, p := range t.Partitions {
						out = append(out, "x:"+tx.TransactionalID+":"+tp(t.Topic, p.Partition))
					}
				}
			}
			return
		},
	},
	{
		Name: "WriteTxnMarkers", Key: 27, Cat: "part", ErrCodes: []int16{6},
		Build: func(n *Names, shape string) kmsg.Request {
			req := kmsg.NewPtrWriteTxnMarkersRequest()
			mk := func(pid int64, xs ...tps) {
				m := kmsg.NewWriteTxnMarkersRequestMarker()
				m.ProducerID = pid
				m.ProducerEpoch = 0
				m.Committed = false
				for _, x := range xs {
					mt := kmsg.NewWriteTxnMarkersRequestMarkerTopic()
					mt.Topic = x.topic
					mt.Partitions = x.parts
					m.Topics = append(m.Topics, mt)
				}
				req.Markers = append(req.Markers, m)
			}
			switch shape {
			case ShapeAll:
				mk(100, tps{"t", []int32{0, 1}}, tps{"s", []int32{0}})
				mk(101, tps{"t", []int32{1, 2}})
			case ShapeUnk:
				mk(100, tps{"t", []int32{0, 1, 7}}, tps{"s", []int32{0}})
				mk(101, tps{"t", []int32{1, 2}}, tps{"u", []int32{0}})
			case ShapeDup:
				mk(100, tps{"t", []int32{0, 1, 1}}, tps{"s", []int32{0}})
				mk(101, tps{"t", []int32{1, 2}})
			case ShapeMix:
				mk(100, tps{"t", []int32{0, 1, 7}}, tps{"d", []int32{0}}, tps{"s", []int32{0}})
				mk(101, tps{"t", []int32{1, 2}}, tps{"u", []int32{0, 1}})
			case ShapeOne:
				mk(101, tps{"t", []int32{1}})
			}
			return req
		},
		ReqItems: func(r kmsg.Request) (out []string) {
			for _, m := range r.(*kmsg.WriteTxnMarkersRequest).Markers {
				for _, t := range m.Topics {
					for _, p := range t.Partitions {
						out = append(out, fmt.Sprintf("m:%d:%s", m.ProducerID, tp(t.Topic, p)))
					}
				}
			}
			return
		},
		RespItems: func(r kmsg.Response) (out []string) {
			for _, m := range r.(*kmsg.WriteTxnMarkersResponse).Markers {
				for _, t := range m.Topics {
					for _, p := range t.Partitions {
						out = append(out, fmt.Sprintf("m:%d:%s", m.ProducerID, tp(t.Topic, p.Partition)))
					}
				}
			}
			return
		},
	},
	{
		Name: "DescribeConfigs", Key: 32, Cat: "config",
		Build: func(n *Names, shape string) kmsg.Request {
			req := kmsg.NewPtrDescribeConfigsRequest()
			for _, x := range shapeResources(n, shape) {
				rr := kmsg.NewDescribeConfigsRequestResource()
				rr.ResourceType, rr.ResourceName = x.typ, x.name
				rr.ConfigNames = []string{"retention.ms"}
				req.Resources = append(req.Resources, rr)
			}
			return req
		},
		ReqItems: func(r kmsg.Request) (out []string) {
			for _, x := range r.(*kmsg.DescribeConfigsRequest).Resources {
				out = append(out, resItem(x.ResourceType, x.ResourceName))
			}
			return
		},
		RespItems: func(r kmsg.Response) (out []string) {
			for _, x := range r.(*kmsg.DescribeConfigsResponse).Resources {
				out = append(out, resItem(x.ResourceType, x.ResourceName))
			}
			return
		},
	},
	{
		Name: "AlterConfigs", Key: 33, Cat: "config",
		Build: func(n *Names, shape string) kmsg.Request {
			req := kmsg.NewPtrAlterConfigsRequest()
			req.ValidateOnly = true
			for _, x := range shapeResources(n, shape) {
				rr := kmsg.NewAlterConfigsRequestResource()
				rr.ResourceType, rr.ResourceName = x.typ, x.name
				req.Resources = append(req.Resources, rr)
			}
			return req
		},
		ReqItems: func(r kmsg.Request) (out []string) {
			for _, x := range r.(*kmsg.AlterConfigsRequest).Resources {
				out = append(out, resItem(x.ResourceType, x.ResourceName))
			}
			return
		},
		RespItems: func(r kmsg.Response) (out []string) {
			for _, x := range r.(*kmsg.AlterConfigsResponse).Resources {
				out = append(out, resItem(x.ResourceType, x.ResourceName))
			}
			return
		},
	},
	{
		Name: "AlterReplicaLogDirs", Key: 34, Cat: "replica",
		Build: func(n *Names, shape string) kmsg.Request {
			req := kmsg.NewPtrAlterReplicaLogDirsRequest()
			rd := kmsg.NewAlterReplicaLogDirsRequestDir()
			rd.Dir = "/d1"
			for _, x := range shapeTPs(shape) {
				rt := kmsg.NewAlterReplicaLogDirsRequestDirTopic()
				rt.Topic = x.topic
				rt.Partitions = x.parts
				rd.Topics = append(rd.Topics, rt)
			}
			req.Dirs = append(req.Dirs, rd)
			return req
		},
		ReqItems: func(r kmsg.Request) (out []string) {
			for _, d := range r.(*kmsg.AlterReplicaLogDirsRequest).Dirs {
				for _, t := range d.Topics {
					for _, p := range t.Partitions {
						out = append(out, tp(t.Topic, p))
					}
				}
			}
			return
		},
		RespItems: func(r kmsg.Response) (out []string) {
			for _, t := range r.(*kmsg.AlterReplicaLogDirsResponse).Topics {
				for _, p := range t.Partitions {
					out = append(out, tp(t.Topic, p.Partition))
				}
			}
			return
		},
	},
	{
		Name: "DescribeLogDirs", Key: 35, Cat: "replica",
		Build: func(n *Names, shape string) kmsg.Request {
			req := kmsg.NewPtrDescribeLogDirsRequest()
			for _, x := range shapeTPs(shape) {
				rt := kmsg.NewDescribeLogDirsRequestTopic()
				rt.Topic = x.topic
				rt.Partitions = x.parts
				req.Topics = append(req.Topics, rt)
			}
			return req
		},
		ReqItems: func(r kmsg.Request) (out []string) {
			for _, t := range r.(*kmsg.DescribeLogDirsRequest).Topics {
				for _, p := range t.Partitions {
					out = append(out, tp(t.Topic, p))
				}
			}
			return
		},
		RespItems: describeLogDirsRespItems,
	},
	{
		// DescribeLogDirs with null Topics: the all-brokers branch of the same sharder.
		Name: "DescribeLogDirsAll", Key: 35, Cat: "brokers",
		Build:     func(n *Names, shape string) kmsg.Request { return kmsg.NewPtrDescribeLogDirsRequest() },
		RespItems: describeLogDirsRespItems,
	},
	{
		Name: "DeleteGroups", Key: 42, Cat: "group", ErrCodes: []int16{16, 15},
		Build: func(n *Names, shape string) kmsg.Request {
			req := kmsg.NewPtrDeleteGroupsRequest()
			req.Groups = shapeGroups(n, shape)
			return req
		},
		ReqItems: func(r kmsg.Request) (out []string) {
			for _, g := range r.(*kmsg.DeleteGroupsRequest).Groups {
				out = append(out, "g:"+g)
			}
			return
		},
		RespItems: func(r kmsg.Response) (out []string) {
			for _, g := range r.(*kmsg.DeleteGroupsResponse).Groups {
				out = append(out, "g:"+g.Group)
			}
			return
		},
	},
	{
		Name: "IncrementalAlterConfigs", Key: 44, Cat: "config",
		Build: func(n *Names, shape string) kmsg.Request {
			req := kmsg.NewPtrIncrementalAlterConfigsRequest()
			req.ValidateOnly = true
			for _, x := range shapeResources(n, shape) {
				rr := kmsg.NewIncrementalAlterConfigsRequestResource()
				rr.ResourceType, rr.ResourceName = x.typ, x.name
				req.Resources = append(req.Resources, rr)
			}
			return req
		},
		ReqItems: func(r kmsg.Request) (out []string) {
			for _, x := range r.(*kmsg.IncrementalAlterConfigsRequest).Resources {
				out = append(out, resItem(x.ResourceType, x.ResourceName))
			}
			return
		},
		RespItems: func(r kmsg.Response) (out []string) {
			for _, x := range r.(*kmsg.IncrementalAlterConfigsResponse).Resources {
				out = append(out, resItem(x.ResourceType, x.ResourceName))
			}
			return
		},
	},
	{
		Name: "DescribeProducers", Key: 61, Cat: "part", ErrCodes: []int16{6},
		Build: func(n *Names, shape string) kmsg.Request {
			req := kmsg.NewPtrDescribeProducersRequest()
			for _, x := range shapeTPs(shape) {
				rt := kmsg.NewDescribeProducersRequestTopic()
				rt.Topic = x.topic
				rt.Partitions = x.parts
				req.Topics = append(req.Topics, rt)
			}
			return req
		},
		ReqItems: func(r kmsg.Request) (out []string) {
			for _, t := range r.(*kmsg.DescribeProducersRequest).Topics {
				for _, p := range t.Partitions {
					out = append(out, tp(t.Topic, p))
				}
			}
			return
		},
		RespItems: func(r kmsg.Response) (out []string) {
			for _, t := range r.(*kmsg.DescribeProducersResponse).Topics {
				for _, p := range t.Partitions {
					out = append(out, tp(t.Topic, p.Partition))
				}
			}
			return
		},
	},
	{
		Name: "DescribeTransactions", Key: 65, Cat: "txn", ErrCodes: []int16{16, 15},
		Build: func(n *Names, shape string) kmsg.Request {
			req := kmsg.NewPtrDescribeTransactionsRequest()
			req.TransactionalIDs = shapeTxns(n, shape)
			return req
		},
		ReqItems: func(r kmsg.Request) (out []string) {
			for _, id := range r.(*kmsg.DescribeTransactionsRequest).TransactionalIDs {
				out = append(out, "x:"+id)
			}
			return
		},
		RespItems: func(r kmsg.Response) (out []string) {
			for _, s := range r.(*kmsg.DescribeTransactionsResponse).TransactionStates {
				out = append(out, "x:"+s.TransactionalID)
			}
			return
		},
	},
	{
		Name: "ListTransactions", Key: 66, Cat: "brokers", ErrCodes: []int16{14},
		Build: func(n *Names, shape string) kmsg.Request { return kmsg.NewPtrListTransactionsRequest() },
		RespItems: func(r kmsg.Response) (out []string) {
			for _, s := range r.(*kmsg.ListTransactionsResponse).TransactionStates {
				out = append(out, "x:"+s.TransactionalID)
			}
			return
		},
	},
	{
		Name: "ConsumerGroupDescribe", Key: 69, Cat: "group", ErrCodes: []int16{16, 15},
		Build: func(n *Names, shape string) kmsg.Request {
			req := kmsg.NewPtrConsumerGroupDescribeRequest()
			req.Groups = shapeGroups(n, shape)
			return req
		},
		ReqItems: func(r kmsg.Request) (out []string) {
			for _, g := range r.(*kmsg.ConsumerGroupDescribeRequest).Groups {
				out = append(out, "g:"+g)
			}
			return
		},
		RespItems: func(r kmsg.Response) (out []string) {
			for _, g := range r.(*kmsg.ConsumerGroupDescribeResponse).Groups {
				out = append(out, "g:"+g.Group)
			}
			return
		},
	},
	{
		Name: "ShareGroupDescribe", Key: 77, Cat: "group", ErrCodes: []int16{16, 15},
		Build: func(n *Names, shape string) kmsg.Request {
			req := kmsg.NewPtrShareGroupDescribeRequest()
			req.GroupIDs = shapeGroups(n, shape)
			return req
		},
		ReqItems: func(r kmsg.Request) (out []string) {
			for _, g := range r.(*kmsg.ShareGroupDescribeRequest).GroupIDs {
				out = append(out, "g:"+g)
			}
			return
		},
		RespItems: func(r kmsg.Response) (out []string) {
			for _, g := range r.(*kmsg.ShareGroupDescribeResponse).Groups {
				out = append(out, "g:"+g.GroupID)
			}
			return
		},
	},
	{
		Name: "DescribeShareGroupOffsets", Key: 90, Cat: "group", ErrCodes: []int16{16, 15},
		Build: func(n *Names, shape string) kmsg.Request {
			req := kmsg.NewPtrDescribeShareGroupOffsetsRequest()
			for i, g := range shapeGroups(n, shape) {
				rg := kmsg.NewDescribeShareGroupOffsetsRequestGroup()
				rg.GroupID = g
				if i%2 == 1 || shape == ShapeOne { // every second group names its partitions
					rt := kmsg.NewDescribeShareGroupOffsetsRequestGroupTopic()
					rt.Topic = "t"
					rt.Partitions = []int32{0, 1}
					rg.Topics = append(rg.Topics, rt)
				}
				req.Groups = append(req.Groups, rg)
			}
			return req
		},
		ReqItems: func(r kmsg.Request) (out []string) {
			for _, g := range r.(*kmsg.DescribeShareGroupOffsetsRequest).Groups {
				out = append(out, "g:"+g.GroupID)
			}
			return
		},
		RespItems: func(r kmsg.Response) (out []string) {
			for _, g := range r.(*kmsg.DescribeShareGroupOffsetsResponse).Groups {
				out = append(out, "g:"+g.GroupID)
			}
			return
		},
		ReqSub: func(r kmsg.Request) (out []string) {
			for _, g := range r.(*kmsg.DescribeShareGroupOffsetsRequest).Groups {
				for _, t := range g.Topics {
					for _, p := range t.Partitions {
						out = append(out, "g:"+g.GroupID+":"+tp(t.Topic, p))
					}
				}
			}
			return
		},
		RespSub: func(r kmsg.Response) (out []string) {
			for _, g := range r.(*kmsg.DescribeShareGroupOffsetsResponse).Groups {
				if g.ErrorCode != 0 {
					out = append(out, "g:"+g.GroupID+":*")
					continue
				}
				for _, t := range g.Topics {
					for _, p := range t.Partitions {
						out = append(out, "g:"+g.GroupID+":"+tp(t.Topic, p.Partition))
					}
				}
			}
			return
		},
	},
}

func describeLogDirsRespItems(r kmsg.Response) (out []string) {
	for _, d := range r.(*kmsg.DescribeLogDirsResponse).Dirs {
		for _, t := range d.Topics {
			for _, p := range t.Partitions {
				out = append(out, tp(t.Topic, p.Partition))
			}
		}
	}
	return
}

// KindByName looks a kind up.
func KindByName(name string) *Kind {
	for _, k := range Kinds {
		if k.Name == name {
			return k
		}
	}
	return nil
}

// SharderTypes lists the sharder types of pkg/kgo/client.go and the kind(s) of
// this table that exercise each (the driver cross-checks this list against the
// source and reports sharders without a kind as uncovered).
var SharderTypes = map[string][]string{
	"listOffsetsSharder":               {"ListOffsets"},
	"offsetFetchSharder":               {"OffsetFetch"},
	"findCoordinatorSharder":           {"FindCoordinator"},
	"describeGroupsSharder":            {"DescribeGroups"},
	"listGroupsSharder":                {"ListGroups"},
	"deleteRecordsSharder":             {"DeleteRecords"},
	"offsetForLeaderEpochSharder":      {"OffsetForLeaderEpoch"},
	"addPartitionsToTxnSharder":        {"AddPartitionsToTxn"},
	"writeTxnMarkersSharder":           {"WriteTxnMarkers"},
	"describeConfigsSharder":           {"DescribeConfigs"},
	"alterConfigsSharder":              {"AlterConfigs"},
	"alterReplicaLogDirsSharder":       {"AlterReplicaLogDirs"},
	"describeLogDirsSharder":           {"DescribeLogDirs", "DescribeLogDirsAll"},
	"deleteGroupsSharder":              {"DeleteGroups"},
	"incrementalAlterConfigsSharder":   {"IncrementalAlterConfigs"},
	"describeProducersSharder":         {"DescribeProducers"},
	"describeTransactionsSharder":      {"DescribeTransactions"},
	"listTransactionsSharder":          {"ListTransactions"},
	"consumerGroupDescribeSharder":     {"ConsumerGroupDescribe"},
	"shareGroupDescribeSharder":        {"ShareGroupDescribe"},
	"describeShareGroupOffsetsSharder": {"DescribeShareGroupOffsets"},
}
