package shscen

import (
	"context"
	"encoding/binary"
	"errors"
	"fmt"
	"sort"
	"strconv"
	"strings"
	"sync"
	"time"

	"github.com/twmb/franz-go/pkg/kbin"
	"github.com/twmb/franz-go/pkg/kerr"
	"github.com/twmb/franz-go/pkg/kfake"
	"github.com/twmb/franz-go/pkg/kgo"
	"github.com/twmb/franz-go/pkg/kmsg"
	"github.com/twmb/franz-go/pkg/kversion"
	"github.com/twmb/franz-go/pkg/sasl/plain"

	"verif/lib/netctl"
	"verif/lib/nscen"
)

// Cfg is one configuration of the enumeration; its Name is the scenario name.
type Cfg struct {
	Kind   string
	NB     int    // brokers: 1, 2, 3, 5
	Layout string // one | spread | two  (leaders of t/0..2 and coordinators of the two groups / two transactional ids)
	Shape  string // all | unk | dup | one
	Mode   string // shard (RequestSharded) | merge (Request)
	Env    int    // 1: the environment moves the leader of t/0 (or rehashes the coordinators) between split and issue
	// EOF: how the client treats a connection that dies on its first request
	// (every shard connection of these scenarios is fresh). 0: the default,
	// "first read EOF" is not retried, the piece becomes an error shard;
	// 1: kgo.AlwaysRetryEOF, the piece is retried (re-split).
	EOF int
}

func (c Cfg) Name() string {
	return fmt.Sprintf("%s/nb%d/%s/%s/%s/env%d/eof%d", c.Kind, c.NB, c.Layout, c.Shape, c.Mode, c.Env, c.EOF)
}

// Parse is the inverse of Name.
func Parse(name string) (Cfg, bool) {
	f := strings.Split(name, "/")
	if len(f) != 7 || !strings.HasPrefix(f[1], "nb") || !strings.HasPrefix(f[5], "env") || !strings.HasPrefix(f[6], "eof") {
		return Cfg{}, false
	}
	nb, err1 := strconv.Atoi(f[1][2:])
	env, err2 := strconv.Atoi(f[5][3:])
	eof, err3 := strconv.Atoi(f[6][3:])
	c := Cfg{Kind: f[0], NB: nb, Layout: f[2], Shape: f[3], Mode: f[4], Env: env, EOF: eof}
	if err1 != nil || err2 != nil || err3 != nil || KindByName(c.Kind) == nil || !c.Valid() {
		return Cfg{}, false
	}
	return c, true
}

// EnvApplies: the kinds for which a leader move / coordinator rehash between
// split and issue means something.
func EnvApplies(k *Kind) bool {
	switch k.Cat {
	case "part", "replica", "group":
		return true
	case "txn":
		// AddPartitionsToTxn: a rehash could put both ids on one coordinator
		// and make the client batch them (v4), which kfake does not implement.
		return k.Name != "AddPartitionsToTxn"
	}
	return false
}

// Valid says whether the configuration exists.
func (c Cfg) Valid() bool {
	k := KindByName(c.Kind)
	if k == nil || c.NB < 1 || c.NB > 5 {
		return false
	}
	switch c.Layout {
	case "one":
	case "spread", "two":
		if c.NB == 1 {
			return false
		}
	default:
		return false
	}
	switch c.Shape {
	case ShapeAll, ShapeUnk, ShapeDup, ShapeOne:
	case ShapeMix: // two distinct metadata mapping errors: the kinds split by topic metadata
		if k.Cat != "part" && k.Cat != "replica" {
			return false
		}
	default:
		return false
	}
	if c.Mode != "shard" && c.Mode != "merge" {
		return false
	}
	if c.EOF != 0 && c.EOF != 1 {
		return false
	}
	if c.Env != 0 && (c.Env != 1 || !EnvApplies(k) || c.NB == 1) {
		return false
	}
	if k.Cat == "brokers" && c.Shape != ShapeAll { // the request has no items; one shape
		return false
	}
	if k.Name == "AddPartitionsToTxn" && c.Shape != ShapeOne && (c.NB == 1 || c.Layout == "one") {
		return false // both ids on one coordinator: v4 batch, not implemented by kfake
	}
	return true
}

func leaders(nb int, layout string) [3]int32 {
	switch layout {
	case "one":
		n := int32(nb - 1)
		return [3]int32{n, n, n}
	case "spread":
		return [3]int32{0, int32(1 % nb), int32(2 % nb)}
	default: // two on one
		return [3]int32{0, 0, int32(1 % nb)}
	}
}

func coordTargets(nb int, layout string) (a, b int32) {
	switch layout {
	case "one":
		return int32(nb - 1), int32(nb - 1)
	case "spread":
		return 0, int32(1 % nb)
	default:
		return int32(1 % nb), int32(2 % nb)
	}
}

var (
	nameMu    sync.Mutex
	nameCache = map[string]string{}
)

// pickName searches prefix0, prefix1, ... for the first name whose coordinator
// is node (kfake hashes the name; the search is deterministic).
func pickName(c *kfake.Cluster, nb int, prefix string, node int32) string {
	key := fmt.Sprintf("%s|%d|%d", prefix, nb, node)
	nameMu.Lock()
	n, ok := nameCache[key]
	nameMu.Unlock()
	if ok && c.CoordinatorFor(n) == node {
		return n
	}
	for i := 0; i < 4096; i++ {
		n = prefix + strconv.Itoa(i)
		if c.CoordinatorFor(n) == node {
			nameMu.Lock()
			nameCache[key] = n
			nameMu.Unlock()
			return n
		}
	}
	panic("c23: no name with coordinator " + strconv.Itoa(int(node)))
}

type state struct {
	cfg   Cfg
	kind  *Kind
	names Names

	want    map[string]int // requested items with multiplicity
	wantSub map[string]int

	mu        sync.Mutex
	done      bool
	shards    []kgo.ResponseShard
	merged    kmsg.Response
	mergedErr error
}

func count(items []string) map[string]int {
	m := map[string]int{}
	for _, it := range items {
		m[it]++
	}
	return m
}

// Scenario builds the netctl scenario of a configuration.
func Scenario(cfg Cfg) *netctl.Scenario {
	kind := KindByName(cfg.Kind)
	return &netctl.Scenario{
		Name:      cfg.Name(),
		NoTick:    true,
		Horizon:   2 * time.Minute,
		MaxPoints: 300,
		Setup:     func(x *netctl.Exec) { setup(x, cfg, kind) },
		Done: func(x *netctl.Exec) bool {
			st := x.Data.(*state)
			st.mu.Lock()
			defer st.mu.Unlock()
			return st.done
		},
		Final: final,
		Faults: func(x *netctl.Exec, dir string, key int16, c *netctl.Conn) []string {
			if c.Client != "c" {
				return nil
			}
			switch {
			case key == kind.Key && dir == "req":
				out := []string{"killbefore"}
				if ErrCapable(kind) {
					for _, code := range kind.ErrCodes {
						out = append(out, "err:"+strconv.Itoa(int(code)))
					}
				}
				return out
			case key == kind.Key && dir == "resp":
				return []string{"killafter"}
			case key == 10 && dir == "req": // coordinator lookup of a coordinator-routed kind
				return []string{"err:15", "killbefore"}
			case key == 3 && dir == "req": // metadata lookup
				return []string{"killbefore"}
			}
			return nil
		},
	}
}

func setup(x *netctl.Exec, cfg Cfg, kind *Kind) {
	copts := []kfake.Opt{kfake.SeedTopics(3, "t"), kfake.SeedTopics(1, "s")}
	var csasl, hsasl []kgo.Opt // SASL of the controlled client / of helper clients
	if cfg.Shape == ShapeMix {
		// A cluster with ACLs: alice may do everything on every topic and on
		// the cluster, except anything on topic d, which exists. Metadata
		// answers TOPIC_AUTHORIZATION_FAILED for d and
		// UNKNOWN_TOPIC_OR_PARTITION for u: two distinct mapping errors in
		// one request. Helpers stay on the superuser.
		acl := func(rt kmsg.ACLResourceType, name string, allow bool) kfake.ACL {
			return kfake.ACL{Resource: rt, Name: name, Pattern: kmsg.ACLResourcePatternTypeLiteral, Operation: kmsg.ACLOperationAll, Allow: allow}
		}
		copts = append(copts, kfake.SeedTopics(1, "d"), kfake.EnableSASL(), kfake.EnableACLs(),
			kfake.Superuser("PLAIN", "admin", "admin"),
			kfake.User("PLAIN", "alice", "alicepw",
				acl(kmsg.ACLResourceTypeTopic, "*", true),
				acl(kmsg.ACLResourceTypeTopic, "d", false),
				acl(kmsg.ACLResourceTypeCluster, "kafka-cluster", true)))
		csasl = []kgo.Opt{kgo.SASL(plain.Auth{User: "alice", Pass: "alicepw"}.AsMechanism())}
		hsasl = []kgo.Opt{kgo.SASL(plain.Auth{User: "admin", Pass: "admin"}.AsMechanism())}
	}
	c := x.Cluster(cfg.NB, copts...)
	ld := leaders(cfg.NB, cfg.Layout)
	for p, n := range ld {
		if err := c.MoveTopicPartition("t", int32(p), n); err != nil {
			panic(err)
		}
	}
	if err := c.MoveTopicPartition("s", 0, ld[0]); err != nil { // s/0 shares its leader with t/0: one broker answers for two topics
		panic(err)
	}
	ca, cb := coordTargets(cfg.NB, cfg.Layout)
	st := &state{cfg: cfg, kind: kind}
	st.names = Names{NB: cfg.NB,
		GA: pickName(c, cfg.NB, "ga", ca), GB: pickName(c, cfg.NB, "gb", cb), GU: "gu0",
		TA: pickName(c, cfg.NB, "ta", ca), TB: pickName(c, cfg.NB, "tb", cb), TU: "tu0",
		PidA: -1, PidB: -1}
	x.Data = st

	needGroups := kind.Cat == "group" || kind.Cat == "find" || kind.Name == "ListGroups"
	needTxns := kind.Cat == "txn" || kind.Name == "ListTransactions"
	if needGroups || needTxns {
		// OffsetCommit v10 addresses topics by id; the helper commits by name.
		vers := kversion.Stable()
		vers.SetMaxKeyVersion(8, 9)
		h := nscen.Helper(x, c, append([]kgo.Opt{kgo.MaxVersions(vers)}, hsasl...)...)
		ctx, cancel := context.WithTimeout(context.Background(), 30*time.Second)
		if needGroups {
			for _, g := range []string{st.names.GA, st.names.GB} {
				req := kmsg.NewPtrOffsetCommitRequest()
				req.Group = g
				rt := kmsg.NewOffsetCommitRequestTopic()
				rt.Topic = "t"
				rp := kmsg.NewOffsetCommitRequestTopicPartition()
				rp.Partition = 0
				rp.Offset = 0
				rt.Partitions = append(rt.Partitions, rp)
				req.Topics = append(req.Topics, rt)
				resp, err := req.RequestWith(ctx, h)
				if err != nil || len(resp.Topics) != 1 || len(resp.Topics[0].Partitions) != 1 || resp.Topics[0].Partitions[0].ErrorCode != 0 {
					panic(fmt.Sprintf("c23 setup: creating group %s by a commit failed: %v %+v", g, err, resp))
				}
			}
		}
		if needTxns {
			for i, id := range []string{st.names.TA, st.names.TB} {
				id := id
				req := kmsg.NewPtrInitProducerIDRequest()
				req.TransactionalID = &id
				req.TransactionTimeoutMillis = 60000
				resp, err := req.RequestWith(ctx, h)
				if err != nil || resp.ErrorCode != 0 {
					panic(fmt.Sprintf("c23 setup: InitProducerID %s failed: %v %+v", id, err, resp))
				}
				if i == 0 {
					st.names.PidA, st.names.EpA = resp.ProducerID, resp.ProducerEpoch
				} else {
					st.names.PidB, st.names.EpB = resp.ProducerID, resp.ProducerEpoch
				}
			}
		}
		cancel()
		h.Close()
	}

	clopts := csasl
	if cfg.EOF == 1 {
		clopts = append(clopts, kgo.AlwaysRetryEOF())
	}
	cl := nscen.NewClient(x, "c", c, clopts...)
	req := kind.Build(&st.names, cfg.Shape)
	// The requested items are taken BEFORE the call: some sharders rewrite
	// the caller's request (AddPartitionsToTxn appends to Transactions).
	if kind.ReqItems != nil {
		st.want = count(kind.ReqItems(req))
	}
	if kind.ReqSub != nil {
		st.wantSub = count(kind.ReqSub(req))
	}

	x.Thread("c", func(t *netctl.Thread) {
		ctx, cancel := context.WithTimeout(context.Background(), 100*time.Second)
		defer cancel()
		t.Step("issue-" + cfg.Mode)
		if cfg.Mode == "shard" {
			sh := cl.RequestSharded(ctx, req)
			st.mu.Lock()
			st.shards, st.done = sh, true
			st.mu.Unlock()
		} else {
			resp, err := cl.Request(ctx, req)
			st.mu.Lock()
			st.merged, st.mergedErr, st.done = resp, err, true
			st.mu.Unlock()
		}
	})

	if cfg.Env == 1 {
		// The environment step becomes enabled when the lookup the split is
		// computed from (Metadata for leader / replica routed kinds,
		// FindCoordinator for coordinator routed ones) has been delivered to
		// the client; the default order then runs it before the shard
		// requests are delivered: a move between split and issue.
		trigger := int16(3)
		if kind.Cat == "group" || kind.Cat == "txn" {
			trigger = 10
		}
		sig := make(chan struct{}, 1)
		quit := make(chan struct{})
		x.OnCleanup(func() { close(quit) })
		x.FrameHook = func(conn *netctl.Conn, dir string, key, ver int16, frame []byte) {
			if conn.Client == "c" && dir == "resp" && key == trigger {
				select {
				case sig <- struct{}{}:
				default:
				}
			}
		}
		x.Thread("ENV", func(t *netctl.Thread) {
			select {
			case <-sig:
			case <-quit:
				return
			}
			if trigger == 3 {
				t.Step("move-t0")
				c.MoveTopicPartition("t", 0, (ld[0]+1)%int32(cfg.NB))
			} else {
				t.Step("rehash-coordinators")
				c.RehashCoordinators()
			}
		})
	}
}

func errClass(err error) string {
	if err == nil {
		return "nil"
	}
	var ke *kerr.Error
	if errors.As(err, &ke) {
		return ke.Message
	}
	if errors.Is(err, context.DeadlineExceeded) || errors.Is(err, context.Canceled) {
		return "ctx"
	}
	return fmt.Sprintf("%T", err)
}

func known(item string) bool {
	return item == "t/0" || item == "t/1" || item == "t/2" || item == "s/0"
}

// fan is the number of shards an item is expected in: one, except for the
// replica-routed kinds, where every replica of a known partition gets its own
// piece (kfake: replication factor min(3, brokers)).
func (st *state) fan(item string) int {
	if st.kind.Cat == "replica" && known(item) {
		if st.cfg.NB < 3 {
			return st.cfg.NB
		}
		return 3
	}
	return 1
}

func final(x *netctl.Exec) {
	st := x.Data.(*state)
	// The call runs under a 100 s context: in pass-through mode it returns.
	deadline := time.Now().Add(150 * time.Second)
	for {
		st.mu.Lock()
		d := st.done
		st.mu.Unlock()
		if d || !time.Now().Before(deadline) {
			break
		}
		time.Sleep(100 * time.Millisecond)
	}
	st.mu.Lock()
	defer st.mu.Unlock()
	if !st.done {
		x.Violate("request-never-returned", "%s did not return 150 virtual seconds into a fault-free suffix (context timeout 100 s)", st.cfg.Mode)
		return
	}
	if st.cfg.Mode == "shard" {
		st.checkShards(x)
	} else {
		st.checkMerged(x)
	}
}

func sortedKeys(m map[string]int) []string {
	var out []string
	for k := range m {
		out = append(out, k)
	}
	sort.Strings(out)
	return out
}

func (st *state) checkShards(x *netctl.Exec) {
	k := st.kind
	if len(st.shards) == 0 {
		x.Violate("no-shard", "RequestSharded returned no shard (documented: always at least one)")
		return
	}
	want := st.want
	if k.Cat == "brokers" {
		if sh := st.shards[0]; len(st.shards) == 1 && sh.Err != nil && sh.Meta.NodeID < 0 {
			// The broker list could not be loaded: the request failed
			// wholesale as one error shard (documented sharder behaviour).
			x.Observe("shards[wholesale E(%s)]", errClass(sh.Err))
			return
		}
		want = map[string]int{}
		for i := 0; i < st.cfg.NB; i++ {
			want["b:"+strconv.Itoa(i)] = 1
		}
	}
	in := map[string][]int{}    // item -> shards it appears in
	total := map[string]int{}   // item -> occurrences over all shards
	subIn := map[string][]int{} // sub item -> shards
	var desc []string
	answered := 0
	for i, sh := range st.shards {
		var items, sub []string
		switch {
		case k.Cat == "brokers":
			items = []string{"b:" + strconv.Itoa(int(sh.Meta.NodeID))}
			if sh.Err == nil && sh.Resp == nil {
				x.Violate("shard-empty", "shard %d (broker %d) has neither Resp nor Err", i, sh.Meta.NodeID)
			}
		case sh.Err != nil:
			if sh.Req == nil {
				x.Violate("shard-empty", "error shard %d (%v) has no Req", i, sh.Err)
				continue
			}
			items = k.ReqItems(sh.Req)
			if k.ReqSub != nil {
				sub = k.ReqSub(sh.Req)
			}
		case sh.Resp == nil:
			x.Violate("shard-empty", "shard %d (broker %d) has neither Resp nor Err", i, sh.Meta.NodeID)
			continue
		default:
			items = k.RespItems(sh.Resp)
			if k.RespSub != nil {
				sub = k.RespSub(sh.Resp)
			}
		}
		if sh.Err == nil {
			answered++
		}
		cnt := count(items)
		for _, it := range sortedKeys(cnt) {
			w, ok := want[it]
			if !ok {
				x.Violate("stray-item", "shard %d (broker %d, err %v) carries item %s that was not requested (requested %v)", i, sh.Meta.NodeID, sh.Err, it, sortedKeys(want))
				continue
			}
			if cnt[it] > w {
				x.Violate("item-twice-in-one-shard", "item %s requested %d time(s) appears %d times in shard %d (broker %d, err %v)", it, w, cnt[it], i, sh.Meta.NodeID, sh.Err)
			}
			in[it] = append(in[it], i)
			total[it] += cnt[it]
		}
		for it := range count(sub) {
			subIn[it] = append(subIn[it], i)
		}
		where := "b" + strconv.Itoa(int(sh.Meta.NodeID))
		if sh.Err != nil {
			where = "E(" + errClass(sh.Err) + ")"
		}
		desc = append(desc, fmt.Sprintf("%s:%d", where, len(items)))
	}
	for _, it := range sortedKeys(want) {
		n, exp := len(in[it]), st.fan(it)
		if k.Cat == "replica" && exp > 1 && n > 0 {
			// One piece per replica. A piece that could not be mapped to
			// brokers (metadata failed) is an error shard without a broker
			// and stands for every replica it would have gone to.
			unissued, issued := 0, 0
			seen := map[int32]bool{}
			twice := false
			for _, i := range in[it] {
				sh := st.shards[i]
				if sh.Err != nil && sh.Meta.NodeID < 0 {
					unissued++
					continue
				}
				issued++
				if seen[sh.Meta.NodeID] {
					twice = true
				}
				seen[sh.Meta.NodeID] = true
			}
			switch {
			case twice:
				x.Violate("replica-piece-twice", "item %s: more than one shard from the same replica broker (expected one piece per replica, %d replicas); shards: %s", it, exp, st.dump())
			case issued+unissued > exp:
				x.Violate("item-in-two-shards", "requested item %s is in %d returned shards %v, expected one per replica = %d; shards: %s", it, n, in[it], exp, st.dump())
			case unissued == 0 && issued < exp:
				x.Violate("item-missing-replica", "item %s is in %d shards, expected one per replica = %d; shards: %s", it, n, exp, st.dump())
			}
			continue
		}
		switch {
		case n == 0:
			x.Violate("item-missing", "requested item %s is in no returned shard (neither in a response nor in the Req of an error shard); shards: %s", it, st.dump())
		case n < exp:
			x.Violate("item-missing-replica", "item %s is in %d shards, expected one per replica = %d; shards: %s", it, n, exp, st.dump())
		case n > exp && want[it] > 1 && total[it] <= exp*want[it]:
			// An item the caller listed m times may come back as up to m
			// pieces (one per listed occurrence), as long as it is not
			// multiplied: the statement counts distinct requested items.
			x.Count("duplicate_item_in_separate_shards", 1)
		case n > exp:
			x.Violate("item-in-two-shards", "requested item %s is in %d returned shards %v, expected %d; shards: %s", it, n, in[it], exp, st.dump())
		}
	}
	for _, it := range sortedKeys(st.wantSub) {
		// "g:<group>:<t/p>" is covered by itself or by the wildcard of a failed group.
		wild := it[:strings.LastIndex(it, ":")] + ":*"
		n := map[int]bool{}
		for _, i := range subIn[it] {
			n[i] = true
		}
		for _, i := range subIn[wild] {
			n[i] = true
		}
		switch {
		case len(n) == 0:
			x.Violate("subitem-missing", "requested partition %s is in no returned shard (its group is: %v); shards: %s", it, in[it[:strings.LastIndex(it, ":")]], st.dump())
		case len(n) > 1:
			x.Violate("subitem-in-two-shards", "requested partition %s is in %d returned shards; shards: %s", it, len(n), st.dump())
		}
	}
	sort.Strings(desc)
	x.Count("shards", len(st.shards))
	if answered > 0 {
		x.Count("answered_shards", answered)
	}
	x.Observe("shards[%s]", strings.Join(desc, " "))
}

// dump renders the shards for a violation message.
func (st *state) dump() string {
	var out []string
	for i, sh := range st.shards {
		s := fmt.Sprintf("#%d broker=%d err=%v", i, sh.Meta.NodeID, sh.Err)
		if sh.Req != nil && st.kind.ReqItems != nil {
			s += fmt.Sprintf(" req=%v", st.kind.ReqItems(sh.Req))
		}
		if sh.Req != nil && st.kind.ReqSub != nil {
			s += fmt.Sprintf(" req-partitions=%v", st.kind.ReqSub(sh.Req))
		}
		if sh.Resp != nil {
			s += fmt.Sprintf(" resp=%v", st.kind.RespItems(sh.Resp))
			if st.kind.RespSub != nil {
				s += fmt.Sprintf(" resp-partitions=%v", st.kind.RespSub(sh.Resp))
			}
		}
		out = append(out, s)
	}
	return strings.Join(out, "; ")
}

func (st *state) checkMerged(x *netctl.Exec) {
	k := st.kind
	if st.merged == nil {
		if st.mergedErr == nil {
			x.Violate("merged-empty", "Request returned neither a response nor an error")
		}
		x.Observe("merged[nil err=%s]", errClass(st.mergedErr))
		return
	}
	want := st.want
	fan := st.fan
	if k.Cat == "brokers" {
		// What the merged response of an identical-to-every-broker request must
		// hold once: the groups / transactional ids that exist; for the
		// all-log-dirs request every broker reports every partition.
		want = map[string]int{}
		switch k.Name {
		case "ListGroups":
			want["g:"+st.names.GA], want["g:"+st.names.GB] = 1, 1
		case "ListTransactions":
			want["x:"+st.names.TA], want["x:"+st.names.TB] = 1, 1
		case "DescribeLogDirsAll":
			want["t/0"], want["t/1"], want["t/2"], want["s/0"] = 1, 1, 1, 1
			fan = func(string) int { return st.cfg.NB }
		}
	}
	got := count(k.RespItems(st.merged))
	for _, it := range sortedKeys(want) {
		lo, hi := fan(it), fan(it)*want[it]
		c := got[it]
		if c < lo && st.mergedErr == nil {
			x.Violate("merged-item-missing", "Request returned no error but the merged response holds item %s %d time(s), expected %d; merged items %v", it, c, lo, got)
		}
		if c > hi {
			x.Violate("merged-item-twice", "merged response holds item %s %d times, expected at most %d; merged items %v (err %v)", it, c, hi, got, st.mergedErr)
		}
	}
	for _, it := range sortedKeys(got) {
		if _, ok := want[it]; !ok {
			x.Violate("merged-stray-item", "merged response holds item %s that was not requested (requested %v)", it, sortedKeys(want))
		}
	}
	if k.RespSub != nil {
		gs := count(k.RespSub(st.merged))
		for _, it := range sortedKeys(st.wantSub) {
			wild := it[:strings.LastIndex(it, ":")] + ":*"
			c := gs[it] + gs[wild]
			if c == 0 && st.mergedErr == nil {
				x.Violate("merged-subitem-missing", "Request returned no error but the merged response lacks partition %s; it holds groups %v with partitions %v", it, got, gs)
			}
			if c > st.wantSub[it] {
				x.Violate("merged-subitem-twice", "merged response holds partition %s %d times", it, c)
			}
		}
	}
	n := 0
	for _, c := range got {
		n += c
	}
	if st.mergedErr == nil {
		x.Count("merged_ok", 1)
	}
	x.Observe("merged[items=%d err=%s]", n, errClass(st.mergedErr))
}

// ---------------------------------------------------------------------------
// err:<code> capability: netctl fabricates an error response by mirroring the
// request's item structure; for some kinds the response's item fields are
// named differently (or the response has no item-level error), and the
// fabricated response would then carry no items: a broker reply no real
// broker sends. Such kinds get no err: faults (kills only).

var (
	capMu    sync.Mutex
	capCache = map[string]bool{}
)

func reqFrame(req kmsg.Request, ver int16) []byte {
	req.SetVersion(ver)
	b := make([]byte, 4, 256)
	b = kbin.AppendInt16(b, req.Key())
	b = kbin.AppendInt16(b, ver)
	b = kbin.AppendInt32(b, 1)
	id := "c"
	b = kbin.AppendNullableString(b, &id)
	if req.IsFlexible() {
		b = append(b, 0)
	}
	b = req.AppendTo(b)
	binary.BigEndian.PutUint32(b, uint32(len(b)-4))
	return b
}

// ErrCapable reports whether an err:<code> fault on a shard request of this
// kind yields a response that still names every item of the request.
func ErrCapable(k *Kind) bool {
	if len(k.ErrCodes) == 0 {
		return false
	}
	switch {
	case k.Cat == "brokers":
		return true // the item is the broker; the error is top level
	case k.Name == "AddPartitionsToTxn":
		return true // sent as v3: Topics/Partitions mirror one to one (the self test below reads the v4 form)
	}
	capMu.Lock()
	defer capMu.Unlock()
	if v, ok := capCache[k.Name]; ok {
		return v
	}
	n := &Names{NB: 3, GA: "ga", GB: "gb", GU: "gu", TA: "ta", TB: "tb", TU: "tu"}
	ok := true
	for _, shape := range []string{ShapeAll, ShapeUnk} {
		req := k.Build(n, shape)
		ver := req.MaxVersion()
		fb := netctl.FabricateError(reqFrame(req, ver), k.ErrCodes[0])
		if fb == nil {
			ok = false
			break
		}
		resp, dec := netctl.DecodeResponse(fb, req.Key(), ver)
		if !dec {
			ok = false
			break
		}
		got := count(k.RespItems(resp))
		for it := range count(k.ReqItems(req)) {
			if got[it] == 0 {
				ok = false
			}
		}
	}
	capCache[k.Name] = ok
	return ok
}
