package c23

import (
	"bufio"
	"encoding/json"
	"fmt"
	"io"
	"os"
	"os/exec"
	"path/filepath"
	"regexp"
	"sort"
	"strings"
	"sync"
	"testing"
	"time"

	"verif.local/ev"

	"verif/checks/c23/shscen"
	"verif/lib/explore"
	"verif/lib/netctl"
)

// C23 is an enumeration of (request kind × brokers × layout × item set × API ×
// environment step) configurations, each a tiny scenario explored to a small
// deviation budget. nrun starts fresh worker processes per plan, which costs
// more than the whole exploration of such a scenario, so this driver keeps one
// pool of worker subprocesses (the same test binary re-executed with
// VERIF_WORKER=1; a worker builds any scenario from its name) and runs many
// explore.Explore calls over it.

func workerCmd() *exec.Cmd {
	cmd := exec.Command(os.Args[0], "-test.run", "^TestC23$", "-test.timeout", "0")
	cmd.Env = append(os.Environ(), "VERIF_WORKER=1", "GOMAXPROCS=1")
	return cmd
}

func runJob(t *testing.T, job explore.Job) explore.Result {
	cfg, ok := shscen.Parse(job.Scenario)
	if !ok {
		return explore.Result{Crash: "unknown scenario " + job.Scenario}
	}
	sc := shscen.Scenario(cfg)
	res := netctl.Run(t, sc, job)
	// A replayed prefix can diverge: the client picks the "any" broker of a
	// lookup from a shuffled order that the explorer does not own. Each try
	// reshuffles; an execution is a few milliseconds.
	for try := 0; res.Diverged && try < 9; try++ {
		res = netctl.Run(t, sc, job)
	}
	return res
}

var connRe = regexp.MustCompile(`:c/b\d+/\w+#\d+:`)

// faultClass is the stable class of the faults of a job: fault labels without
// connection names ("killbefore:Metadata+err:16:OffsetFetch"), "reorder" if
// the deviations are reorderings only, "default" for the default order.
func faultClass(kinds []string) string {
	if len(kinds) == 0 {
		return "default"
	}
	var fs []string
	for _, k := range kinds {
		if isFault(k) {
			fs = append(fs, connRe.ReplaceAllString(k, ":"))
		}
	}
	if len(fs) == 0 {
		return "reorder"
	}
	sort.Strings(fs)
	return strings.Join(fs, "+")
}

type tailBuf struct {
	mu sync.Mutex
	b  []byte
}

func (t *tailBuf) Write(p []byte) (int, error) {
	t.mu.Lock()
	t.b = append(t.b, p...)
	if len(t.b) > 16<<10 {
		t.b = append([]byte(nil), t.b[len(t.b)-16<<10:]...)
	}
	t.mu.Unlock()
	return len(p), nil
}

type proc struct {
	cmd  *exec.Cmd
	in   io.WriteCloser
	out  *bufio.Reader
	rf   *os.File
	tail *tailBuf
}

func startProc() (*proc, error) {
	cmd := workerCmd()
	rf, wf, err := os.Pipe()
	if err != nil {
		return nil, err
	}
	cmd.ExtraFiles = []*os.File{wf}
	tail := &tailBuf{}
	if os.Getenv("VERIF_DEBUG") != "" {
		cmd.Stderr = os.Stderr
	} else {
		cmd.Stderr = tail
	}
	in, err := cmd.StdinPipe()
	if err != nil {
		return nil, err
	}
	if err := cmd.Start(); err != nil {
		return nil, err
	}
	wf.Close()
	return &proc{cmd: cmd, in: in, out: bufio.NewReaderSize(rf, 1<<20), rf: rf, tail: tail}, nil
}

func (p *proc) kill() {
	p.in.Close()
	p.cmd.Process.Kill()
	p.cmd.Wait()
	p.rf.Close()
}

func (p *proc) run(job explore.Job, timeout time.Duration) (res explore.Result, ok bool) {
	b, _ := json.Marshal(job)
	b = append(b, '\n')
	type rr struct {
		line []byte
		err  error
	}
	ch := make(chan rr, 1)
	go func() {
		if _, err := p.in.Write(b); err != nil {
			ch <- rr{nil, err}
			return
		}
		line, err := p.out.ReadBytes('\n')
		ch <- rr{line, err}
	}()
	select {
	case r := <-ch:
		if r.err != nil {
			p.tail.mu.Lock()
			tail := string(p.tail.b)
			p.tail.mu.Unlock()
			return explore.Result{Crash: fmt.Sprintf("worker died: %v\n%s", r.err, tail)}, false
		}
		if err := json.Unmarshal(r.line, &res); err != nil {
			return explore.Result{Crash: fmt.Sprintf("bad worker reply: %v", err)}, false
		}
		return res, !res.Retire
	case <-time.After(timeout):
		p.kill()
		<-ch
		return explore.Result{Capped: true, Diverged: true, Obs: "job-timeout",
			Viol: []explore.Violation{{Key: "exec-hang", What: "execution did not finish within 3 real minutes (virtual time not advancing)"}}}, false
	}
}

type pool struct{ free chan *proc }

func newPool(n int) *pool {
	p := &pool{free: make(chan *proc, n)}
	for i := 0; i < n; i++ {
		p.free <- nil
	}
	return p
}

func (pl *pool) run(job explore.Job) explore.Result {
	p := <-pl.free
	if p == nil {
		var err error
		if p, err = startProc(); err != nil {
			ev.InfraError("cannot start worker: %v", err)
		}
	}
	res, ok := p.run(job, 3*time.Minute)
	if !ok {
		if res.Obs != "job-timeout" {
			p.kill()
		}
		p = nil
	}
	pl.free <- p
	return res
}

func (pl *pool) close() {
	for i := 0; i < cap(pl.free); i++ {
		if p := <-pl.free; p != nil {
			p.in.Close()
			done := make(chan struct{})
			go func() { p.cmd.Wait(); close(done) }()
			select {
			case <-done:
			case <-time.After(5 * time.Second):
				p.cmd.Process.Kill()
				<-done
			}
			p.rf.Close()
		}
	}
}

// ---------------------------------------------------------------------------
// the enumeration

type task struct {
	cfg    shscen.Cfg
	budget int
}

var (
	allLayouts = []string{"spread", "two", "one"}
	allShapes  = []string{shscen.ShapeAll, shscen.ShapeUnk, shscen.ShapeDup, shscen.ShapeOne}
	allModes   = []string{"shard", "merge"}
)

// plan lists every configuration of the tier with its deviation budget.
func plan(thorough bool) []task {
	budget := map[string]int{}
	var order []string
	add := func(c shscen.Cfg, b int) {
		if !c.Valid() {
			return
		}
		n := c.Name()
		old, ok := budget[n]
		if !ok {
			order = append(order, n)
		}
		if !ok || b > old {
			budget[n] = b
		}
	}
	grid := func(kinds []*shscen.Kind, nbs []int, layouts, shapes []string, envs []int, b int) {
		for _, k := range kinds {
			for _, nb := range nbs {
				for _, l := range layouts {
					for _, s := range shapes {
						for _, m := range allModes {
							for _, e := range envs {
								add(shscen.Cfg{Kind: k.Name, NB: nb, Layout: l, Shape: s, Mode: m, Env: e}, b)
								if b > 0 { // with faults, both treatments of a connection dying on its first request
									add(shscen.Cfg{Kind: k.Name, NB: nb, Layout: l, Shape: s, Mode: m, Env: e, EOF: 1}, b)
								}
							}
						}
					}
				}
			}
		}
	}
	var five []*shscen.Kind
	for _, k := range shscen.Kinds {
		if k.Important {
			five = append(five, k)
		}
	}
	two := []string{"spread", "two"}
	allUnk := []string{shscen.ShapeAll, shscen.ShapeUnk}
	// The kinds split by topic metadata additionally get the item set whose
	// unmappable items fail with two distinct errors (unknown topic + topic
	// the user is denied, on a cluster with ACLs).
	var byTopic []*shscen.Kind
	for _, k := range shscen.Kinds {
		if k.Cat == "part" || k.Cat == "replica" {
			byTopic = append(byTopic, k)
		}
	}
	mix := []string{shscen.ShapeMix}
	if !thorough {
		grid(byTopic, []int{3}, allLayouts, mix, []int{0, 1}, 1)
	} else {
		grid(byTopic, []int{1, 2, 3, 5}, allLayouts, mix, []int{0, 1}, 1)
		grid(byTopic, []int{3}, two, mix, []int{0, 1}, 2)
	}
	if !thorough {
		// every kind, 3 brokers, every layout and item-set shape, default order
		grid(shscen.Kinds, []int{3}, allLayouts, allShapes, []int{0, 1}, 0)
		// every single deviation (reorder or fault): every kind on 2 layouts × 2 item sets, the five on all
		grid(shscen.Kinds, []int{3}, two, allUnk, []int{0, 1}, 1)
		grid(five, []int{3}, allLayouts, allShapes, []int{0, 1}, 1)
	} else {
		grid(shscen.Kinds, []int{1, 2, 3, 5}, allLayouts, allShapes, []int{0, 1}, 1)
		// every pair of deviations, 3 brokers: every kind on 2 layouts × 2 item sets, the five on every configuration
		grid(shscen.Kinds, []int{3}, two, allUnk, []int{0, 1}, 2)
		grid(five, []int{3}, allLayouts, allShapes, []int{0, 1}, 2)
	}
	var out []task
	for _, n := range order {
		c, _ := shscen.Parse(n)
		out = append(out, task{c, budget[n]})
	}
	// cheap budgets first, so that a time cut removes depth, not breadth
	sort.SliceStable(out, func(i, j int) bool { return out[i].budget < out[j].budget })
	return out
}

// uncovered cross-checks the sharder types of the tree under test against
// the kind table and kfake's handler files.
func uncovered() (sharders []string, missing []string) {
	repo := os.Getenv("REPO")
	if repo == "" {
		repo = "/repo"
	}
	src, err := os.ReadFile(filepath.Join(repo, "pkg/kgo/client.go"))
	if err != nil {
		ev.InfraError("read client.go: %v", err)
	}
	for _, m := range regexp.MustCompile(`(?m)^type (\w+Sharder) struct`).FindAllStringSubmatch(string(src), -1) {
		sharders = append(sharders, m[1])
		kinds := shscen.SharderTypes[m[1]]
		if len(kinds) == 0 {
			missing = append(missing, m[1]+" (no request kind in the C23 table)")
			continue
		}
		for _, kn := range kinds {
			k := shscen.KindByName(kn)
			files, _ := filepath.Glob(filepath.Join(repo, fmt.Sprintf("pkg/kfake/%02d_*.go", k.Key)))
			impl := false
			for _, f := range files {
				if !strings.HasSuffix(f, "_test.go") {
					impl = true
				}
			}
			if !impl {
				missing = append(missing, fmt.Sprintf("%s (kfake has no handler for key %d %s)", m[1], k.Key, kn))
			}
		}
	}
	return
}

type kindStats struct {
	Configs        int            `json:"configurations"`
	Completed      int            `json:"configurations_completed"`
	ByBudget       map[string]int `json:"configurations_per_budget"`
	Execs          int64          `json:"executions"`
	Points         int64          `json:"decision_points"`
	Events         int64          `json:"events"`
	Outcomes       map[string]int `json:"-"`
	NOutcomes      int            `json:"distinct_outcomes"`
	Answered       int64          `json:"executions_with_a_broker_answer"`
	Diverged       int64          `json:"diverged"`
	Capped         int64          `json:"capped"`
	ErrFaults      bool           `json:"err_faults_offered"`
	FaultExecs     int64          `json:"executions_with_a_fault"`
	ReorderExecs   int64          `json:"executions_with_a_reorder"`
	ViolationCount int            `json:"violations"`
}

func TestC23(t *testing.T) {
	if explore.IsWorker() {
		explore.ServeWorker(func(job explore.Job) explore.Result { return runJob(t, job) })
		return
	}
	if p := os.Getenv("VERIF_REPLAY"); p != "" {
		replay(t, p)
		return
	}
	tasks := plan(ev.Thorough())
	if only := os.Getenv("VERIF_SCENARIO"); only != "" {
		var sel []task
		for _, tk := range tasks {
			if strings.HasPrefix(tk.cfg.Name(), only) {
				sel = append(sel, tk)
			}
		}
		tasks = sel
	}
	if os.Getenv("VERIF_LIST") != "" {
		for _, tk := range tasks {
			fmt.Printf("k=%d %s\n", tk.budget, tk.cfg.Name())
		}
		return
	}
	r := ev.New("C23", "model_checking")
	r.Rule("engine N, enumerated: for every request kind the client splits (21 sharders; DescribeLogDirs in both its per-topic and all-brokers form) × brokers (quick 3; thorough 1,2,3,5) × placement of the 3 partitions of t (+ s/0 with the leader of t/0) and of the coordinators of 2 groups / 2 transactional ids (all on one broker, spread, two on one) × requested item set (all known; known + unknown topic u, unknown partition t/7, a group / id that does not exist, broker 9; known + one duplicate; one item in the legacy single-item form; for the 7 kinds split by topic metadata also 'mix': known + unknown topic u + unknown partition t/7 + topic d that exists but is denied to the client's user on a SASL/ACL cluster, i.e. unmappable items failing with two distinct errors, explored to the same k as the other item sets, on every layout) × API (RequestSharded, Request) × environment step (none; leader of t/0 moved resp. coordinators rehashed after the lookup was delivered, i.e. between split and issue) × (with faults) treatment of a connection that dies on its first request (default: not retried, error shard; AlwaysRetryEOF: retried, re-split), one request is issued from a controlled thread and the order of lookup and shard frames and the faults (err:NOT_LEADER / NOT_COORDINATOR / COORDINATOR_NOT_AVAILABLE / COORDINATOR_LOAD_IN_PROGRESS on a shard request, COORDINATOR_NOT_AVAILABLE on a coordinator lookup, connection killed before or after the broker handled a shard request, or before a lookup) are explored within k deviations of the default order: quick k=0 on every configuration with 3 brokers, k=1 on every kind (2 layouts × 2 item sets) and on every configuration of the five most used kinds; thorough k=1 on every configuration, k=2 with 3 brokers on every kind (2 layouts × 2 item sets × environment step) and on every configuration of the five; distinct = (configuration, shard pattern: per shard the broker or error class and its item count) pairs")
	r.Assume("kfake is the broker (its handlers echo every requested item; AddPartitionsToTxn only in its single-transaction v0-v3 body)",
		"synctests build of xsync; virtual time; timer ticks are not explored (a request timeout is the killafter fault)",
		"goroutine micro-interleavings inside one event are the Go runtime's",
		"an item of a shard = an item of its response, or of its Req if the shard carries an error; for the replica-routed kinds (DescribeLogDirs, AlterReplicaLogDirs) one piece per replica is the design, so a known partition is expected in exactly min(3, brokers) shards from distinct brokers; for the identical-to-every-broker kinds the shard item is the broker and the merged response must list every existing group / transactional id once")

	sharders, missing := uncovered()
	if missing == nil {
		missing = []string{} // every sharder has a kind and kfake handles its key
	}
	r.Set("sharders_in_source", sharders)
	r.Set("uncovered_sharders", missing)
	r.Set("partially_covered", map[string]string{
		"addPartitionsToTxnSharder": "kfake ignores the v4+ Transactions array of AddPartitionsToTxn (handler reads only the v0-v3 top-level fields), so configurations in which both transactional ids share a coordinator (the client then batches them in one v4 request) are not enumerated",
	})
	if len(missing) > 0 {
		r.NotExhaustive(fmt.Sprintf("%d sharder(s) not covered: %v", len(missing), missing))
	}
	var noErr []string
	for _, k := range shscen.Kinds {
		if len(k.ErrCodes) > 0 && !shscen.ErrCapable(k) {
			noErr = append(noErr, k.Name)
		}
	}
	r.Set("err_fault_not_expressible", map[string]any{"kinds": noErr,
		"why": "the error response the proxy fabricates from the request would not carry the request's items for these kinds (response item fields named differently from the request's); they get connection kills only"})

	total := 80 * time.Second
	if ev.Thorough() {
		total = 17 * time.Minute
	}
	begin := time.Now()
	deadline := begin.Add(total)
	workers := ev.Workers()
	pl := newPool(workers)

	stats := map[string]*kindStats{}
	for _, k := range shscen.Kinds {
		stats[k.Name] = &kindStats{ByBudget: map[string]int{}, Outcomes: map[string]int{}, ErrFaults: shscen.ErrCapable(k)}
	}
	for _, tk := range tasks {
		s := stats[tk.cfg.Kind]
		s.Configs++
		s.ByBudget[fmt.Sprintf("k%d", tk.budget)]++
	}
	var mu sync.Mutex
	perKey := map[string]int{}
	perFine := map[string]int{}
	var samples []any
	nviol := 0
	report := func(tk task, job explore.Job, res explore.Result) {
		mu.Lock()
		defer mu.Unlock()
		s := stats[tk.cfg.Kind]
		r.Evals(1)
		r.Traces(1)
		r.States(int64(len(res.Points)) + 1)
		r.Transitions(int64(res.Steps))
		s.Execs++
		s.Points += int64(len(res.Points))
		s.Events += int64(res.Steps)
		if res.Diverged {
			s.Diverged++
		}
		if res.Capped {
			s.Capped++
		}
		if res.Counters["answered_shards"] > 0 || res.Counters["merged_ok"] > 0 {
			s.Answered++
		}
		if n := res.Counters["duplicate_item_in_separate_shards"]; n > 0 {
			// the lenient reading of "exactly one shard" for an item listed twice was used
			r.Add("executions_with_a_duplicate_item_in_separate_shards", 1)
		}
		if res.Counters["horizon"] > 0 {
			r.Add("executions_ended_by_horizon", 1)
		}
		fault, reorder := false, false
		for _, kd := range job.Kinds {
			if isFault(kd) {
				fault = true
			} else {
				reorder = true
			}
		}
		if fault {
			s.FaultExecs++
		}
		if reorder {
			s.ReorderExecs++
		}
		if !res.Diverged {
			r.Distinct(tk.cfg.Name() + "|" + res.Obs)
			s.Outcomes[res.Obs]++
		}
		if len(samples) < 8 && !res.Diverged && ((len(job.Kinds) == 0 && len(samples) < 3 && tk.cfg.Shape == shscen.ShapeUnk) || (len(job.Kinds) > 0 && fault && strings.Contains(res.Obs, " "))) {
			var lab []string
			for _, pt := range res.Points {
				lab = append(lab, pt.Labels[pt.Chosen])
			}
			samples = append(samples, map[string]any{"configuration": tk.cfg.Name(), "deviations": job.Kinds, "schedule": lab, "outcome": res.Obs})
		}
		if os.Getenv("VERIF_VERBOSE") != "" && (res.Capped || res.Diverged || res.Crash != "") {
			b, _ := json.Marshal(job)
			fmt.Printf("    capped=%v diverged=%v crash=%q obs=%s job=%s\n", res.Capped, res.Diverged, res.Crash, res.Obs, b)
		}
		if res.Crash != "" {
			res.Viol = append(res.Viol, explore.Violation{Key: "worker-crash", What: res.Crash})
		}
		for _, v := range res.Viol {
			// The class used by the known-findings file: request kind + oracle
			// key. The fault class (which faults were injected, without
			// connection names) refines it in the evidence only: with two
			// deviations the combinations are too many to list as findings.
			key := "C23:" + tk.cfg.Kind + ":" + v.Key
			fine := key + ":" + faultClass(job.Kinds)
			s.ViolationCount++
			nviol++
			perFine[fine]++
			if perKey[key]++; perKey[key] <= 3 {
				r.Violation(key, fmt.Sprintf("configuration %s, deviations %v: %s", tk.cfg.Name(), job.Kinds, v.What),
					map[string]any{"check": "C23", "scenario": tk.cfg.Name(), "prefix": job.Prefix, "labels": job.Labels, "fault_class": faultClass(job.Kinds), "violation": v})
			}
		}
	}

	// W task goroutines; each explores one configuration at a time over the shared pool.
	next := 0
	notStarted, cut := 0, 0
	var divergedTotal int64
	completedPerBudget := map[int]int{}
	plannedPerBudget := map[int]int{}
	for _, tk := range tasks {
		plannedPerBudget[tk.budget]++
	}
	var wg sync.WaitGroup
	for w := 0; w < workers; w++ {
		wg.Add(1)
		go func() {
			defer wg.Done()
			for {
				mu.Lock()
				if next >= len(tasks) {
					mu.Unlock()
					return
				}
				tk := tasks[next]
				next++
				if time.Now().After(deadline) {
					notStarted++
					mu.Unlock()
					continue
				}
				mu.Unlock()
				inner := 1
				if tk.budget >= 2 {
					inner = 4
				}
				st := explore.Explore(explore.Config{
					Scenario: tk.cfg.Name(), Budget: tk.budget, Workers: inner, Deadline: deadline, Run: pl.run,
					OnResult: func(job explore.Job, res explore.Result) { report(tk, job, res) },
				})
				mu.Lock()
				divergedTotal += st.Diverged
				if st.Cut {
					cut++
				} else {
					completedPerBudget[tk.budget]++
					stats[tk.cfg.Kind].Completed++
				}
				mu.Unlock()
			}
		}()
	}
	wg.Wait()
	pl.close()

	for _, s := range samples {
		r.Sample(s)
	}
	var vacuous []string
	perKind := map[string]any{}
	for _, k := range shscen.Kinds {
		s := stats[k.Name]
		s.NOutcomes = len(s.Outcomes)
		perKind[k.Name] = s
		if s.Execs > 0 && s.Answered == 0 {
			vacuous = append(vacuous, k.Name)
		}
		fmt.Printf("  %-26s configs=%d completed=%d execs=%d points=%d outcomes=%d answered=%d fault-execs=%d diverged=%d capped=%d viol=%d\n",
			k.Name, s.Configs, s.Completed, s.Execs, s.Points, s.NOutcomes, s.Answered, s.FaultExecs, s.Diverged, s.Capped, s.ViolationCount)
	}
	r.Set("kinds", perKind)
	r.Set("configurations", len(tasks))
	bc := map[string]any{}
	for b, n := range plannedPerBudget {
		bc[fmt.Sprintf("k%d", b)] = map[string]int{"configurations": n, "completed": completedPerBudget[b]}
	}
	r.Set("bound_completed", bc)
	r.Set("violations_per_class", perKey)
	r.Set("violations_per_class_and_faults", perFine)
	r.Set("violations_observed", nviol)
	if len(vacuous) > 0 {
		r.Set("vacuous_kinds", vacuous)
		r.NotExhaustive(fmt.Sprintf("no execution of %v got any broker answer (kind not really served by kfake?)", vacuous))
	}
	if notStarted > 0 || cut > 0 {
		r.NotExhaustive(fmt.Sprintf("time budget ended: %d configuration(s) cut inside their last deviation level, %d not started (of %d)", cut, notStarted, len(tasks)))
	}
	if divergedTotal > 0 {
		r.NotExhaustive(fmt.Sprintf("%d replayed prefixes diverged (subtrees not expanded)", divergedTotal))
	}
	fmt.Printf("  %d configurations, completed per budget %v of %v, cut=%d not-started=%d, %.1fs\n", len(tasks), completedPerBudget, plannedPerBudget, cut, notStarted, time.Since(begin).Seconds())
	os.Exit(r.Write())
}

func isFault(label string) bool {
	for _, p := range []string{"kill", "err", "rewrite", "stall"} {
		if strings.HasPrefix(label, p) {
			return true
		}
	}
	return false
}

// replay re-runs one violation artefact in-process with debug output.
func replay(t *testing.T, path string) {
	b, err := os.ReadFile(path)
	if err != nil {
		t.Fatal(err)
	}
	var a struct {
		Artefact struct {
			Scenario string   `json:"scenario"`
			Prefix   []int    `json:"prefix"`
			Labels   []string `json:"labels"`
		} `json:"artefact"`
	}
	if err := json.Unmarshal(b, &a); err != nil {
		t.Fatal(err)
	}
	cfg, ok := shscen.Parse(a.Artefact.Scenario)
	if !ok {
		t.Fatalf("unknown scenario %q", a.Artefact.Scenario)
	}
	sc := shscen.Scenario(cfg)
	res := netctl.Run(t, sc, explore.Job{Scenario: sc.Name, Prefix: a.Artefact.Prefix, Labels: a.Artefact.Labels})
	var lab []string
	for _, pt := range res.Points {
		lab = append(lab, pt.Labels[pt.Chosen])
	}
	fmt.Printf("replay %s: points=%d diverged=%v\nschedule: %s\nobs: %s\n", sc.Name, len(res.Points), res.Diverged, strings.Join(lab, " "), res.Obs)
	for _, v := range res.Viol {
		fmt.Printf("VIOLATION-REPLAYED %s: %s\n", v.Key, v.What)
	}
	if len(res.Viol) > 0 {
		os.Exit(1)
	}
	os.Exit(0)
}
