package defs

import (
	"fmt"
	"reflect"
	"sort"
	"strings"
	"sync"

	"github.com/twmb/franz-go/pkg/kmsg"
)

// Codec is what every kmsg wire type offers.
type Codec interface {
	AppendTo([]byte) []byte
	ReadFrom([]byte) error
	UnsafeReadFrom([]byte) error
}

var (
	tagsType   = reflect.TypeOf(kmsg.Tags{})
	shapeCache sync.Map // reflect.Type -> error or nil
)

func goKindOK(t *Type, rt reflect.Type) bool {
	switch t.Kind {
	case KBool:
		return rt.Kind() == reflect.Bool
	case KInt8:
		return rt.Kind() == reflect.Int8
	case KInt16:
		return rt.Kind() == reflect.Int16
	case KInt32, KVarint:
		return rt.Kind() == reflect.Int32
	case KInt64, KVarlong:
		return rt.Kind() == reflect.Int64
	case KUint16:
		return rt.Kind() == reflect.Uint16
	case KUint32:
		return rt.Kind() == reflect.Uint32
	case KFloat64:
		return rt.Kind() == reflect.Float64
	case KUuid:
		return rt.Kind() == reflect.Array && rt.Len() == 16 && rt.Elem().Kind() == reflect.Uint8
	case KString:
		if t.Nullable {
			return rt.Kind() == reflect.Ptr && rt.Elem().Kind() == reflect.String
		}
		return rt.Kind() == reflect.String
	case KVarintString:
		return rt.Kind() == reflect.String
	case KBytes, KVarintBytes, KRaw:
		return rt.Kind() == reflect.Slice && rt.Elem().Kind() == reflect.Uint8
	case KArray:
		return rt.Kind() == reflect.Slice && goKindOK(t.Elem, rt.Elem())
	case KStruct:
		if t.Nullable {
			return rt.Kind() == reflect.Ptr && rt.Elem().Kind() == reflect.Struct
		}
		return rt.Kind() == reflect.Struct
	}
	return false
}

// CheckShape verifies that the Go struct has exactly the fields the
// definition gives it (plus Version for top level messages and UnknownTags
// for structs that can be flexible), with matching Go kinds, recursively.
func CheckShape(s *Struct, rt reflect.Type) error {
	type key struct {
		s  *Struct
		rt reflect.Type
	}
	if e, ok := shapeCache.Load(key{s, rt}); ok {
		if e == nil {
			return nil
		}
		return e.(error)
	}
	err := checkShape(s, rt)
	if err == nil {
		shapeCache.Store(key{s, rt}, nil)
	} else {
		shapeCache.Store(key{s, rt}, err)
	}
	return err
}

func checkShape(s *Struct, rt reflect.Type) error {
	if rt.Kind() != reflect.Struct {
		return fmt.Errorf("%s: Go type %s is not a struct", s.Name, rt)
	}
	want := map[string]bool{}
	if s.TopLevel {
		want["Version"] = true
		if f, ok := rt.FieldByName("Version"); !ok || f.Type.Kind() != reflect.Int16 {
			return fmt.Errorf("%s: Go type %s lacks Version int16", s.Name, rt)
		}
	}
	for _, x := range s.GoExtra {
		want[x] = true
	}
	for _, f := range s.Fields {
		want[f.Name] = true
		gf, ok := rt.FieldByName(f.Name)
		if !ok {
			return fmt.Errorf("%s: Go type %s lacks field %s", s.Name, rt, f.Name)
		}
		if !goKindOK(f.Type, gf.Type) {
			return fmt.Errorf("%s.%s: definition says %s but Go field is %s", s.Name, f.Name, f.Type, gf.Type)
		}
		t, g := f.Type, gf.Type
		for t.Kind == KArray {
			t, g = t.Elem, g.Elem()
		}
		if t.Kind == KStruct {
			if t.Nullable {
				g = g.Elem()
			}
			if err := CheckShape(t.Struct, g); err != nil {
				return err
			}
		}
	}
	if s.FlexibleAt >= 0 {
		want["UnknownTags"] = true
		if f, ok := rt.FieldByName("UnknownTags"); !ok || f.Type != tagsType {
			return fmt.Errorf("%s: Go type %s lacks UnknownTags kmsg.Tags although the definition is flexible from v%d", s.Name, rt, s.FlexibleAt)
		}
	}
	for i := 0; i < rt.NumField(); i++ {
		if !want[rt.Field(i).Name] {
			return fmt.Errorf("%s: Go type %s has field %s that the definition does not have", s.Name, rt, rt.Field(i).Name)
		}
	}
	return nil
}

// ToGo stores the tree into the Go struct dst (addressable).
func ToGo(v *SVal, dst reflect.Value) {
	s := v.S
	for i, f := range s.Fields {
		setGo(f.Type, v.F[i], dst.FieldByName(f.Name))
	}
	if s.Name == "Record" { // hand written mirror field, see harnessRecord
		dst.FieldByName("TimestampDelta").SetInt(int64(int32(dst.FieldByName("TimestampDelta64").Int())))
	}
	if len(v.Unknown) > 0 {
		tg := dst.FieldByName("UnknownTags").Addr().Interface().(*kmsg.Tags)
		for _, t := range v.Unknown {
			tg.Set(t.Key, t.Val)
		}
	}
}

func setGo(t *Type, v any, dst reflect.Value) {
	switch t.Kind {
	case KBool:
		dst.SetBool(v.(bool))
	case KInt8, KInt16, KInt32, KInt64, KVarint, KVarlong:
		dst.SetInt(v.(int64))
	case KUint16, KUint32:
		dst.SetUint(v.(uint64))
	case KFloat64:
		dst.SetFloat(v.(float64))
	case KUuid:
		u := v.([16]byte)
		reflect.Copy(dst, reflect.ValueOf(u[:]))
	case KString:
		s := v.(Str)
		if t.Nullable {
			if s.Null {
				dst.Set(reflect.Zero(dst.Type()))
			} else {
				p := reflect.New(dst.Type().Elem())
				p.Elem().SetString(s.S)
				dst.Set(p)
			}
		} else {
			dst.SetString(s.S)
		}
	case KVarintString:
		dst.SetString(v.(Str).S)
	case KBytes, KVarintBytes, KRaw:
		b := v.(Byt)
		if b.Null {
			dst.Set(reflect.Zero(dst.Type()))
		} else {
			dst.SetBytes(append(make([]byte, 0, len(b.B)), b.B...))
		}
	case KArray:
		a := v.(*Arr)
		if a.Null {
			dst.Set(reflect.Zero(dst.Type()))
			return
		}
		sl := reflect.MakeSlice(dst.Type(), len(a.E), len(a.E))
		for i := range a.E {
			setGo(t.Elem, a.E[i], sl.Index(i))
		}
		dst.Set(sl)
	case KStruct:
		sv := v.(*SVal)
		if t.Nullable {
			if sv.Null {
				dst.Set(reflect.Zero(dst.Type()))
				return
			}
			p := reflect.New(dst.Type().Elem())
			ToGo(sv, p.Elem())
			dst.Set(p)
			return
		}
		ToGo(sv, dst)
	default:
		panic("setGo: " + t.Kind.String())
	}
}

// FromGo reads the Go struct into a tree (nil slices/pointers become Null).
func FromGo(s *Struct, src reflect.Value) *SVal {
	v := &SVal{S: s, F: make([]any, len(s.Fields))}
	for i, f := range s.Fields {
		v.F[i] = getGo(f.Type, src.FieldByName(f.Name))
	}
	if s.FlexibleAt >= 0 {
		f := src.FieldByName("UnknownTags")
		var tg *kmsg.Tags
		if f.CanAddr() {
			tg = f.Addr().Interface().(*kmsg.Tags)
		} else {
			c := f.Interface().(kmsg.Tags)
			tg = &c
		}
		tg.Each(func(k uint32, val []byte) { v.Unknown = append(v.Unknown, UTag{k, val}) })
	}
	return v
}

func getGo(t *Type, src reflect.Value) any {
	switch t.Kind {
	case KBool:
		return src.Bool()
	case KInt8, KInt16, KInt32, KInt64, KVarint, KVarlong:
		return src.Int()
	case KUint16, KUint32:
		return src.Uint()
	case KFloat64:
		return src.Float()
	case KUuid:
		var u [16]byte
		reflect.Copy(reflect.ValueOf(u[:]), src)
		return u
	case KString:
		if t.Nullable {
			if src.IsNil() {
				return Str{Null: true}
			}
			return Str{S: src.Elem().String()}
		}
		return Str{S: src.String()}
	case KVarintString:
		return Str{S: src.String()}
	case KBytes, KVarintBytes, KRaw:
		if src.IsNil() {
			return Byt{Null: true}
		}
		return Byt{B: src.Bytes()}
	case KArray:
		if src.IsNil() {
			return &Arr{Null: true}
		}
		a := &Arr{E: make([]any, src.Len())}
		for i := range a.E {
			a.E[i] = getGo(t.Elem, src.Index(i))
		}
		return a
	case KStruct:
		if t.Nullable {
			if src.IsNil() {
				return &SVal{Null: true, S: t.Struct}
			}
			return FromGo(t.Struct, src.Elem())
		}
		return FromGo(t.Struct, src)
	}
	panic("getGo: " + t.Kind.String())
}

// Unit is one (type, version) pair under test.
type Unit struct {
	Name    string
	S       *Struct
	Version int
	Role    string // request | response | embedded | manual
	RT      reflect.Type
	// EffVersion, when set, derives the version a value is encoded at from
	// the value itself (StickyMemberMetadata has no version on the wire).
	EffVersion func(v *SVal) int
}

// New returns a fresh Go value (defaults applied, version set).
func (u *Unit) New() Codec {
	p := reflect.New(u.RT)
	if d, ok := p.Interface().(interface{ Default() }); ok {
		d.Default()
	}
	if u.S.TopLevel {
		p.Interface().(interface{ SetVersion(int16) }).SetVersion(int16(u.Version))
	}
	return p.Interface().(Codec)
}

// Inst is a reusable Go value of a unit for hot loops: Reset makes it
// indistinguishable from New() (zero value, Default(), version set) without
// allocating.
type Inst struct {
	u    *Unit
	elem reflect.Value
	c    Codec
	def  interface{ Default() }
	sv   interface{ SetVersion(int16) }
}

func (u *Unit) NewInst() *Inst {
	p := reflect.New(u.RT)
	i := &Inst{u: u, elem: p.Elem(), c: p.Interface().(Codec)}
	i.def, _ = p.Interface().(interface{ Default() })
	if u.S.TopLevel {
		i.sv = p.Interface().(interface{ SetVersion(int16) })
	}
	return i
}

func (i *Inst) Reset() Codec {
	i.elem.SetZero()
	if i.def != nil {
		i.def.Default()
	}
	if i.sv != nil {
		i.sv.SetVersion(int16(i.u.Version))
	}
	return i.c
}

// Build stores a tree into a fresh Go value.
func (u *Unit) Build(v *SVal) Codec {
	c := u.New()
	ToGo(v, reflect.ValueOf(c).Elem())
	return c
}

// Tree reads a Go value back.
func (u *Unit) Tree(c Codec) *SVal { return FromGo(u.S, reflect.ValueOf(c).Elem()) }

func (u *Unit) String() string { return fmt.Sprintf("%s/v%d", u.Name, u.Version) }

// embedded lists the stand-alone wire types of pkg/kmsg that are not requests
// or responses. A definition with encoding that is missing here is reported
// as uncovered, never skipped silently.
var embedded = map[string]reflect.Type{
	"MessageV0":                reflect.TypeOf(kmsg.MessageV0{}),
	"MessageV1":                reflect.TypeOf(kmsg.MessageV1{}),
	"Header":                   reflect.TypeOf(kmsg.Header{}),
	"Record":                   reflect.TypeOf(kmsg.Record{}),
	"RecordBatch":              reflect.TypeOf(kmsg.RecordBatch{}),
	"OffsetCommitKey":          reflect.TypeOf(kmsg.OffsetCommitKey{}),
	"OffsetCommitValue":        reflect.TypeOf(kmsg.OffsetCommitValue{}),
	"GroupMetadataKey":         reflect.TypeOf(kmsg.GroupMetadataKey{}),
	"GroupMetadataValue":       reflect.TypeOf(kmsg.GroupMetadataValue{}),
	"TxnMetadataKey":           reflect.TypeOf(kmsg.TxnMetadataKey{}),
	"TxnMetadataValue":         reflect.TypeOf(kmsg.TxnMetadataValue{}),
	"StickyMemberMetadata":     reflect.TypeOf(kmsg.StickyMemberMetadata{}),
	"ConsumerMemberMetadata":   reflect.TypeOf(kmsg.ConsumerMemberMetadata{}),
	"ConsumerMemberAssignment": reflect.TypeOf(kmsg.ConsumerMemberAssignment{}),
	"ConnectMemberMetadata":    reflect.TypeOf(kmsg.ConnectMemberMetadata{}),
	"ConnectMemberAssignment":  reflect.TypeOf(kmsg.ConnectMemberAssignment{}),
	"DefaultPrincipalData":     reflect.TypeOf(kmsg.DefaultPrincipalData{}),
	"ControlRecordKey":         reflect.TypeOf(kmsg.ControlRecordKey{}),
	"EndTxnMarker":             reflect.TypeOf(kmsg.EndTxnMarker{}),
	"LeaderChangeMessage":      reflect.TypeOf(kmsg.LeaderChangeMessage{}),
}

// Registry is the result of matching the definitions with the Go package.
type Registry struct {
	Units      []*Unit
	Types      int
	Uncovered  []string // definitions (or Go messages) the harness cannot drive
	ViaParent  []string // "no encoding" structs, covered inside their parents
	Mismatches []string // key / max version disagreements between definitions and kmsg
	Special    []string
}

func BuildRegistry(sc *Schema) *Registry {
	r := &Registry{}
	covered := map[string]bool{}
	add := func(s *Struct, rt reflect.Type, role string, lo, hi int) {
		covered[s.Name] = true
		if _, ok := reflect.New(rt).Interface().(Codec); !ok {
			r.Uncovered = append(r.Uncovered, s.Name+": Go type has no AppendTo/ReadFrom/UnsafeReadFrom")
			return
		}
		if err := CheckShape(s, rt); err != nil {
			r.Mismatches = append(r.Mismatches, "shape: "+err.Error())
			return
		}
		r.Types++
		for v := lo; v <= hi; v++ {
			r.Units = append(r.Units, &Unit{Name: s.Name, S: s, Version: v, Role: role, RT: rt})
		}
	}
	top := func(c any, k int, role string) {
		rt := reflect.TypeOf(c).Elem()
		s := sc.Structs[rt.Name()]
		if s == nil || !s.TopLevel {
			r.Uncovered = append(r.Uncovered, fmt.Sprintf("Go %s %s (key %d) has no top level definition", role, rt.Name(), k))
			return
		}
		m := c.(interface {
			Key() int16
			MaxVersion() int16
		})
		if s.Key != k || int(m.Key()) != k {
			r.Mismatches = append(r.Mismatches, fmt.Sprintf("%s: definition key %d, Key() %d, reached through key %d", s.Name, s.Key, m.Key(), k))
		}
		if int(m.MaxVersion()) != s.MaxVersion {
			r.Mismatches = append(r.Mismatches, fmt.Sprintf("%s: definition max version %d, MaxVersion() %d", s.Name, s.MaxVersion, m.MaxVersion()))
		}
		add(s, rt, role, 0, s.MaxVersion)
	}
	for k := 0; k <= kmsg.MaxKey; k++ {
		req, resp := kmsg.RequestForKey(int16(k)), kmsg.ResponseForKey(int16(k))
		if req == nil || resp == nil {
			r.Uncovered = append(r.Uncovered, fmt.Sprintf("key %d: RequestForKey/ResponseForKey returned nil", k))
			continue
		}
		top(req, k, "request")
		top(resp, k, "response")
		qn, pn := reflect.TypeOf(req).Elem().Name(), reflect.TypeOf(resp).Elem().Name()
		if strings.TrimSuffix(qn, "Request")+"Response" != pn {
			r.Mismatches = append(r.Mismatches, fmt.Sprintf("key %d: RequestForKey gives %s but ResponseForKey gives %s", k, qn, pn))
		}
		if rk := reflect.TypeOf(req.ResponseKind()).Elem().Name(); rk != pn {
			r.Mismatches = append(r.Mismatches, fmt.Sprintf("%s.ResponseKind() is a %s, the definitions pair it with %s", qn, rk, pn))
		}
		if rk := reflect.TypeOf(resp.RequestKind()).Elem().Name(); rk != qn {
			r.Mismatches = append(r.Mismatches, fmt.Sprintf("%s.RequestKind() is a %s, the definitions pair it with %s", pn, rk, qn))
		}
	}
	names := append([]string{}, sc.Order...)
	sort.Strings(names)
	for _, n := range names {
		s := sc.Structs[n]
		switch {
		case covered[n]:
		case s.TopLevel:
			r.Uncovered = append(r.Uncovered, fmt.Sprintf("%s (key %d) is defined but not reachable through RequestForKey/ResponseForKey 0..MaxKey", n, s.Key))
		case n == "StickyMemberMetadata":
			// "no encoding" in the DSL; the codec is hand written in api.go
			// and picks the version from the value (Generation != -1 => v1).
			rt := embedded[n]
			if err := CheckShape(s, rt); err != nil {
				r.Mismatches = append(r.Mismatches, "shape: "+err.Error())
				continue
			}
			r.Types++
			gi := -1
			for i, f := range s.Fields {
				if f.Name == "Generation" && f.MinVer == 1 && f.Type.DefInt == -1 {
					gi = i
				}
			}
			if gi < 0 || s.MaxMentionedVersion() != 1 {
				r.Uncovered = append(r.Uncovered, n+": definition no longer has Generation: int32(-1) // v1+ as its only versioned field")
				continue
			}
			for v := 0; v <= 1; v++ {
				r.Units = append(r.Units, &Unit{Name: n, S: s, Version: v, Role: "manual", RT: rt, EffVersion: func(sv *SVal) int {
					if sv.F[gi].(int64) != -1 {
						return 1
					}
					return 0
				}})
			}
			r.Special = append(r.Special, "StickyMemberMetadata: hand written codec without a version on the wire; a value is encoded as v1 iff Generation != -1 (documented in api.go), so each valuation is checked at that derived version")
		case s.NoEncoding:
			r.ViaParent = append(r.ViaParent, n)
		default:
			rt, ok := embedded[n]
			if !ok {
				r.Uncovered = append(r.Uncovered, n+": stand-alone definition with encoding but no Go type registered in the harness")
				continue
			}
			role := "embedded"
			if n == "Record" {
				role = "manual"
				r.Special = append(r.Special, "Record: definition supplied by the harness (definitions/misc keeps it commented out; record.go is hand written); Go field TimestampDelta mirrors int32(TimestampDelta64)")
			}
			switch {
			case s.WithVersionField:
				add(s, rt, role, 0, s.MaxMentionedVersion()+1)
			default:
				add(s, rt, role, 0, 0)
			}
		}
	}
	// every "no encoding" struct must be exercised through some parent
	used := map[string]bool{}
	var walk func(s *Struct)
	walk = func(s *Struct) {
		for _, f := range s.Fields {
			t := f.Type
			for t.Kind == KArray {
				t = t.Elem
			}
			if t.Kind == KStruct {
				used[t.Struct.Name] = true
				walk(t.Struct)
			}
		}
	}
	for _, u := range r.Units {
		walk(u.S)
	}
	for _, n := range r.ViaParent {
		if !used[n] {
			r.Uncovered = append(r.Uncovered, n+": 'no encoding' struct that no covered type embeds")
		}
	}
	return r
}
