// Package defs is an independent interpreter of franz-go's protocol
// definition DSL (generate/definitions/*). It is shared by checks C15 and C16.
//
// Nothing here imports or copies generate/parse.go or generate/gen.go: the
// grammar is re-derived from generate/README.md and the definition files, and
// the wire rules are the Kafka protocol rules (KIP-482 for flexible versions).
// Every construct that this parser does not know is a hard error naming the
// file, line and construct; nothing is guessed.
package defs

import (
	"fmt"
	"os"
	"path/filepath"
	"regexp"
	"sort"
	"strconv"
	"strings"
)

type Kind int

const (
	KBool Kind = iota
	KInt8
	KInt16
	KUint16
	KInt32
	KInt64
	KUint32
	KFloat64
	KVarint
	KVarlong
	KUuid
	KString       // string / nullable-string (int16 or compact uvarint length)
	KBytes        // bytes / nullable-bytes (int32 or compact uvarint length)
	KVarintString // zig-zag varint length, never compact
	KVarintBytes  // zig-zag varint length, -1 is null, never compact
	KArray
	KStruct
	KRaw // length-field-minus: raw bytes, size taken from an earlier field
)

var kindNames = map[Kind]string{KBool: "bool", KInt8: "int8", KInt16: "int16", KUint16: "uint16", KInt32: "int32",
	KInt64: "int64", KUint32: "uint32", KFloat64: "float64", KVarint: "varint", KVarlong: "varlong", KUuid: "uuid",
	KString: "string", KBytes: "bytes", KVarintString: "varint-string", KVarintBytes: "varint-bytes",
	KArray: "array", KStruct: "struct", KRaw: "length-field-minus"}

func (k Kind) String() string { return kindNames[k] }

// Type is one DSL type expression.
type Type struct {
	Kind         Kind
	Nullable     bool // nullable-string, nullable-bytes, varint-bytes, nullable[..], nullable=>
	NullableFrom int  // first version at which Nullable applies (0: always)
	VarintLen    bool // varint[..] arrays
	Elem         *Type
	Struct       *Struct // KStruct: inline or named struct
	StructRef    string  // KStruct by name (resolved after all files are read)
	Enum         string  // enum-X (wire form is the enum's primitive)
	LenField     string  // KRaw: name of the earlier length field
	LenMinus     int     // KRaw: bytes = LenField - LenMinus
	HasDefault   bool
	DefInt       int64
	DefUint      uint64
	DefFloat     float64
	DefBool      bool
	DefNull      bool
}

func (t *Type) String() string {
	switch t.Kind {
	case KArray:
		p := ""
		if t.VarintLen {
			p = "varint"
		} else if t.Nullable {
			p = "nullable"
			if t.NullableFrom > 0 {
				p += fmt.Sprintf("-v%d+", t.NullableFrom)
			}
		}
		return p + "[" + t.Elem.String() + "]"
	case KStruct:
		if t.Nullable {
			return "nullable=>" + t.Struct.Name
		}
		return "=>" + t.Struct.Name
	}
	s := t.Kind.String()
	if t.Nullable && t.Kind != KVarintBytes {
		s = "nullable-" + s
		if t.NullableFrom > 0 {
			s += fmt.Sprintf("-v%d+", t.NullableFrom)
		}
	}
	return s
}

// NullableAt reports whether null is representable on the wire at version.
func (t *Type) NullableAt(version int) bool { return t.Nullable && version >= t.NullableFrom }

type Field struct {
	Name    string
	Type    *Type
	MinVer  int // 0 if unversioned
	MaxVer  int // -1: open ended
	Tag     int // -1: not tagged
	Special string
	Line    int
}

// InVersion reports whether the field's version range includes version.
func (f *Field) InVersion(version int) bool {
	return version >= f.MinVer && (f.MaxVer < 0 || version <= f.MaxVer)
}

type Struct struct {
	Name             string
	Fields           []*Field
	TopLevel         bool
	IsRequest        bool
	IsResponse       bool
	Key              int
	MaxVersion       int
	FlexibleAt       int // -1: never flexible
	WithVersionField bool
	NoEncoding       bool
	Anonymous        bool
	File             string
	Line             int
	// GoExtra lists Go struct fields that exist next to the DSL fields (only
	// the hand written kmsg.Record uses this; see harnessRecord).
	GoExtra []string
}

// FlexibleIn reports whether the struct is encoded flexibly at version.
func (s *Struct) FlexibleIn(version int) bool { return s.FlexibleAt >= 0 && version >= s.FlexibleAt }

type Enum struct {
	Name string
	Prim Kind
	Vals []int64
}

type Schema struct {
	Structs map[string]*Struct // named (non anonymous) structs
	Order   []string           // names in file order
	Enums   map[string]*Enum
	Files   int
}

type parseErr struct{ msg string }

func pfail(file string, line int, format string, a ...any) {
	panic(parseErr{fmt.Sprintf("%s:%d: %s", file, line, fmt.Sprintf(format, a...))})
}

var prims = map[string]Kind{"bool": KBool, "int8": KInt8, "int16": KInt16, "uint16": KUint16, "int32": KInt32,
	"int64": KInt64, "float64": KFloat64, "uint32": KUint32, "varint": KVarint, "varlong": KVarlong, "uuid": KUuid}

// harnessRecord is the one definition that does not come from the repository:
// definitions/misc keeps Record commented out ("we manually manage Record now
// because of the varint => varlong switch") and pkg/kmsg/record.go is hand
// written. The field list is the commented definition with TimestampDelta as
// varlong stored in the Go field TimestampDelta64; the Go struct additionally
// mirrors it, truncated, into TimestampDelta.
const harnessRecord = `Record => not top level
  Length: varint
  Attributes: int8
  TimestampDelta64: varlong
  OffsetDelta: varint
  Key: varint-bytes
  Value: varint-bytes
  Headers: varint[Header]
`

// Load parses every file of <repo>/generate/definitions.
func Load(repo string) (sc *Schema, err error) {
	defer func() {
		if r := recover(); r != nil {
			if pe, ok := r.(parseErr); ok {
				sc, err = nil, fmt.Errorf("definition DSL: %s", pe.msg)
				return
			}
			panic(r)
		}
	}()
	dir := filepath.Join(repo, "generate", "definitions")
	ents, e := os.ReadDir(dir)
	if e != nil {
		return nil, e
	}
	sc = &Schema{Structs: map[string]*Struct{}, Enums: map[string]*Enum{}}
	var names []string
	for _, ent := range ents {
		if ent.IsDir() {
			pfail(dir, 0, "unexpected directory %q", ent.Name())
		}
		if strings.HasPrefix(ent.Name(), ".") {
			continue
		}
		names = append(names, ent.Name())
	}
	sort.Strings(names)
	read := func(n string) string {
		b, e := os.ReadFile(filepath.Join(dir, n))
		if e != nil {
			pfail(n, 0, "%v", e)
		}
		return string(b)
	}
	hasEnums := false
	for _, n := range names {
		if n == "enums" {
			hasEnums = true
		}
	}
	if hasEnums {
		sc.parseEnums("enums", read("enums"))
	}
	for _, n := range names {
		if n == "enums" {
			continue
		}
		sc.parseStructs(n, read(n))
		sc.Files++
	}
	if _, dup := sc.Structs["Record"]; dup {
		pfail("misc", 0, "the repository now defines Record itself; the harness definition (TimestampDelta64 special case) must be revisited")
	}
	sc.parseStructs("<harness:Record>", harnessRecord)
	sc.Structs["Record"].GoExtra = []string{"TimestampDelta"}
	sc.resolve()
	return sc, nil
}

var (
	enumHeadRe = regexp.MustCompile(`^([A-Za-z0-9]+) ([a-z0-9]+) (camelcase )?\($`)
	enumValRe  = regexp.MustCompile(`^  (\d+): ([A-Z_a-z0-9]+)$`)
)

func (sc *Schema) parseEnums(file, text string) {
	lines := strings.Split(text, "\n")
	for i := 0; i < len(lines); i++ {
		l := lines[i]
		if l == "" || strings.HasPrefix(l, "//") {
			continue
		}
		m := enumHeadRe.FindStringSubmatch(l)
		if m == nil {
			pfail(file, i+1, "not an enum header: %q", l)
		}
		k, ok := prims[m[2]]
		if !ok {
			pfail(file, i+1, "enum %s: unknown backing type %q", m[1], m[2])
		}
		e := &Enum{Name: m[1], Prim: k}
		closed := false
		for i++; i < len(lines); i++ {
			l = lines[i]
			if l == ")" {
				closed = true
				break
			}
			if strings.HasPrefix(l, "  //") {
				continue
			}
			vm := enumValRe.FindStringSubmatch(l)
			if vm == nil {
				pfail(file, i+1, "enum %s: not an enum value line: %q", e.Name, l)
			}
			n, _ := strconv.ParseInt(vm[1], 10, 64)
			e.Vals = append(e.Vals, n)
		}
		if !closed {
			pfail(file, i+1, "enum %s: missing closing paren", e.Name)
		}
		if _, dup := sc.Enums[e.Name]; dup {
			pfail(file, i+1, "duplicate enum %s", e.Name)
		}
		sc.Enums[e.Name] = e
	}
}

var headRe = regexp.MustCompile(`^([A-Za-z0-9]+) =>(.*)$`)

func (sc *Schema) parseStructs(file, text string) {
	lines := strings.Split(text, "\n")
	var prev *Struct
	for i := 0; i < len(lines); {
		l := lines[i]
		if l == "" || strings.HasPrefix(l, "//") {
			i++
			continue
		}
		if strings.HasPrefix(l, " ") {
			pfail(file, i+1, "field line outside of a struct: %q", l)
		}
		m := headRe.FindStringSubmatch(l)
		if m == nil {
			pfail(file, i+1, "not a struct header: %q", l)
		}
		s := &Struct{Name: m[1], Key: -1, MaxVersion: -1, FlexibleAt: -1, File: file, Line: i + 1}
		rest := m[2]
		switch {
		case rest == "":
			if !strings.HasSuffix(s.Name, "Response") {
				pfail(file, i+1, "struct %s has no modifiers and is not a response", s.Name)
			}
			want := strings.TrimSuffix(s.Name, "Response") + "Request"
			if prev == nil || prev.Name != want || !prev.IsRequest {
				pfail(file, i+1, "response %s does not directly follow request %s", s.Name, want)
			}
			s.TopLevel, s.IsResponse = true, true
			s.Key, s.MaxVersion, s.FlexibleAt = prev.Key, prev.MaxVersion, prev.FlexibleAt
		case strings.HasPrefix(rest, " not top level"):
			mods := strings.TrimPrefix(rest, " not top level")
			if mods != "" {
				if !strings.HasPrefix(mods, ", ") {
					pfail(file, i+1, "bad modifier list %q", rest)
				}
				for _, mod := range strings.Split(mods[2:], ", ") {
					switch {
					case mod == "no encoding":
						s.NoEncoding = true
					case mod == "with version field":
						s.WithVersionField = true
					case flexRe.MatchString(mod):
						s.FlexibleAt, _ = strconv.Atoi(flexRe.FindStringSubmatch(mod)[1])
					default:
						pfail(file, i+1, "unknown not-top-level modifier %q", mod)
					}
				}
			}
			if s.NoEncoding && s.WithVersionField {
				pfail(file, i+1, "%s: 'no encoding' and 'with version field' are documented as mutually exclusive", s.Name)
			}
		case strings.HasPrefix(rest, " "):
			s.TopLevel, s.IsRequest = true, true
			if !strings.HasSuffix(s.Name, "Request") {
				pfail(file, i+1, "top level struct %s is neither a Request nor a Response", s.Name)
			}
			for _, mod := range strings.Split(rest[1:], ", ") {
				switch {
				case keyRe.MatchString(mod):
					s.Key, _ = strconv.Atoi(keyRe.FindStringSubmatch(mod)[1])
				case maxRe.MatchString(mod):
					s.MaxVersion, _ = strconv.Atoi(maxRe.FindStringSubmatch(mod)[1])
				case flexRe.MatchString(mod):
					s.FlexibleAt, _ = strconv.Atoi(flexRe.FindStringSubmatch(mod)[1])
				case mod == "admin", mod == "group coordinator", mod == "txn coordinator", mod == "share coordinator":
				default:
					pfail(file, i+1, "unknown request modifier %q", mod)
				}
			}
			if s.Key < 0 || s.MaxVersion < 0 {
				pfail(file, i+1, "request %s lacks key or max version", s.Name)
			}
		default:
			pfail(file, i+1, "bad struct header %q", l)
		}
		i++
		s.Fields = sc.parseFields(file, lines, &i, 2, s)
		if i < len(lines) && lines[i] != "" {
			pfail(file, i+1, "struct %s: expected a blank line after the last field, got %q", s.Name, lines[i])
		}
		if _, dup := sc.Structs[s.Name]; dup {
			pfail(file, s.Line, "duplicate struct %s", s.Name)
		}
		sc.Structs[s.Name] = s
		sc.Order = append(sc.Order, s.Name)
		prev = s
	}
}

var (
	keyRe     = regexp.MustCompile(`^key (\d+)$`)
	maxRe     = regexp.MustCompile(`^max version (\d+)$`)
	flexRe    = regexp.MustCompile(`^flexible v(\d+)\+$`)
	verRe     = regexp.MustCompile(`^v(\d+)(\+|-v(\d+))(, tag (\d+))?$`)
	tagRe     = regexp.MustCompile(`^tag (\d+)$`)
	throtRe   = regexp.MustCompile(`^ThrottleMillis(\((\d+)\))?$`)
	timeoutRe = regexp.MustCompile(`^TimeoutMillis(\((\d+)\))?$`)
	fieldRe   = regexp.MustCompile(`^([A-Za-z0-9]+): (.+)$`)
	defRe     = regexp.MustCompile(`^(.*[^ ])\(([^()]*)\)$`)
	arrRe     = regexp.MustCompile(`^(varint|nullable|nullable-v(\d+)\+)?\[(.+)\]$`)
	nsvRe     = regexp.MustCompile(`^nullable-string-v(\d+)\+$`)
	rawRe     = regexp.MustCompile(`^length-field-minus => ([A-Za-z0-9]+) - (\d+)$`)
	hintRe    = regexp.MustCompile(`^=>([A-Za-z0-9]*)$`)
)

// parseFields reads field lines at exactly `indent` spaces; nested anonymous
// structs recurse with indent+2. It stops (without consuming) at a blank line,
// at EOF, or at a line indented less.
func (sc *Schema) parseFields(file string, lines []string, i *int, indent int, owner *Struct) []*Field {
	var out []*Field
	pad := strings.Repeat(" ", indent)
	for *i < len(lines) {
		l := lines[*i]
		if l == "" {
			break
		}
		if !strings.HasPrefix(l, pad) {
			sp := len(l) - len(strings.TrimLeft(l, " "))
			if sp%2 != 0 || sp > indent {
				pfail(file, *i+1, "bad indentation: %q", l)
			}
			break
		}
		body := l[indent:]
		if strings.HasPrefix(body, " ") {
			pfail(file, *i+1, "unexpected deeper indentation (no anonymous struct is open): %q", l)
		}
		if strings.HasPrefix(body, "//") {
			*i++
			continue
		}
		if strings.HasSuffix(body, " ") {
			pfail(file, *i+1, "trailing space: %q", l)
		}
		f := &Field{MaxVer: -1, Tag: -1, Line: *i + 1}
		decl := body
		if at := strings.Index(body, " // "); at >= 0 {
			decl = body[:at]
			c := body[at+4:]
			if m := verRe.FindStringSubmatch(c); m != nil {
				f.MinVer, _ = strconv.Atoi(m[1])
				if m[3] != "" {
					f.MaxVer, _ = strconv.Atoi(m[3])
					if f.MaxVer < f.MinVer {
						pfail(file, *i+1, "max version below min version: %q", c)
					}
				}
				if m[5] != "" {
					f.Tag, _ = strconv.Atoi(m[5])
				}
			} else if m := tagRe.FindStringSubmatch(c); m != nil {
				f.Tag, _ = strconv.Atoi(m[1])
			} else {
				pfail(file, *i+1, "field comment is neither a version range nor a tag: %q", c)
			}
		} else if strings.Contains(body, "//") {
			pfail(file, *i+1, "malformed trailing comment: %q", l)
		}
		*i++
		switch {
		case throtRe.MatchString(decl):
			// The optional number is the version at which throttling moved
			// after the response; it is not a default and not on the wire.
			f.Name, f.Special = "ThrottleMillis", "throttle"
			f.Type = &Type{Kind: KInt32}
			if f.Tag >= 0 || f.MaxVer >= 0 {
				pfail(file, f.Line, "ThrottleMillis with tag or max version")
			}
		case timeoutRe.MatchString(decl):
			m := timeoutRe.FindStringSubmatch(decl)
			f.Name, f.Special = "TimeoutMillis", "timeout"
			f.Type = &Type{Kind: KInt32, HasDefault: true, DefInt: 15000}
			if m[2] != "" {
				f.Type.DefInt, _ = strconv.ParseInt(m[2], 10, 32)
			}
			if f.Tag >= 0 || f.MaxVer >= 0 {
				pfail(file, f.Line, "TimeoutMillis with tag or max version")
			}
		default:
			m := fieldRe.FindStringSubmatch(decl)
			if m == nil {
				pfail(file, f.Line, "not a field declaration: %q", decl)
			}
			f.Name = m[1]
			f.Type = sc.parseType(file, lines, i, indent, owner, f, m[2])
		}
		for _, o := range out {
			if o.Name == f.Name {
				pfail(file, f.Line, "duplicate field %s", f.Name)
			}
		}
		out = append(out, f)
	}
	return out
}

func (sc *Schema) parseType(file string, lines []string, i *int, indent int, owner *Struct, f *Field, expr string) *Type {
	def, hasDef := "", false
	if !strings.HasPrefix(expr, "length-field-minus") {
		if m := defRe.FindStringSubmatch(expr); m != nil {
			expr, def, hasDef = m[1], m[2], true
		}
	}
	t := sc.parseTypeExpr(file, lines, i, indent, owner, f, expr, true)
	if hasDef {
		applyDefault(file, f.Line, t, def)
	}
	return t
}

func (sc *Schema) inline(file string, lines []string, i *int, indent int, owner *Struct, f *Field, nullable bool) *Type {
	child := &Struct{Name: owner.Name + "." + f.Name, Anonymous: true, Key: owner.Key, MaxVersion: owner.MaxVersion,
		FlexibleAt: owner.FlexibleAt, File: file, Line: f.Line}
	child.Fields = sc.parseFields(file, lines, i, indent+2, child)
	if len(child.Fields) == 0 {
		pfail(file, f.Line, "anonymous struct %s has no fields", child.Name)
	}
	return &Type{Kind: KStruct, Struct: child, Nullable: nullable}
}

func (sc *Schema) parseTypeExpr(file string, lines []string, i *int, indent int, owner *Struct, f *Field, expr string, outer bool) *Type {
	switch {
	case expr == "=>":
		if !outer {
			pfail(file, f.Line, "internal: bare => inside array handled by caller")
		}
		return sc.inline(file, lines, i, indent, owner, f, false)
	case expr == "nullable=>":
		return sc.inline(file, lines, i, indent, owner, f, true)
	case rawRe.MatchString(expr):
		m := rawRe.FindStringSubmatch(expr)
		n, _ := strconv.Atoi(m[2])
		return &Type{Kind: KRaw, LenField: m[1], LenMinus: n}
	case arrRe.MatchString(expr):
		m := arrRe.FindStringSubmatch(expr)
		t := &Type{Kind: KArray}
		switch {
		case m[1] == "varint":
			t.VarintLen = true
		case m[1] == "nullable":
			t.Nullable = true
		case m[1] != "":
			t.Nullable = true
			t.NullableFrom, _ = strconv.Atoi(m[2])
		}
		inner := m[3]
		if hintRe.MatchString(inner) { // [=>] or [=>NameHint]; the hint only names the Go type
			t.Elem = sc.inline(file, lines, i, indent, owner, f, false)
		} else {
			if strings.Contains(inner, "=>") {
				pfail(file, f.Line, "unsupported array element %q", inner)
			}
			t.Elem = sc.parseTypeExpr(file, lines, i, indent, owner, f, inner, false)
			if t.Elem.Kind == KArray {
				pfail(file, f.Line, "nested arrays are not understood by this interpreter: %q", expr)
			}
		}
		return t
	case nsvRe.MatchString(expr):
		n, _ := strconv.Atoi(nsvRe.FindStringSubmatch(expr)[1])
		return &Type{Kind: KString, Nullable: true, NullableFrom: n}
	case strings.HasPrefix(expr, "enum-"):
		e, ok := sc.Enums[expr[5:]]
		if !ok {
			pfail(file, f.Line, "unknown enum %q", expr)
		}
		return &Type{Kind: e.Prim, Enum: e.Name}
	}
	if k, ok := prims[expr]; ok {
		return &Type{Kind: k}
	}
	switch expr {
	case "string":
		return &Type{Kind: KString}
	case "nullable-string":
		return &Type{Kind: KString, Nullable: true}
	case "bytes":
		return &Type{Kind: KBytes}
	case "nullable-bytes":
		return &Type{Kind: KBytes, Nullable: true}
	case "varint-string":
		return &Type{Kind: KVarintString}
	case "varint-bytes":
		return &Type{Kind: KVarintBytes, Nullable: true}
	}
	if regexp.MustCompile(`^[A-Z][A-Za-z0-9]*$`).MatchString(expr) {
		return &Type{Kind: KStruct, StructRef: expr}
	}
	pfail(file, f.Line, "unknown type expression %q", expr)
	return nil
}

func applyDefault(file string, line int, t *Type, def string) {
	t.HasDefault = true
	var err error
	switch t.Kind {
	case KBool:
		t.DefBool, err = strconv.ParseBool(def)
	case KInt8:
		t.DefInt, err = strconv.ParseInt(def, 0, 8)
	case KInt16:
		t.DefInt, err = strconv.ParseInt(def, 0, 16)
	case KInt32, KVarint:
		t.DefInt, err = strconv.ParseInt(def, 0, 32)
	case KInt64, KVarlong:
		t.DefInt, err = strconv.ParseInt(def, 0, 64)
	case KUint16:
		t.DefUint, err = strconv.ParseUint(def, 0, 16)
	case KUint32:
		t.DefUint, err = strconv.ParseUint(def, 0, 32)
	case KFloat64:
		t.DefFloat, err = strconv.ParseFloat(def, 64)
	case KString, KBytes:
		if !t.Nullable || def != "null" {
			err = fmt.Errorf("only (null) on nullable string/bytes is understood")
		}
		t.DefNull = true
	case KArray:
		if def != "null" {
			err = fmt.Errorf("only (null) is understood for arrays")
		}
		t.DefNull = true
	default:
		err = fmt.Errorf("defaults on %s are not understood", t.Kind)
	}
	if err != nil {
		pfail(file, line, "default (%s) on %s: %v", def, t, err)
	}
}

// resolve binds named struct references, propagates flexibility into
// anonymous structs and validates the constructs the interpreter relies on.
func (sc *Schema) resolve() {
	for _, name := range sc.Order {
		s := sc.Structs[name]
		sc.resolveStruct(s, s)
	}
}

func (sc *Schema) resolveStruct(root, s *Struct) {
	tags := map[int]string{}
	seenRaw := false
	for idx, f := range s.Fields {
		if s.WithVersionField && s == root {
			if idx == 0 && (f.Name != "Version" || f.Type.Kind != KInt16 || f.Tag >= 0 || f.MinVer != 0 || f.MaxVer >= 0) {
				pfail(s.File, f.Line, "%s: 'with version field' needs an unversioned first field Version: int16", s.Name)
			}
		}
		if f.Tag >= 0 {
			if s.FlexibleAt < 0 {
				pfail(s.File, f.Line, "%s.%s: tagged field in a struct that is never flexible", s.Name, f.Name)
			}
			if o, dup := tags[f.Tag]; dup {
				pfail(s.File, f.Line, "%s: tag %d used by %s and %s", s.Name, f.Tag, o, f.Name)
			}
			tags[f.Tag] = f.Name
		}
		if (f.MinVer > 0 || f.MaxVer >= 0) && !root.TopLevel && !root.WithVersionField && !root.NoEncoding {
			pfail(s.File, f.Line, "%s.%s: versioned field in a type that has no version", s.Name, f.Name)
		}
		t := f.Type
		if t.Kind == KRaw {
			ok := false
			for _, g := range s.Fields[:idx] {
				if g.Name == t.LenField && g.Type.Kind == KInt32 {
					ok = true
				}
			}
			if !ok || idx != len(s.Fields)-1 || seenRaw {
				pfail(s.File, f.Line, "%s.%s: length-field-minus must be last and refer to an earlier int32 field", s.Name, f.Name)
			}
			seenRaw = true
		}
		for t.Kind == KArray {
			t = t.Elem
		}
		if t.Kind == KStruct {
			if t.StructRef != "" {
				ref, ok := sc.Structs[t.StructRef]
				if !ok {
					pfail(s.File, f.Line, "%s.%s: unknown type %q", s.Name, f.Name, t.StructRef)
				}
				if ref.TopLevel {
					pfail(s.File, f.Line, "%s.%s: embeds top level struct %s", s.Name, f.Name, ref.Name)
				}
				if ref.FlexibleAt != s.FlexibleAt {
					pfail(s.File, f.Line, "%s.%s: named struct %s is flexible from v%d but the enclosing struct from v%d; the DSL does not say which applies",
						s.Name, f.Name, ref.Name, ref.FlexibleAt, s.FlexibleAt)
				}
				if ref.WithVersionField {
					pfail(s.File, f.Line, "%s.%s: embedding a struct with its own version field is not understood", s.Name, f.Name)
				}
				t.Struct = ref
			} else {
				t.Struct.FlexibleAt = s.FlexibleAt
				sc.resolveStruct(root, t.Struct)
			}
		}
	}
	for n := 0; n < len(tags); n++ {
		if _, ok := tags[n]; !ok {
			pfail(s.File, s.Line, "%s: tags are not 0..%d contiguous", s.Name, len(tags)-1)
		}
	}
}

// MaxMentionedVersion is the largest version that appears anywhere in the
// struct (field ranges, nullable-from, flexible-from).
func (s *Struct) MaxMentionedVersion() int {
	m := 0
	if s.FlexibleAt > m {
		m = s.FlexibleAt
	}
	var walk func(s *Struct)
	walk = func(s *Struct) {
		for _, f := range s.Fields {
			if f.MinVer > m {
				m = f.MinVer
			}
			if f.MaxVer > m {
				m = f.MaxVer
			}
			t := f.Type
			for t.Kind == KArray {
				if t.NullableFrom > m {
					m = t.NullableFrom
				}
				t = t.Elem
			}
			if t.NullableFrom > m {
				m = t.NullableFrom
			}
			if t.Kind == KStruct {
				walk(t.Struct)
			}
		}
	}
	walk(s)
	return m
}
