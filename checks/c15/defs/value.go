package defs

import (
	"bytes"
	"fmt"
	"math"
	"sort"
	"strings"
)

// Value tree. Leaves by kind:
//
//	bool                              bool
//	int8..int64, varint, varlong      int64
//	uint16, uint32                    uint64
//	float64                           float64
//	uuid                              [16]byte
//	string kinds                      Str
//	bytes kinds, length-field-minus   Byt
//	array                             *Arr
//	struct                            *SVal
type (
	Str struct {
		Null bool
		S    string
	}
	Byt struct {
		Null bool
		B    []byte
	}
	Arr struct {
		Null bool
		E    []any
	}
	UTag struct {
		Key uint32
		Val []byte
	}
	SVal struct {
		Null    bool
		S       *Struct
		F       []any // parallel to S.Fields
		Unknown []UTag
	}
)

func Clone(v any) any {
	switch x := v.(type) {
	case Byt:
		if x.B != nil {
			x.B = append([]byte{}, x.B...)
		}
		return x
	case *Arr:
		n := &Arr{Null: x.Null}
		if x.E != nil {
			n.E = make([]any, len(x.E))
			for i := range x.E {
				n.E[i] = Clone(x.E[i])
			}
		}
		return n
	case *SVal:
		n := &SVal{Null: x.Null, S: x.S}
		if x.F != nil {
			n.F = make([]any, len(x.F))
			for i := range x.F {
				n.F[i] = Clone(x.F[i])
			}
		}
		for _, t := range x.Unknown {
			n.Unknown = append(n.Unknown, UTag{t.Key, append([]byte{}, t.Val...)})
		}
		return n
	}
	return v
}

// DefaultOf is the value the DSL gives a field that was never set: the default
// in parentheses, else the zero value (null for nullable kinds).
func DefaultOf(t *Type) any {
	switch t.Kind {
	case KBool:
		return t.DefBool
	case KInt8, KInt16, KInt32, KInt64, KVarint, KVarlong:
		return t.DefInt
	case KUint16, KUint32:
		return t.DefUint
	case KFloat64:
		return t.DefFloat
	case KUuid:
		return [16]byte{}
	case KString, KVarintString:
		return Str{Null: t.Nullable}
	case KBytes, KVarintBytes:
		return Byt{Null: t.Nullable}
	case KRaw:
		return Byt{}
	case KArray:
		return &Arr{Null: t.Nullable || t.DefNull}
	case KStruct:
		if t.Nullable {
			return &SVal{Null: true, S: t.Struct}
		}
		return DefaultStruct(t.Struct)
	}
	panic("DefaultOf: " + t.Kind.String())
}

func DefaultStruct(s *Struct) *SVal {
	v := &SVal{S: s, F: make([]any, len(s.Fields))}
	for i, f := range s.Fields {
		v.F[i] = DefaultOf(f.Type)
	}
	return v
}

// popCtx hands out small distinct values for the all-populated base.
type popCtx struct{ n int64 }

func (c *popCtx) next() int64 { c.n++; return c.n }

func intRange(k Kind) (lo, hi int64) {
	switch k {
	case KInt8:
		return math.MinInt8, math.MaxInt8
	case KInt16:
		return math.MinInt16, math.MaxInt16
	case KInt32, KVarint:
		return math.MinInt32, math.MaxInt32
	case KInt64, KVarlong:
		return math.MinInt64, math.MaxInt64
	}
	panic("intRange")
}

func uintMax(k Kind) uint64 {
	if k == KUint16 {
		return math.MaxUint16
	}
	return math.MaxUint32
}

// unknownKey is a tag number no definition uses (tags are 0..n-1, n <= 4).
const unknownKey = 100

func (c *popCtx) value(t *Type, elems int) any {
	switch t.Kind {
	case KBool:
		return !t.DefBool
	case KInt8, KInt16, KInt32, KInt64, KVarint, KVarlong:
		v := 1 + c.next()%100
		if v == t.DefInt {
			v++
		}
		return v
	case KUint16, KUint32:
		v := uint64(1 + c.next()%100)
		if v == t.DefUint {
			v++
		}
		return v
	case KFloat64:
		return float64(c.next()) + 0.5
	case KUuid:
		var u [16]byte
		// all populated payload bytes stay below 0x80 so that no run of them
		// can be mistaken for a multi-byte varint by a shifted parse (C16)
		b := byte(c.next() % 100)
		for i := range u {
			u[i] = b + byte(i)
		}
		return u
	case KString, KVarintString:
		return Str{S: fmt.Sprintf("s%d", c.next())}
	case KBytes, KVarintBytes, KRaw:
		n := byte(c.next() % 100)
		return Byt{B: []byte{n, n + 1, n + 2}}
	case KArray:
		a := &Arr{E: []any{}}
		for i := 0; i < elems; i++ {
			a.E = append(a.E, c.value(t.Elem, elems))
		}
		return a
	case KStruct:
		return c.structValue(t.Struct, elems)
	}
	panic("populate: " + t.Kind.String())
}

func (c *popCtx) structValue(s *Struct, elems int) *SVal {
	v := &SVal{S: s, F: make([]any, len(s.Fields))}
	for i, f := range s.Fields {
		v.F[i] = c.value(f.Type, elems)
	}
	if s.FlexibleAt >= 0 {
		n := byte(c.next() % 100)
		v.Unknown = []UTag{{unknownKey, []byte{n, n ^ 0x7f}}}
	}
	return v
}

// PopulatedStruct is the all-populated base valuation: every field (whether
// or not it exists at the version under test) gets a small distinct
// non-default value, every array two elements, every nullable a non-null
// value and every flexible struct one unknown tag.
func PopulatedStruct(s *Struct) *SVal { return (&popCtx{}).structValue(s, 2) }

// FixDerived sets the fields whose value is dictated by the codec's framing
// rather than chosen freely: the Version field of "with version field" types
// and the length field a length-field-minus blob refers to.
func FixDerived(root *SVal, version int) {
	if root.S.WithVersionField {
		root.F[0] = int64(version)
	}
	var walk func(v *SVal)
	walk = func(v *SVal) {
		if v == nil || v.Null {
			return
		}
		for i, f := range v.S.Fields {
			switch f.Type.Kind {
			case KRaw:
				for j, g := range v.S.Fields {
					if g.Name == f.Type.LenField {
						v.F[j] = int64(len(v.F[i].(Byt).B) + f.Type.LenMinus)
					}
				}
			case KStruct:
				walk(v.F[i].(*SVal))
			case KArray:
				if f.Type.Elem.Kind == KStruct {
					for _, e := range v.F[i].(*Arr).E {
						walk(e.(*SVal))
					}
				}
			}
		}
	}
	walk(root)
}

// derivedField reports whether field i of s is set by FixDerived.
func derivedField(s *Struct, root bool, i int) bool {
	if root && s.WithVersionField && i == 0 {
		return true
	}
	for _, f := range s.Fields {
		if f.Type.Kind == KRaw && f.Type.LenField == s.Fields[i].Name {
			return true
		}
	}
	return false
}

// Equal compares two trees exactly (floats by bit pattern).
func Equal(a, b any) bool { return Diff(a, b, "") == "" }

// Diff returns "" or a description of the first difference.
func Diff(a, b any, at string) string {
	switch x := a.(type) {
	case *SVal:
		y, ok := b.(*SVal)
		if !ok {
			return at + ": kind mismatch"
		}
		if x.Null != y.Null {
			return fmt.Sprintf("%s: null=%v vs null=%v", at, x.Null, y.Null)
		}
		if x.Null {
			return ""
		}
		for i := range x.F {
			if d := Diff(x.F[i], y.F[i], at+"."+x.S.Fields[i].Name); d != "" {
				return d
			}
		}
		if len(x.Unknown) != len(y.Unknown) {
			return fmt.Sprintf("%s.UnknownTags: %d tags vs %d tags", at, len(x.Unknown), len(y.Unknown))
		}
		for i := range x.Unknown {
			if x.Unknown[i].Key != y.Unknown[i].Key || !bytes.Equal(x.Unknown[i].Val, y.Unknown[i].Val) {
				return fmt.Sprintf("%s.UnknownTags[%d]: %d=%x vs %d=%x", at, i, x.Unknown[i].Key, x.Unknown[i].Val, y.Unknown[i].Key, y.Unknown[i].Val)
			}
		}
		return ""
	case *Arr:
		y, ok := b.(*Arr)
		if !ok {
			return at + ": kind mismatch"
		}
		if x.Null != y.Null {
			return fmt.Sprintf("%s: null=%v vs null=%v", at, x.Null, y.Null)
		}
		if len(x.E) != len(y.E) {
			return fmt.Sprintf("%s: len %d vs %d", at, len(x.E), len(y.E))
		}
		for i := range x.E {
			if d := Diff(x.E[i], y.E[i], fmt.Sprintf("%s[%d]", at, i)); d != "" {
				return d
			}
		}
		return ""
	case Byt:
		y, ok := b.(Byt)
		if !ok || x.Null != y.Null || !bytes.Equal(x.B, y.B) {
			return fmt.Sprintf("%s: %s vs %s", at, Show(a), Show(b))
		}
		return ""
	case float64:
		y, ok := b.(float64)
		if !ok || math.Float64bits(x) != math.Float64bits(y) {
			return fmt.Sprintf("%s: %v vs %v", at, a, b)
		}
		return ""
	}
	if a != b {
		return fmt.Sprintf("%s: %s vs %s", at, Show(a), Show(b))
	}
	return ""
}

// Show renders a tree compactly for artefacts.
func Show(v any) string {
	switch x := v.(type) {
	case Str:
		if x.Null {
			return "null"
		}
		if len(x.S) > 12 {
			return fmt.Sprintf("str(len %d)", len(x.S))
		}
		return fmt.Sprintf("%q", x.S)
	case Byt:
		if x.Null {
			return "null"
		}
		if len(x.B) > 12 {
			return fmt.Sprintf("bytes(len %d)", len(x.B))
		}
		return fmt.Sprintf("x%x", x.B)
	case [16]byte:
		return fmt.Sprintf("uuid:%x", x[:])
	case *Arr:
		if x.Null {
			return "null"
		}
		if len(x.E) > 3 {
			return fmt.Sprintf("[%d x %s]", len(x.E), Show(x.E[0]))
		}
		p := make([]string, len(x.E))
		for i := range x.E {
			p[i] = Show(x.E[i])
		}
		return "[" + strings.Join(p, ",") + "]"
	case *SVal:
		if x.Null {
			return "null"
		}
		var p []string
		for i := range x.F {
			p = append(p, x.S.Fields[i].Name+":"+Show(x.F[i]))
		}
		for _, t := range x.Unknown {
			p = append(p, fmt.Sprintf("tag%d:x%x", t.Key, t.Val))
		}
		return "{" + strings.Join(p, " ") + "}"
	}
	return fmt.Sprint(v)
}

func sortedTags(in []UTag) []UTag {
	// Later duplicates of a key replace earlier ones (kmsg.Tags is a map).
	m := map[uint32][]byte{}
	for _, t := range in {
		m[t.Key] = t.Val
	}
	out := make([]UTag, 0, len(m))
	for k, v := range m {
		out = append(out, UTag{k, v})
	}
	sort.Slice(out, func(i, j int) bool { return out[i].Key < out[j].Key })
	return out
}
