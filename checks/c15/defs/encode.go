package defs

import (
	"encoding/binary"
	"fmt"
	"math"
)

// Mark is the position of one length-like prefix in an encoding (array
// length, string/bytes length, tag count, tag size, nullable-struct marker).
type Mark struct {
	Off, Len int
	What     string // arraylen | strlen | byteslen | varintlen | tagcount | tagsize | structmarker
	Form     string // i8 | i16 | i32 | uvarint | varint
}

// Enc is the reference encoder: Kafka protocol rules applied to a value tree.
type Enc struct {
	B     []byte
	Marks []Mark
	// Sites are the positions of every variable-length integer written
	// (Form uvarint | varint | varlong; What "var"): length prefixes, tag
	// keys/counts/sizes and varint/varlong value fields alike.
	Sites []Mark
	Err   error
}

func (e *Enc) mark(n int, what, form string) {
	e.Marks = append(e.Marks, Mark{len(e.B) - n, n, what, form})
}

func (e *Enc) fail(format string, a ...any) {
	if e.Err == nil {
		e.Err = fmt.Errorf(format, a...)
	}
}

func (e *Enc) u8(v byte)    { e.B = append(e.B, v) }
func (e *Enc) u16(v uint16) { e.B = binary.BigEndian.AppendUint16(e.B, v) }
func (e *Enc) u32(v uint32) { e.B = binary.BigEndian.AppendUint32(e.B, v) }
func (e *Enc) u64(v uint64) { e.B = binary.BigEndian.AppendUint64(e.B, v) }

// uvarint is the base-128 little-endian varint of the protocol (uint32 range).
func (e *Enc) putUvar(u uint64, form string) int {
	n := 1
	for u >= 0x80 {
		e.B = append(e.B, byte(u)|0x80)
		u >>= 7
		n++
	}
	e.B = append(e.B, byte(u))
	e.Sites = append(e.Sites, Mark{len(e.B) - n, n, "var", form})
	return n
}

func (e *Enc) uvarint(v uint32) int { return e.putUvar(uint64(v), "uvarint") }

func (e *Enc) varint(v int32) int {
	return e.putUvar(uint64(uint32(v<<1)^uint32(v>>31)), "varint")
}

func (e *Enc) varlong(v int64) { e.putUvar(uint64(v<<1)^uint64(v>>63), "varlong") }

func uvarintLen(v uint32) int {
	n := 1
	for v >= 0x80 {
		v >>= 7
		n++
	}
	return n
}

// AppendUvarint / AppendVarint expose the reference integer encoders.
func AppendUvarint(b []byte, v uint32) []byte { e := &Enc{B: b}; e.uvarint(v); return e.B }
func AppendVarint(b []byte, v int32) []byte   { e := &Enc{B: b}; e.varint(v); return e.B }

// Encode returns the wire form of a struct value at version.
func Encode(s *Struct, v *SVal, version int) (*Enc, error) {
	e := &Enc{}
	e.structBody(s, v, version)
	return e, e.Err
}

func present(s *Struct, f *Field, version int) bool {
	if f.Tag >= 0 {
		return s.FlexibleIn(version) && f.InVersion(version)
	}
	return f.InVersion(version)
}

func (e *Enc) structBody(s *Struct, v *SVal, version int) {
	flex := s.FlexibleIn(version)
	type tagged struct {
		key  uint32
		body []byte
		mk   []Mark
		st   []Mark
	}
	var tags []tagged
	for i, f := range s.Fields {
		if !present(s, f, version) {
			continue
		}
		if f.Tag >= 0 {
			if IsDefault(f.Type, v.F[i], version) {
				continue
			}
			sub := &Enc{}
			sub.value(f.Type, v.F[i], version, true)
			if sub.Err != nil {
				e.fail("%v", sub.Err)
			}
			tags = append(tags, tagged{uint32(f.Tag), sub.B, sub.Marks, sub.Sites})
			continue
		}
		e.value(f.Type, v.F[i], version, flex)
	}
	if s.FlexibleAt < 0 && len(v.Unknown) > 0 {
		e.fail("%s: unknown tags on a struct that is never flexible", s.Name)
	}
	if !flex {
		return
	}
	for _, t := range sortedTags(v.Unknown) {
		tags = append(tags, tagged{t.Key, t.Val, nil, nil})
	}
	// KIP-482: tagged fields are written in ascending tag order.
	for i := 1; i < len(tags); i++ {
		for j := i; j > 0 && tags[j].key < tags[j-1].key; j-- {
			tags[j], tags[j-1] = tags[j-1], tags[j]
		}
	}
	for i := 1; i < len(tags); i++ {
		if tags[i].key == tags[i-1].key {
			e.fail("%s: unknown tag %d collides with a defined tag", s.Name, tags[i].key)
		}
	}
	e.mark(e.uvarint(uint32(len(tags))), "tagcount", "uvarint")
	for _, t := range tags {
		e.uvarint(t.key)
		e.mark(e.uvarint(uint32(len(t.body))), "tagsize", "uvarint")
		base := len(e.B)
		e.B = append(e.B, t.body...)
		for _, m := range t.mk {
			e.Marks = append(e.Marks, Mark{base + m.Off, m.Len, m.What, m.Form})
		}
		for _, m := range t.st {
			e.Sites = append(e.Sites, Mark{base + m.Off, m.Len, m.What, m.Form})
		}
	}
}

// IsDefault reports whether a tagged field holds its default and is therefore
// omitted from the tag section.
func IsDefault(t *Type, v any, version int) bool {
	switch t.Kind {
	case KArray:
		a := v.(*Arr)
		if t.NullableAt(version) {
			return a.Null
		}
		return len(a.E) == 0
	case KString, KVarintString:
		s := v.(Str)
		if t.NullableAt(version) {
			return s.Null
		}
		return s.S == ""
	case KBytes, KVarintBytes:
		b := v.(Byt)
		if t.NullableAt(version) {
			return b.Null
		}
		return len(b.B) == 0
	case KStruct:
		sv := v.(*SVal)
		if t.Nullable {
			return sv.Null
		}
		if len(sv.Unknown) > 0 {
			return false
		}
		return Equal(NormaliseStruct(sv, version), NormaliseStruct(DefaultStruct(t.Struct), version))
	case KFloat64:
		return v.(float64) == t.DefFloat
	}
	return v == DefaultOf(t)
}

func (e *Enc) length(n int, null, flex bool, width int, what string) {
	switch {
	case flex:
		if null {
			e.mark(e.uvarint(0), what, "uvarint")
		} else {
			e.mark(e.uvarint(uint32(n)+1), what, "uvarint")
		}
	case width == 2:
		if null {
			e.u16(0xffff)
		} else {
			if n > math.MaxInt16 {
				e.fail("string too long for int16 length")
			}
			e.u16(uint16(n))
		}
		e.mark(2, what, "i16")
	default:
		if null {
			e.u32(0xffffffff)
		} else {
			e.u32(uint32(n))
		}
		e.mark(4, what, "i32")
	}
}

func (e *Enc) value(t *Type, v any, version int, flex bool) {
	switch t.Kind {
	case KBool:
		if v.(bool) {
			e.u8(1)
		} else {
			e.u8(0)
		}
	case KInt8:
		e.u8(byte(v.(int64)))
	case KInt16:
		e.u16(uint16(v.(int64)))
	case KInt32:
		e.u32(uint32(v.(int64)))
	case KInt64:
		e.u64(uint64(v.(int64)))
	case KUint16:
		e.u16(uint16(v.(uint64)))
	case KUint32:
		e.u32(uint32(v.(uint64)))
	case KFloat64:
		e.u64(math.Float64bits(v.(float64)))
	case KVarint:
		e.varint(int32(v.(int64)))
	case KVarlong:
		e.varlong(v.(int64))
	case KUuid:
		u := v.([16]byte)
		e.B = append(e.B, u[:]...)
	case KString:
		s := v.(Str)
		null := s.Null && t.NullableAt(version) // before NullableFrom the field is a plain string: null degrades to ""
		if s.Null {
			s.S = ""
		}
		e.length(len(s.S), null, flex, 2, "strlen")
		e.B = append(e.B, s.S...)
	case KBytes:
		b := v.(Byt)
		null := b.Null && t.NullableAt(version)
		if b.Null {
			b.B = nil
		}
		e.length(len(b.B), null, flex, 4, "byteslen")
		e.B = append(e.B, b.B...)
	case KVarintString:
		s := v.(Str)
		if s.Null {
			e.fail("varint-string cannot be null")
		}
		e.mark(e.varint(int32(len(s.S))), "varintlen", "varint")
		e.B = append(e.B, s.S...)
	case KVarintBytes:
		b := v.(Byt)
		if b.Null {
			e.mark(e.varint(-1), "varintlen", "varint")
		} else {
			e.mark(e.varint(int32(len(b.B))), "varintlen", "varint")
			e.B = append(e.B, b.B...)
		}
	case KRaw:
		e.B = append(e.B, v.(Byt).B...)
	case KArray:
		a := v.(*Arr)
		n := len(a.E)
		if a.Null {
			n = 0
		}
		if t.VarintLen {
			e.mark(e.varint(int32(n)), "arraylen", "varint")
		} else {
			e.length(n, a.Null && t.NullableAt(version), flex, 4, "arraylen")
		}
		for i := 0; i < n; i++ {
			e.value(t.Elem, a.E[i], version, flex)
		}
	case KStruct:
		sv := v.(*SVal)
		if t.Nullable {
			// Nullable structs are prefixed by an int8: -1 null, 1 present.
			if sv.Null {
				e.u8(0xff)
				e.mark(1, "structmarker", "i8")
				return
			}
			e.u8(1)
			e.mark(1, "structmarker", "i8")
		} else if sv.Null {
			e.fail("%s: null for a non-nullable struct", t.Struct.Name)
			return
		}
		e.structBody(t.Struct, sv, version)
	default:
		e.fail("encode: kind %s not understood", t.Kind)
	}
}

// Normalise canonicalises what the wire cannot distinguish at version: null
// vs empty for strings/bytes/arrays that are not nullable at that version,
// and the order/duplicates of unknown tags. It does not touch version gating.
func Normalise(t *Type, v any, version int) any {
	switch t.Kind {
	case KString, KVarintString:
		s := v.(Str)
		if s.Null && !t.NullableAt(version) {
			return Str{}
		}
		if s.Null {
			return Str{Null: true}
		}
		return s
	case KBytes, KVarintBytes, KRaw:
		b := v.(Byt)
		if b.Null && t.NullableAt(version) {
			return Byt{Null: true}
		}
		return Byt{B: append([]byte{}, b.B...)}
	case KArray:
		a := v.(*Arr)
		if a.Null && t.NullableAt(version) && !t.VarintLen {
			return &Arr{Null: true}
		}
		n := &Arr{E: make([]any, 0, len(a.E))}
		if !a.Null {
			for _, el := range a.E {
				n.E = append(n.E, Normalise(t.Elem, el, version))
			}
		}
		return n
	case KStruct:
		sv := v.(*SVal)
		if sv.Null {
			return &SVal{Null: true, S: t.Struct}
		}
		return NormaliseStruct(sv, version)
	}
	return v
}

func NormaliseStruct(v *SVal, version int) *SVal {
	n := &SVal{S: v.S, F: make([]any, len(v.F))}
	for i, f := range v.S.Fields {
		n.F[i] = Normalise(f.Type, v.F[i], version)
	}
	n.Unknown = sortedTags(v.Unknown)
	return n
}

// Project is what decoding Encode(s, v, version) must yield: fields present
// at version keep their value, all others hold DefaultOf; unknown tags
// survive only when the struct is flexible at version. The result is
// normalised.
func Project(v *SVal, version int) *SVal {
	s := v.S
	n := &SVal{S: s, F: make([]any, len(v.F))}
	for i, f := range s.Fields {
		if !present(s, f, version) {
			n.F[i] = Normalise(f.Type, DefaultOf(f.Type), version)
			continue
		}
		n.F[i] = projectValue(f.Type, v.F[i], version)
	}
	if s.FlexibleIn(version) {
		n.Unknown = sortedTags(v.Unknown)
	}
	return n
}

func projectValue(t *Type, v any, version int) any {
	switch t.Kind {
	case KArray:
		a := v.(*Arr)
		if a.Null {
			return Normalise(t, a, version)
		}
		n := &Arr{E: make([]any, 0, len(a.E))}
		for _, el := range a.E {
			n.E = append(n.E, projectValue(t.Elem, el, version))
		}
		return n
	case KStruct:
		sv := v.(*SVal)
		if sv.Null {
			return &SVal{Null: true, S: t.Struct}
		}
		return Project(sv, version)
	}
	return Normalise(t, v, version)
}
