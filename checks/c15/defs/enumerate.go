package defs

import (
	"fmt"
	"math"
	"strings"
)

// Path addresses one field of a (possibly nested) struct. Steps are field
// indices; stepping through an array means "element 0". A final step of -1
// addresses the UnknownTags of the struct reached.
type Path struct {
	Steps []int
	Label string
	T     *Type   // nil for UnknownTags
	Owner *Struct // struct that holds the addressed field
}

// Paths lists every field that can be deviated: all scalar, string, bytes,
// array and nullable-struct fields at every nesting level plus one
// UnknownTags pseudo field per struct that can be flexible. Fields fixed by
// FixDerived are excluded.
func Paths(root *Struct) []Path {
	var out []Path
	var rec func(s *Struct, steps []int, label string, isRoot bool)
	rec = func(s *Struct, steps []int, label string, isRoot bool) {
		for i, f := range s.Fields {
			if derivedField(s, isRoot, i) {
				continue
			}
			st := append(append([]int{}, steps...), i)
			lb := label + "." + f.Name
			t := f.Type
			if !(t.Kind == KStruct && !t.Nullable) {
				out = append(out, Path{st, lb[1:], t, s})
			}
			in := t
			if in.Kind == KArray {
				in = in.Elem
			}
			if in.Kind == KStruct {
				rec(in.Struct, st, lb, false)
			}
		}
		if s.FlexibleAt >= 0 {
			out = append(out, Path{append(append([]int{}, steps...), -1), (label + ".UnknownTags")[1:], nil, s})
		}
	}
	rec(root, nil, "", true)
	return out
}

// Dev is one element of a field's boundary domain.
type Dev struct {
	Label string
	V     func() any
}

func rep(n int) string { return strings.Repeat("x", n) }

func repB(n int) []byte {
	b := make([]byte, n)
	for i := range b {
		b[i] = byte(i)
	}
	return b
}

// Domain is the boundary domain of the field at version.
func Domain(p Path, version int) []Dev {
	compact := p.Owner.FlexibleIn(version)
	if p.T == nil {
		return []Dev{
			{"tags:none", func() any { return []UTag(nil) }},
			{"tags:one", func() any { return []UTag{{unknownKey, []byte{1, 2, 3}}} }},
			{"tags:two-desc", func() any { return []UTag{{300, []byte{9}}, {127, []byte{8, 7}}} }},
			{"tags:empty-val", func() any { return []UTag{{128, []byte{}}} }},
			{"tags:val127", func() any { return []UTag{{unknownKey, repB(127)}} }},
			{"tags:val128", func() any { return []UTag{{unknownKey, repB(128)}} }},
		}
	}
	t := p.T
	var out []Dev
	add := func(l string, v any) { out = append(out, Dev{l, func() any { return Clone(v) }}) }
	switch t.Kind {
	case KBool:
		add("false", false)
		add("true", true)
	case KInt8, KInt16, KInt32, KInt64, KVarint, KVarlong:
		lo, hi := intRange(t.Kind)
		vals := []int64{lo, -1, 0, 1, hi, t.DefInt}
		if t.DefInt < hi {
			vals = append(vals, t.DefInt+1)
		}
		if t.Kind == KVarint || t.Kind == KVarlong {
			vals = append(vals, 63, 64, -64, -65, 8191, 8192, -8192, -8193)
		}
		seen := map[int64]bool{}
		for _, v := range vals {
			if !seen[v] {
				seen[v] = true
				add(fmt.Sprint(v), v)
			}
		}
	case KUint16, KUint32:
		seen := map[uint64]bool{}
		for _, v := range []uint64{0, 1, uintMax(t.Kind), t.DefUint, 0x8000} {
			if !seen[v] {
				seen[v] = true
				add(fmt.Sprint(v), v)
			}
		}
	case KFloat64:
		seen := map[float64]bool{}
		for _, v := range []float64{0, 1.5, -2.25, math.MaxFloat64, math.SmallestNonzeroFloat64, t.DefFloat} {
			if !seen[v] {
				seen[v] = true
				add(fmt.Sprint(v), v)
			}
		}
	case KUuid:
		add("uuid:zero", [16]byte{})
		add("uuid:ff", [16]byte{255, 255, 255, 255, 255, 255, 255, 255, 255, 255, 255, 255, 255, 255, 255, 255})
		add("uuid:seq", [16]byte{1, 2, 3, 4, 5, 6, 7, 8, 9, 10, 11, 12, 13, 14, 15, 16})
	case KString, KVarintString, KBytes, KVarintBytes, KRaw:
		lens := []int{0, 1, 2}
		switch {
		case t.Kind == KVarintString || t.Kind == KVarintBytes:
			lens = append(lens, 63, 64)
		case t.Kind == KRaw:
			lens = append(lens, 127, 128)
		case compact:
			lens = append(lens, 126, 127, 128)
		}
		str := t.Kind == KString || t.Kind == KVarintString
		if t.Nullable {
			if str {
				add("null", Str{Null: true})
			} else {
				add("null", Byt{Null: true})
			}
		}
		for _, n := range lens {
			if str {
				add(fmt.Sprintf("len%d", n), Str{S: rep(n)})
			} else {
				add(fmt.Sprintf("len%d", n), Byt{B: repB(n)})
			}
		}
	case KArray:
		if t.Nullable {
			add("null", &Arr{Null: true})
		}
		add("len0", &Arr{E: []any{}})
		one := &popCtx{n: 40}
		add("len1-default", &Arr{E: []any{DefaultOf(t.Elem)}})
		add("len1-populated", &Arr{E: []any{one.value(t.Elem, 1)}})
		add("len2-populated", &Arr{E: []any{one.value(t.Elem, 1), one.value(t.Elem, 2)}})
		var big []int
		switch {
		case t.VarintLen:
			big = []int{63, 64}
		case compact:
			big = []int{126, 127, 128}
		}
		for _, n := range big {
			a := &Arr{E: make([]any, n)}
			for i := range a.E {
				a.E[i] = DefaultOf(t.Elem)
			}
			add(fmt.Sprintf("len%d-default", n), a)
		}
	case KStruct: // nullable struct
		add("null", &SVal{Null: true, S: t.Struct})
		add("present-default", DefaultStruct(t.Struct))
		add("present-populated", (&popCtx{n: 60}).structValue(t.Struct, 1))
	default:
		panic("Domain: " + t.Kind.String())
	}
	return out
}

// Apply returns a copy of root with the addressed field replaced. Enclosing
// null structs / empty arrays on the way are replaced by one default element
// so that the field exists.
func Apply(root *SVal, p Path, val any) *SVal {
	r := Clone(root).(*SVal)
	cur := r
	for k, st := range p.Steps {
		if st == -1 {
			cur.Unknown = val.([]UTag)
			break
		}
		if k == len(p.Steps)-1 {
			cur.F[st] = val
			break
		}
		f := cur.S.Fields[st]
		switch f.Type.Kind {
		case KStruct:
			sv := cur.F[st].(*SVal)
			if sv.Null {
				sv = DefaultStruct(f.Type.Struct)
				cur.F[st] = sv
			}
			cur = sv
		case KArray:
			a := cur.F[st].(*Arr)
			if a.Null || len(a.E) == 0 {
				a = &Arr{E: []any{DefaultStruct(f.Type.Elem.Struct)}}
				cur.F[st] = a
			}
			cur = a.E[0].(*SVal)
		default:
			panic("Apply: path through " + f.Type.Kind.String())
		}
	}
	return r
}

// Valuation is one enumerated value of a unit.
type Valuation struct {
	Base string
	Devs []string
	V    *SVal
}

func (v Valuation) Label() string { return v.Base + "|" + strings.Join(v.Devs, "|") }

// Bases returns the two base valuations of the unit.
func (u *Unit) Bases() []Valuation {
	d, p := DefaultStruct(u.S), PopulatedStruct(u.S)
	FixDerived(d, u.Version)
	FixDerived(p, u.Version)
	return []Valuation{{"default", nil, d}, {"populated", nil, p}}
}

// PairLimit: units with at most this many paths also get all pairs of
// deviations when pairs are requested.
const PairLimit = 12

// Enumerate calls fn for both bases, every single-field deviation of each
// base and, if pairs is set and the unit has at most PairLimit paths, every
// pair of deviations on two different paths.
func (u *Unit) Enumerate(pairs bool, fn func(Valuation)) (nPaths int, didPairs bool) {
	paths := Paths(u.S)
	doms := make([][]Dev, len(paths))
	for i, p := range paths {
		doms[i] = Domain(p, u.Version)
	}
	didPairs = pairs && len(paths) <= PairLimit
	for _, b := range u.Bases() {
		fn(b)
		for i, p := range paths {
			for _, d := range doms[i] {
				v := Apply(b.V, p, d.V())
				FixDerived(v, u.Version)
				fn(Valuation{b.Base, []string{p.Label + "=" + d.Label}, v})
			}
		}
		if !didPairs {
			continue
		}
		for i := range paths {
			for _, di := range doms[i] {
				vi := Apply(b.V, paths[i], di.V())
				for j := i + 1; j < len(paths); j++ {
					for _, dj := range doms[j] {
						v := Apply(vi, paths[j], dj.V())
						FixDerived(v, u.Version)
						fn(Valuation{b.Base, []string{paths[i].Label + "=" + di.Label, paths[j].Label + "=" + dj.Label}, v})
					}
				}
			}
		}
	}
	return len(paths), didPairs
}
