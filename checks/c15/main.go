// C15: the generated codec (pkg/kmsg/generated.go, plus the hand written
// Record and StickyMemberMetadata codecs) matches the protocol definitions.
//
// An independent interpreter of generate/definitions/* (package defs) gives,
// for every type x version x enumerated value, the expected wire bytes and
// the expected result of decoding them. The real AppendTo / ReadFrom /
// UnsafeReadFrom are driven by reflection and compared.
package main

import (
	"bytes"
	"encoding/hex"
	"encoding/json"
	"fmt"
	"hash/fnv"
	"os"
	"sort"
	"sync"
	"sync/atomic"

	"verif/checks/c15/defs"

	"verif.local/ev"
)

type problem struct {
	Key      string
	What     string
	Artefact map[string]any
}

type unitStats struct {
	evals, skipped int64
	paths          int
	pairs          bool
	distinct       int
}

func hexCap(b []byte) string {
	if len(b) > 600 {
		return hex.EncodeToString(b[:600]) + fmt.Sprintf("...(%d bytes)", len(b))
	}
	return hex.EncodeToString(b)
}

func firstDiff(a, b []byte) int {
	n := len(a)
	if len(b) < n {
		n = len(b)
	}
	for i := 0; i < n; i++ {
		if a[i] != b[i] {
			return i
		}
	}
	return n
}

// checkUnit runs the whole enumeration of one unit and reports problems
// through report (which may be called many times; the caller dedupes).
func checkUnit(u *defs.Unit, pairs bool, report func(problem), sample func(any)) unitStats {
	var st unitStats
	seen := map[uint64]struct{}{}
	art := func(v defs.Valuation, ver int) map[string]any {
		return map[string]any{"type": u.Name, "version": ver, "unit_version": u.Version, "base": v.Base, "deviations": v.Devs, "value": defs.Show(v.V)}
	}
	// Default() must give exactly the defaults the definition states.
	{
		got := defs.NormaliseStruct(u.Tree(u.New()), u.Version)
		want := defs.NormaliseStruct(defs.DefaultStruct(u.S), u.Version)
		if d := defs.Diff(want, got, u.Name); d != "" {
			report(problem{u.Name + ":default", "Default() differs from the definition's defaults: " + d + " (definition vs Go)",
				map[string]any{"type": u.Name, "version": u.Version, "kind": "default"}})
		}
	}
	// IsFlexible() must agree with the definition's "flexible vN+".
	if u.EffVersion == nil {
		b := u.Bases()[0]
		if f, ok := u.Build(b.V).(interface{ IsFlexible() bool }); ok {
			if f.IsFlexible() != u.S.FlexibleIn(u.Version) {
				report(problem{u.Name + ":isflexible", fmt.Sprintf("%s v%d: IsFlexible() = %v but the definition says flexible from v%d", u.Name, u.Version, f.IsFlexible(), u.S.FlexibleAt),
					map[string]any{"type": u.Name, "version": u.Version, "kind": "isflexible"}})
			}
		} else if u.S.TopLevel {
			report(problem{u.Name + ":isflexible", u.Name + ": top level message without IsFlexible()", map[string]any{"type": u.Name, "version": u.Version, "kind": "isflexible"}})
		}
	}
	sampled := false
	st.paths, st.pairs = u.Enumerate(pairs, func(v defs.Valuation) {
		ver := u.Version
		if u.EffVersion != nil {
			if ver = u.EffVersion(v.V); ver != u.Version {
				st.skipped++
				return
			}
		}
		st.evals++
		enc, err := defs.Encode(u.S, v.V, ver)
		if err != nil {
			ev.InfraError("interpreter cannot encode %s %s: %v", u, v.Label(), err)
		}
		exp := enc.B
		h := fnv.New64a()
		h.Write(exp)
		seen[h.Sum64()] = struct{}{}
		c := u.Build(v.V)
		got := c.AppendTo(nil)
		devKey := ""
		for _, d := range v.Devs {
			for i := 0; i < len(d); i++ {
				if d[i] == '=' {
					devKey += "," + d[:i]
					break
				}
			}
		}
		if !bytes.Equal(exp, got) {
			a := art(v, ver)
			a["kind"] = "encode"
			a["expected_hex"], a["got_hex"], a["first_difference_at"] = hexCap(exp), hexCap(got), firstDiff(exp, got)
			report(problem{u.Name + ":encode:" + v.Base + devKey,
				fmt.Sprintf("%s v%d %s: AppendTo produced %d bytes, the definitions give %d bytes; first difference at offset %d", u.Name, ver, v.Label(), len(got), len(exp), firstDiff(exp, got)), a})
		}
		if len(v.Devs) == 0 { // bases: AppendTo must append
			g2 := c.AppendTo([]byte{0xaa, 0x55})
			if len(g2) < 2 || g2[0] != 0xaa || g2[1] != 0x55 || !bytes.Equal(g2[2:], got) {
				a := art(v, ver)
				a["kind"] = "append"
				report(problem{u.Name + ":append", u.Name + ": AppendTo(dst) does not append to dst", a})
			}
		}
		want := defs.Project(v.V, ver)
		for _, mode := range []string{"ReadFrom", "UnsafeReadFrom"} {
			fresh := u.New()
			in := append([]byte{}, exp...)
			var derr error
			if mode == "ReadFrom" {
				derr = fresh.ReadFrom(in)
			} else {
				derr = fresh.UnsafeReadFrom(in)
			}
			if derr != nil {
				a := art(v, ver)
				a["kind"], a["mode"], a["input_hex"] = "decode-error", mode, hexCap(exp)
				report(problem{u.Name + ":" + mode + ":error:" + v.Base + devKey,
					fmt.Sprintf("%s v%d %s: %s rejects the bytes the definitions give for this value: %v", u.Name, ver, v.Label(), mode, derr), a})
				continue
			}
			back := defs.NormaliseStruct(u.Tree(fresh), ver)
			if d := defs.Diff(want, back, u.Name); d != "" {
				a := art(v, ver)
				a["kind"], a["mode"], a["input_hex"], a["difference"] = "decode", mode, hexCap(exp), d
				report(problem{u.Name + ":" + mode + ":" + v.Base + devKey,
					fmt.Sprintf("%s v%d %s: %s result differs (expected vs decoded) at %s", u.Name, ver, v.Label(), mode, d), a})
			}
		}
		if !sampled && len(v.Devs) == 1 && sample != nil {
			sampled = true
			sample(map[string]any{"type": u.Name, "version": ver, "valuation": v.Label(), "wire_hex": hexCap(exp)})
		}
	})
	st.distinct = len(seen)
	return st
}

func main() {
	repo := os.Getenv("REPO")
	if repo == "" {
		repo = "/repo"
	}
	sc, err := defs.Load(repo)
	if err != nil {
		ev.InfraError("%v", err)
	}
	reg := defs.BuildRegistry(sc)

	if len(os.Args) == 3 && os.Args[1] == "--replay" {
		replay(reg, os.Args[2])
		return
	}

	r := ev.New("C15", "exploration")
	r.Rule("every kmsg wire type (requests/responses through RequestForKey/ResponseForKey 0..MaxKey, stand-alone embedded types, hand written Record and StickyMemberMetadata) x every version 0..max x field-deviation-bounded values: two bases (all-default; all-populated = every field incl. those outside the version, two array elements, one unknown tag per flexible struct), every single field (all nesting levels, UnknownTags as a pseudo field) set to each element of its boundary domain (null/empty/1/2 elements, lengths 126/127/128 where the length is a compact uvarint and 63/64 where it is a zig-zag varint, min/-1/0/1/max/default/default+1 integers, varint byte-length boundaries, both booleans, null/default/populated nullable structs, 0/1/2 unknown tags incl. empty and 127/128-byte values); thorough: all pairs of deviations for units with <= 12 fields. A case is distinct by (type, version, deviated field, domain element); distinct wire encodings are counted separately")
	r.Assume("the definition files themselves are right with respect to Apache Kafka (its JSON message specs are not in the sandbox)",
		"wire rules applied by the interpreter: big-endian fixed-width integers, zig-zag varint/varlong, int16/int32 length prefixes with -1 = null before the flexible version, uvarint(len+1) with 0 = null from the flexible version on, nullable struct = int8 marker -1/1, tag section = uvarint count then (uvarint tag, uvarint size, data) ascending, tagged fields omitted when equal to their default, a field outside its version range is not written and decodes to its default",
		"nil and empty are the same value where the wire cannot tell them apart at that version (non-nullable strings/bytes/arrays); a null given to a field that is not yet nullable at the version is written as empty (generate/README.md: 'behaves as a regular string before version N')",
		"derived fields are not deviated: the Version field of 'with version field' types equals the version under test; RecordBatch.Length = len(Records)+49 (length-field-minus)")

	for _, m := range reg.Mismatches {
		r.Violation("registry:"+m, "definitions and pkg/kmsg disagree: "+m, map[string]any{"kind": "registry", "detail": m})
	}

	thorough := ev.Thorough()
	var mu sync.Mutex
	reported := map[string]bool{}
	perType := map[string]int{}
	report := func(p problem) {
		mu.Lock()
		defer mu.Unlock()
		if reported[p.Key] {
			return
		}
		reported[p.Key] = true
		tn, _ := p.Artefact["type"].(string)
		perType[tn]++
		if perType[tn] > 3 { // one type, many deviations: keep the first three classes
			return
		}
		r.Violation(p.Key, p.What, p.Artefact)
	}

	// biggest units first so the tail is short
	units := append([]*defs.Unit{}, reg.Units...)
	cost := func(u *defs.Unit) int {
		n := len(defs.Paths(u.S))
		if thorough && n <= defs.PairLimit {
			return n * n * 20
		}
		return n
	}
	costs := map[*defs.Unit]int{}
	for _, u := range units {
		costs[u] = cost(u)
	}
	sort.SliceStable(units, func(i, j int) bool { return costs[units[i]] > costs[units[j]] })

	var next int64 = -1
	var wg sync.WaitGroup
	var evals, skipped, distinctEnc, pairUnits, maxPaths int64
	var sampleN int64
	for w := 0; w < ev.Workers(); w++ {
		wg.Add(1)
		go func() {
			defer wg.Done()
			for {
				i := int(atomic.AddInt64(&next, 1))
				if i >= len(units) {
					return
				}
				u := units[i]
				var smp func(any)
				if i%97 == 0 && atomic.AddInt64(&sampleN, 1) <= 8 {
					smp = r.Sample
				}
				st := checkUnit(u, thorough, report, smp)
				atomic.AddInt64(&evals, st.evals)
				atomic.AddInt64(&skipped, st.skipped)
				atomic.AddInt64(&distinctEnc, int64(st.distinct))
				if st.pairs {
					atomic.AddInt64(&pairUnits, 1)
				}
				for {
					m := atomic.LoadInt64(&maxPaths)
					if int64(st.paths) <= m || atomic.CompareAndSwapInt64(&maxPaths, m, int64(st.paths)) {
						break
					}
				}
				r.Evals(st.evals)
			}
		}()
	}
	wg.Wait()

	// distinct non-trivial cases: (type, version, path, domain element)
	for _, u := range reg.Units {
		for _, p := range defs.Paths(u.S) {
			for _, d := range defs.Domain(p, u.Version) {
				r.Distinct(fmt.Sprintf("%s/%d/%s=%s", u.Name, u.Version, p.Label, d.Label))
			}
		}
	}
	nFields := 0
	for _, n := range sc.Order {
		nFields += len(defs.Paths(sc.Structs[n]))
	}
	sort.Strings(reg.Uncovered)
	if reg.Uncovered == nil {
		reg.Uncovered = []string{}
	}
	r.Set("types_covered", reg.Types)
	r.Set("type_versions_covered", len(reg.Units))
	r.Set("uncovered_types", reg.Uncovered)
	r.Set("no_encoding_structs_covered_inside_parents", reg.ViaParent)
	r.Set("special_cases", reg.Special)
	r.Set("definition_files", sc.Files)
	r.Set("definition_structs", len(sc.Order))
	r.Set("definition_enums", len(sc.Enums))
	r.Set("definition_field_paths", nFields)
	r.Set("distinct_wire_encodings", distinctEnc)
	r.Set("valuations_skipped_other_effective_version", skipped)
	r.Set("units_with_all_pairs", pairUnits)
	r.Set("max_field_paths_in_a_unit", maxPaths)
	r.Set("bound_completed", map[string]any{"single_deviations": "all units", "pair_deviations": fmt.Sprintf("units with <= %d field paths: %d (thorough only)", defs.PairLimit, pairUnits)})
	r.Set("decoders_checked", []string{"ReadFrom", "UnsafeReadFrom"})
	if len(reg.Uncovered) > 0 {
		r.NotExhaustive(fmt.Sprintf("%d types could not be driven, see uncovered_types", len(reg.Uncovered)))
	}
	r.Finish()
}

func replay(reg *defs.Registry, path string) {
	b, err := os.ReadFile(path)
	if err != nil {
		ev.InfraError("%v", err)
	}
	var f struct {
		Key      string `json:"key"`
		Artefact struct {
			Type        string `json:"type"`
			UnitVersion *int   `json:"unit_version"`
			Version     int    `json:"version"`
			Kind        string `json:"kind"`
		} `json:"artefact"`
	}
	if err := json.Unmarshal(b, &f); err != nil {
		ev.InfraError("%v", err)
	}
	if f.Artefact.Kind == "registry" {
		for _, m := range reg.Mismatches {
			if "registry:"+m == f.Key {
				fmt.Println("REPLAY: still violated:", m)
				os.Exit(1)
			}
		}
		fmt.Println("REPLAY: holds")
		return
	}
	ver := f.Artefact.Version
	if f.Artefact.UnitVersion != nil {
		ver = *f.Artefact.UnitVersion
	}
	bad := false
	for _, u := range reg.Units {
		if u.Name != f.Artefact.Type || u.Version != ver {
			continue
		}
		checkUnit(u, true, func(p problem) {
			if p.Key == f.Key {
				bad = true
				fmt.Println("REPLAY: still violated:", p.What)
			}
		}, nil)
	}
	if bad {
		os.Exit(1)
	}
	fmt.Println("REPLAY: holds")
}
