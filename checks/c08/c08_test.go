package c08

import (
	"testing"

	"verif/checks/c07/gscen"
	"verif/lib/nrun"
)

// The scenarios live in the importable package verif/checks/c07/gscen
// (gscen.PlansC08); this file is only the entry point.
func TestC08(t *testing.T) {
	c := gscen.CheckC08()
	if gscen.ServeWorker(t, c.Plans) { // worker half of nrun.Main with a higher divergence-retry bound
		return
	}
	gscen.CapQuickWorkers(16)
	nrun.Main(t, c)
}
