#!/bin/bash
set -eu
cd "$(dirname "$0")/../.."
. bin/env.sh
go test -c -tags synctests,verif -o "$BUILD/c08.test" ./checks/c08
exec "$BUILD/c08.test" -test.run '^TestC08$' -test.timeout 0
