#!/bin/bash
# C25 every balancer produces a valid assignment.
# 1. in-package kfake harness (assignUniform / assignRange via computeTargetAssignment) -> JSON summary
# 2. main binary: range, roundrobin, sticky, cooperative-sticky through the public API; merges the summary
# VERIF_REPLAY=<violation artefact> re-runs one failing input instead.
set -eu
cd "$(dirname "$0")/../.."
. bin/env.sh
. checks/c25/balenum/inpkg.sh
inpkg_test_balenum pkg/kfake "$VERIF_ROOT/hooks/inpkg/c25_kfake_test.go" "$BUILD/c25_kfake.test"
inpkg_test_balenum pkg/kgo/internal/sticky "$VERIF_ROOT/hooks/inpkg/c25_sticky_test.go" "$BUILD/c25_sticky.test"
go build -o "$BUILD/c25" ./checks/c25
if [ -n "${VERIF_REPLAY:-}" ]; then
  rc=0
  "$BUILD/c25_kfake.test" -test.run '^TestVerifC25$' -test.timeout 0 || rc=$?
  "$BUILD/c25_sticky.test" -test.run '^TestVerifC25Sticky$' -test.timeout 0 || rc=$?
  "$BUILD/c25" || rc=$?
  exit $rc
fi
# per-run file: concurrent runs of this check must not clobber each other
export C25_KFAKE_SUMMARY="$BUILD/c25_kfake_summary.$$.json"
export C25_STICKY_SUMMARY="$BUILD/c25_sticky_summary.$$.json"
trap 'rm -f "$C25_KFAKE_SUMMARY" "$C25_STICKY_SUMMARY"' EXIT
"$BUILD/c25_kfake.test" -test.run '^TestVerifC25$' -test.timeout 0 || { echo "INFRA-ERROR: kfake harness failed" >&2; exit 2; }
"$BUILD/c25_sticky.test" -test.run '^TestVerifC25Sticky$' -test.timeout 0 || { echo "INFRA-ERROR: sticky-engine harness failed" >&2; exit 2; }
"$BUILD/c25"
