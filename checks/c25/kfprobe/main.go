package main

import (
	"context"
	"fmt"

	"github.com/twmb/franz-go/pkg/kerr"
	"github.com/twmb/franz-go/pkg/kfake"
	"github.com/twmb/franz-go/pkg/kgo"
	"github.com/twmb/franz-go/pkg/kmsg"
)

func main() {
	c, err := kfake.NewCluster(kfake.NumBrokers(1), kfake.SeedTopics(2, "ta"))
	if err != nil {
		panic(err)
	}
	defer c.Close()
	cl, err := kgo.NewClient(kgo.SeedBrokers(c.ListenAddrs()...))
	if err != nil {
		panic(err)
	}
	defer cl.Close()
	ctx := context.Background()
	hb := func(member string, epoch int32, instance *string, join bool) *kmsg.ConsumerGroupHeartbeatResponse {
		req := kmsg.NewPtrConsumerGroupHeartbeatRequest()
		req.Group = "g"
		req.MemberID = member
		req.MemberEpoch = epoch
		req.InstanceID = instance
		if join {
			req.RebalanceTimeoutMillis = 60000
			req.SubscribedTopicNames = []string{"ta"}
			req.ServerAssignor = kmsg.StringPtr("uniform")
			req.Topics = []kmsg.ConsumerGroupHeartbeatRequestTopic{}
		}
		resp, err := req.RequestWith(ctx, cl)
		if err != nil {
			panic(err)
		}
		mid := ""
		if resp.MemberID != nil {
			mid = *resp.MemberID
		}
		fmt.Printf("  hb member=%q epoch=%d -> err=%v member=%q epoch=%d assignment=%v\n", member, epoch, kerr.ErrorForCode(resp.ErrorCode), mid, resp.MemberEpoch, resp.Assignment)
		return resp
	}
	describe := func(when string) {
		req := kmsg.NewPtrConsumerGroupDescribeRequest()
		req.Groups = []string{"g"}
		resp, err := req.RequestWith(ctx, cl)
		if err != nil {
			panic(err)
		}
		fmt.Println(when)
		for _, g := range resp.Groups {
			fmt.Printf("  group epoch=%d assignmentEpoch=%d state=%s err=%v\n", g.Epoch, g.AssignmentEpoch, g.State, kerr.ErrorForCode(g.ErrorCode))
			for _, m := range g.Members {
				inst := ""
				if m.InstanceID != nil {
					inst = *m.InstanceID
				}
				fmt.Printf("    member %s instance=%q epoch=%d target=", m.MemberID, inst, m.MemberEpoch)
				for _, t := range m.TargetAssignment.TopicPartitions {
					fmt.Printf("%s%v ", t.Topic, t.Partitions)
				}
				fmt.Printf(" current=")
				for _, t := range m.Assignment.TopicPartitions {
					fmt.Printf("%s%v ", t.Topic, t.Partitions)
				}
				fmt.Println()
			}
		}
	}
	iA := "iA"
	fmt.Println("1. static member A joins")
	a := hb("A", 0, &iA, true)
	fmt.Println("2. dynamic member B joins")
	b := hb("B", 0, nil, true)
	_ = b
	// let A reconcile: heartbeat until it has given up what it must
	for i := 0; i < 3; i++ {
		req := kmsg.NewPtrConsumerGroupHeartbeatRequest()
		req.Group, req.MemberID, req.MemberEpoch, req.InstanceID = "g", "A", a.MemberEpoch, &iA
		req.Topics = nil
		r, _ := req.RequestWith(ctx, cl)
		if r.ErrorCode == 0 {
			a.MemberEpoch = r.MemberEpoch
		}
	}
	describe("after A and B joined")
	fmt.Println("3. A sends a static leave (epoch -2)")
	hb("A", -2, &iA, false)
	describe("A away")
	fmt.Println("4. dynamic member C joins while A is away")
	hb("C", 0, nil, true)
	describe("C joined")
	fmt.Println("5. A2 joins with the same instance id")
	hb("A2", 0, &iA, true)
	describe("A2 replaced A")
	fmt.Println("6. dynamic member D joins (any later recompute)")
	hb("D", 0, nil, true)
	describe("D joined")
}
