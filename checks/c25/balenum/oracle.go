package balenum

import (
	"fmt"
	"sort"
	"strings"
)

// Verdict is a violated rule: Key is the stable class, What the explanation.
type Verdict struct {
	Key  string
	What string
}

// CurrentOwners returns the members whose claim on flat partition f is
// current, i.e. made at the maximum generation among all claimants.
func (c *Case) CurrentOwners(f int) []int {
	os := c.Owners[f]
	if len(os) == 0 {
		return nil
	}
	max := c.Gens[os[0]]
	for _, o := range os[1:] {
		if c.Gens[o] > max {
			max = c.Gens[o]
		}
	}
	var out []int
	for _, o := range os {
		if c.Gens[o] == max {
			out = append(out, o)
		}
	}
	return out
}

// holders maps every flat partition to the member indexes the plan gives it
// to, and reports anything assigned that is not a partition of an existing
// topic or not to a group member.
func holders(c *Case, plan Plan) (h [][]int, v *Verdict) {
	h = make([][]int, c.NumFlat())
	ms := make([]string, 0, len(plan))
	for m := range plan {
		ms = append(ms, m)
	}
	sort.Strings(ms)
	for _, m := range ms {
		mi := c.Index(m)
		if mi < 0 {
			if len(plan[m]) > 0 && v == nil {
				v = &Verdict{"assigned-to-non-member", fmt.Sprintf("plan assigns %v to %q which is not a group member", fmtAssn(plan[m]), m)}
			}
			continue
		}
		ts := make([]string, 0, len(plan[m]))
		for t := range plan[m] {
			ts = append(ts, t)
		}
		sort.Strings(ts)
		for _, t := range ts {
			ti := -1
			for i := range c.Parts {
				if RealTopics[i] == t {
					ti = i
				}
			}
			for _, p := range plan[m][t] {
				if ti < 0 || p < 0 || p >= c.Parts[ti] {
					if v == nil {
						v = &Verdict{"assigned-nonexistent-partition", fmt.Sprintf("plan assigns %s[%d] to %s but that partition does not exist", t, p, m)}
					}
					continue
				}
				f := c.Flat(ti, p)
				h[f] = append(h[f], mi)
			}
		}
	}
	return h, v
}

// CheckValid is the C25 oracle. Every partition of every topic some member
// subscribes to must be assigned to exactly one member subscribed to it, and
// nothing else may be assigned. With coop, a partition may be left unassigned
// iff some member currently (at the maximum claimed generation) owns it: the
// plan is moving it away from that member and withholds it for one round.
func CheckValid(c *Case, plan Plan, coop bool) *Verdict {
	h, v := holders(c, plan)
	if v != nil {
		return v
	}
	for f, hs := range h {
		t, _ := c.TP(f)
		for _, m := range hs {
			if !c.Subscribed(m, t) {
				return &Verdict{"assigned-to-unsubscribed-member", fmt.Sprintf("%s is assigned to %s which does not subscribe to %s", c.TPName(f), c.ID(m), RealTopics[t])}
			}
		}
		if len(hs) > 1 {
			names := make([]string, len(hs))
			for i, m := range hs {
				names[i] = c.ID(m)
			}
			return &Verdict{"assigned-twice", fmt.Sprintf("%s is assigned %d times (%s)", c.TPName(f), len(hs), strings.Join(names, ", "))}
		}
		if len(hs) == 0 && c.TopicWanted(t) {
			if !coop {
				return &Verdict{"unassigned", fmt.Sprintf("%s is subscribed to but assigned to nobody", c.TPName(f))}
			}
			if len(c.CurrentOwners(f)) == 0 {
				return &Verdict{"coop-unassigned-without-current-owner", fmt.Sprintf("%s is left unassigned although no member currently owns it", c.TPName(f))}
			}
		}
	}
	return nil
}

// Loads returns the number of partitions the plan gives each member.
func Loads(c *Case, plan Plan) []int {
	l := make([]int, c.N)
	for m, ts := range plan {
		if mi := c.Index(m); mi >= 0 {
			for _, ps := range ts {
				l[mi] += len(ps)
			}
		}
	}
	return l
}

// CheckOptimal is the C26 (i) oracle, brute force: in the directed graph over
// members with an edge A -> B iff A holds (in the plan) a partition of a topic
// B subscribes to, there must be no path from a member holding c partitions
// to a member holding <= c-2. Returns "" if optimal, else the improving chain.
func CheckOptimal(c *Case, plan Plan) string {
	load := Loads(c, plan)
	holdsTopic := make([][]bool, c.N) // member -> topic -> holds a partition of it
	for i := range holdsTopic {
		holdsTopic[i] = make([]bool, len(c.Parts))
	}
	for m, ts := range plan {
		mi := c.Index(m)
		if mi < 0 {
			continue
		}
		for t, ps := range ts {
			for ti := range c.Parts {
				if RealTopics[ti] == t && len(ps) > 0 {
					holdsTopic[mi][ti] = true
				}
			}
		}
	}
	edge := func(a, b int) (int, bool) {
		if a == b {
			return 0, false
		}
		for t := range c.Parts {
			if holdsTopic[a][t] && c.Subscribed(b, t) {
				return t, true
			}
		}
		return 0, false
	}
	for a := 0; a < c.N; a++ {
		parent := make([]int, c.N)
		for i := range parent {
			parent[i] = -1
		}
		parent[a] = a
		queue := []int{a}
		for len(queue) > 0 {
			x := queue[0]
			queue = queue[1:]
			for b := 0; b < c.N; b++ {
				if parent[b] >= 0 {
					continue
				}
				if _, ok := edge(x, b); !ok {
					continue
				}
				parent[b] = x
				queue = append(queue, b)
				if load[b] <= load[a]-2 {
					var chain []string
					for y := b; y != a; y = parent[y] {
						t, _ := edge(parent[y], y)
						chain = append([]string{fmt.Sprintf("%s -(%s)-> %s", c.ID(parent[y]), RealTopics[t], c.ID(y))}, chain...)
					}
					return fmt.Sprintf("%s holds %d, %s holds %d, and a partition can move along %s", c.ID(a), load[a], c.ID(b), load[b], strings.Join(chain, ", "))
				}
			}
		}
	}
	return ""
}

// PriorAsPlan returns the members' current assignment as a plan when it is
// conflict-free and same-generation (every partition claimed by at most one
// member, all claimants on one generation, no claims on things that do not
// exist); ok is false otherwise.
func PriorAsPlan(c *Case) (Plan, bool) {
	if c.Ghost {
		return nil, false
	}
	gen, have := int32(0), false
	p := make(Plan, c.N)
	for i := 0; i < c.N; i++ {
		p[c.ID(i)] = map[string][]int32{}
	}
	for f, os := range c.Owners {
		if len(os) > 1 {
			return nil, false
		}
		if len(os) == 1 {
			if have && c.Gens[os[0]] != gen {
				return nil, false
			}
			gen, have = c.Gens[os[0]], true
			t, pn := c.TP(f)
			id := c.ID(os[0])
			p[id][RealTopics[t]] = append(p[id][RealTopics[t]], pn)
		}
	}
	return p, true
}

// CheckStaysPut is the C26 (ii) oracle: if the current assignment is valid,
// complete and optimal for the current subscriptions, the plan must equal it.
// applicable reports whether the precondition held.
func CheckStaysPut(c *Case, plan Plan) (applicable bool, v *Verdict) {
	prior, ok := PriorAsPlan(c)
	if !ok || CheckValid(c, prior, false) != nil || CheckOptimal(c, prior) != "" {
		return false, nil
	}
	if !SamePlan(c, prior, plan) {
		return true, &Verdict{"balanced-assignment-not-kept", "the current assignment is valid, complete and optimally balanced, but the plan moves partitions: current " + FormatPlan(prior) + " plan " + FormatPlan(plan)}
	}
	return true, nil
}

// SamePlan compares two plans as sets of (member, topic, partition), ignoring
// empty entries.
func SamePlan(c *Case, a, b Plan) bool {
	return FormatPlan(normalize(a)) == FormatPlan(normalize(b))
}

func normalize(p Plan) Plan {
	out := Plan{}
	for m, ts := range p {
		for t, ps := range ts {
			if len(ps) == 0 {
				continue
			}
			if out[m] == nil {
				out[m] = map[string][]int32{}
			}
			out[m][t] = ps
		}
	}
	return out
}

// NormalizedKey is a canonical string of the non-empty part of a plan.
func NormalizedKey(p Plan) string { return FormatPlan(normalize(p)) }

// PlanCode is a cheap canonical code of a plan over the existing partitions
// of the case: per flat partition the (sorted) holder set, mixed into 64 bits.
func PlanCode(c *Case, plan Plan) uint64 {
	if plan == nil {
		return ^uint64(0)
	}
	var sets [64]uint16
	nf := c.NumFlat()
	for m, ts := range plan {
		mi := c.Index(m)
		if mi < 0 {
			continue
		}
		for t, ps := range ts {
			for ti := range c.Parts {
				if RealTopics[ti] != t {
					continue
				}
				for _, p := range ps {
					if p >= 0 && p < c.Parts[ti] {
						if f := c.Flat(ti, p); f < len(sets) {
							sets[f] |= 1 << uint(mi)
						}
					}
				}
			}
		}
	}
	h := uint64(14695981039346656037)
	for f := 0; f < nf && f < len(sets); f++ {
		h ^= uint64(sets[f]) + 1
		h *= 1099511628211
	}
	return h
}
