package balenum

import (
	"encoding/json"
	"hash/fnv"
	"sort"
	"sync"
)

// Finding is one violating input kept by a Collector.
type Finding struct {
	Key      string `json:"key"`
	What     string `json:"what"`
	Size     int    `json:"size"`
	Count    int64  `json:"count"` // inputs that hit this key
	Artefact any    `json:"artefact"`
}

// Collector keeps, per violation key, the smallest violating input (by the
// caller's size metric, ties broken by the JSON of the artefact so the choice
// does not depend on goroutine scheduling) and how many inputs hit the key.
type Collector struct {
	mu  sync.Mutex
	min map[string]*Finding
	ord map[string]string
}

func NewCollector() *Collector {
	return &Collector{min: map[string]*Finding{}, ord: map[string]string{}}
}

func (k *Collector) Add(key, what string, size int, artefact func() any) {
	k.mu.Lock()
	defer k.mu.Unlock()
	f := k.min[key]
	if f != nil && size > f.Size {
		f.Count++
		return
	}
	a := artefact()
	js, _ := json.Marshal(a)
	if f == nil {
		k.min[key] = &Finding{Key: key, What: what, Size: size, Count: 1, Artefact: a}
		k.ord[key] = string(js)
		return
	}
	f.Count++
	if size < f.Size || string(js) < k.ord[key] {
		f.What, f.Size, f.Artefact = what, size, a
		k.ord[key] = string(js)
	}
}

func (k *Collector) Findings() []Finding {
	k.mu.Lock()
	defer k.mu.Unlock()
	keys := make([]string, 0, len(k.min))
	for key := range k.min {
		keys = append(keys, key)
	}
	sort.Strings(keys)
	out := make([]Finding, 0, len(keys))
	for _, key := range keys {
		out = append(out, *k.min[key])
	}
	return out
}

// CaseSize orders cases for minimisation: members, then partitions, then
// claims, then racks/static/special features.
func CaseSize(c *Case) int {
	s := c.N*100000 + c.NumFlat()*10000
	for i := 0; i < c.N; i++ {
		s += c.Claims(i) * 100
		if c.Gens[i] != GenCurrent {
			s += 10
		}
		if c.Subs[i]&GhostBit != 0 || c.Subs[i] == 0 {
			s += 5
		}
		for t := range c.Parts {
			if c.Subscribed(i, t) {
				s++
			}
		}
	}
	if c.Ghost {
		s += 50
	}
	if c.HasRacks() {
		s += 50
	}
	if c.Static {
		s += 50
	}
	return s
}

// Hash64 hashes the concatenation of the given strings.
func Hash64(parts ...string) uint64 {
	h := fnv.New64a()
	for _, p := range parts {
		h.Write([]byte(p))
		h.Write([]byte{0})
	}
	return h.Sum64()
}

// HashSet is a bounded set of 64-bit hashes (local to one worker).
type HashSet struct {
	m   map[uint64]struct{}
	cap int
	// Dropped counts insertions refused because the set was full.
	Dropped int64
}

func NewHashSet(cap int) *HashSet { return &HashSet{m: map[uint64]struct{}{}, cap: cap} }

func (s *HashSet) Add(h uint64) bool {
	if _, ok := s.m[h]; ok {
		return false
	}
	if len(s.m) >= s.cap {
		s.Dropped++
		return false
	}
	s.m[h] = struct{}{}
	return true
}

func (s *HashSet) Has(h uint64) bool { _, ok := s.m[h]; return ok }
func (s *HashSet) Len() int          { return len(s.m) }
func (s *HashSet) Each(fn func(uint64)) {
	for h := range s.m {
		fn(h)
	}
}
