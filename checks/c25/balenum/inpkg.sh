# Sourced by checks/c25..c27 run.sh after bin/env.sh.
# inpkg_test_balenum <pkgdir relative to repo> <harness _test.go> <out binary>
# Same as bin/env.sh's inpkg_test (harness overlaid as zz_verif_test.go, /repo
# untouched), but the alternate go.mod additionally resolves the module
# `verif` so the harness can import verif/checks/c25/balenum (which imports
# neither kgo nor kfake, so there is no cycle).
inpkg_test_balenum() {
  local pkg="$1" harness="$2" out="$3"; shift 3
  local moddir="$REPO/$pkg"
  while [ ! -f "$moddir/go.mod" ]; do moddir=$(dirname "$moddir"); done
  local key; key=$(printf %s "$moddir" | cksum | cut -d' ' -f1)
  local alt="$BUILD/inpkgb-$key.mod"
  {
    cat "$moddir/go.mod"
    echo
    echo "replace ("
    for m in "" /pkg/kmsg /pkg/kadm /pkg/kfake /pkg/sr /plugin/kotel; do
      [ "$REPO$m" = "$moddir" ] && continue
      echo "  github.com/twmb/franz-go$m => $REPO$m"
    done
    echo "  verif.local/ev => $VERIF_ROOT/lib/ev"
    echo "  verif => $VERIF_ROOT"
    echo ")"
    echo "require verif.local/ev v0.0.0"
    echo "require verif v0.0.0"
  } > "$alt"
  cat "$VERIF_ROOT/go.sum" "$moddir/go.sum" 2>/dev/null | sort -u > "$BUILD/inpkgb-$key.sum"
  local ov="$BUILD/inpkgb-$key-$(basename "$harness").overlay.json"
  printf '{"Replace":{"%s":"%s"}}\n' "$REPO/$pkg/zz_verif_test.go" "$harness" > "$ov"
  ( cd "$REPO/$pkg" && GOFLAGS=-mod=mod go test -c -vet=off -modfile="$alt" -overlay="$ov" -o "$out" "$@" . )
}
