// Package balenum is the shared enumeration + reference-oracle library of the
// balancer checks C25, C26 and C27. It deliberately imports nothing from
// pkg/kgo or pkg/kfake so that the in-package harnesses (package kgo, package
// kfake) can import it without an import cycle.
//
// A Case is one input of a classic-protocol group balance as the group leader
// sees it: members (IDs, optional static instance IDs, racks), each member's
// subscription, each member's generation and claimed (owned) partitions, the
// partition count of every existing topic and the partition leader racks.
package balenum

import (
	"fmt"
	"os"
	"runtime/debug"
	"sort"
	"strings"
)

// Plan is member ID => topic => partitions, the decoded form of a balance plan.
type Plan = map[string]map[string][]int32

// RealTopics are the names of the existing topics; GhostTopic is a topic that
// members may subscribe to / claim but that does not exist (no metadata, so
// the leader never has a partition count for it).
var RealTopics = []string{"ta", "tb", "tc", "td", "te"}

const (
	GhostTopic       = "tz"
	GhostBit   uint8 = 1 << 7

	GenCurrent int32 = 7
	GenStale   int32 = 5
	GenFresh   int32 = -1 // a member that never completed a join
)

type Case struct {
	N     int      `json:"n"`
	IDs   []string `json:"ids,omitempty"` // default m0, m1, ...
	Parts []int32  `json:"parts"`         // partitions of ta, tb
	Subs  []uint8  `json:"subs"`          // per member: bit t = RealTopics[t], GhostBit = tz
	Gens  []int32  `json:"gens"`          // per member generation sent in JoinGroup metadata
	// Owners[flat partition] = indexes of the members claiming it (0, 1 or 2).
	Owners [][]int `json:"owners"`
	// Ghost: member 0 additionally claims ta[Parts[0]] (a partition that
	// does not exist) and tz[0] (a topic that does not exist).
	Ghost bool `json:"ghost_claims,omitempty"`
	// GhostName is the name of the nonexistent topic (default "tz"). Its
	// position in a member's (sorted) subscription list depends on it: "t0"
	// sorts before every existing topic, "taz" between ta and tb, "tz" last.
	GhostName  string     `json:"ghost_name,omitempty"`
	MRack      []string   `json:"member_racks,omitempty"`    // "" = member sends no rack
	PRack      [][]string `json:"partition_racks,omitempty"` // per real topic, per partition
	Static     bool       `json:"static_reversed,omitempty"` // instance IDs whose order reverses the member-ID order
	TopicOrder int        `json:"topic_order"`               // insertion order of the leader's partition-count map
}

func (c *Case) ID(i int) string {
	if c.IDs != nil {
		return c.IDs[i]
	}
	if i < len(defaultIDs) {
		return defaultIDs[i]
	}
	return fmt.Sprintf("m%d", i)
}

var defaultIDs = []string{"m0", "m1", "m2", "m3", "m4", "m5", "m6", "m7"}
var defaultInstanceIDs = []string{"i9", "i8", "i7", "i6", "i5", "i4", "i3", "i2"}

// TuneGC trades memory for speed: the checks allocate many tiny short-lived
// objects (encoded metadata, plans). A never-touched ballast of n bytes makes
// the collector run only after about n bytes (plus the live heap) of new
// allocation, without the thrashing a hard memory limit causes once the live
// heap (block lists, hash sets) grows.
func TuneGC(n int64) {
	if v := os.Getenv("BALENUM_GC_BALLAST"); v != "" {
		fmt.Sscan(v, &n)
	}
	if n > 0 {
		gcBallast = make([]byte, n)
	}
	debug.SetGCPercent(100)
}

var gcBallast []byte

// InstanceID returns the static instance ID of member i ("" = dynamic).
// With Static the instance IDs sort in the reverse order of the member IDs.
func (c *Case) InstanceID(i int) string {
	if !c.Static {
		return ""
	}
	if i < len(defaultInstanceIDs) {
		return defaultInstanceIDs[i]
	}
	return fmt.Sprintf("i%d", 9-i)
}

func (c *Case) Index(id string) int {
	for i := 0; i < c.N; i++ {
		if c.ID(i) == id {
			return i
		}
	}
	return -1
}

func (c *Case) NumFlat() int {
	n := 0
	for _, p := range c.Parts {
		n += int(p)
	}
	return n
}

func (c *Case) Flat(t int, p int32) int {
	f := 0
	for i := 0; i < t; i++ {
		f += int(c.Parts[i])
	}
	return f + int(p)
}

func (c *Case) TP(flat int) (int, int32) {
	for t, p := range c.Parts {
		if flat < int(p) {
			return t, int32(flat)
		}
		flat -= int(p)
	}
	panic("flat out of range")
}

func (c *Case) TPName(flat int) string {
	t, p := c.TP(flat)
	return fmt.Sprintf("%s[%d]", RealTopics[t], p)
}

func (c *Case) Subscribed(i, t int) bool { return t < len(c.Parts) && c.Subs[i]&(1<<uint(t)) != 0 }

// TopicsOf returns member i's subscription, sorted, as the client guarantees.
func (c *Case) TopicsOf(i int) []string {
	var out []string
	for t := range RealTopics {
		if c.Subs[i]&(1<<uint(t)) != 0 {
			out = append(out, RealTopics[t])
		}
	}
	if c.Subs[i]&GhostBit != 0 {
		out = append(out, c.GhostTopicName())
		sort.Strings(out) // the client sends (and NewConsumerBalancer re-sorts) the list sorted
	}
	return out
}

// GhostTopicName is the name of the nonexistent topic of this case.
func (c *Case) GhostTopicName() string {
	if c.GhostName != "" {
		return c.GhostName
	}
	return GhostTopic
}

// Owned returns what member i advertises as currently assigned (topic =>
// sorted partitions), nil if nothing.
func (c *Case) Owned(i int) map[string][]int32 {
	var out map[string][]int32
	add := func(t string, p int32) {
		if out == nil {
			out = map[string][]int32{}
		}
		out[t] = append(out[t], p)
	}
	for f, os := range c.Owners {
		for _, o := range os {
			if o == i {
				t, p := c.TP(f)
				add(RealTopics[t], p)
			}
		}
	}
	if c.Ghost && i == 0 {
		add(RealTopics[0], c.Parts[0])
		add(c.GhostTopicName(), 0)
	}
	for _, ps := range out {
		sort.Slice(ps, func(a, b int) bool { return ps[a] < ps[b] })
	}
	return out
}

func (c *Case) Claims(i int) int {
	n := 0
	for _, os := range c.Owners {
		for _, o := range os {
			if o == i {
				n++
			}
		}
	}
	return n
}

// TopicWanted reports whether some member subscribes to real topic t.
func (c *Case) TopicWanted(t int) bool {
	for i := 0; i < c.N; i++ {
		if c.Subscribed(i, t) {
			return true
		}
	}
	return false
}

// Counts builds the leader's topic => partition count map for the given set
// of member-interest topics (what MemberBalancer returned): only topics that
// exist get an entry. The insertion order follows TopicOrder (Go's small-map
// iteration order depends on it; the sticky engine numbers partitions in map
// iteration order).
func (c *Case) Counts(interest map[string]struct{}) map[string]int32 {
	out := make(map[string]int32, len(c.Parts))
	for k := range c.Parts {
		t := k // order 0: ascending topic index; order 1: descending
		if c.TopicOrder == 1 {
			t = len(c.Parts) - 1 - k
		}
		if _, ok := interest[RealTopics[t]]; ok {
			out[RealTopics[t]] = c.Parts[t]
		}
	}
	return out
}

// HasRacks reports whether rack-aware input is present on both sides, the
// precondition under which the client's leader builds partition racks.
func (c *Case) HasRacks() bool {
	if c.PRack == nil {
		return false
	}
	for _, r := range c.MRack {
		if r != "" {
			return true
		}
	}
	return false
}

// PartitionRacks mirrors what groupConsumer.buildPartitionRacks hands the
// balancer: topic => per-partition leader rack for every counted topic, nil
// when no member sent a rack or no partition has one.
func (c *Case) PartitionRacks(counts map[string]int32) map[string][]string {
	if !c.HasRacks() {
		return nil
	}
	out := make(map[string][]string, len(counts))
	any := false
	for topic, n := range counts {
		racks := make([]string, n)
		for t := range c.Parts {
			if RealTopics[t] == topic && t < len(c.PRack) {
				for p := range racks {
					if p < len(c.PRack[t]) {
						racks[p] = c.PRack[t][p]
						if racks[p] != "" {
							any = true
						}
					}
				}
			}
		}
		out[topic] = racks
	}
	if !any {
		return nil
	}
	return out
}

func (c *Case) Clone() *Case {
	d := *c
	d.IDs = append([]string(nil), c.IDs...)
	if c.IDs == nil {
		d.IDs = nil
	}
	d.Parts = append([]int32(nil), c.Parts...)
	d.Subs = append([]uint8(nil), c.Subs...)
	d.Gens = append([]int32(nil), c.Gens...)
	d.Owners = make([][]int, len(c.Owners))
	for i, o := range c.Owners {
		d.Owners[i] = append([]int{}, o...)
	}
	if c.MRack != nil {
		d.MRack = append([]string(nil), c.MRack...)
	}
	if c.PRack != nil {
		d.PRack = make([][]string, len(c.PRack))
		for i, r := range c.PRack {
			d.PRack[i] = append([]string(nil), r...)
		}
	}
	return &d
}

// Describe renders the case for a violation message.
func (c *Case) Describe() string {
	var sb strings.Builder
	fmt.Fprintf(&sb, "topics:")
	for t, p := range c.Parts {
		fmt.Fprintf(&sb, " %s=%d", RealTopics[t], p)
		if c.PRack != nil && t < len(c.PRack) {
			fmt.Fprintf(&sb, "%v", c.PRack[t])
		}
	}
	fmt.Fprintf(&sb, " (count-map insertion order %d)\n", c.TopicOrder)
	for i := 0; i < c.N; i++ {
		fmt.Fprintf(&sb, "member %s", c.ID(i))
		if c.Static {
			fmt.Fprintf(&sb, " instance=%s", c.InstanceID(i))
		}
		if c.MRack != nil && c.MRack[i] != "" {
			fmt.Fprintf(&sb, " rack=%s", c.MRack[i])
		}
		fmt.Fprintf(&sb, " subscribes=%v generation=%d owned=%v\n", c.TopicsOf(i), c.Gens[i], fmtAssn(c.Owned(i)))
	}
	return sb.String()
}

func fmtAssn(a map[string][]int32) string {
	if len(a) == 0 {
		return "{}"
	}
	ts := make([]string, 0, len(a))
	for t := range a {
		ts = append(ts, t)
	}
	sort.Strings(ts)
	var sb strings.Builder
	sb.WriteByte('{')
	for i, t := range ts {
		if i > 0 {
			sb.WriteByte(' ')
		}
		ps := append([]int32(nil), a[t]...)
		sort.Slice(ps, func(x, y int) bool { return ps[x] < ps[y] })
		fmt.Fprintf(&sb, "%s%v", t, ps)
	}
	sb.WriteByte('}')
	return sb.String()
}

// FormatPlan renders a plan deterministically (members, topics and
// partitions sorted); it doubles as the canonical key of a plan.
func FormatPlan(p Plan) string {
	ms := make([]string, 0, len(p))
	for m := range p {
		ms = append(ms, m)
	}
	sort.Strings(ms)
	var sb strings.Builder
	for i, m := range ms {
		if i > 0 {
			sb.WriteString(" ")
		}
		sb.WriteString(m)
		sb.WriteString("=")
		sb.WriteString(fmtAssn(p[m]))
	}
	return sb.String()
}
