package balenum

import "fmt"

// Deterministic enumeration of balance inputs. A Block fixes everything but
// the prior ownership / generations / count-map order, which Block.Each
// sweeps exhaustively; blocks are what the checks hand to worker goroutines.

type PriorMode int

const (
	// PriorNone: nobody owns anything (first join of everybody).
	PriorNone PriorMode = iota
	// PriorSingle: every map partition -> {nobody, one member}, all members
	// on the current generation.
	PriorSingle
	// PriorFull: every map partition -> {nobody, one member, two
	// conflicting members} x every member generation in {current, stale}
	// (a member that claims nothing is only enumerated as current: its
	// generation is unobservable).
	PriorFull
	// PriorConflict: nobody | one member | two conflicting members, all
	// members on the current generation.
	PriorConflict
	// PriorCompleteSubscribed: every partition of a subscribed topic is
	// owned by exactly one member subscribed to it (every valid complete
	// conflict-free assignment, balanced or not -- this contains every
	// "staircase" k, k+1, k+2, ... of loads), all on the current generation.
	PriorCompleteSubscribed
	// PriorPartialSubscribed: as above, or nobody.
	PriorPartialSubscribed
)

func (m PriorMode) String() string {
	return [...]string{"none", "single-current", "full", "conflict-current", "complete-valid", "partial-valid"}[m]
}

type Block struct {
	Sweep  string
	N      int
	Parts  []int32
	Subs   []uint8
	MRack  []string
	PRack  [][]string
	Static bool
	Ghost  bool
	// GhostName: name (hence sorted position) of the nonexistent topic.
	GhostName string
	Prior     PriorMode
	// Orders: 2 = every case with both count-map insertion orders, 1 = order
	// 0 only, 0 = one order per case, alternating from case to case.
	Orders int
}

func ownerCodes(n int, mode PriorMode) [][]int {
	codes := [][]int{{}}
	if mode == PriorNone {
		return codes
	}
	for i := 0; i < n; i++ {
		codes = append(codes, []int{i})
	}
	if mode == PriorFull || mode == PriorConflict {
		for i := 0; i < n; i++ {
			for j := i + 1; j < n; j++ {
				codes = append(codes, []int{i, j})
			}
		}
	}
	return codes
}

// Each calls fn for every case of the block, reusing one Case value (Clone it
// to keep it). It returns the number of cases.
func (b *Block) Each(fn func(c *Case)) int64 {
	c := &Case{N: b.N, Parts: b.Parts, Subs: b.Subs, MRack: b.MRack, PRack: b.PRack, Static: b.Static, Ghost: b.Ghost, GhostName: b.GhostName}
	nf := c.NumFlat()
	// pcodes[f] = the owner sets flat partition f ranges over.
	pcodes := make([][][]int, nf)
	if b.Prior == PriorCompleteSubscribed || b.Prior == PriorPartialSubscribed {
		for f := 0; f < nf; f++ {
			t, _ := c.TP(f)
			var l [][]int
			if b.Prior == PriorPartialSubscribed {
				l = append(l, []int{})
			}
			for i := 0; i < b.N; i++ {
				if c.Subscribed(i, t) {
					l = append(l, []int{i})
				}
			}
			if len(l) == 0 {
				l = [][]int{{}}
			}
			pcodes[f] = l
		}
	} else {
		codes := ownerCodes(b.N, b.Prior)
		for f := range pcodes {
			pcodes[f] = codes
		}
	}
	idx := make([]int, nf)
	c.Owners = make([][]int, nf)
	c.Gens = make([]int32, b.N)
	orders, alternate := b.Orders, false
	if len(b.Parts) < 2 {
		orders = 1
	}
	if orders == 0 {
		orders, alternate = 1, true
	}
	var count int64
	claims := make([]int, b.N)
	for {
		for i := range claims {
			claims[i] = 0
		}
		if b.Ghost {
			claims[0]++
		}
		for f := 0; f < nf; f++ {
			c.Owners[f] = pcodes[f][idx[f]]
			for _, o := range c.Owners[f] {
				claims[o]++
			}
		}
		nmask := 1
		if b.Prior == PriorFull {
			nmask = 1 << uint(b.N)
		}
		for mask := 0; mask < nmask; mask++ {
			skip := false
			for i := 0; i < b.N; i++ {
				if mask&(1<<uint(i)) != 0 {
					if claims[i] == 0 {
						skip = true
					}
					c.Gens[i] = GenStale
				} else {
					c.Gens[i] = GenCurrent
				}
			}
			if skip {
				continue
			}
			for o := 0; o < orders; o++ {
				c.TopicOrder = o
				if alternate {
					c.TopicOrder = int(count & 1)
				}
				fn(c)
				count++
			}
		}
		// next owner vector
		f := 0
		for ; f < nf; f++ {
			idx[f]++
			if idx[f] < len(pcodes[f]) {
				break
			}
			idx[f] = 0
		}
		if f == nf {
			break
		}
	}
	return count
}

// PartConfigs lists the per-topic partition counts: 1..maxTopics topics with
// 1..maxPer partitions each and at most maxTotal partitions overall.
func PartConfigs(maxTopics int, maxPer int32, maxTotal int) [][]int32 {
	var out [][]int32
	for a := int32(1); a <= maxPer; a++ {
		if int(a) <= maxTotal {
			out = append(out, []int32{a})
		}
	}
	if maxTopics >= 2 {
		for a := int32(1); a <= maxPer; a++ {
			for b := int32(1); b <= maxPer; b++ {
				if int(a+b) <= maxTotal {
					out = append(out, []int32{a, b})
				}
			}
		}
	}
	return out
}

// SubVectors lists the subscription vectors of n members over nt existing
// topics. Base vectors give every member a non-empty subset of the existing
// topics. With special, additionally every vector in which exactly one member
// is special: subscribed to nothing, only to the nonexistent topic, or to the
// nonexistent topic plus any non-empty subset of the existing topics.
func SubVectors(n, nt int, special bool) [][]uint8 {
	base := make([]uint8, 0)
	for m := 1; m < 1<<uint(nt); m++ {
		base = append(base, uint8(m))
	}
	var out [][]uint8
	var rec func(i int, cur []uint8, specialAt int)
	rec = func(i int, cur []uint8, specialAt int) {
		if i == n {
			out = append(out, append([]uint8(nil), cur...))
			return
		}
		if i == specialAt {
			// nothing; the nonexistent topic alone; the nonexistent topic
			// together with every non-empty subset of the existing topics
			rec(i+1, append(cur, 0), specialAt)
			rec(i+1, append(cur, GhostBit), specialAt)
			for _, s := range base {
				rec(i+1, append(cur, s|GhostBit), specialAt)
			}
			return
		}
		for _, s := range base {
			rec(i+1, append(cur, s), specialAt)
		}
	}
	rec(0, nil, -1)
	if special {
		for at := 0; at < n; at++ {
			rec(0, nil, at)
		}
	}
	return out
}

// RackPlacements lists every member placement over the given rack names.
func RackPlacements(n int, racks []string) [][]string {
	out := [][]string{{}}
	for i := 0; i < n; i++ {
		var next [][]string
		for _, p := range out {
			for _, r := range racks {
				next = append(next, append(append([]string(nil), p...), r))
			}
		}
		out = next
	}
	return out
}

// PartitionRackings lists every assignment of the given racks to the
// partitions of parts.
func PartitionRackings(parts []int32, racks []string) [][][]string {
	nf := 0
	for _, p := range parts {
		nf += int(p)
	}
	flat := RackPlacements(nf, racks)
	out := make([][][]string, 0, len(flat))
	for _, fl := range flat {
		var pr [][]string
		off := 0
		for _, p := range parts {
			pr = append(pr, fl[off:off+int(p)])
			off += int(p)
		}
		out = append(out, pr)
	}
	return out
}

// GhostNames are the names the nonexistent topic takes in the sticky special
// sweep: member subscription lists reach the engine sorted (the client sorts,
// NewConsumerBalancer sorts again), so the position of a nonexistent topic in
// the list is decided by its name -- before every existing topic, between ta
// and tb, after every existing topic.
var GhostNames = []string{"t0", "taz", "tz"}

// StickyBounds are the tier bounds of the sticky / cooperative-sticky sweeps
// shared by C25 and C26.
type StickyBounds struct {
	Orders                              int // see Block.Orders
	MaxMembers                          int
	FullTotal, SpecialTotal, RacksTotal int // max total partitions per sweep
	FullTotalAtMax                      int // max total partitions of the full-prior sweep at MaxMembers
}

func StickyTier(thorough bool) StickyBounds {
	if thorough {
		return StickyBounds{Orders: 2, MaxMembers: 4, FullTotal: 6, FullTotalAtMax: 3, SpecialTotal: 5, RacksTotal: 4}
	}
	return StickyBounds{Orders: 0, MaxMembers: 3, FullTotal: 4, FullTotalAtMax: 4, SpecialTotal: 4, RacksTotal: 3}
}

// StickyBlocks is the sticky / cooperative-sticky input space:
//
//	full:    base subscriptions, no racks, PriorFull, both count-map orders
//	special: one special member (subscribed to nothing / a nonexistent topic),
//	         with and without claims on nonexistent partitions, PriorSingle
//	racks:   base subscriptions, members on 2 racks in every placement,
//	         partition leaders on 2 racks in every placement, PriorSingle
func StickyBlocks(b StickyBounds) []Block {
	var out []Block
	for n := 1; n <= b.MaxMembers; n++ {
		total := b.FullTotal
		if n == b.MaxMembers {
			total = b.FullTotalAtMax
		}
		for _, parts := range PartConfigs(2, 3, total) {
			orders := b.Orders
			if len(parts) == 2 && parts[0]+parts[1] >= 6 {
				orders = 0 // the largest configuration alternates the order from input to input
			}
			for _, subs := range SubVectors(n, len(parts), false) {
				out = append(out, Block{Sweep: "full", N: n, Parts: parts, Subs: subs, Prior: PriorFull, Orders: orders})
			}
		}
	}
	for n := 1; n <= min(b.MaxMembers, 3); n++ {
		for _, parts := range PartConfigs(2, 3, b.SpecialTotal) {
			base := len(SubVectors(n, len(parts), false))
			for _, subs := range SubVectors(n, len(parts), true)[base:] {
				names := GhostNames
				listsGhost := false
				for _, sb := range subs {
					listsGhost = listsGhost || sb&GhostBit != 0
				}
				if !listsGhost {
					names = names[len(names)-1:]
				}
				for _, name := range names {
					for _, ghost := range []bool{false, true} {
						out = append(out, Block{Sweep: "special", N: n, Parts: parts, Subs: subs, Ghost: ghost, GhostName: name, Prior: PriorSingle, Orders: b.Orders})
					}
				}
			}
		}
	}
	for n := 1; n <= min(b.MaxMembers, 3); n++ {
		for _, parts := range PartConfigs(2, 3, b.RacksTotal) {
			for _, subs := range SubVectors(n, len(parts), false) {
				for _, mr := range RackPlacements(n, []string{"ra", "rb"}) {
					for _, pr := range PartitionRackings(parts, []string{"ra", "rb"}) {
						out = append(out, Block{Sweep: "racks", N: n, Parts: parts, Subs: subs, MRack: mr, PRack: pr, Prior: PriorSingle, Orders: 1})
					}
				}
			}
		}
	}
	return out
}

// SortedPartConfigs lists the non-decreasing partition-count vectors of nt
// topics with at most maxTotal partitions overall (topic symmetry reduction:
// a permutation of the topics only renames them; the count-map insertion
// order, which decides how the engine numbers them, is varied separately).
func SortedPartConfigs(nt int, maxTotal int) [][]int32 {
	var out [][]int32
	var rec func(cur []int32, sum int)
	rec = func(cur []int32, sum int) {
		if len(cur) == nt {
			out = append(out, append([]int32(nil), cur...))
			return
		}
		lo := int32(1)
		if len(cur) > 0 {
			lo = cur[len(cur)-1]
		}
		for p := lo; sum+int(p)*(nt-len(cur)) <= maxTotal; p++ {
			rec(append(cur, p), sum+int(p))
		}
	}
	rec(nil, 0)
	return out
}

// ComplexBounds bound the many-topic "complex path" sweep (members with
// different subscriptions; multi-hop steal chains need >= 3 shared topics).
type ComplexBounds struct {
	Orders int
	// Per entry: members, topics, max total partitions, prior modes.
	Groups []ComplexGroup
}

type ComplexGroup struct {
	Members, Topics, MaxTotal int
	Priors                    []PriorMode
}

func ComplexTier(thorough bool) ComplexBounds {
	if thorough {
		return ComplexBounds{Orders: 0, Groups: []ComplexGroup{
			{4, 3, 6, []PriorMode{PriorNone, PriorCompleteSubscribed}},
			{4, 3, 5, []PriorMode{PriorPartialSubscribed}},
			{4, 4, 6, []PriorMode{PriorNone, PriorCompleteSubscribed}},
			{5, 3, 5, []PriorMode{PriorNone, PriorCompleteSubscribed}},
		}}
	}
	return ComplexBounds{Orders: 0, Groups: []ComplexGroup{
		{4, 3, 6, []PriorMode{PriorNone, PriorCompleteSubscribed}},
	}}
}

func (b ComplexBounds) String() string {
	s := ""
	for i, g := range b.Groups {
		if i > 0 {
			s += "; "
		}
		s += fmt.Sprintf("%d members x %d topics (non-decreasing partition counts, total<=%d), every member on every non-empty topic subset, priors:", g.Members, g.Topics, g.MaxTotal)
		for _, p := range g.Priors {
			s += " " + p.String()
		}
	}
	return s + "; count-map insertion order ascending/descending, alternating from input to input"
}

// ComplexBlocks is the complex-path input space: every subscription vector
// (every member on every non-empty subset of the topics, no member symmetry
// reduction because the engine breaks ties by member order) x partition-count
// mixes such as {1,1,4} x prior ownership = nobody owns anything | every
// valid complete assignment (which contains every staircase of loads k, k+1,
// k+2, k+3 that a multi-hop steal chain has to climb).
func ComplexBlocks(b ComplexBounds) []Block {
	var out []Block
	for _, g := range b.Groups {
		for _, parts := range SortedPartConfigs(g.Topics, g.MaxTotal) {
			for _, subs := range SubVectors(g.Members, g.Topics, false) {
				for _, pm := range g.Priors {
					o := b.Orders
					if pm == PriorNone {
						o = 2
					}
					out = append(out, Block{Sweep: "complex-" + pm.String(), N: g.Members, Parts: parts, Subs: subs, Prior: pm, Orders: o})
				}
			}
		}
	}
	return out
}
