package balenum

// Deterministic enumeration of balance inputs. A Block fixes everything but
// the prior ownership / generations / count-map order, which Block.Each
// sweeps exhaustively; blocks are what the checks hand to worker goroutines.

type PriorMode int

const (
	// PriorNone: nobody owns anything (first join of everybody).
	PriorNone PriorMode = iota
	// PriorSingle: every map partition -> {nobody, one member}, all members
	// on the current generation.
	PriorSingle
	// PriorFull: every map partition -> {nobody, one member, two
	// conflicting members} x every member generation in {current, stale}
	// (a member that claims nothing is only enumerated as current: its
	// generation is unobservable).
	PriorFull
	// PriorConflict: nobody | one member | two conflicting members, all
	// members on the current generation.
	PriorConflict
)

func (m PriorMode) String() string {
	return [...]string{"none", "single-current", "full", "conflict-current"}[m]
}

type Block struct {
	Sweep  string
	N      int
	Parts  []int32
	Subs   []uint8
	MRack  []string
	PRack  [][]string
	Static bool
	Ghost  bool
	Prior  PriorMode
	// Orders: 2 = every case with both count-map insertion orders, 1 = order
	// 0 only, 0 = one order per case, alternating from case to case.
	Orders int
}

func ownerCodes(n int, mode PriorMode) [][]int {
	codes := [][]int{{}}
	if mode == PriorNone {
		return codes
	}
	for i := 0; i < n; i++ {
		codes = append(codes, []int{i})
	}
	if mode == PriorFull || mode == PriorConflict {
		for i := 0; i < n; i++ {
			for j := i + 1; j < n; j++ {
				codes = append(codes, []int{i, j})
			}
		}
	}
	return codes
}

// Each calls fn for every case of the block, reusing one Case value (Clone it
// to keep it). It returns the number of cases.
func (b *Block) Each(fn func(c *Case)) int64 {
	c := &Case{N: b.N, Parts: b.Parts, Subs: b.Subs, MRack: b.MRack, PRack: b.PRack, Static: b.Static, Ghost: b.Ghost}
	nf := c.NumFlat()
	codes := ownerCodes(b.N, b.Prior)
	idx := make([]int, nf)
	c.Owners = make([][]int, nf)
	c.Gens = make([]int32, b.N)
	orders, alternate := b.Orders, false
	if len(b.Parts) < 2 {
		orders = 1
	}
	if orders == 0 {
		orders, alternate = 1, true
	}
	var count int64
	claims := make([]int, b.N)
	for {
		for i := range claims {
			claims[i] = 0
		}
		if b.Ghost {
			claims[0]++
		}
		for f := 0; f < nf; f++ {
			c.Owners[f] = codes[idx[f]]
			for _, o := range c.Owners[f] {
				claims[o]++
			}
		}
		nmask := 1
		if b.Prior == PriorFull {
			nmask = 1 << uint(b.N)
		}
		for mask := 0; mask < nmask; mask++ {
			skip := false
			for i := 0; i < b.N; i++ {
				if mask&(1<<uint(i)) != 0 {
					if claims[i] == 0 {
						skip = true
					}
					c.Gens[i] = GenStale
				} else {
					c.Gens[i] = GenCurrent
				}
			}
			if skip {
				continue
			}
			for o := 0; o < orders; o++ {
				c.TopicOrder = o
				if alternate {
					c.TopicOrder = int(count & 1)
				}
				fn(c)
				count++
			}
		}
		// next owner vector
		f := 0
		for ; f < nf; f++ {
			idx[f]++
			if idx[f] < len(codes) {
				break
			}
			idx[f] = 0
		}
		if f == nf {
			break
		}
	}
	return count
}

// PartConfigs lists the per-topic partition counts: 1..maxTopics topics with
// 1..maxPer partitions each and at most maxTotal partitions overall.
func PartConfigs(maxTopics int, maxPer int32, maxTotal int) [][]int32 {
	var out [][]int32
	for a := int32(1); a <= maxPer; a++ {
		if int(a) <= maxTotal {
			out = append(out, []int32{a})
		}
	}
	if maxTopics >= 2 {
		for a := int32(1); a <= maxPer; a++ {
			for b := int32(1); b <= maxPer; b++ {
				if int(a+b) <= maxTotal {
					out = append(out, []int32{a, b})
				}
			}
		}
	}
	return out
}

// SubVectors lists the subscription vectors of n members over nt existing
// topics. Base vectors give every member a non-empty subset of the existing
// topics. With special, additionally every vector in which exactly one member
// is special: subscribed to nothing, only to the nonexistent topic, or to the
// first topic plus the nonexistent topic.
func SubVectors(n, nt int, special bool) [][]uint8 {
	base := make([]uint8, 0)
	for m := 1; m < 1<<uint(nt); m++ {
		base = append(base, uint8(m))
	}
	var out [][]uint8
	var rec func(i int, cur []uint8, specialAt int)
	rec = func(i int, cur []uint8, specialAt int) {
		if i == n {
			out = append(out, append([]uint8(nil), cur...))
			return
		}
		if i == specialAt {
			for _, s := range []uint8{0, GhostBit, 1 | GhostBit} {
				rec(i+1, append(cur, s), specialAt)
			}
			return
		}
		for _, s := range base {
			rec(i+1, append(cur, s), specialAt)
		}
	}
	rec(0, nil, -1)
	if special {
		for at := 0; at < n; at++ {
			rec(0, nil, at)
		}
	}
	return out
}

// RackPlacements lists every member placement over the given rack names.
func RackPlacements(n int, racks []string) [][]string {
	out := [][]string{{}}
	for i := 0; i < n; i++ {
		var next [][]string
		for _, p := range out {
			for _, r := range racks {
				next = append(next, append(append([]string(nil), p...), r))
			}
		}
		out = next
	}
	return out
}

// PartitionRackings lists every assignment of the given racks to the
// partitions of parts.
func PartitionRackings(parts []int32, racks []string) [][][]string {
	nf := 0
	for _, p := range parts {
		nf += int(p)
	}
	flat := RackPlacements(nf, racks)
	out := make([][][]string, 0, len(flat))
	for _, fl := range flat {
		var pr [][]string
		off := 0
		for _, p := range parts {
			pr = append(pr, fl[off:off+int(p)])
			off += int(p)
		}
		out = append(out, pr)
	}
	return out
}

// StickyBounds are the tier bounds of the sticky / cooperative-sticky sweeps
// shared by C25 and C26.
type StickyBounds struct {
	Orders                              int // see Block.Orders
	MaxMembers                          int
	FullTotal, SpecialTotal, RacksTotal int // max total partitions per sweep
	FullTotalAtMax                      int // max total partitions of the full-prior sweep at MaxMembers
}

func StickyTier(thorough bool) StickyBounds {
	if thorough {
		return StickyBounds{Orders: 2, MaxMembers: 4, FullTotal: 6, FullTotalAtMax: 3, SpecialTotal: 5, RacksTotal: 4}
	}
	return StickyBounds{Orders: 0, MaxMembers: 3, FullTotal: 4, FullTotalAtMax: 4, SpecialTotal: 4, RacksTotal: 3}
}

// StickyBlocks is the sticky / cooperative-sticky input space:
//
//	full:    base subscriptions, no racks, PriorFull, both count-map orders
//	special: one special member (subscribed to nothing / a nonexistent topic),
//	         with and without claims on nonexistent partitions, PriorSingle
//	racks:   base subscriptions, members on 2 racks in every placement,
//	         partition leaders on 2 racks in every placement, PriorSingle
func StickyBlocks(b StickyBounds) []Block {
	var out []Block
	for n := 1; n <= b.MaxMembers; n++ {
		total := b.FullTotal
		if n == b.MaxMembers {
			total = b.FullTotalAtMax
		}
		for _, parts := range PartConfigs(2, 3, total) {
			orders := b.Orders
			if len(parts) == 2 && parts[0]+parts[1] >= 6 {
				orders = 0 // the largest configuration alternates the order from input to input
			}
			for _, subs := range SubVectors(n, len(parts), false) {
				out = append(out, Block{Sweep: "full", N: n, Parts: parts, Subs: subs, Prior: PriorFull, Orders: orders})
			}
		}
	}
	for n := 1; n <= min(b.MaxMembers, 3); n++ {
		for _, parts := range PartConfigs(2, 3, b.SpecialTotal) {
			base := len(SubVectors(n, len(parts), false))
			for _, subs := range SubVectors(n, len(parts), true)[base:] {
				for _, ghost := range []bool{false, true} {
					out = append(out, Block{Sweep: "special", N: n, Parts: parts, Subs: subs, Ghost: ghost, Prior: PriorSingle, Orders: b.Orders})
				}
			}
		}
	}
	for n := 1; n <= min(b.MaxMembers, 3); n++ {
		for _, parts := range PartConfigs(2, 3, b.RacksTotal) {
			for _, subs := range SubVectors(n, len(parts), false) {
				for _, mr := range RackPlacements(n, []string{"ra", "rb"}) {
					for _, pr := range PartitionRackings(parts, []string{"ra", "rb"}) {
						out = append(out, Block{Sweep: "racks", N: n, Parts: parts, Subs: subs, MRack: mr, PRack: pr, Prior: PriorSingle, Orders: 1})
					}
				}
			}
		}
	}
	return out
}
