// Package drive runs one balenum.Case through a kgo.GroupBalancer exactly the
// way the group leader does (consumer_group.go: joinGroupProtocols on every
// member, then balanceGroup on the leader, then handleSyncResp on every
// member), using only the public API -- with one exception: the leader's
// rack-aware input ConsumerBalancer.partitionRacks is an unexported field set
// by balanceGroup, which this package sets through reflection.
package drive

import (
	"fmt"
	"reflect"
	"sort"
	"unsafe"

	"github.com/twmb/franz-go/pkg/kgo"
	"github.com/twmb/franz-go/pkg/kmsg"

	"verif/checks/c25/balenum"
)

// JoinMembers builds the JoinGroup response member list the leader receives:
// each member's protocol metadata comes from the balancer's JoinGroupMetadata
// (topics sorted, owned partitions sorted, the member's generation), the rack
// is injected as joinGroupProtocols does, and the list is sorted by instance
// ID then member ID as balanceGroup does before calling MemberBalancer.
func JoinMembers(b kgo.GroupBalancer, c *balenum.Case) ([]kmsg.JoinGroupResponseMember, error) {
	members := make([]kmsg.JoinGroupResponseMember, 0, c.N)
	for i := 0; i < c.N; i++ {
		meta := b.JoinGroupMetadata(c.TopicsOf(i), c.Owned(i), c.Gens[i])
		if c.MRack != nil && c.MRack[i] != "" {
			var m kmsg.ConsumerMemberMetadata
			if err := m.ReadFrom(meta); err != nil {
				return nil, fmt.Errorf("member metadata does not parse: %v", err)
			}
			if m.Rack == nil {
				rack := c.MRack[i]
				m.Rack = &rack
				if m.Version < 3 {
					m.Version = 3
				}
				meta = m.AppendTo(nil)
			}
		}
		jm := kmsg.NewJoinGroupResponseMember()
		jm.MemberID = c.ID(i)
		if iid := c.InstanceID(i); iid != "" {
			jm.InstanceID = &iid
		}
		jm.ProtocolMetadata = meta
		members = append(members, jm)
	}
	sort.SliceStable(members, func(i, j int) bool {
		l, r := &members[i], &members[j]
		if l.InstanceID != nil {
			if r.InstanceID == nil {
				return true
			}
			return *l.InstanceID < *r.InstanceID
		}
		if r.InstanceID != nil {
			return false
		}
		return l.MemberID < r.MemberID
	})
	return members, nil
}

// SetPartitionRacks performs balanceGroup's `cb.partitionRacks = ...`.
func SetPartitionRacks(cb *kgo.ConsumerBalancer, racks map[string][]string) error {
	f := reflect.ValueOf(cb).Elem().FieldByName("partitionRacks")
	if !f.IsValid() || f.Type() != reflect.TypeOf(racks) {
		return fmt.Errorf("kgo.ConsumerBalancer has no partitionRacks map[string][]string field")
	}
	reflect.NewAt(f.Type(), unsafe.Pointer(f.UnsafeAddr())).Elem().Set(reflect.ValueOf(racks))
	return nil
}

// Balance is the leader's balanceGroup followed by every member's
// handleSyncResp decode. The returned plan is member ID => topic =>
// partitions. An error is an API failure (metadata that does not parse, a
// balancer error, an assignment that does not decode), not a verdict.
func Balance(b kgo.GroupBalancer, c *balenum.Case) (balenum.Plan, error) {
	members, err := JoinMembers(b, c)
	if err != nil {
		return nil, err
	}
	mb, interest, err := b.MemberBalancer(members)
	if err != nil {
		return nil, fmt.Errorf("MemberBalancer: %v", err)
	}
	counts := c.Counts(interest)
	if cb, ok := mb.(*kgo.ConsumerBalancer); ok {
		if racks := c.PartitionRacks(counts); racks != nil {
			if err := SetPartitionRacks(cb, racks); err != nil {
				return nil, err
			}
			if got := cb.PartitionRacks(); len(got) != len(racks) {
				return nil, fmt.Errorf("partition racks not visible through PartitionRacks()")
			}
		}
	}
	var into kgo.IntoSyncAssignment
	if mbe, ok := mb.(kgo.GroupMemberBalancerOrError); ok {
		if into, err = mbe.BalanceOrError(counts); err != nil {
			return nil, fmt.Errorf("BalanceOrError: %v", err)
		}
	} else {
		into = mb.Balance(counts)
	}
	if into == nil {
		return nil, fmt.Errorf("nil plan")
	}
	plan := make(balenum.Plan, c.N)
	for _, a := range into.IntoSyncAssignment() {
		assigned, err := b.ParseSyncAssignment(a.MemberAssignment)
		if err != nil {
			return nil, fmt.Errorf("ParseSyncAssignment(%s): %v", a.MemberID, err)
		}
		if _, dup := plan[a.MemberID]; dup {
			return nil, fmt.Errorf("two sync assignments for member %s", a.MemberID)
		}
		plan[a.MemberID] = assigned
	}
	return plan, nil
}

// SafeBalance is Balance with panics turned into errors (a balancer that
// crashes the leader is reported as a violation by the callers).
func SafeBalance(b kgo.GroupBalancer, c *balenum.Case) (plan balenum.Plan, err error, panicked bool) {
	defer func() {
		if r := recover(); r != nil {
			plan, err, panicked = nil, fmt.Errorf("panic: %v", r), true
		}
	}()
	plan, err = Balance(b, c)
	return plan, err, false
}
