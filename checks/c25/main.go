// C25: every balancer produces a valid assignment.
//
// Bounded exhaustive sweep of group-balance inputs through the public
// GroupBalancer API of range, roundrobin, sticky and cooperative-sticky, driven
// the way the group leader drives it (see balenum/drive), checked against the
// validity oracle balenum.CheckValid. kfake's server-side assignors are swept
// by the in-package harness hooks/inpkg/c25_kfake_test.go whose summary is
// merged into the single evidence file here.
package main

import (
	"context"
	"encoding/json"
	"fmt"
	"os"
	"runtime/pprof"
	"strings"
	"sync"
	"time"

	"github.com/twmb/franz-go/pkg/kfake"
	"github.com/twmb/franz-go/pkg/kgo"
	"github.com/twmb/franz-go/pkg/kmsg"
	"verif.local/ev"

	"verif/checks/c25/balenum"
	"verif/checks/c25/balenum/drive"
)

type balancer struct {
	name string
	b    kgo.GroupBalancer
	coop bool
}

var balancers = map[string]balancer{
	"range":              {"range", kgo.RangeBalancer(), false},
	"roundrobin":         {"roundrobin", kgo.RoundRobinBalancer(), false},
	"sticky":             {"sticky", kgo.StickyBalancer(), false},
	"cooperative-sticky": {"cooperative-sticky", kgo.CooperativeStickyBalancer(), true},
}

type artefact struct {
	Balancer string        `json:"balancer"`
	Case     *balenum.Case `json:"case"`
	Input    string        `json:"input"`
	Plan     string        `json:"plan"`
}

type job struct {
	bal balancer
	blk *balenum.Block
}

type simpleBounds struct {
	maxMembers, maxPer, maxTotal  int
	rackMembers, rackPer, rackTot int
	rackNames                     []string
}

func simpleTier() simpleBounds {
	if ev.Thorough() {
		return simpleBounds{5, 5, 10, 4, 3, 6, []string{"", "ra", "rb"}}
	}
	return simpleBounds{4, 4, 8, 3, 3, 6, []string{"", "ra", "rb"}}
}

// simpleBlocks is the range / roundrobin input space: base and special
// subscriptions, dynamic and static (reversed instance-ID order) members;
// plus, for rack-aware range, every member placement on {no rack, ra, rb}
// with every partition-leader placement on {ra, rb}.
func simpleBlocks(b simpleBounds, racks bool) []balenum.Block {
	var out []balenum.Block
	for n := 1; n <= b.maxMembers; n++ {
		for _, parts := range balenum.PartConfigs(2, int32(b.maxPer), b.maxTotal) {
			for _, subs := range balenum.SubVectors(n, len(parts), true) {
				for _, static := range []bool{false, true} {
					out = append(out, balenum.Block{Sweep: "simple", N: n, Parts: parts, Subs: subs, Static: static, Prior: balenum.PriorNone, Orders: 1})
				}
			}
		}
	}
	if !racks {
		return out
	}
	for n := 1; n <= b.rackMembers; n++ {
		for _, parts := range balenum.PartConfigs(2, int32(b.rackPer), b.rackTot) {
			for _, subs := range balenum.SubVectors(n, len(parts), false) {
				for _, mr := range balenum.RackPlacements(n, b.rackNames) {
					for _, pr := range balenum.PartitionRackings(parts, []string{"ra", "rb"}) {
						out = append(out, balenum.Block{Sweep: "simple-racks", N: n, Parts: parts, Subs: subs, MRack: mr, PRack: pr, Prior: balenum.PriorNone, Orders: 1})
					}
				}
			}
		}
	}
	return out
}

func check(bal balancer, c *balenum.Case) (plan balenum.Plan, v *balenum.Verdict) {
	plan, err, panicked := drive.SafeBalance(bal.b, c)
	if panicked {
		return nil, &balenum.Verdict{Key: "panic", What: err.Error()}
	}
	if err != nil {
		return nil, &balenum.Verdict{Key: "api-error", What: err.Error()}
	}
	return plan, balenum.CheckValid(c, plan, bal.coop)
}

func replay(path string) {
	b, err := os.ReadFile(path)
	if err != nil {
		ev.InfraError("replay: %v", err)
	}
	var f struct {
		Key      string   `json:"key"`
		Artefact artefact `json:"artefact"`
	}
	if err := json.Unmarshal(b, &f); err != nil {
		ev.InfraError("replay: cannot parse %s: %v", path, err)
	}
	if strings.HasPrefix(f.Artefact.Balancer, "kfake") || strings.HasPrefix(f.Artefact.Balancer, "sticky-engine") {
		fmt.Println("(in-package artefact: replayed by the in-package harness above)")
		return
	}
	if f.Artefact.Case == nil {
		ev.InfraError("replay: %s holds no case", path)
	}
	bal, ok := balancers[f.Artefact.Balancer]
	if !ok {
		ev.InfraError("replay: unknown balancer %q", f.Artefact.Balancer)
	}
	fmt.Printf("replaying %s on\n%s", bal.name, f.Artefact.Case.Describe())
	bad := 0
	for i := 0; i < 32; i++ { // map iteration order inside the balancers varies run to run
		plan, v := check(bal, f.Artefact.Case)
		if v != nil {
			bad++
			if bad == 1 {
				fmt.Printf("VIOLATION reproduced: %s: %s\n  plan: %s\n", v.Key, v.What, balenum.FormatPlan(plan))
			}
		}
	}
	fmt.Printf("%d/32 runs violate\n", bad)
	if bad > 0 {
		os.Exit(1)
	}
}

// kfakeStaticReturnScenario is the end-to-end witness for conflicting previous
// targets in kfake: on a real cluster (public API only, raw KIP-848
// heartbeats) a static member goes on leave (epoch -2), another member joins
// (the assignor hands the absent member's partition to it), the static member
// is replaced by a new member with the same instance ID (which inherits the
// old target), and one more member joins (the assignor runs again). It
// reports whether the target assignment described by the broker afterwards
// holds a partition on two active members.
func kfakeStaticReturnScenario() (dup bool, transcript string) {
	var sb strings.Builder
	defer func() {
		if r := recover(); r != nil {
			fmt.Fprintf(&sb, "scenario aborted: %v\n", r)
			dup, transcript = false, sb.String()
		}
	}()
	c, err := kfake.NewCluster(kfake.NumBrokers(1), kfake.SeedTopics(2, "ta"))
	if err != nil {
		panic(err)
	}
	defer c.Close()
	cl, err := kgo.NewClient(kgo.SeedBrokers(c.ListenAddrs()...))
	if err != nil {
		panic(err)
	}
	defer cl.Close()
	ctx, cancel := context.WithTimeout(context.Background(), 20*time.Second)
	defer cancel()
	hb := func(member string, epoch int32, instance *string, join bool) {
		req := kmsg.NewPtrConsumerGroupHeartbeatRequest()
		req.Group, req.MemberID, req.MemberEpoch, req.InstanceID = "g", member, epoch, instance
		if join {
			req.RebalanceTimeoutMillis = 60000
			req.SubscribedTopicNames = []string{"ta"}
			req.ServerAssignor = kmsg.StringPtr("uniform")
			req.Topics = []kmsg.ConsumerGroupHeartbeatRequestTopic{}
		}
		resp, err := req.RequestWith(ctx, cl)
		if err != nil {
			panic(err)
		}
		if resp.ErrorCode != 0 {
			panic(fmt.Sprintf("heartbeat %s epoch %d: error code %d", member, epoch, resp.ErrorCode))
		}
	}
	describe := func(when string) bool {
		req := kmsg.NewPtrConsumerGroupDescribeRequest()
		req.Groups = []string{"g"}
		resp, err := req.RequestWith(ctx, cl)
		if err != nil {
			panic(err)
		}
		holders := map[int32][]string{}
		fmt.Fprintf(&sb, "%s:", when)
		for _, g := range resp.Groups {
			fmt.Fprintf(&sb, " group epoch %d;", g.Epoch)
			for _, m := range g.Members {
				var ps []int32
				for _, t := range m.TargetAssignment.TopicPartitions {
					ps = append(ps, t.Partitions...)
				}
				fmt.Fprintf(&sb, " %s(epoch %d) target ta%v;", m.MemberID, m.MemberEpoch, ps)
				if m.MemberEpoch != -2 {
					for _, p := range ps {
						holders[p] = append(holders[p], m.MemberID)
					}
				}
			}
		}
		sb.WriteString("\n")
		for _, hs := range holders {
			if len(hs) > 1 {
				return true
			}
		}
		return false
	}
	iA := "iA"
	hb("A", 0, &iA, true)
	hb("B", 0, nil, true)
	describe("static A (instance iA) and dynamic B joined, topic ta has 2 partitions")
	hb("A", -2, &iA, false)
	hb("C", 0, nil, true)
	describe("A sent a static leave (epoch -2), then C joined")
	hb("A2", 0, &iA, true)
	describe("A2 joined with instance iA and inherited A's target")
	hb("D", 0, nil, true)
	dup = describe("D joined (the uniform assignor ran again)")
	return dup, sb.String()
}

func main() {
	if p := os.Getenv("VERIF_REPLAY"); p != "" {
		replay(p)
		return
	}
	if len(os.Args) == 3 && os.Args[1] == "--replay" {
		replay(os.Args[2])
		return
	}
	if pp := os.Getenv("C25_PPROF"); pp != "" {
		f, _ := os.Create(pp)
		pprof.StartCPUProfile(f)
		defer pprof.StopCPUProfile()
	}
	r := ev.New("C25", "exploration")
	r.Rule("every input of a small grammar is run once per count-map insertion order: members x per-member subscription (non-empty topic subsets, plus one member subscribed to nothing / to a nonexistent topic) x partition counts x static/dynamic IDs x member racks x partition-leader racks x prior ownership (partition -> nobody | one member | two conflicting members, member generation current | stale); a case is non-trivial when at least two members compete for a topic; distinct = distinct (balancer, members, partition counts, subscriptions, resulting plan)")
	r.Assume(
		"the leader's partition-count map contains exactly the existing topics some member subscribes to (what balanceGroup builds from metadata)",
		"ConsumerBalancer.partitionRacks (unexported, set by balanceGroup) is set through reflection; everything else goes through the public GroupBalancer API",
		"Go map iteration order inside the balancers is not controlled: each input is run once per count-map insertion order, the oracle is order-independent",
		"sticky engine topic numbering follows Go map iteration (a rotation of insertion order from a random slot for <=8 entries) and cannot be fixed through the public API: the public-API sweeps run each input under one or two insertion orders without owning the result; the in-package sticky-engine sweep owns it (real newBalancer retried until the wanted numbering appears, then the real remaining steps of BalanceWithRacks) and its verdicts are per (input, numbering) pair",
		"kfake: targetAssignment of the previous epoch is conflict-free (it is only ever written by the assignors under test)",
	)

	sb := simpleTier()
	st := balenum.StickyTier(ev.Thorough())
	var jobs []job
	rangeBlocks := simpleBlocks(sb, true)
	rrBlocks := simpleBlocks(sb, false)
	stickyBlocks := balenum.StickyBlocks(st)
	// complex-path sweep shared with C26 (4 members x 3 topics, every
	// subscription vector, priors: nothing | every valid complete assignment)
	cx := balenum.ComplexTier(ev.Thorough())
	cx.Groups = cx.Groups[:1]
	if !ev.Thorough() {
		cx.Groups[0].MaxTotal = 5
	}
	stickyBlocks = append(stickyBlocks, balenum.ComplexBlocks(cx)...)
	for i := range rangeBlocks {
		jobs = append(jobs, job{balancers["range"], &rangeBlocks[i]})
	}
	for i := range rrBlocks {
		jobs = append(jobs, job{balancers["roundrobin"], &rrBlocks[i]})
	}
	for i := range stickyBlocks {
		jobs = append(jobs, job{balancers["sticky"], &stickyBlocks[i]})
		jobs = append(jobs, job{balancers["cooperative-sticky"], &stickyBlocks[i]})
	}
	r.Set("bound_completed", map[string]any{
		"range_roundrobin":           fmt.Sprintf("members<=%d, topics<=2 with 1..%d partitions (+1 nonexistent topic), all subscription vectors incl. one special member, dynamic and static(reversed) IDs", sb.maxMembers, sb.maxPer),
		"range_racks":                fmt.Sprintf("members<=%d on {none,ra,rb}^n, topics<=2 with 1..%d partitions, leaders on {ra,rb}^P", sb.rackMembers, sb.rackPer),
		"sticky_cooperative":         fmt.Sprintf("members<=%d; full prior sweep: total partitions<=%d (<=%d at %d members); special-member sweep: <=%d; rack sweep (2 racks, all placements): <=%d; topics<=2 with 1..3 partitions; count-map insertion orders: %s", st.MaxMembers, st.FullTotal, st.FullTotalAtMax, st.MaxMembers, st.SpecialTotal, st.RacksTotal, map[int]string{0: "one per input, alternating", 1: "one", 2: "both for every input (alternating at 6 partitions)"}[st.Orders]),
		"sticky_cooperative_complex": cx.String(),
	})

	balenum.TuneGC(256 << 20)
	coll := balenum.NewCollector()
	ch := make(chan job, 256)
	var wg sync.WaitGroup
	var mu sync.Mutex
	perBal := map[string]int64{}
	perSweep := map[string]int64{}
	var nontrivial, withheld, conflicts int64
	for w := 0; w < ev.Workers(); w++ {
		wg.Add(1)
		go func() {
			defer wg.Done()
			lBal := map[string]int64{}
			lSweep := map[string]int64{}
			var lNon, lWithheld, lConf, evals int64
			distinct := balenum.NewHashSet(1 << 21)
			flush := func() {
				r.Evals(evals)
				evals = 0
			}
			for j := range ch {
				shapeHash := balenum.Hash64(fmt.Sprintf("%s|%d|%v|%v", j.bal.name, j.blk.N, j.blk.Parts, j.blk.Subs))
				n := j.blk.Each(func(c *balenum.Case) {
					plan, v := check(j.bal, c)
					evals++
					contested := false
					for t := range c.Parts {
						k := 0
						for i := 0; i < c.N; i++ {
							if c.Subscribed(i, t) {
								k++
							}
						}
						if k >= 2 {
							contested = true
						}
					}
					if contested {
						lNon++
						distinct.Add(shapeHash ^ (balenum.PlanCode(c, plan) * 0x9e3779b97f4a7c15))
					}
					for _, os := range c.Owners {
						if len(os) > 1 {
							lConf++
							break
						}
					}
					if j.bal.coop && plan != nil {
						got := 0
						for _, l := range balenum.Loads(c, plan) {
							got += l
						}
						want := 0
						for t := range c.Parts {
							if c.TopicWanted(t) {
								want += int(c.Parts[t])
							}
						}
						if got < want {
							lWithheld++
						}
					}
					if v != nil {
						cc := c.Clone()
						coll.Add(j.bal.name+":"+v.Key, v.What, balenum.CaseSize(c), func() any {
							return artefact{j.bal.name, cc, cc.Describe(), balenum.FormatPlan(plan)}
						})
					}
				})
				lBal[j.bal.name] += n
				lSweep[j.blk.Sweep] += n
				flush()
			}
			mu.Lock()
			for k, v := range lBal {
				perBal[k] += v
			}
			for k, v := range lSweep {
				perSweep[k] += v
			}
			nontrivial += lNon
			withheld += lWithheld
			conflicts += lConf
			mu.Unlock()
			distinct.Each(r.DistinctHash)
			if distinct.Dropped > 0 {
				r.Add("distinct_dropped_over_cap", distinct.Dropped)
			}
		}()
	}
	sampled := map[string]bool{}
	for _, j := range jobs {
		key := j.bal.name + "/" + j.blk.Sweep
		if !sampled[key] && len(sampled) < 6 && j.blk.N >= 2 && len(j.blk.Parts) == 2 && j.blk.Sweep != "special" {
			sampled[key] = true
			k := 0
			j.blk.Each(func(c *balenum.Case) {
				k++
				if k == 7 {
					plan, _ := check(j.bal, c)
					r.Sample(map[string]any{"balancer": j.bal.name, "sweep": j.blk.Sweep, "input": c.Describe(), "plan": balenum.FormatPlan(plan)})
				}
			})
		}
		ch <- j
	}
	close(ch)
	wg.Wait()

	r.Set("plans_per_balancer", perBal)
	r.Set("plans_per_sweep", perSweep)
	r.Set("nontrivial_cases", nontrivial)
	r.Set("cases_with_conflicting_claims", conflicts)
	r.Set("cooperative_plans_withholding_a_partition", withheld)

	// kfake summary produced by the in-package harness.
	if p := os.Getenv("C25_KFAKE_SUMMARY"); p != "" {
		b, err := os.ReadFile(p)
		if err != nil {
			ev.InfraError("kfake harness summary missing: %v", err)
		}
		var s struct {
			Evals     int64             `json:"evals"`
			Distinct  []uint64          `json:"distinct"`
			PerAssign map[string]int64  `json:"per_assignor"`
			Bound     string            `json:"bound"`
			Samples   []any             `json:"samples"`
			Findings  []balenum.Finding `json:"findings"`
			Extra     map[string]int64  `json:"extra"`
			Wall      float64           `json:"wall_s"`
		}
		if err := json.Unmarshal(b, &s); err != nil {
			ev.InfraError("kfake harness summary unreadable: %v", err)
		}
		if s.Evals == 0 {
			ev.InfraError("kfake harness ran nothing")
		}
		r.Evals(s.Evals)
		for _, h := range s.Distinct {
			r.DistinctHash(h)
		}
		r.Set("kfake_plans_per_assignor", s.PerAssign)
		r.Set("kfake_bound_completed", s.Bound)
		r.Set("kfake_extra", s.Extra)
		r.Set("kfake_harness_wall_s", s.Wall)
		for _, smp := range s.Samples {
			r.Sample(smp)
		}
		witnessed, transcript := kfakeStaticReturnScenario()
		r.Set("kfake_static_return_scenario_reproduces_duplicate_target", witnessed)
		reported := false
		for _, f := range s.Findings {
			what := fmt.Sprintf("%s (%d inputs hit this class; smallest shown)", f.What, f.Count)
			if f.Key == "kfake-uniform:assigned-twice" {
				reported = true
				if witnessed {
					what += "\nA previous target with two holders of one partition is reachable through the public protocol; end-to-end witness on a real kfake cluster:\n" + transcript
				} else {
					what += "\n(the end-to-end static-member scenario did not produce a duplicate this time)\n" + transcript
				}
			}
			r.Violation(f.Key, what, f.Artefact)
		}
		if witnessed && !reported {
			r.Violation("kfake-uniform:assigned-twice", "end-to-end on a real kfake cluster the uniform assignor's target holds one partition on two members:\n"+transcript, map[string]any{"balancer": "kfake-uniform", "scenario": transcript})
		}
	} else {
		r.NotExhaustive("kfake in-package harness summary not provided (C25_KFAKE_SUMMARY unset)")
	}

	// sticky engine with owned topic numbering (in-package harness in
	// pkg/kgo/internal/sticky).
	if p := os.Getenv("C25_STICKY_SUMMARY"); p != "" {
		b, err := os.ReadFile(p)
		if err != nil {
			ev.InfraError("sticky-engine harness summary missing: %v", err)
		}
		var s struct {
			Evals    int64             `json:"evals"`
			Inputs   int64             `json:"inputs"`
			Distinct []uint64          `json:"distinct"`
			Dropped  int64             `json:"distinct_dropped"`
			Bound    string            `json:"bound"`
			Findings []balenum.Finding `json:"findings"`
			Wall     float64           `json:"wall_s"`
			Jobs     int               `json:"jobs"`
			Cut      int               `json:"jobs_cut"`
		}
		if err := json.Unmarshal(b, &s); err != nil {
			ev.InfraError("sticky-engine harness summary unreadable: %v", err)
		}
		if s.Evals == 0 {
			ev.InfraError("sticky-engine harness ran nothing")
		}
		r.Evals(s.Evals)
		for _, h := range s.Distinct {
			r.DistinctHash(h)
		}
		r.Set("sticky_engine_owned_numbering_bound_completed", s.Bound)
		r.Set("sticky_engine_owned_numbering_inputs", s.Inputs)
		r.Set("sticky_engine_owned_numbering_evaluations", s.Evals)
		r.Set("sticky_engine_harness_wall_s", s.Wall)
		if s.Dropped > 0 {
			r.Set("sticky_engine_distinct_not_recorded_over_cap", s.Dropped)
		}
		if s.Cut > 0 {
			r.NotExhaustive(fmt.Sprintf("sticky-engine harness time slice reached: %d of %d jobs (hoarder position x partition counts x first member's subscription) not run", s.Cut, s.Jobs))
		}
		for _, f := range s.Findings {
			r.Violation(f.Key, fmt.Sprintf("%s (%d (input, numbering) pairs hit this class; smallest shown)", f.What, f.Count), f.Artefact)
		}
	} else {
		r.NotExhaustive("sticky-engine in-package harness summary not provided (C25_STICKY_SUMMARY unset)")
	}

	for _, f := range coll.Findings() {
		a := f.Artefact.(artefact)
		r.Violation(f.Key, fmt.Sprintf("%s\n%splan: %s\n(%d inputs hit this class; smallest shown)", f.What, a.Input, a.Plan, f.Count), f.Artefact)
	}
	code := r.Write()
	pprof.StopCPUProfile()
	os.Exit(code)
}
