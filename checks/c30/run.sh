#!/bin/bash
set -eu
cd "$(dirname "$0")/../.."
. bin/env.sh
G="$BUILD/c30gen"; mkdir -p "$G"
bin/extract_imports.sh "$REPO/pkg/kgo/ring.go" "$G/ring.go" main
bin/extract_imports.sh "$REPO/pkg/kgo/atomic_maybe_work.go" "$G/workloop.go" main
printf '{"Replace":{"%s":"%s","%s":"%s"}}\n' "$VERIF_ROOT/checks/c30/zz_ring.go" "$G/ring.go" "$VERIF_ROOT/checks/c30/zz_workloop.go" "$G/workloop.go" > "$G/overlay.json"
go build -overlay "$G/overlay.json" -o "$BUILD/c30" ./checks/c30 || { echo "EXTRACTION-ERROR: extracted code no longer compiles" >&2; exit 2; }
exec "$BUILD/c30"
