// C30: work queues (ring) and work latches (workLoop) — engine S.
//
// ring.go and atomic_maybe_work.go are compiled into THIS package from the
// current /repo tree (run.sh: import paths of sync, sync/atomic and xsync are
// rewritten to the vrt shims, the package clause to "main"; nothing else), so
// the harnesses below drive the real code and may look at its private fields.
package main

import (
	"fmt"
	"os"
	"os/exec"
	"strings"
	"time"

	"verif.local/ev"

	"verif/lib/explore"
	"verif/lib/vrt"
)

type harness struct {
	name string
	body func() // thread 0; spawns the others; final assertions run in check
	max  int
}

// ---- shared harness bookkeeping (plain variables: a thread runs atomically
// between two vrt operations, so these need no synchronisation) ----

type pushRec struct {
	id       int
	pusher   int
	invoked  int // logical time Push was called
	returned int // logical time it returned (0: not yet)
	accepted bool
}

type world struct {
	clock     int
	pushes    map[int]*pushRec
	processed []int
	active    int // workers between start and their final dropPeek
	maxActive int
	workers   int
	finals    []func()
}

var w *world

func tick() int { w.clock++; return w.clock }

func newWorld() { w = &world{pushes: map[int]*pushRec{}} }

// worker mirrors producer.finishPromises: process, dropPeek, repeat while more.
func ringWorker(r *ring[int], e int) {
	w.active++
	w.workers++
	if w.active > w.maxActive {
		w.maxActive = w.active
	}
	vrt.Assert(w.active <= 1, "two-workers", "two ring workers active at once")
	for {
		w.processed = append(w.processed, e)
		next, more, _ := r.dropPeek()
		if !more {
			w.active--
			return
		}
		e = next
	}
}

func ringPush(r *ring[int], pusher, id int, force bool) {
	p := &pushRec{id: id, pusher: pusher, invoked: tick()}
	w.pushes[id] = p
	var first, dead bool
	if force {
		first, dead = r.pushForce(id)
	} else {
		first, dead = r.push(id)
	}
	p.returned = tick()
	p.accepted = !dead
	if first {
		vrt.Assert(!dead, "first-and-dead", "push reported first and dead")
		vrt.Go(fmt.Sprintf("worker%d", id), func() { ringWorker(r, id) })
	}
}

func checkRingFinal(r *ring[int], requireAll bool) {
	seen := map[int]int{}
	pos := map[int]int{}
	for i, e := range w.processed {
		seen[e]++
		pos[e] = i
		p := w.pushes[e]
		vrt.Assert(p != nil && p.accepted, "processed-unaccepted", "element %d processed but its push was not accepted", e)
	}
	for id, p := range w.pushes {
		if seen[id] > 1 {
			vrt.Fail("processed-twice", "element %d processed %d times: %v", id, seen[id], w.processed)
		}
		if requireAll && p.accepted && seen[id] == 0 {
			vrt.Fail("lost-element", "element %d accepted by push but never processed: %v (ring l=%d)", id, w.processed, r.l)
		}
	}
	// FIFO: if push(a) returned before push(b) was invoked, a is processed before b.
	for a, pa := range w.pushes {
		for b, pb := range w.pushes {
			if a == b || seen[a] == 0 || seen[b] == 0 || pa.returned == 0 {
				continue
			}
			if pa.returned < pb.invoked && pos[a] > pos[b] {
				vrt.Fail("order", "push(%d) returned before push(%d) began, but %d was processed first: %v", a, b, b, w.processed)
			}
			if pa.pusher == pb.pusher && a < b && pos[a] > pos[b] {
				vrt.Fail("order", "per-pusher order broken: %v", w.processed)
			}
		}
	}
	if requireAll {
		vrt.Assert(r.l == 0, "ring-not-empty", "ring holds %d elements at termination", r.l)
	}
	vrt.Assert(w.active == 0, "worker-stuck", "a worker is still active at termination")
}

// R1: unbounded ring, N pushers x M elements, worker spawned by whoever sees first.
func r1(npushers, per int, force bool) func() {
	return func() {
		newWorld()
		r := &ring[int]{}
		var wg vrt.WaitGroup
		for p := 0; p < npushers; p++ {
			p := p
			wg.Add(1)
			vrt.Go(fmt.Sprintf("pusher%d", p), func() {
				for i := 0; i < per; i++ {
					ringPush(r, p, p*10+i+1, force)
				}
				wg.Done()
			})
		}
		w.finals = append(w.finals, func() { checkRingFinal(r, true) })
	}
}

// R2: bounded ring (maxLen 2): blocking pushers, a forced pusher, the worker, die.
func r2(withDie bool) func() {
	return func() {
		newWorld()
		r := &ring[int]{}
		r.initMaxLen(2)
		dieAt := 0
		for p := 0; p < 2; p++ {
			p := p
			vrt.Go(fmt.Sprintf("pusher%d", p), func() {
				for i := 0; i < 2; i++ {
					ringPush(r, p, p*10+i+1, false)
				}
			})
		}
		vrt.Go("forcer", func() { ringPush(r, 2, 21, true) })
		if withDie {
			vrt.Go("killer", func() {
				r.die()
				dieAt = tick()
			})
		}
		w.finals = append(w.finals, func() {
			checkRingFinal(r, !withDie)
			for id, p := range w.pushes {
				if withDie && dieAt > 0 && p.invoked > dieAt && p.accepted {
					vrt.Fail("accepted-after-die", "push(%d) began after die returned but was accepted", id)
				}
			}
			if !withDie {
				for id, p := range w.pushes {
					vrt.Assert(p.accepted, "rejected-without-die", "push(%d) rejected though the ring was never killed", id)
				}
			}
		})
	}
}

// R3: sequential operation sequences against a slice queue, crossing growth
// (cap 8 -> 16) and the shrink threshold. The explorer owns each op choice.
func r3(depth int) func() {
	return func() {
		newWorld()
		r := &ring[int]{}
		var model []int
		next := 1
		for i := 0; i < depth; i++ {
			if vrt.Choose("op", 2) == 0 {
				first, dead := r.pushForce(next)
				vrt.Assert(!dead, "r3-dead", "push on live ring reported dead")
				vrt.Assert(first == (len(model) == 0), "r3-first", "push first=%v with %d queued", first, len(model))
				model = append(model, next)
				next++
			} else {
				// dropPeek drops the head and returns the new head.
				nx, more, _ := r.dropPeek()
				if len(model) > 0 {
					model = model[1:]
				}
				vrt.Assert(more == (len(model) > 0), "r3-more", "dropPeek more=%v, model has %d", more, len(model))
				if more {
					vrt.Assert(nx == model[0], "r3-head", "dropPeek returned %d, model head %d", nx, model[0])
				}
			}
			vrt.Assert(r.l == len(model), "r3-len", "ring l=%d model=%d", r.l, len(model))
			vrt.Assert(cap(r.elems) == 0 || cap(r.elems) >= minRingCap, "r3-cap", "capacity %d below minimum", cap(r.elems))
			for k := 0; k < r.l; k++ {
				vrt.Assert(r.elems[(r.head+k)%cap(r.elems)] == model[k], "r3-content", "ring content differs from model at %d", k)
			}
		}
	}
}

// R4: concurrent harness with more than 8 queued elements (growth under contention).
func r4() func() {
	return func() {
		newWorld()
		r := &ring[int]{}
		// Pre-fill 7 elements sequentially with no worker spawned (the harness
		// plays the worker later), then two pushers race the worker across the
		// growth boundary.
		for i := 1; i <= 7; i++ {
			p := &pushRec{id: i, pusher: 9, invoked: tick()}
			w.pushes[i] = p
			_, dead := r.pushForce(i)
			p.returned, p.accepted = tick(), !dead
		}
		vrt.Go("worker0", func() { ringWorker(r, 1) })
		for p := 0; p < 2; p++ {
			p := p
			vrt.Go(fmt.Sprintf("pusher%d", p), func() {
				for i := 0; i < 2; i++ {
					ringPush(r, p, 100+p*10+i, true)
				}
			})
		}
		w.finals = append(w.finals, func() { checkRingFinal(r, true) })
	}
}

// W1: workLoop latch. Signallers add work then maybeBegin (spawning the worker
// loop if it returns true); the worker loop is the sink/source idiom
//   for again { again = l.maybeFinish(work()) }
// Oracle: never two workers; at termination all signalled work was processed.
func w1(nsig, per int) func() {
	return func() {
		newWorld()
		l := &workLoop{}
		pending, processed, total := 0, 0, 0
		var worker func()
		worker = func() {
			w.active++
			vrt.Assert(w.active <= 1, "two-workers", "two workLoop workers at once")
			again := true
			for again {
				more := false
				if pending > 0 {
					pending--
					processed++
					more = pending > 0
				}
				// The worker is "out" the moment maybeFinish decides false;
				// account for that before the operation's effect can be seen by
				// others: maybeFinish's last atomic op and the return are one step.
				again = l.maybeFinish(more)
				if !again {
					w.active--
				}
			}
		}
		for s := 0; s < nsig; s++ {
			s := s
			vrt.Go(fmt.Sprintf("sig%d", s), func() {
				for i := 0; i < per; i++ {
					pending++
					total++
					if l.maybeBegin() {
						vrt.Go(fmt.Sprintf("worker-s%d-%d", s, i), worker)
					}
				}
			})
		}
		w.finals = append(w.finals, func() {
			vrt.Assert(pending == 0 && processed == total, "lost-wakeup", "signalled %d units, processed %d, %d stranded with no worker (state=%d)", total, processed, pending, l.state.Peek())
			vrt.Assert(w.active == 0, "worker-stuck", "worker still active")
			vrt.Assert(l.state.Peek() == stateUnstarted, "latch-not-reset", "latch state %d at quiescence", l.state.Peek())
		})
	}
}

// W2: hardFinish with the documented compensation (source.loopFetch): the
// worker finds no session, hardFinishes, re-loads the session and re-triggers
// if one appeared. A setter installs the session and triggers.
func w2() func() {
	return func() {
		newWorld()
		l := &workLoop{}
		var session vrt.Int32 // 0 = noConsumerSession
		consumed := 0
		var maybeConsume func()
		var loop func()
		loop = func() {
			w.active++
			vrt.Assert(w.active <= 1, "two-workers", "two workLoop workers at once")
			s := session.Load()
			if s == 0 {
				w.active--
				l.hardFinish()
				if now := session.Load(); now != s {
					maybeConsume()
				}
				return
			}
			again := true
			for again {
				consumed++
				again = l.maybeFinish(false)
				if !again {
					w.active--
				}
			}
		}
		n := 0
		maybeConsume = func() {
			if l.maybeBegin() {
				n++
				vrt.Go(fmt.Sprintf("loop%d", n), loop)
			}
		}
		vrt.Go("early-trigger", func() { maybeConsume() })
		vrt.Go("setter", func() {
			session.Store(1)
			maybeConsume()
		})
		w.finals = append(w.finals, func() {
			vrt.Assert(consumed > 0, "lost-wakeup", "session installed and triggered, but no worker ever consumed (state=%d)", l.state.Peek())
			vrt.Assert(w.active == 0, "worker-stuck", "worker still active")
		})
	}
}

func wrap(body func()) func() {
	return func() {
		body()
	}
}

var harnesses = map[string]harness{}

func reg(name string, max int, body func()) { harnesses[name] = harness{name: name, body: body, max: max} }

func init() {
	reg("R1-2x2", 400, r1(2, 2, true))
	reg("R1-3x2", 600, r1(3, 2, true))
	reg("R1-2x3-push", 600, r1(2, 3, false))
	reg("R2-bounded", 600, r2(false))
	reg("R2-bounded-die", 600, r2(true))
	reg("R3-seq16", 2000, r3(16))
	reg("R3-seq20", 2000, r3(20))
	reg("R4-growth", 800, r4())
	reg("W1-2x2", 400, w1(2, 2))
	reg("W1-3x1", 400, w1(3, 1))
	reg("W1-3x2", 600, w1(3, 2))
	reg("W2-hardfinish", 400, w2())
}

func runJob(job explore.Job) explore.Result {
	h, ok := harnesses[job.Scenario]
	if !ok {
		return explore.Result{Crash: "unknown harness " + job.Scenario}
	}
	res := vrt.Run(job.Prefix, h.max, os.Getenv("VERIF_TRACE") != "", func() {
		h.body()
	})
	out := explore.Result{Points: res.Points, Steps: res.Steps, Capped: res.Capped, Diverged: res.Diverged}
	if res.Failure == "" && !res.Capped && !res.Diverged {
		// all threads finished: run the final assertions in a fresh single-thread execution context
		fin := vrt.Run(nil, 10, false, func() {
			for _, f := range w.finals {
				f()
			}
		})
		if fin.Failure != "" {
			res.Failure, res.FailKey = fin.Failure, fin.FailKey
		}
	}
	if res.Failure != "" {
		out.Viol = append(out.Viol, explore.Violation{Key: res.FailKey, What: res.Failure + "\nschedule: " + strings.Join(res.Trace, " | ")})
	}
	if w != nil {
		out.Obs = fmt.Sprintf("%v/workers=%d", w.processed, w.workers)
	}
	return out
}

type plan struct {
	name            string
	quick, thorough int // preemption bounds
}

func main() {
	if explore.IsWorker() {
		explore.ServeWorker(runJob)
		return
	}
	if p := os.Getenv("VERIF_REPLAY"); p != "" {
		replay(p)
		return
	}
	plans := []plan{
		{"R1-2x2", 3, 4}, {"R1-3x2", 2, 3}, {"R1-2x3-push", 2, 3},
		{"R2-bounded", 2, 3}, {"R2-bounded-die", 2, 3},
		{"R3-seq16", 0, 0}, {"R3-seq20", -1, 0},
		{"R4-growth", 2, 3},
		{"W1-2x2", 3, 5}, {"W1-3x1", 3, 5}, {"W1-3x2", 2, 3}, {"W2-hardfinish", 4, 6},
	}
	r := ev.New("C30", "model_checking")
	r.Rule("engine S: every interleaving of the harness threads (ring pushers incl. blocking and forced pushes, the spawn-on-first worker, die; workLoop signallers and the worker loop incl. hardFinish with its documented compensation) up to the stated preemption bound, at the granularity of every mutex/cond/atomic operation of ring.go and atomic_maybe_work.go compiled from the current tree; R3 = every push/dropPeek sequence to the stated depth against a slice queue. distinct = distinct (processing order, worker count) outcomes per harness")
	r.Assume("vrt primitives model sync.Mutex/Cond and sync/atomic faithfully (sequentially consistent atomics)", "harness threads are straight-line scripts; unsynchronised harness bookkeeping is atomic between two scheduling points")
	deadline := ev.Deadline(70*time.Second, 15*time.Minute)
	per := map[string]any{}
	only := os.Getenv("VERIF_SCENARIO")
	for i, p := range plans {
		bound := p.quick
		if ev.Thorough() {
			bound = p.thorough
		}
		if bound < 0 || (only != "" && only != p.name) {
			continue
		}
		slice := time.Until(deadline) / time.Duration(len(plans)-i)
		obs := map[string]struct{}{}
		nv := 0
		var sample any
		st := explore.Explore(explore.Config{
			Scenario: p.name, Budget: bound, Workers: ev.Workers(), Deadline: time.Now().Add(slice),
			Subprocess: func() *exec.Cmd {
				cmd := exec.Command(os.Args[0])
				cmd.Env = append(os.Environ(), "VERIF_WORKER=1", "GOMAXPROCS=2")
				cmd.Stderr = os.Stderr
				return cmd
			},
			OnResult: func(job explore.Job, res explore.Result) {
				r.Evals(1)
				r.Traces(1)
				r.States(int64(len(res.Points)) + 1)
				r.Transitions(int64(res.Steps))
				r.Distinct(p.name + "|" + res.Obs)
				obs[res.Obs] = struct{}{}
				if sample == nil && len(job.Prefix) > 2 {
					sample = map[string]any{"harness": p.name, "schedule_prefix": job.Labels, "outcome": res.Obs}
				}
				if res.Crash != "" {
					res.Viol = append(res.Viol, explore.Violation{Key: "worker-crash", What: res.Crash})
				}
				for _, v := range res.Viol {
					if nv < 5 {
						r.Violation("C30:"+p.name+":"+v.Key, fmt.Sprintf("harness %s: %s", p.name, v.What), map[string]any{"check": "C30", "scenario": p.name, "prefix": job.Prefix})
					}
					nv++
				}
			},
		})
		if sample != nil {
			r.Sample(sample)
		}
		per[p.name] = map[string]any{"preemption_bound": bound, "bound_completed": st.LevelCompleted, "cut_by_time": st.Cut, "executions": st.Execs, "per_level": st.LevelExecs, "distinct_outcomes": len(obs), "capped": st.Capped}
		if st.Cut {
			r.NotExhaustive(fmt.Sprintf("%s: time slice ended inside preemption level %d", p.name, st.LevelCompleted+1))
		}
		fmt.Printf("  %-18s bound=%d completed=%d execs=%d outcomes=%d capped=%d cut=%v\n", p.name, bound, st.LevelCompleted, st.Execs, len(obs), st.Capped, st.Cut)
	}
	r.Set("harnesses", per)
	r.Finish()
}

func replay(path string) {
	// artefact: {"artefact":{"scenario":..., "prefix":[...]}}
	b, err := os.ReadFile(path)
	if err != nil {
		ev.InfraError("%v", err)
	}
	var scen string
	var prefix []int
	s := string(b)
	if i := strings.Index(s, `"scenario": "`); i >= 0 {
		scen = s[i+13:]
		scen = scen[:strings.Index(scen, `"`)]
	}
	if i := strings.Index(s, `"prefix": [`); i >= 0 {
		body := s[i+11:]
		body = body[:strings.Index(body, "]")]
		for _, f := range strings.FieldsFunc(body, func(r rune) bool { return r == ',' || r == ' ' || r == '\n' }) {
			var v int
			fmt.Sscan(f, &v)
			prefix = append(prefix, v)
		}
	}
	os.Setenv("VERIF_TRACE", "1")
	res := runJob(explore.Job{Scenario: scen, Prefix: prefix})
	fmt.Printf("replay %s prefix=%v obs=%s\n", scen, prefix, res.Obs)
	for _, v := range res.Viol {
		fmt.Printf("VIOLATION-REPLAYED %s: %s\n", v.Key, v.What)
	}
	if len(res.Viol) > 0 {
		os.Exit(1)
	}
}
