// C38: Fetches accessors agree with each other.
//
// Bounded exhaustive enumeration of kgo.Fetches shapes; on every shape all
// accessors of pkg/kgo/record_and_fetch.go are run and compared with a
// reference computed by plain loops over the shape description.
package main

import (
	"encoding/json"
	"errors"
	"fmt"
	"os"
	"runtime/pprof"
	"sort"
	"strings"
	"sync"

	"github.com/twmb/franz-go/pkg/kgo"
	"verif.local/ev"
)

// ---- shape description (JSON-able, replayable) ----

type PShape struct {
	Recs int  `json:"recs"`
	Err  bool `json:"err"`
}
type TShape struct {
	Name   string   `json:"name"`
	ZeroID bool     `json:"zero_id,omitempty"` // this occurrence carries no topic ID
	Parts  []PShape `json:"parts"`
}
type FShape struct {
	ErrFetch bool     `json:"err_fetch,omitempty"` // kgo.NewErrFetch(err): topic "", partition -1
	Topics   []TShape `json:"topics"`
}
type Shape []FShape

var errPart = errors.New("partition error")
var errInjected = errors.New("injected fetch error")

func topicID(name string) (id [16]byte) {
	if name == "" {
		return id
	}
	for i := range id {
		id[i] = name[0] + byte(i)
	}
	return id
}

// ---- reference ----

type refPart struct {
	tag   int64 // stored in HighWatermark; unique per partition entry
	topic string
	part  int32
	err   error
	recs  []*kgo.Record
}
type ref struct {
	parts []refPart
	recs  []*kgo.Record
	order []string   // topic names in first-seen order
	ids   [][16]byte // expected merged topic id, parallel to order
}

// note records an occurrence of a topic: the merged topic keeps the ID carried
// by any of its occurrences (all occurrences that carry one carry the same).
func (rf *ref) note(name string, id [16]byte) {
	for i, n := range rf.order {
		if n == name {
			if rf.ids[i] == ([16]byte{}) {
				rf.ids[i] = id
			}
			return
		}
	}
	rf.order = append(rf.order, name)
	rf.ids = append(rf.ids, id)
}

// arena holds per-worker storage reused for every case (the enumeration is
// allocation bound otherwise). Slices handed to kgo are capacity-limited so an
// append inside the implementation can never write into a neighbour.
type arena struct {
	recs    [64]kgo.Record
	ptrs    [64]*kgo.Record
	kparts  [32]kgo.FetchPartition
	ktopics [16]kgo.FetchTopic
	kfetch  [8]kgo.Fetch
	rparts  [32]refPart
	rf      ref
}

func newArena() *arena {
	a := &arena{}
	for i := range a.recs {
		a.ptrs[i] = &a.recs[i]
	}
	return a
}

func build(s Shape, a *arena) (kgo.Fetches, *ref) {
	rf := &a.rf
	rf.parts, rf.recs, rf.order, rf.ids = a.rparts[:0], nil, rf.order[:0], rf.ids[:0]
	if s == nil {
		return nil, rf
	}
	fs := kgo.Fetches(a.kfetch[:0:len(s)])
	tag := int64(0)
	off, np, nt := 0, 0, 0
	for fi, f := range s {
		if f.ErrFetch {
			ef := kgo.NewErrFetch(errInjected)
			tag++
			ef[0].Topics[0].Partitions[0].HighWatermark = tag
			fs = append(fs, ef...)
			rf.parts = append(rf.parts, refPart{tag: tag, topic: "", part: -1, err: errInjected})
			rf.note("", [16]byte{})
			continue
		}
		var kf kgo.Fetch
		t0 := nt
		for _, t := range f.Topics {
			kt := kgo.FetchTopic{Topic: t.Name}
			if !t.ZeroID {
				kt.TopicID = topicID(t.Name)
			}
			rf.note(t.Name, kt.TopicID)
			p0 := np
			for pj, p := range t.Parts {
				tag++
				kp := kgo.FetchPartition{Partition: int32(fi*2 + pj), HighWatermark: tag}
				if p.Err {
					kp.Err = errPart
				}
				r0 := off
				for k := 0; k < p.Recs; k++ {
					a.recs[off] = kgo.Record{Topic: t.Name, Partition: kp.Partition, Offset: int64(off + 1)}
					off++
				}
				if off > r0 {
					kp.Records = a.ptrs[r0:off:off]
				}
				a.kparts[np] = kp
				np++
				rf.parts = append(rf.parts, refPart{tag: tag, topic: t.Name, part: kp.Partition, err: kp.Err, recs: kp.Records})
			}
			if np > p0 {
				kt.Partitions = a.kparts[p0:np:np]
			}
			a.ktopics[nt] = kt
			nt++
		}
		if nt > t0 {
			kf.Topics = a.ktopics[t0:nt:nt]
		}
		fs = append(fs, kf)
	}
	rf.recs = a.ptrs[:off:off]
	return fs, rf
}

// ---- the check of one shape ----

type failure struct{ key, what string }

func sameRecs(a, b []*kgo.Record) bool {
	if len(a) != len(b) {
		return false
	}
	for i := range a {
		if a[i] != b[i] {
			return false
		}
	}
	return true
}

func offs(rs []*kgo.Record) string {
	var sb strings.Builder
	sb.WriteByte('[')
	for i, r := range rs {
		if i > 0 {
			sb.WriteByte(' ')
		}
		if r == nil {
			sb.WriteString("nil")
		} else {
			fmt.Fprintf(&sb, "%s/%d@%d", r.Topic, r.Partition, r.Offset)
		}
	}
	sb.WriteByte(']')
	return sb.String()
}

func samePart(p kgo.FetchPartition, rp *refPart) bool {
	return p.Partition == rp.part && p.Err == rp.err && sameRecs(p.Records, rp.recs)
}

// checkShape runs every accessor. It returns the first failure (nil if the
// shape holds) and an outcome signature used for distinct counting.
func checkShape(s Shape, a *arena) (fail *failure, sig uint64) {
	defer func() {
		if p := recover(); p != nil {
			fail = &failure{"panic", fmt.Sprintf("accessor panicked: %v", p)}
		}
	}()
	fs, rf := build(s, a)
	// tags are 1..len(parts), record offsets 1..len(recs)
	byTag := func(tag int64) *refPart {
		if tag < 1 || tag > int64(len(rf.parts)) {
			return nil
		}
		return &rf.parts[tag-1]
	}

	// 1. record sequences
	viaIter := make([]*kgo.Record, 0, len(rf.recs)+1)
	for it := fs.RecordIter(); !it.Done(); {
		viaIter = append(viaIter, it.Next())
	}
	viaAll := make([]*kgo.Record, 0, len(rf.recs)+1)
	for r := range fs.RecordsAll() {
		viaAll = append(viaAll, r)
	}
	viaEach := make([]*kgo.Record, 0, len(rf.recs)+1)
	fs.EachRecord(func(r *kgo.Record) { viaEach = append(viaEach, r) })
	viaRecords := fs.Records()
	if !sameRecs(viaIter, viaAll) {
		return &failure{"records-disagree/RecordsAll", "RecordIter " + offs(viaIter) + " vs RecordsAll " + offs(viaAll)}, 0
	}
	if !sameRecs(viaIter, viaEach) {
		return &failure{"records-disagree/EachRecord", "RecordIter " + offs(viaIter) + " vs EachRecord " + offs(viaEach)}, 0
	}
	if !sameRecs(viaIter, viaRecords) {
		return &failure{"records-disagree/Records", "RecordIter " + offs(viaIter) + " vs Records " + offs(viaRecords)}, 0
	}
	// every record of the shape is visited exactly once
	{
		var seen [64]uint8
		ok := len(viaIter) == len(rf.recs)
		for _, r := range viaIter {
			if r == nil || r.Offset < 1 || r.Offset > int64(len(rf.recs)) || rf.recs[r.Offset-1] != r {
				ok = false
				break
			}
			seen[r.Offset]++
		}
		for i := range rf.recs {
			if seen[i+1] != 1 {
				ok = false
			}
		}
		if !ok {
			return &failure{"records-coverage", "accessors visit " + offs(viaIter) + ", shape holds " + offs(rf.recs)}, 0
		}
	}
	// RecordsAll with an early break yields exactly the first record
	if len(rf.recs) > 0 {
		n := 0
		var first *kgo.Record
		for r := range fs.RecordsAll() {
			n++
			first = r
			break
		}
		if n != 1 || first != viaIter[0] {
			return &failure{"recordsall-break", "early break of RecordsAll did not stop after the first record"}, 0
		}
	}
	// 2. counts
	if n := fs.NumRecords(); n != len(viaIter) {
		return &failure{"numrecords", fmt.Sprintf("NumRecords=%d but the accessors yield %d records", n, len(viaIter))}, 0
	}
	if e := fs.Empty(); e != (len(viaIter) == 0) {
		return &failure{"empty", fmt.Sprintf("Empty=%v but the accessors yield %d records", e, len(viaIter))}, 0
	}

	// 3. EachPartition: every partition entry exactly once, right topic, untouched content
	{
		var seen [64]uint8
		var bad string
		n := 0
		fs.EachPartition(func(p kgo.FetchTopicPartition) {
			n++
			rp := byTag(p.HighWatermark)
			if rp == nil {
				bad = fmt.Sprintf("unknown partition entry %s/%d", p.Topic, p.Partition)
				return
			}
			seen[p.HighWatermark]++
			if p.Topic != rp.topic || !samePart(p.FetchPartition, rp) {
				bad = fmt.Sprintf("partition entry %s/%d delivered as %s/%d err=%v recs=%s", rp.topic, rp.part, p.Topic, p.Partition, p.Err, offs(p.Records))
			}
		})
		if bad != "" {
			return &failure{"eachpartition-content", "EachPartition: " + bad}, 0
		}
		for i := range rf.parts {
			if c := seen[rf.parts[i].tag]; c != 1 {
				return &failure{"eachpartition-cover", fmt.Sprintf("EachPartition visited %s/%d %d times (want 1); %d visits for %d partitions", rf.parts[i].topic, rf.parts[i].part, c, n, len(rf.parts))}, 0
			}
		}
		if n != len(rf.parts) {
			return &failure{"eachpartition-cover", fmt.Sprintf("EachPartition made %d visits for %d partitions", n, len(rf.parts))}, 0
		}
	}

	// 4. EachTopic: each topic name once, partitions merged across fetches, id kept
	{
		var seenT [8]uint8 // index into rf.order
		var seenP [64]uint8
		nT := 0
		var bad, badKey string
		fs.EachTopic(func(t kgo.FetchTopic) {
			nT++
			ti := -1
			for i, n := range rf.order {
				if n == t.Topic {
					ti = i
				}
			}
			if ti < 0 {
				bad, badKey = fmt.Sprintf("unknown topic %q", t.Topic), "eachtopic-cover"
				return
			}
			seenT[ti]++
			if want := rf.ids[ti]; t.TopicID != want {
				bad, badKey = fmt.Sprintf("topic %q delivered with id %x, want %x", t.Topic, t.TopicID, want), "eachtopic-id"
			}
			for _, p := range t.Partitions {
				rp := byTag(p.HighWatermark)
				if rp == nil || rp.topic != t.Topic || !samePart(p, rp) {
					bad, badKey = fmt.Sprintf("topic %q delivered partition %d err=%v recs=%s that is not one of its entries", t.Topic, p.Partition, p.Err, offs(p.Records)), "eachtopic-content"
					continue
				}
				seenP[p.HighWatermark]++
			}
		})
		if bad != "" {
			return &failure{badKey, "EachTopic: " + bad}, 0
		}
		for i, name := range rf.order {
			if seenT[i] != 1 {
				return &failure{"eachtopic-cover", fmt.Sprintf("EachTopic delivered topic %q %d times (want 1)", name, seenT[i])}, 0
			}
		}
		if nT != len(rf.order) {
			return &failure{"eachtopic-cover", fmt.Sprintf("EachTopic delivered %d topics, want %d", nT, len(rf.order))}, 0
		}
		for i := range rf.parts {
			if c := seenP[rf.parts[i].tag]; c != 1 {
				return &failure{"eachtopic-cover", fmt.Sprintf("EachTopic covered %s/%d %d times (want 1)", rf.parts[i].topic, rf.parts[i].part, c)}, 0
			}
		}
	}

	// 5. Errors / EachError: exactly the erroring partitions
	nerr := 0
	{
		want := make([]e3, 0, 8)
		for i := range rf.parts {
			if rf.parts[i].err != nil {
				want = append(want, e3{rf.parts[i].topic, rf.parts[i].part, rf.parts[i].err})
			}
		}
		nerr = len(want)
		viaEachErr := make([]e3, 0, 8)
		fs.EachError(func(t string, p int32, err error) { viaEachErr = append(viaEachErr, e3{t, p, err}) })
		viaErrors := make([]e3, 0, 8)
		for _, fe := range fs.Errors() {
			viaErrors = append(viaErrors, e3{fe.Topic, fe.Partition, fe.Err})
		}
		if !sameErrs(viaEachErr, want) {
			return &failure{"eacherror", "EachError lists {" + errStr(viaEachErr) + "}, erroring partitions are {" + errStr(want) + "}"}, 0
		}
		if !sameErrs(viaErrors, want) {
			return &failure{"errors", "Errors lists {" + errStr(viaErrors) + "}, erroring partitions are {" + errStr(want) + "}"}, 0
		}
	}

	// outcome signature: (#records, #partitions, #topics, #errors, #fetches)
	sig = uint64(len(rf.recs)) | uint64(len(rf.parts))<<8 | uint64(len(rf.order))<<16 | uint64(nerr)<<24 | uint64(len(s))<<32
	return nil, sig
}

type e3 struct {
	t string
	p int32
	e error
}

func errStr(es []e3) string {
	ss := make([]string, len(es))
	for i, e := range es {
		ss[i] = fmt.Sprintf("%s/%d:%v", e.t, e.p, e.e)
	}
	sort.Strings(ss)
	return strings.Join(ss, ",")
}

// sameErrs compares as multisets (the order of errors is not part of the property).
func sameErrs(a, b []e3) bool {
	if len(a) != len(b) {
		return false
	}
	same := true
	for i := range a {
		if a[i] != b[i] {
			same = false
		}
	}
	if same {
		return true
	}
	return errStr(a) == errStr(b)
}

// ---- enumeration ----

func topicShapes(name string, zero bool, pstates []PShape, maxParts int) []TShape {
	var out []TShape
	var rec func(cur []PShape)
	rec = func(cur []PShape) {
		out = append(out, TShape{Name: name, ZeroID: zero, Parts: append([]PShape{}, cur...)})
		if len(cur) == maxParts {
			return
		}
		for _, p := range pstates {
			rec(append(cur, p))
		}
	}
	rec(nil)
	return out
}

// fetchShapes: every fetch with <= 2 topics (distinct names within the fetch,
// both orders), each with <= maxParts partitions over pstates.
func fetchShapes(names []string, zero bool, pstates []PShape, maxParts int) []FShape {
	out := []FShape{{Topics: []TShape{}}}
	per := map[string][]TShape{}
	for _, n := range names {
		per[n] = topicShapes(n, zero, pstates, maxParts)
	}
	for _, a := range names {
		for _, ta := range per[a] {
			out = append(out, FShape{Topics: []TShape{ta}})
		}
	}
	for _, a := range names {
		for _, b := range names {
			if a == b {
				continue
			}
			for _, ta := range per[a] {
				for _, tb := range per[b] {
					out = append(out, FShape{Topics: []TShape{ta, tb}})
				}
			}
		}
	}
	return out
}

type stage struct {
	name  string
	slots [][]FShape // cartesian product of the slots
}

func (st stage) size() int64 {
	n := int64(1)
	for _, s := range st.slots {
		n *= int64(len(s))
	}
	return n
}

func main() {
	if len(os.Args) == 3 && os.Args[1] == "--replay" {
		replay(os.Args[2])
		return
	}
	if pp := os.Getenv("VERIF_PPROF"); pp != "" {
		f, _ := os.Create(pp)
		pprof.StartCPUProfile(f)
		defer pprof.StopCPUProfile()
	}
	r := ev.New("C38", "exploration")
	r.Rule("every kgo.Fetches built from <=2 (thorough: one reduced stage with 3) fetches x <=2 topics per fetch (names from {A,B}, distinct within a fetch, both orders, so names repeat across fetches) x <=2 partitions x {0,1,2 records} x {partition error, none} (full domain for every single fetch and, in thorough, every pair of fetches; quick pairs use the 5-state domain without (2 records,error), variant stages the reduced domains listed in partition_states), plus the empty Fetches, nil Fetches, fetches without topics, topics without partitions, topic-ID variants (all occurrences carry the ID / only the first fetch / only the second) and an injected kgo.NewErrFetch before or after; a case is one complete shape, counted distinct by its outcome signature (#records,#partitions,#topics,#errors,#fetches)")
	r.Assume("accessors are read-only (shapes are rebuilt for every case, so a mutation could not leak between cases)",
		"within one Fetch a topic name appears at most once (broker responses list a topic once); a topic's partitions are numbered distinctly across fetches (one leader per partition)",
		"record order across the four record accessors must agree with each other; against the shape only exactly-once coverage is required, not a specific order")

	full := []PShape{{0, false}, {1, false}, {2, false}, {0, true}, {1, true}, {2, true}}
	red4 := []PShape{{0, false}, {1, false}, {0, true}, {2, true}}
	red3 := []PShape{{0, false}, {1, false}, {1, true}}
	red2 := []PShape{{0, false}, {1, true}}
	red5 := []PShape{{0, false}, {1, false}, {2, false}, {0, true}, {1, true}}
	names := []string{"A", "B"}
	errF := []FShape{{ErrFetch: true}}

	var stages []stage
	F := fetchShapes(names, false, full, 2)
	Fz := fetchShapes(names, true, full, 2)
	R := fetchShapes(names, false, red4, 2)
	T3 := fetchShapes(names, false, red3, 2)
	T3z := fetchShapes(names, true, red3, 2)
	Rz := fetchShapes(names, true, red4, 2)
	T2 := fetchShapes(names, false, red2, 2)
	T2z := fetchShapes(names, true, red2, 2)
	stages = append(stages,
		stage{"one-fetch/full", [][]FShape{F}},
		stage{"one-fetch/full/zero-id", [][]FShape{Fz}},
		stage{"errfetch-only", [][]FShape{errF}},
		stage{"two-errfetches", [][]FShape{errF, errF}},
		stage{"errfetch+one-fetch/full", [][]FShape{errF, F}},
		stage{"one-fetch/full+errfetch", [][]FShape{F, errF}},
	)
	if ev.Thorough() {
		stages = append(stages,
			stage{"two-fetches/full/ids-set", [][]FShape{F, F}},
			stage{"two-fetches/full/id-zero-in-first", [][]FShape{Fz, F}},
			stage{"two-fetches/full/id-zero-in-second", [][]FShape{F, Fz}},
			stage{"two-fetches/reduced4/id-zero-in-both", [][]FShape{Rz, Rz}},
			stage{"errfetch+two-fetches/reduced4", [][]FShape{errF, R, R}},
			stage{"two-fetches/reduced4+errfetch", [][]FShape{R, R, errF}},
			stage{"two-fetches/errfetch-between/reduced4", [][]FShape{R, errF, R}},
			stage{"three-fetches/reduced3", [][]FShape{T3, T3, T3}},
			stage{"three-fetches/reduced2/id-only-in-last", [][]FShape{T2z, T2z, T2}},
			stage{"three-fetches/reduced2/id-only-in-first", [][]FShape{T2, T2z, T2z}},
		)
	} else {
		Q := fetchShapes(names, false, red5, 2)
		stages = append(stages,
			stage{"two-fetches/reduced5/ids-set", [][]FShape{Q, Q}},
			stage{"two-fetches/reduced3/id-zero-in-first", [][]FShape{T3z, T3}},
			stage{"two-fetches/reduced3/id-zero-in-second", [][]FShape{T3, T3z}},
			stage{"two-fetches/reduced3/id-zero-in-both", [][]FShape{T3z, T3z}},
			stage{"errfetch+two-fetches/reduced3", [][]FShape{errF, T3, T3}},
			stage{"two-fetches/reduced3+errfetch", [][]FShape{T3, T3, errF}},
			stage{"two-fetches/errfetch-between/reduced3", [][]FShape{T3, errF, T3}},
		)
	}

	// nil and empty Fetches
	for _, s := range []Shape{nil, {}} {
		if f, sig := checkShape(s, newArena()); f != nil {
			r.Violation(f.key, f.what, map[string]any{"shape": s, "stage": "empty"})
		} else {
			r.DistinctHash(sig)
		}
		r.Evals(1)
	}
	r.Sample(map[string]any{"stage": "empty", "shape": Shape{}})

	done := map[string]int64{}
	for _, st := range stages {
		n := runStage(r, st)
		done[st.name] = n
	}
	r.Set("bound_completed", done)
	r.Set("fetch_shapes_full", len(F))
	r.Set("partition_states", map[string]any{"full": full, "reduced5": red5, "reduced4": red4, "reduced3": red3, "reduced2": red2})
	pprof.StopCPUProfile()
	r.Finish()
}

func shapeAt(st stage, idx int64) Shape {
	s := make(Shape, len(st.slots))
	shapeInto(s, st, idx)
	return s
}

func shapeInto(s Shape, st stage, idx int64) {
	for k := len(st.slots) - 1; k >= 0; k-- {
		n := int64(len(st.slots[k]))
		s[k] = st.slots[k][idx%n]
		idx /= n
	}
}

func runStage(r *ev.Run, st stage) int64 {
	total := st.size()
	w := ev.Workers()
	var wg sync.WaitGroup
	const chunk = 4096
	var mu sync.Mutex
	next := int64(0)
	sampled := false
	for i := 0; i < w; i++ {
		wg.Add(1)
		go func() {
			defer wg.Done()
			sigs := map[uint64]struct{}{}
			a := newArena()
			s := make(Shape, len(st.slots))
			for {
				mu.Lock()
				lo := next
				next += chunk
				mu.Unlock()
				if lo >= total {
					break
				}
				hi := lo + chunk
				if hi > total {
					hi = total
				}
				for idx := lo; idx < hi; idx++ {
					shapeInto(s, st, idx)
					f, sig := checkShape(s, a)
					if f != nil {
						r.Violation(f.key, f.what, map[string]any{"shape": shapeAt(st, idx), "stage": st.name, "index": idx})
						continue
					}
					sigs[sig] = struct{}{}
				}
				r.Evals(hi - lo)
				if r.Violations() > 200 {
					r.NotExhaustive("stopped after more than 200 violations")
					break
				}
			}
			for s := range sigs {
				r.DistinctHash(s)
			}
		}()
	}
	wg.Wait()
	if !sampled {
		r.Sample(map[string]any{"stage": st.name, "shape": shapeAt(st, total-1)})
	}
	return total
}

func replay(path string) {
	b, err := os.ReadFile(path)
	if err != nil {
		ev.InfraError("replay: %v", err)
	}
	var v struct {
		Artefact struct {
			Shape Shape `json:"shape"`
		} `json:"artefact"`
	}
	if err := json.Unmarshal(b, &v); err != nil {
		ev.InfraError("replay: %v", err)
	}
	f, _ := checkShape(v.Artefact.Shape, newArena())
	if f != nil {
		fmt.Printf("REPLAY: VIOLATION key=%s\n  %s\n", f.key, f.what)
		os.Exit(1)
	}
	fmt.Println("REPLAY: held")
}
