#!/bin/bash
# C38 Fetches accessors agree. usage: run.sh [--replay <violation.json>]
set -eu
cd "$(dirname "$0")/../.."
. bin/env.sh
go build -o "$BUILD/c38" ./checks/c38
exec "$BUILD/c38" "$@"
