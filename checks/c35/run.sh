#!/bin/bash
# C35 kadm group lag. usage: run.sh [--replay <violation.json>]
# The whole check is an in-package harness (GroupMemberAssignment has an
# unexported field), compiled into pkg/kadm's test binary with -overlay.
set -eu
cd "$(dirname "$0")/../.."
. bin/env.sh
inpkg_test pkg/kadm "$VERIF_ROOT/hooks/inpkg/c35_kadm_test.go" "$BUILD/c35_kadm.test"
if [ "${1:-}" = "--replay" ]; then
  export VERIF_REPLAY="$2"
fi
exec "$BUILD/c35_kadm.test" -test.run '^TestVerifC35$' -test.timeout 0
