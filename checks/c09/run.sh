#!/bin/bash
set -eu
cd "$(dirname "$0")/../.."
. bin/env.sh
go test -c -tags synctests,verif -o "$BUILD/c09.test" ./checks/c09
exec "$BUILD/c09.test" -test.run '^TestC09$' -test.timeout 0
