// Package oscen holds the offset-commit scenario family of C09.
package oscen

import (
	"context"
	"encoding/binary"
	"errors"
	"fmt"
	"sort"
	"strings"
	"sync"
	"sync/atomic"
	"time"

	"github.com/twmb/franz-go/pkg/kadm"
	"github.com/twmb/franz-go/pkg/kfake"
	"github.com/twmb/franz-go/pkg/kgo"
	"github.com/twmb/franz-go/pkg/kmsg"

	"verif/lib/netctl"
	"verif/lib/nrun"
	"verif/lib/nscen"
)

// C09: offset commits take effect in the order issued (DESIGN.md §4 C09).
//
// One controlled group member M (autocommit off) polls topic t (2 partitions,
// 6 records each, one broker) completely and then issues five commits in
// program order; calls 1-4 carry pairwise distinct offsets so that every
// OffsetCommit request frame can be attributed to the call that issued it:
//
//	call 1  CommitOffsets            {t/0:1, t/1:1}   async
//	call 2  CommitOffsets            {t/0:2}          async
//	call 3  CommitOffsetsSync        {t/0:3, t/1:2}
//	call 4  CommitRecords(t/0@3)     {t/0:4}
//	call 5  CommitUncommittedOffsets {t/0:6, t/1:6}   (whatever is dirty, read
//	                                                   with PreCommitFnContext;
//	                                                   after a re-assignment it
//	                                                   may repeat an earlier
//	                                                   call's content or be a
//	                                                   no-op)
//
// Scenarios: C-single (M alone); C-rebalance (a second member B joins once M
// has finished polling and M is told to rejoin with ForceRebalance, so a
// cooperative rebalance overlaps the commits; the heartbeat-driven discovery
// is reached through the "tick" deviation); C-rebalance-eager (same with the
// round-robin balancer: everything is revoked and re-fetched); C-cancel-queued
// (M alone; call 3 is a third asynchronous CommitOffsets, call 2 is issued
// with a cancellable context and a thread CANCEL, released once call 2 has
// been issued, cancels it: in the default schedule call 2 is cancelled while
// queued behind the still unanswered call 1 and call 3 is queued behind call
// 2. Call 2 may then finish with context.Canceled, or succeed if it had
// already been written; neither is a violation, a cancelled commit simply is
// not a successful one).
//
// What the client promises (consumer_group.go): commit() chains every commit on
// the completion of the previous one (priorDone), completion meaning that the
// request including ALL its internal retries (retriable coordinator errors,
// dead connections; client.go retryable.Request) is over and updateCommitted
// ran; sync commits additionally exclude every other commit (syncCommitMu)
// until their callback returned. Hence the order promised on the wire is
// total: the OffsetCommit request frames delivered to the broker, mapped to
// the call that issued them, form a NON-DECREASING sequence of call numbers
// (all attempts of call i, retries included, before the first attempt of
// call i+1). Oracle 1 checks exactly that at the proxy.
//
// Oracle 2 (whenever every commit issued so far has finished: right after the
// synchronous calls 3 and 4 returned, and at the end in pass-through mode):
// per partition p let S be the last call in issue order that reported success
// for p (callback/return error nil and partition error code 0). The group's
// committed offset read by an uncontrolled admin client must be S's value, and
// M.CommittedOffsets() must report S's value. The only carve-out is the
// unavoidable ambiguity of a lost response: a call j>S that reported failure
// for p although one of its request frames reached the broker and was not
// observably rejected may be what the broker stores (the client view may show
// j only if a response with code 0 for p was observably delivered to M).
//
// Oracle 3: no commit completes with context.Canceled; the harness never
// cancels a context, so such an error means the client itself dropped an
// issued commit (the doc of CommitOffsets: "Prior commits are never
// canceled").

const nRecords = 6

type call struct {
	idx     int
	name    string
	offsets map[int32]int64 // offsets carried, known from issue time on
	known   bool
	noop    bool // nothing to commit: no request issued
	done    bool
	err     error
	codes   map[int32]int16 // per-partition response codes (nil: only an error value is returned)
}

// success reports whether the call reported success for partition p.
func (c *call) success(p int32) bool {
	if !c.done || c.noop || c.err != nil {
		return false
	}
	if _, ok := c.offsets[p]; !ok {
		return false
	}
	if c.codes == nil {
		return true
	}
	code, ok := c.codes[p]
	return ok && code == 0
}

const (
	stUnknown  = 0 // response never observed on its way to M
	stApplied  = 1 // response with code 0 delivered to M
	stRejected = 2 // response with an error code delivered to M
)

type reqFrame struct {
	conn   string
	corr   int32
	call   int
	parts  map[int32]int64
	status map[int32]int
	auto   bool
}

type state struct {
	mu       sync.Mutex
	x        *netctl.Exec
	cl       *kgo.Client
	b        *kgo.Client
	cluster  *kfake.Cluster
	calls    []*call // index 0 = call 1
	frames   []*reqFrame
	maxCall  int
	polled   chan struct{}
	pollOK   bool
	rec3     *kgo.Record
	assigned map[int32]int // times assigned to M
	taken    map[int32]int // times revoked or lost from M
	withB    bool
	// cancelQueued: call 3 is asynchronous too and a CANCEL thread ends call
	// 2's context once call 2 has been issued (C-cancel-queued).
	cancelQueued bool
	issued2      chan struct{}
	addrs    []string    // broker addresses, captured while the cluster is alive
	over     atomic.Bool // teardown began (also after an aborted, diverged replay)
}

// helper is nscen.Helper without the call into the cluster (which blocks for
// ever once the cluster is closed): thread T1 may still be running when an
// execution is torn down.
func (st *state) helper(opts ...kgo.Opt) *kgo.Client {
	base := []kgo.Opt{
		kgo.SeedBrokers(st.addrs...),
		kgo.Dialer(st.x.DirectDial),
		kgo.ClientID("helper"),
		kgo.MetadataMinAge(10 * time.Millisecond),
		kgo.RetryBackoffFn(func(int) time.Duration { return 10 * time.Millisecond }),
		kgo.DisableClientMetrics(),
	}
	cl, err := kgo.NewClient(append(base, opts...)...)
	if err != nil {
		panic(fmt.Sprintf("c09: helper client: %v", err))
	}
	return cl
}

func (st *state) call(i int) *call { return st.calls[i-1] }

func offs(m map[int32]int64) string {
	var ps []int
	for p := range m {
		ps = append(ps, int(p))
	}
	sort.Ints(ps)
	var s []string
	for _, p := range ps {
		s = append(s, fmt.Sprintf("%d:%d", p, m[int32(p)]))
	}
	return "{" + strings.Join(s, ",") + "}"
}

func sameOffsets(a, b map[int32]int64) bool {
	if len(a) != len(b) {
		return false
	}
	for p, o := range a {
		if bo, ok := b[p]; !ok || bo != o {
			return false
		}
	}
	return true
}

// issue registers the offsets a call is about to carry.
func (st *state) issue(i int, m map[int32]int64) {
	st.mu.Lock()
	c := st.call(i)
	c.offsets, c.known = m, true
	st.mu.Unlock()
}

func (st *state) finish(i int, codes map[int32]int16, err error, noop bool) {
	st.mu.Lock()
	c := st.call(i)
	if c.done {
		st.mu.Unlock()
		st.x.Violate("callback-twice", "completion of call %d (%s) reported twice", i, c.name)
		return
	}
	c.done, c.codes, c.err, c.noop = true, codes, err, noop
	st.mu.Unlock()
	if err != nil && errors.Is(err, context.Canceled) && !(st.cancelQueued && i == 2) { // the application cancels call 2 itself there
		st.x.Violate("commit-canceled", "call %d (%s, offsets %s) finished with %v although the application never cancels a context: the client dropped an issued commit", i, c.name, offs(c.offsets), err)
	}
}

// onDone is the callback of calls 1-3.
func (st *state) onDone(i int) func(*kgo.Client, *kmsg.OffsetCommitRequest, *kmsg.OffsetCommitResponse, error) {
	return func(_ *kgo.Client, req *kmsg.OffsetCommitRequest, resp *kmsg.OffsetCommitResponse, err error) {
		var codes map[int32]int16
		if err == nil {
			codes = map[int32]int16{}
			if resp != nil {
				for _, t := range resp.Topics {
					for _, p := range t.Partitions {
						codes[p.Partition] = p.ErrorCode
					}
				}
			}
			// The request handed to the callback must be the one issued.
			got := map[int32]int64{}
			if req != nil {
				for _, t := range req.Topics {
					for _, p := range t.Partitions {
						got[p.Partition] = p.Offset
					}
				}
			}
			st.mu.Lock()
			want := st.call(i).offsets
			st.mu.Unlock()
			if !sameOffsets(got, want) {
				st.x.Violate("callback-request-mismatch", "call %d issued %s but its callback was handed a request carrying %s", i, offs(want), offs(got))
			}
		}
		st.finish(i, codes, err, false)
	}
}

func (st *state) allCallsDone() bool { return st.allDone(len(st.calls)) }

func (st *state) allDone(n int) bool {
	st.mu.Lock()
	defer st.mu.Unlock()
	for _, c := range st.calls[:n] {
		if !c.done {
			return false
		}
	}
	return true
}

// hook sees every frame the proxy delivers.
func (st *state) hook(c *netctl.Conn, dir string, key, ver int16, frame []byte) {
	if key != 8 || c.Client != "M" {
		return
	}
	switch dir {
	case "req":
		kreq, corr, ok := netctl.DecodeRequest(frame)
		if !ok {
			st.x.Violate("harness:decode", "undecodable OffsetCommit request v%d", ver)
			return
		}
		req := kreq.(*kmsg.OffsetCommitRequest)
		parts := map[int32]int64{}
		for _, t := range req.Topics {
			for _, p := range t.Partitions {
				parts[p.Partition] = p.Offset
			}
		}
		st.mu.Lock()
		defer st.mu.Unlock()
		f := &reqFrame{conn: c.Name, corr: corr, parts: parts, status: map[int32]int{}}
		// Attribute by content. Calls 1-4 carry pairwise distinct offsets;
		// call 5 carries whatever is dirty, which after a revoke/re-assign is
		// the re-fetched committed offset, i.e. possibly exactly what an
		// earlier call carried. Among calls of identical content the frame
		// belongs to the one in flight (issued, not finished); a stale frame
		// of a finished call whose content equals the call in flight is
		// indistinguishable from it on the wire and at the broker.
		for _, cc := range st.calls {
			if cc.known && !cc.noop && sameOffsets(cc.offsets, parts) {
				if f.call == 0 || !cc.done || st.call(f.call).done {
					f.call = cc.idx
				}
			}
		}
		st.frames = append(st.frames, f)
		if f.call == 0 {
			st.x.Violate("commit-unattributed", "OffsetCommit request carrying %s reached the broker but no issued call carries these offsets", offs(parts))
			return
		}
		if cc := st.call(f.call); cc.done {
			st.x.Violate("commit-after-completion", "an OffsetCommit request of call %d (%s) reached the broker after the call had reported completion", f.call, offs(parts))
		}
		if f.call < st.maxCall {
			st.x.Violate("commit-reordered", "OffsetCommit request of call %d %s was delivered to the broker after a request of the later call %d (delivery order so far: %s)", f.call, offs(parts), st.maxCall, st.frameOrderLocked())
		}
		if f.call > st.maxCall {
			st.maxCall = f.call
		}
	case "resp":
		if len(frame) < 8 {
			return
		}
		corr := int32(binary.BigEndian.Uint32(frame[4:]))
		st.mu.Lock()
		defer st.mu.Unlock()
		var f *reqFrame
		for i := len(st.frames) - 1; i >= 0; i-- {
			if st.frames[i].conn == c.Name && st.frames[i].corr == corr {
				f = st.frames[i]
				break
			}
		}
		if f == nil {
			return // answer fabricated by the proxy: the request never reached the broker
		}
		kresp, ok := netctl.DecodeResponse(frame, key, ver)
		if !ok {
			st.x.Violate("harness:decode", "undecodable OffsetCommit response v%d", ver)
			return
		}
		for _, t := range kresp.(*kmsg.OffsetCommitResponse).Topics {
			for _, p := range t.Partitions {
				if p.ErrorCode == 0 {
					f.status[p.Partition] = stApplied
				} else {
					f.status[p.Partition] = stRejected
				}
			}
		}
	}
}

func (st *state) frameOrderLocked() string {
	var s []string
	for _, f := range st.frames {
		s = append(s, fmt.Sprint(f.call))
	}
	return strings.Join(s, ",")
}

func commitFaults(x *netctl.Exec, dir string, key int16, c *netctl.Conn) []string {
	if key != 8 || c.Client != "M" {
		return nil
	}
	if dir == "req" {
		return []string{"stall", "err:14", "err:16", "err:3", "killbefore"}
	}
	return []string{"killafter"}
}

func groupOpts(st *state, track, eager bool) []kgo.Opt {
	opts := []kgo.Opt{
		kgo.ConsumerGroup("g"),
		kgo.ConsumeTopics("t"),
		kgo.DisableAutoCommit(),
		kgo.SessionTimeout(5 * time.Minute),
		kgo.HeartbeatInterval(time.Second),
		kgo.RebalanceTimeout(30 * time.Second),
		kgo.ConsumeResetOffset(kgo.NewOffset().AtStart()),
	}
	if eager {
		opts = append(opts, kgo.Balancers(kgo.RoundRobinBalancer()))
	}
	if track {
		opts = append(opts,
			kgo.OnPartitionsAssigned(func(_ context.Context, _ *kgo.Client, m map[string][]int32) {
				st.mu.Lock()
				for _, p := range m["t"] {
					st.assigned[p]++
				}
				st.mu.Unlock()
			}),
			kgo.OnPartitionsRevoked(func(_ context.Context, _ *kgo.Client, m map[string][]int32) {
				st.mu.Lock()
				for _, p := range m["t"] {
					st.taken[p]++
				}
				st.mu.Unlock()
			}),
			kgo.OnPartitionsLost(func(_ context.Context, _ *kgo.Client, m map[string][]int32) {
				st.mu.Lock()
				for _, p := range m["t"] {
					st.taken[p]++
				}
				st.mu.Unlock()
			}),
		)
	}
	return opts
}

func scenario(name string, withB, eager, cancelQueued bool) *netctl.Scenario {
	return &netctl.Scenario{
		Name:      name,
		Faults:    commitFaults,
		Horizon:   4 * time.Minute,
		MaxPoints: 400,
		Setup: func(x *netctl.Exec) {
			c := x.Cluster(1, kfake.SeedTopics(2, "t"), kfake.GroupMaxSessionTimeout(10*time.Minute))
			st := &state{x: x, cluster: c, polled: make(chan struct{}), assigned: map[int32]int{}, taken: map[int32]int{}, withB: withB, cancelQueued: cancelQueued, issued2: make(chan struct{})}
			names := []string{"CommitOffsets", "CommitOffsets", "CommitOffsetsSync", "CommitRecords", "CommitUncommittedOffsets"}
			if cancelQueued {
				names[1], names[2] = "CommitOffsets(cancellable ctx)", "CommitOffsets"
			}
			for i, n := range names {
				st.calls = append(st.calls, &call{idx: i + 1, name: n})
			}
			x.Data = st
			x.FrameHook = st.hook

			// Pre-load the topic through an uncontrolled client.
			st.addrs = c.ListenAddrs()
			h := st.helper(kgo.RecordPartitioner(kgo.ManualPartitioner()))
			var recs []*kgo.Record
			for p := int32(0); p < 2; p++ {
				for i := 0; i < nRecords; i++ {
					recs = append(recs, &kgo.Record{Topic: "t", Partition: p, Value: []byte(fmt.Sprintf("p%d-%d", p, i))})
				}
			}
			pctx, pcancel := context.WithTimeout(context.Background(), time.Minute)
			if err := h.ProduceSync(pctx, recs...).FirstErr(); err != nil {
				panic(fmt.Sprintf("c09: preload: %v", err))
			}
			pcancel()
			h.Close()

			st.cl = nscen.NewClient(x, "M", c, groupOpts(st, true, eager)...)
			x.OnCleanup(func() {
				st.mu.Lock()
				b := st.b
				st.mu.Unlock()
				if b != nil {
					b.Close()
				}
			})
			bg := context.Background()

			ctx2, cancel2 := context.WithCancel(bg)
			x.OnCleanup(cancel2)
			var once2 sync.Once
			issued2 := func() { once2.Do(func() { close(st.issued2) }) }

			x.Thread("T1", func(t *netctl.Thread) {
				defer issued2()
				// Poll until every record of both partitions was returned, so
				// that both partitions have an entry in the client's commit
				// bookkeeping and the dirty offsets are 6/6.
				got := map[int32]int{}
				func() {
					defer close(st.polled)
					for i := 0; i < 40 && (got[0] < nRecords || got[1] < nRecords); i++ {
						ctx, cancel := context.WithTimeout(bg, 10*time.Second)
						fs := st.cl.PollFetches(ctx)
						cancel()
						fs.EachRecord(func(r *kgo.Record) {
							got[r.Partition]++
							if r.Partition == 0 && r.Offset == 3 {
								st.rec3 = r
							}
						})
					}
					st.pollOK = got[0] == nRecords && got[1] == nRecords && st.rec3 != nil
				}()
				if !st.pollOK {
					return
				}
				st.cl.PauseFetchTopics("t") // no further fetch traffic: the commits are the subject

				eo := func(m map[int32]int64) map[string]map[int32]kgo.EpochOffset {
					out := map[int32]kgo.EpochOffset{}
					for p, o := range m {
						out[p] = kgo.EpochOffset{Epoch: -1, Offset: o}
					}
					return map[string]map[int32]kgo.EpochOffset{"t": out}
				}
				o1 := map[int32]int64{0: 1, 1: 1}
				o2 := map[int32]int64{0: 2}
				o3 := map[int32]int64{0: 3, 1: 2}
				o4 := map[int32]int64{0: 4}
				// A synchronous commit returned: every commit issued so far has
				// finished, so the property already speaks about calls 1..n.
				mid := func(n int) {
					if st.allDone(n) {
						checkState(x, st, n, fmt.Sprintf("after call %d returned", n))
					} else {
						x.Violate("sync-returned-early", "synchronous call %d returned while an earlier commit's callback had not run", n)
					}
				}

				t.Step("commit1-async")
				st.issue(1, o1)
				st.cl.CommitOffsets(bg, eo(o1), st.onDone(1))

				t.Step("commit2-async")
				st.issue(2, o2)
				st.cl.CommitOffsets(ctx2, eo(o2), st.onDone(2))
				issued2()

				if cancelQueued {
					// Three asynchronous commits overlap: 2 is queued behind 1,
					// 3 behind 2; thread CANCEL ends 2's context.
					t.Step("commit3-async")
					st.issue(3, o3)
					st.cl.CommitOffsets(bg, eo(o3), st.onDone(3))
				} else {
					t.Step("commit3-sync")
					st.issue(3, o3)
					st.cl.CommitOffsetsSync(bg, eo(o3), st.onDone(3))
					if !st.call(3).done {
						x.Violate("sync-returned-early", "CommitOffsetsSync returned before its callback ran")
					}
					mid(3)
				}

				t.Step("commit4-records")
				st.issue(4, o4)
				err := st.cl.CommitRecords(bg, st.rec3)
				st.finish(4, nil, err, false)
				mid(4)

				t.Step("commit5-uncommitted")
				issued := false
				ctx5 := kgo.PreCommitFnContext(bg, func(req *kmsg.OffsetCommitRequest) error {
					m := map[int32]int64{}
					for _, tp := range req.Topics {
						for _, p := range tp.Partitions {
							m[p.Partition] = p.Offset
						}
					}
					st.issue(5, m)
					issued = true
					return nil
				})
				err = st.cl.CommitUncommittedOffsets(ctx5)
				st.finish(5, nil, err, !issued)
			})

			if cancelQueued {
				x.Thread("CANCEL", func(t *netctl.Thread) {
					<-st.issued2
					if !st.pollOK {
						return
					}
					t.Step("cancel-commit2-ctx")
					cancel2()
				})
			}
			if withB {
				bOpts := append(nscen.BaseOpts(x, "B", c), groupOpts(st, false, eager)...) // built while the cluster is alive
				x.Thread("B", func(t *netctl.Thread) {
					<-st.polled
					if !st.pollOK {
						return
					}
					t.Step("B-joins-group")
					b, err := kgo.NewClient(bOpts...)
					if err != nil {
						panic(fmt.Sprintf("c09: client B: %v", err))
					}
					st.mu.Lock()
					st.b = b
					st.mu.Unlock()
					// M notices without waiting for its next heartbeat (public
					// API); the heartbeat-driven discovery is reached by "tick".
					t.Step("M-force-rebalance")
					st.cl.ForceRebalance()
				})
			}
			x.OnCleanup(func() { st.over.Store(true) }) // registered last: runs first
		},
		Done: func(x *netctl.Exec) bool {
			st := x.Data.(*state)
			if !x.ThreadsDone() {
				return false
			}
			return !st.pollOK || st.allCallsDone()
		},
		Final: func(x *netctl.Exec) { final(x, x.Data.(*state)) },
	}
}

func final(x *netctl.Exec, st *state) {
	// After the last deviation the environment is well behaved: every call
	// must finish (virtual time; commits retry for at most 30 s).
	deadline := time.Now().Add(3 * time.Minute)
	settled := func() bool {
		select {
		case <-st.polled:
		default:
			return false
		}
		return !st.pollOK || (x.ThreadsDone() && st.allCallsDone())
	}
	for !settled() && time.Now().Before(deadline) {
		time.Sleep(100 * time.Millisecond)
	}
	select {
	case <-st.polled:
	default:
		x.Observe("poll-unfinished")
		return
	}
	if !st.pollOK {
		x.Observe("poll-incomplete")
		return
	}
	if !(x.ThreadsDone() && st.allCallsDone()) {
		st.mu.Lock()
		var open []string
		for _, c := range st.calls {
			if !c.done {
				open = append(open, fmt.Sprintf("%d(%s)", c.idx, c.name))
			}
		}
		st.mu.Unlock()
		x.Violate("commit-stuck", "calls %v not finished 3 virtual minutes into a fault-free suffix", open)
		x.Observe("stuck")
		return
	}

	obs := checkState(x, st, len(st.calls), "end")
	x.Observe("%s", strings.Join(obs, " "))
}

// checkState is oracle 2 applied to the calls 1..upto, all of which have
// finished (it runs after a synchronous commit returned, which implies that
// every earlier commit and its callback are over, and at the very end).
func checkState(x *netctl.Exec, st *state, upto int, when string) []string {
	if st.over.Load() {
		return nil
	}
	// Broker truth through an uncontrolled admin client.
	h := st.helper()
	defer h.Close()
	ctx, cancel := context.WithTimeout(context.Background(), time.Minute)
	defer cancel()
	fetched, err := kadm.NewClient(h).FetchOffsets(ctx, "g")
	if st.over.Load() {
		return nil
	}
	if err != nil {
		x.Violate("harness:offsetfetch", "admin OffsetFetch (%s): %v", when, err)
		return nil
	}
	view := st.cl.CommittedOffsets()

	st.mu.Lock()
	defer st.mu.Unlock()
	calls := st.calls[:upto]
	var obs []string
	for _, c := range calls {
		switch {
		case !c.done:
			x.Violate("harness:unfinished", "call %d not finished at state check %s", c.idx, when)
			return nil
		case c.noop:
			obs = append(obs, fmt.Sprintf("c%d=noop", c.idx))
		case c.err != nil:
			obs = append(obs, fmt.Sprintf("c%d=err(%s)", c.idx, nscen.ErrClass(c.err)))
		case c.codes != nil:
			var ps []int
			for p := range c.codes {
				ps = append(ps, int(p))
			}
			sort.Ints(ps)
			s := ""
			for _, p := range ps {
				s += fmt.Sprintf("%d/%d ", p, c.codes[int32(p)])
			}
			obs = append(obs, fmt.Sprintf("c%d=[%s]", c.idx, strings.TrimSpace(s)))
		default:
			obs = append(obs, fmt.Sprintf("c%d=ok%s", c.idx, offs(c.offsets)))
		}
	}
	obs = append(obs, "wire="+st.frameOrderLocked())

	for p := int32(0); p < 2; p++ {
		// S: last call in issue order that reported success for p.
		last := 0
		for _, c := range calls {
			if c.success(p) {
				last = c.idx
			}
		}
		brokerOK := map[int64]string{}
		viewOK := map[int64]string{}
		if last == 0 {
			brokerOK[-1] = "no successful commit"
			viewOK[0] = "no successful commit"
		} else {
			v := st.call(last).offsets[p]
			brokerOK[v] = fmt.Sprintf("call %d", last)
			viewOK[v] = fmt.Sprintf("call %d", last)
		}
		for _, c := range calls {
			if c.idx <= last || c.noop || !c.known {
				continue
			}
			v, carries := c.offsets[p]
			if !carries {
				continue
			}
			for _, f := range st.frames {
				if f.call != c.idx {
					continue
				}
				if f.status[p] != stRejected {
					brokerOK[v] = fmt.Sprintf("call %d (reported failure, but its request reached the broker and was not observably rejected)", c.idx)
				}
				if f.status[p] == stApplied {
					viewOK[v] = fmt.Sprintf("call %d (reported failure, acknowledged for this partition)", c.idx)
				}
			}
		}

		b := int64(-1)
		if o, ok := fetched.Lookup("t", p); ok {
			if o.Err != nil {
				x.Violate("harness:offsetfetch", "admin OffsetFetch t/%d (%s): %v", p, when, o.Err)
				continue
			}
			b = o.At
		}
		if _, ok := brokerOK[b]; !ok {
			x.Violate("broker-offset-mismatch", "%s, t/%d: group's committed offset is %d, but the last commit that reported success for it is %s (allowed: %v); calls: %s", when, p, b, describe(st, last, p), keys(brokerOK), strings.Join(obs, " "))
		}

		cv, present := int64(-2), false
		if m := view["t"]; m != nil {
			if eo, ok := m[p]; ok {
				cv, present = eo.Offset, true
			}
		}
		stable := st.assigned[p] == 1 && st.taken[p] == 0
		switch {
		case !present && stable:
			x.Violate("client-view-mismatch", "%s, t/%d: polled, still assigned, but absent from CommittedOffsets(); calls: %s", when, p, strings.Join(obs, " "))
		case !present:
			obs = append(obs, fmt.Sprintf("v%d=gone", p))
		case stable:
			if _, ok := viewOK[cv]; !ok {
				x.Violate("client-view-mismatch", "%s, t/%d: CommittedOffsets() reports %d, but the last commit that reported success for it is %s (allowed: %v; broker has %d); calls: %s", when, p, cv, describe(st, last, p), keys(viewOK), b, strings.Join(obs, " "))
			}
		default:
			// Reassigned during the run: the view was re-read from the broker at
			// some point; it must be the last success or what the broker holds.
			if _, ok := viewOK[cv]; !ok && cv != b {
				x.Violate("client-view-mismatch", "%s, t/%d (reassigned): CommittedOffsets() reports %d, neither the last successful commit %s nor the broker's %d; calls: %s", when, p, cv, describe(st, last, p), b, strings.Join(obs, " "))
			}
		}
		obs = append(obs, fmt.Sprintf("b%d=%d", p, b))
		if present {
			obs = append(obs, fmt.Sprintf("v%d=%d", p, cv))
		}
	}
	return obs
}

func describe(st *state, last int, p int32) string {
	if last == 0 {
		return "none"
	}
	c := st.call(last)
	return fmt.Sprintf("call %d %s = %d", last, c.name, c.offsets[p])
}

func keys(m map[int64]string) []int64 {
	var ks []int64
	for k := range m {
		ks = append(ks, k)
	}
	sort.Slice(ks, func(i, j int) bool { return ks[i] < ks[j] })
	return ks
}

// The open-ended plan (C-single at k=3) comes last so that the time the
// bounded ones leave unused rolls over to it.
// Plans returns the exploration plans of C09.
// The generated family CG comes first: it is bounded (k=0 in the quick tier).
func Plans() []nrun.Plan { return append(GenPlans(), plans...) }

var plans = []nrun.Plan{
	{Scenario: scenario("C-cancel-queued", false, false, true), QuickBudget: 2, ThoroughBudget: 3, ThoroughFaultOnlyFrom: 3, Weight: 1},
	{Scenario: scenario("C-rebalance-eager", true, true, false), QuickBudget: 2, QuickFaultOnlyFrom: 2, ThoroughBudget: 2, Weight: 1},
	{Scenario: scenario("C-rebalance", true, false, false), QuickBudget: 2, ThoroughBudget: 3, ThoroughFaultOnlyFrom: 3, Weight: 2},
	{Scenario: scenario("C-single", false, false, false), QuickBudget: 2, ThoroughBudget: 3, Weight: 2},
}

