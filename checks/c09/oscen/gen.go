package oscen

import (
	"context"
	"encoding/binary"
	"errors"
	"fmt"
	"sort"
	"strings"
	"sync"
	"sync/atomic"
	"time"

	"github.com/twmb/franz-go/pkg/kadm"
	"github.com/twmb/franz-go/pkg/kfake"
	"github.com/twmb/franz-go/pkg/kgo"
	"github.com/twmb/franz-go/pkg/kmsg"

	"verif.local/ev"
	"verif/lib/netctl"
	"verif/lib/nrun"
	"verif/lib/nscen"
)

// Generated family CG: ONE scenario whose Setup lets the explorer choose (cost
// 0: every combination is executed at every deviation level)
//
//	cfg   the consumer configuration (manual commits / autocommit with a long
//	      or a short interval / autocommit of marks; cooperative, eager or
//	      KIP-848 group protocol),
//	t1    the committing thread's script: three symbols over
//	        P  PollRecords(2)                (advances the position)
//	        R  CommitRecords(records of the last poll)
//	        U  CommitUncommittedOffsets
//	        M  MarkCommitRecords(last poll) + CommitMarkedOffsets   (marks cfg)
//	        A  CommitOffsets      {t/0:n, t/1:n}   async, n = number of the call
//	        a  the same with a context thread T2 may cancel
//	        S  CommitOffsetsSync  {t/0:n}
//	        Z  think time: 6 virtual seconds (longer than the heartbeat and
//	           both autocommit intervals)
//	        z  think time ending 5 ms after the next autocommit tick (so that,
//	           when the coordinator answers that tick's commit with a
//	           retriable error, the next call is made while the client's own
//	           commit is backing off)
//	      after an unscripted prologue that polls until both partitions
//	      returned records,
//	t2    what a second thread does: nothing, C cancel a's context, B a second
//	      member joins, F ForceRebalance, BF, L LeaveGroup, X Close,
//	gate  before which of T1's calls T2 starts (T2 is declared first: on the
//	      default schedule its calls run as soon as the gate opens),
//	      (t2, gate and brk are one combined choice "env"),
//	brk   what the coordinator answers to the FIRST OffsetCommit it receives:
//	      normal, COORDINATOR_LOAD_IN_PROGRESS, NOT_COORDINATOR (both retried
//	      by the client after a backoff) or UNKNOWN_TOPIC_OR_PARTITION (kfake
//	      control function: a scripted broker, no proxy fault).
//
// Every explicit commit call is issued with PreCommitFnContext; the function
// stamps the request's per-partition Metadata with the number of the call
// (the documented purpose of that context) and records the offsets the
// request carries, so request frames are attributed exactly, whatever their
// content. Commits the client issues on its own (autocommit ticks, the commit
// of the default OnPartitionsRevoked on rebalance / LeaveGroup / Close) are
// the untagged frames.
//
// Oracles (the property's, following any script):
//  1. wire order: tagged request frames reach the broker in non-decreasing
//     call order, none after its call reported completion; no request of an
//     explicit call while a commit of the client's own is in flight (a
//     request of it delivered, its AutoCommitCallback not yet run), no
//     request of the client's own while an explicit call is in flight, and
//     no other commit's frame between two attempts of one call;
//  2. at the end (everything finished, no commit traffic for 300 virtual ms):
//     per partition the group's committed offset and CommittedOffsets() equal
//     the value of the last successful commit, where the successful commits
//     are the explicit calls that reported success (in issue order) and the
//     client's own commits whose response with code 0 was delivered (placed
//     by their wire position). Requests whose response was never delivered
//     after the last acknowledged one may or may not be stored;
//  3. a commit whose context the application did not cancel does not finish
//     with context.Canceled (unless the client was closed / left the group).

type gcfg struct {
	name               string
	auto, marks, eager bool
	next               bool
	opts               []kgo.Opt
}

var gcfgs = []gcfg{
	{name: "manual", opts: []kgo.Opt{kgo.DisableAutoCommit()}},
	{name: "auto-short", auto: true, opts: []kgo.Opt{kgo.AutoCommitInterval(100 * time.Millisecond)}},
	{name: "marks-short", auto: true, marks: true, opts: []kgo.Opt{kgo.AutoCommitMarks(), kgo.AutoCommitInterval(100 * time.Millisecond)}},
	{name: "manual-eager", eager: true, opts: []kgo.Opt{kgo.DisableAutoCommit()}},
	// thorough tier only:
	{name: "auto-long", auto: true},
	{name: "auto-short-eager", auto: true, eager: true, opts: []kgo.Opt{kgo.AutoCommitInterval(100 * time.Millisecond)}},
	{name: "manual-848", next: true, opts: []kgo.Opt{kgo.DisableAutoCommit()}},
}

func (c gcfg) protoOpts() []kgo.Opt {
	switch {
	case c.eager:
		return []kgo.Opt{kgo.Balancers(kgo.RoundRobinBalancer())}
	case c.next:
		return []kgo.Opt{kgo.Balancers(kgo.CooperativeStickyBalancer()),
			kgo.WithContext(context.WithValue(context.Background(), "opt_in_kafka_next_gen_balancer_beta", true))}
	}
	return nil
}

// quickCfgs is how many of gcfgs the quick tier runs.
const quickCfgs = 4

// The quick tier leaves CommitRecords (same path as CommitUncommittedOffsets
// below the public function; the hand-written scenarios issue it) to the
// thorough tier.
func t1alphabet(c gcfg, thorough bool) string {
	a := "AaSUzPZ"
	if c.marks {
		a = "AaSUMzPZ"
	}
	if thorough {
		a += "R"
	}
	return a
}

func scriptsOver(alpha string, n int) []string {
	out := []string{""}
	for i := 0; i < n; i++ {
		var next []string
		for _, s := range out {
			for _, r := range alpha {
				next = append(next, s+string(r))
			}
		}
		out = next
	}
	return out
}

func t2scripts(t1 string, thorough bool) []string {
	var out []string
	if strings.ContainsRune(t1, 'a') {
		out = append(out, "C")
	}
	out = append(out, "-", "B", "L", "X")
	if thorough {
		out = append(out, "F", "BF")
		if strings.ContainsRune(t1, 'a') {
			out = append(out, "CF")
		}
	}
	return out
}

type gcall struct {
	idx     int // 1-based number among the commit calls of the script
	sym     rune
	tag     string
	mayStop bool // issued with the cancellable context
	issued  bool // the PreCommitFn ran: a request was built
	offsets map[int32]int64
	done    bool
	err     error
	codes   map[int32]int16 // nil: the API returns only an error value
}

func (c *gcall) success(p int32) bool {
	if !c.done || !c.issued || c.err != nil {
		return false
	}
	if _, ok := c.offsets[p]; !ok {
		return false
	}
	if c.codes == nil {
		return true
	}
	code, ok := c.codes[p]
	return ok && code == 0
}

type gframe struct {
	conn   string
	corr   int32
	tag    string // "" = issued by the client on its own
	call   int
	parts  map[int32]int64
	status map[int32]int
}

type gstate struct {
	mu       sync.Mutex
	x        *netctl.Exec
	cfg      gcfg
	t1, t2   string
	cl       *kgo.Client
	b        *kgo.Client
	addrs    []string
	calls    []*gcall
	frames   []*gframe
	maxCall  int
	act      int // commit activity counter (frames, responses, completions)
	syncs    int // SyncGroup requests of M that reached the broker
	leaves   int
	ready    bool
	initDone chan struct{}
	over     atomic.Bool
	ended    bool // T2 closed the client or left the group
	implOpen int  // requests of the client's own current commit delivered, its callback not yet run
}

// ownCommitDone is the AutoCommitCallback: the client's own commit (autocommit
// tick, commit of the default OnPartitionsRevoked) is over.
func (st *gstate) ownCommitDone(*kgo.Client, *kmsg.OffsetCommitRequest, *kmsg.OffsetCommitResponse, error) {
	st.mu.Lock()
	st.implOpen = 0
	st.act++
	st.mu.Unlock()
}

const tagPrefix = "c09-call-"

func (st *gstate) finish(c *gcall, codes map[int32]int16, err error) {
	st.mu.Lock()
	if c.done {
		st.mu.Unlock()
		st.x.Violate("callback-twice", "completion of call %d (%c) reported twice", c.idx, c.sym)
		return
	}
	c.done, c.codes, c.err = true, codes, err
	st.act++
	ended := st.ended
	st.mu.Unlock()
	if err != nil && errors.Is(err, context.Canceled) && !c.mayStop && !ended {
		st.x.Violate("commit-canceled", "call %d (%c, offsets %s) finished with %v although the application never cancels its context: the client dropped an issued commit", c.idx, c.sym, offs(c.offsets), err)
	}
}

// ctxFor returns the context of a commit call: it tags the request and
// records what it carries.
func (st *gstate) ctxFor(c *gcall, base context.Context) context.Context {
	return kgo.PreCommitFnContext(base, func(req *kmsg.OffsetCommitRequest) error {
		m := map[int32]int64{}
		for i := range req.Topics {
			for j := range req.Topics[i].Partitions {
				p := &req.Topics[i].Partitions[j]
				tag := c.tag
				p.Metadata = &tag
				m[p.Partition] = p.Offset
			}
		}
		st.mu.Lock()
		c.issued, c.offsets = true, m
		st.mu.Unlock()
		return nil
	})
}

func (st *gstate) onDone(c *gcall) func(*kgo.Client, *kmsg.OffsetCommitRequest, *kmsg.OffsetCommitResponse, error) {
	return func(_ *kgo.Client, _ *kmsg.OffsetCommitRequest, resp *kmsg.OffsetCommitResponse, err error) {
		var codes map[int32]int16
		if err == nil {
			codes = map[int32]int16{}
			if resp != nil {
				for _, t := range resp.Topics {
					for _, p := range t.Partitions {
						codes[p.Partition] = p.ErrorCode
					}
				}
			}
		}
		st.finish(c, codes, err)
	}
}

func (c *gcall) codesAPI() bool { return strings.ContainsRune("AaS", c.sym) }

func (st *gstate) hasFrame(call int) bool {
	for _, f := range st.frames {
		if f.call == call {
			return true
		}
	}
	return false
}

func (st *gstate) allDone() bool {
	st.mu.Lock()
	defer st.mu.Unlock()
	for _, c := range st.calls {
		if !c.done {
			return false
		}
	}
	return true
}

func (st *gstate) wire() string {
	var s []string
	for _, f := range st.frames {
		if f.call == 0 {
			s = append(s, "i")
		} else {
			s = append(s, fmt.Sprint(f.call))
		}
	}
	return strings.Join(s, ",")
}

func (st *gstate) hook(c *netctl.Conn, dir string, key, ver int16, frame []byte) {
	if c.Client != "M" {
		return
	}
	if dir == "req" && (key == 14 || key == 13) {
		st.mu.Lock()
		if key == 14 {
			st.syncs++
		} else {
			st.leaves++
		}
		st.mu.Unlock()
		return
	}
	if key != 8 {
		return
	}
	switch dir {
	case "req":
		kreq, corr, ok := netctl.DecodeRequest(frame)
		if !ok {
			st.x.Violate("harness:decode", "undecodable OffsetCommit request v%d", ver)
			return
		}
		req := kreq.(*kmsg.OffsetCommitRequest)
		f := &gframe{conn: c.Name, corr: corr, parts: map[int32]int64{}, status: map[int32]int{}}
		for _, t := range req.Topics {
			for _, p := range t.Partitions {
				f.parts[p.Partition] = p.Offset
				if p.Metadata != nil && strings.HasPrefix(*p.Metadata, tagPrefix) {
					f.tag = *p.Metadata
				}
			}
		}
		st.mu.Lock()
		defer st.mu.Unlock()
		st.act++
		if f.tag != "" {
			fmt.Sscanf(strings.TrimPrefix(f.tag, tagPrefix), "%d", &f.call)
		}
		prev := -1
		for i := len(st.frames) - 1; i >= 0 && f.call != 0; i-- {
			if st.frames[i].call == f.call {
				prev = i
				break
			}
		}
		st.frames = append(st.frames, f)
		if f.call == 0 {
			st.implOpen++
			// Calls with a callback are marked done inside it, i.e. before the
			// client releases the next commit; the others only after the API
			// returned (the X-own-X pattern below covers those).
			for _, cc := range st.calls {
				if cc.codesAPI() && cc.issued && !cc.done && st.hasFrame(cc.idx) {
					st.x.Violate("commit-interleaved", "a commit issued by the client on its own reached the broker while call %d (%c %s) was still in flight (wire: %s)", cc.idx, cc.sym, offs(cc.offsets), st.wire())
				}
			}
			return
		}
		if f.call < 1 || f.call > len(st.calls) {
			st.x.Violate("commit-unattributed", "OffsetCommit request tagged %q reached the broker but no such call was issued", f.tag)
			return
		}
		cc := st.calls[f.call-1]
		if !sameOffsets(cc.offsets, f.parts) {
			st.x.Violate("commit-content-changed", "request of call %d carries %s on the wire but %s when it was issued", f.call, offs(f.parts), offs(cc.offsets))
		}
		if st.implOpen > 0 {
			st.x.Violate("commit-interleaved", "a request of call %d (%c %s) reached the broker while a commit issued by the client on its own (autocommit / revoke) was still in flight (wire: %s)", f.call, cc.sym, offs(f.parts), st.wire())
		}
		if cc.done {
			st.x.Violate("commit-after-completion", "an OffsetCommit request of call %d (%c %s) reached the broker after the call had reported completion (wire: %s)", f.call, cc.sym, offs(f.parts), st.wire())
		}
		if f.call < st.maxCall {
			st.x.Violate("commit-reordered", "OffsetCommit request of call %d (%c %s) was delivered to the broker after a request of the later call %d (wire: %s)", f.call, cc.sym, offs(f.parts), st.maxCall, st.wire())
		} else if prev >= 0 {
			for _, g := range st.frames[prev+1 : len(st.frames)-1] {
				if g.call != f.call {
					st.x.Violate("commit-interleaved", "a commit issued by the client on its own reached the broker between two attempts of call %d (wire: %s)", f.call, st.wire())
					break
				}
			}
		}
		if f.call > st.maxCall {
			st.maxCall = f.call
		}
	case "resp":
		if len(frame) < 8 {
			return
		}
		corr := int32(binary.BigEndian.Uint32(frame[4:]))
		st.mu.Lock()
		defer st.mu.Unlock()
		var f *gframe
		for i := len(st.frames) - 1; i >= 0; i-- {
			if st.frames[i].conn == c.Name && st.frames[i].corr == corr {
				f = st.frames[i]
				break
			}
		}
		if f == nil {
			return
		}
		kresp, ok := netctl.DecodeResponse(frame, key, ver)
		if !ok {
			st.x.Violate("harness:decode", "undecodable OffsetCommit response v%d", ver)
			return
		}
		st.act++
		for _, t := range kresp.(*kmsg.OffsetCommitResponse).Topics {
			for _, p := range t.Partitions {
				if p.ErrorCode == 0 {
					f.status[p.Partition] = stApplied
				} else {
					f.status[p.Partition] = stRejected
				}
			}
		}
	}
}

func (st *gstate) activity() int { st.mu.Lock(); defer st.mu.Unlock(); return st.act }

func genHelper(x *netctl.Exec, addrs []string, opts ...kgo.Opt) *kgo.Client {
	base := []kgo.Opt{
		kgo.SeedBrokers(addrs...),
		kgo.Dialer(x.DirectDial),
		kgo.ClientID("helper"),
		kgo.MetadataMinAge(10 * time.Millisecond),
		kgo.RetryBackoffFn(func(int) time.Duration { return 10 * time.Millisecond }),
		kgo.DisableClientMetrics(),
	}
	cl, err := kgo.NewClient(append(base, opts...)...)
	if err != nil {
		panic(fmt.Sprintf("c09: helper client: %v", err))
	}
	return cl
}

// The first two are the quick tier's.
var brkNames = []string{"load1", "ok", "perr1", "notcoord1"}
var brkCodes = []int16{14, 0, 3, 16}

func genScenario() *netctl.Scenario {
	return &netctl.Scenario{
		Name:      "CG",
		Faults:    commitFaults,
		Horizon:   4 * time.Minute,
		MaxPoints: 600,
		Setup: func(x *netctl.Exec) {
			const L = 3
			thorough := ev.Thorough()
			cfgs, brks := gcfgs[:quickCfgs], brkNames[:2]
			if thorough {
				cfgs, brks = gcfgs, brkNames
			}
			var cfgNames []string
			for _, c := range cfgs {
				cfgNames = append(cfgNames, c.name)
			}
			cfg := cfgs[x.ChooseOf("cfg", cfgNames)]
			t1s := scriptsOver(t1alphabet(cfg, thorough), L)
			t1 := t1s[x.ChooseOf("t1", t1s)]
			// Second thread, its gate and the broker's first answer are ONE choice
			// (fewer generations in the explorer's breadth-first order, so every
			// script meets its disturbances early even if the time slice cuts the
			// family short): "<t2>@<gate>/<brk>".
			type envOpt struct {
				t2        string
				gate, brk int
			}
			var envs []envOpt
			var envNames []string
			for _, s2 := range t2scripts(t1, thorough) {
				for g := 0; g <= L; g++ {
					if s2 == "-" && g > 0 {
						break
					}
					for b := range brks {
						envs = append(envs, envOpt{s2, g, b})
						envNames = append(envNames, fmt.Sprintf("%s@%d/%s", s2, g, brks[b]))
					}
				}
			}
			env := envs[x.ChooseOf("env", envNames)]
			t2, gate, brk := env.t2, env.gate, env.brk

			c := x.Cluster(1, kfake.SeedTopics(2, "t"), kfake.GroupMaxSessionTimeout(10*time.Minute))
			st := &gstate{x: x, cfg: cfg, t1: t1, t2: t2, initDone: make(chan struct{})}
			st.addrs = c.ListenAddrs()
			x.Data = st
			x.FrameHook = st.hook
			if code := brkCodes[brk]; code != 0 {
				c.ControlKey(8, func(kreq kmsg.Request) (kmsg.Response, error, bool) {
					req := kreq.(*kmsg.OffsetCommitRequest)
					resp := req.ResponseKind().(*kmsg.OffsetCommitResponse)
					for _, t := range req.Topics {
						rt := kmsg.NewOffsetCommitResponseTopic()
						rt.Topic, rt.TopicID = t.Topic, t.TopicID
						for _, p := range t.Partitions {
							rp := kmsg.NewOffsetCommitResponseTopicPartition()
							rp.Partition, rp.ErrorCode = p.Partition, code
							rt.Partitions = append(rt.Partitions, rp)
						}
						resp.Topics = append(resp.Topics, rt)
					}
					return resp, nil, true // handled: the control function is dropped
				})
			}

			h := genHelper(x, st.addrs, kgo.RecordPartitioner(kgo.ManualPartitioner()))
			var recs []*kgo.Record
			for p := int32(0); p < 2; p++ {
				for i := 0; i < nRecords; i++ {
					recs = append(recs, &kgo.Record{Topic: "t", Partition: p, Value: []byte(fmt.Sprintf("p%d-%d", p, i))})
				}
			}
			pctx, pcancel := context.WithTimeout(context.Background(), time.Minute)
			if err := h.ProduceSync(pctx, recs...).FirstErr(); err != nil {
				panic(fmt.Sprintf("c09: preload: %v", err))
			}
			pcancel()
			h.Close()

			common := []kgo.Opt{
				kgo.ConsumerGroup("g"),
				kgo.ConsumeTopics("t"),
				kgo.SessionTimeout(5 * time.Minute),
				kgo.HeartbeatInterval(time.Second),
				kgo.RebalanceTimeout(30 * time.Second),
				kgo.ConsumeResetOffset(kgo.NewOffset().AtStart()),
			}
			common = append(common, cfg.protoOpts()...)
			mOpts := append(append([]kgo.Opt{}, common...), cfg.opts...)
			interval := 100 * time.Millisecond
			if cfg.auto {
				mOpts = append(mOpts, kgo.AutoCommitCallback(st.ownCommitDone))
				if cfg.name == "auto-long" {
					interval = 5 * time.Second
				}
			}
			tClient := time.Now() // the autocommit ticker starts with the client
			st.cl = nscen.NewClient(x, "M", c, mOpts...)
			bOpts := append(append(nscen.BaseOpts(x, "B", c), common...), kgo.DisableAutoCommit())
			x.OnCleanup(func() {
				st.mu.Lock()
				b := st.b
				st.mu.Unlock()
				if b != nil {
					b.Close()
				}
			})
			bg := context.Background()
			ctxc, cancelc := context.WithCancel(bg)
			x.OnCleanup(cancelc)

			gates := make([]chan struct{}, L+1)
			for i := range gates {
				gates[i] = make(chan struct{})
			}
			var once [8]sync.Once
			open := func(i int) { once[i].Do(func() { close(gates[i]) }) }
			var onceInit sync.Once
			initDone := func() { onceInit.Do(func() { close(st.initDone) }) }

			// Commit calls are numbered in script order.
			n := 0
			for _, op := range t1 {
				if strings.ContainsRune("RUMAaS", op) {
					n++
					st.calls = append(st.calls, &gcall{idx: n, sym: op, tag: fmt.Sprint(tagPrefix, n), mayStop: op == 'a'})
				}
			}

			// T2 first: once its gate is open its calls come before T1's next one.
			x.Thread("T2", func(t *netctl.Thread) {
				<-gates[gate]
				if !st.ready {
					return
				}
				for _, op := range strings.TrimPrefix(t2, "-") {
					switch op {
					case 'C':
						t.Step("cancel-a-ctx")
						cancelc()
					case 'B':
						t.Step("B-joins-group")
						b, err := kgo.NewClient(bOpts...)
						if err != nil {
							panic(fmt.Sprintf("c09: client B: %v", err))
						}
						st.mu.Lock()
						st.b = b
						st.mu.Unlock()
					case 'F':
						t.Step("M-force-rebalance")
						st.cl.ForceRebalance()
					case 'L':
						t.Step("M-leave-group")
						st.mu.Lock()
						st.ended = true
						st.mu.Unlock()
						st.cl.LeaveGroup()
					case 'X':
						t.Step("M-close")
						st.mu.Lock()
						st.ended = true
						st.mu.Unlock()
						st.cl.Close()
					}
				}
			})

			x.Thread("T1", func(t *netctl.Thread) {
				defer func() {
					initDone()
					for i := range gates {
						open(i)
					}
				}()
				var last []*kgo.Record
				poll := func() {
					ctx, cancel := context.WithTimeout(bg, 2*time.Second)
					fs := st.cl.PollRecords(ctx, 2)
					cancel()
					if rs := fs.Records(); len(rs) > 0 {
						last = rs
					}
				}
				seen := map[int32]bool{}
				for i := 0; i < 12 && len(seen) < 2; i++ {
					poll()
					for _, r := range last {
						seen[r.Partition] = true
					}
				}
				st.ready = len(seen) == 2
				initDone()
				if !st.ready {
					return
				}
				eo := func(m map[int32]int64) map[string]map[int32]kgo.EpochOffset {
					out := map[int32]kgo.EpochOffset{}
					for p, o := range m {
						out[p] = kgo.EpochOffset{Epoch: -1, Offset: o}
					}
					return map[string]map[int32]kgo.EpochOffset{"t": out}
				}
				k := 0
				for i, op := range t1 {
					open(i)
					var cc *gcall
					if strings.ContainsRune("RUMAaS", op) {
						cc = st.calls[k]
						k++
					}
					switch op {
					case 'P':
						t.Step("poll")
						poll()
					case 'Z':
						t.Step("think-6s")
						time.Sleep(6 * time.Second)
					case 'z':
						t.Step("think-past-tick")
						time.Sleep(interval - time.Since(tClient)%interval + 5*time.Millisecond)
					case 'R':
						t.Step(fmt.Sprintf("commit%d-records", cc.idx))
						st.finish(cc, nil, st.cl.CommitRecords(st.ctxFor(cc, bg), last...))
					case 'U':
						t.Step(fmt.Sprintf("commit%d-uncommitted", cc.idx))
						st.finish(cc, nil, st.cl.CommitUncommittedOffsets(st.ctxFor(cc, bg)))
					case 'M':
						t.Step(fmt.Sprintf("commit%d-marked", cc.idx))
						st.cl.MarkCommitRecords(last...)
						st.finish(cc, nil, st.cl.CommitMarkedOffsets(st.ctxFor(cc, bg)))
					case 'A':
						t.Step(fmt.Sprintf("commit%d-async", cc.idx))
						v := int64(cc.idx)
						st.cl.CommitOffsets(st.ctxFor(cc, bg), eo(map[int32]int64{0: v, 1: v}), st.onDone(cc))
					case 'a':
						t.Step(fmt.Sprintf("commit%d-async-ctx", cc.idx))
						v := int64(cc.idx)
						st.cl.CommitOffsets(st.ctxFor(cc, ctxc), eo(map[int32]int64{0: v, 1: v}), st.onDone(cc))
					case 'S':
						t.Step(fmt.Sprintf("commit%d-sync", cc.idx))
						st.cl.CommitOffsetsSync(st.ctxFor(cc, bg), eo(map[int32]int64{0: int64(cc.idx)}), st.onDone(cc))
					}
				}
				open(len(t1))
			})
			x.OnCleanup(func() { st.over.Store(true) }) // registered last: runs first
		},
		Done: func(x *netctl.Exec) bool {
			st := x.Data.(*gstate)
			return x.ThreadsDone() && (!st.ready || st.allDone())
		},
		Final: func(x *netctl.Exec) { genFinal(x, x.Data.(*gstate)) },
	}
}

func genFinal(x *netctl.Exec, st *gstate) {
	deadline := time.Now().Add(3 * time.Minute)
	settled := func() bool {
		select {
		case <-st.initDone:
		default:
			return false
		}
		return x.ThreadsDone() && (!st.ready || st.allDone())
	}
	for !settled() && time.Now().Before(deadline) {
		time.Sleep(100 * time.Millisecond)
	}
	if !settled() {
		st.mu.Lock()
		var open []string
		for _, c := range st.calls {
			if !c.done {
				open = append(open, fmt.Sprintf("%d(%c)", c.idx, c.sym))
			}
		}
		st.mu.Unlock()
		x.Violate("commit-stuck", "script %s/%s: calls %v (or a thread) not finished 3 virtual minutes into a fault-free suffix", st.t1, st.t2, open)
		x.Observe("stuck")
		return
	}
	if !st.ready {
		x.Observe("prologue-incomplete")
		return
	}
	// Let the client's own commits settle, then take a consistent sample.
	for i := 0; i < 60; i++ {
		a := st.activity()
		time.Sleep(300 * time.Millisecond)
		if st.activity() == a {
			break
		}
	}
	var fetched kadm.OffsetResponses
	var view map[string]map[int32]kgo.EpochOffset
	sampled := false
	for i := 0; i < 6 && !sampled && !st.over.Load(); i++ {
		a := st.activity()
		h := genHelper(x, st.addrs)
		ctx, cancel := context.WithTimeout(context.Background(), time.Minute)
		f, err := kadm.NewClient(h).FetchOffsets(ctx, "g")
		cancel()
		h.Close()
		if st.over.Load() {
			return
		}
		if err != nil {
			x.Violate("harness:offsetfetch", "admin OffsetFetch: %v", err)
			return
		}
		fetched, view = f, st.cl.CommittedOffsets()
		sampled = st.activity() == a
		if !sampled {
			time.Sleep(300 * time.Millisecond)
		}
	}
	if !sampled {
		x.Observe("unsettled")
		return
	}

	st.mu.Lock()
	defer st.mu.Unlock()
	var obs []string
	for _, c := range st.calls {
		switch {
		case !c.issued && c.err == nil:
			obs = append(obs, fmt.Sprintf("%c%d=noop", c.sym, c.idx))
		case c.err != nil:
			obs = append(obs, fmt.Sprintf("%c%d=err(%s)", c.sym, c.idx, nscen.ErrClass(c.err)))
		case c.codes != nil:
			var ps []int
			for p := range c.codes {
				ps = append(ps, int(p))
			}
			sort.Ints(ps)
			s := ""
			for _, p := range ps {
				s += fmt.Sprintf("%d/%d ", p, c.codes[int32(p)])
			}
			obs = append(obs, fmt.Sprintf("%c%d=[%s]", c.sym, c.idx, strings.TrimSpace(s)))
		default:
			obs = append(obs, fmt.Sprintf("%c%d=ok%s", c.sym, c.idx, offs(c.offsets)))
		}
	}
	obs = append(obs, "wire="+st.wire())
	stable := st.syncs <= 1 && st.leaves == 0 && !st.ended && (st.t2 == "-" || st.t2 == "C")

	type entry struct {
		pos      int
		explicit bool
		idx      int
		val      int64
	}
	for p := int32(0); p < 2; p++ {
		var es []entry
		for _, c := range st.calls {
			if !c.success(p) {
				continue
			}
			pos := -1
			for i, f := range st.frames {
				if f.call == c.idx {
					if _, ok := f.parts[p]; ok {
						pos = i
					}
				}
			}
			if pos < 0 {
				x.Violate("success-without-request", "call %d (%c %s) reported success for t/%d but no request of it reached the broker", c.idx, c.sym, offs(c.offsets), p)
				continue
			}
			es = append(es, entry{pos: pos, explicit: true, idx: c.idx, val: c.offsets[p]})
		}
		lastApplied := -1
		for i, f := range st.frames {
			v, ok := f.parts[p]
			if !ok {
				continue
			}
			if f.status[p] == stApplied {
				lastApplied = i
				if f.call == 0 {
					es = append(es, entry{pos: i, val: v})
				}
			}
		}
		sort.SliceStable(es, func(i, j int) bool { return es[i].pos < es[j].pos })
		// explicit calls count in ISSUE order: re-sort them inside their slots
		var ex []entry
		for _, e := range es {
			if e.explicit {
				ex = append(ex, e)
			}
		}
		sort.SliceStable(ex, func(i, j int) bool { return ex[i].idx < ex[j].idx })
		k := 0
		for i := range es {
			if es[i].explicit {
				pos := es[i].pos
				es[i] = ex[k]
				es[i].pos = pos
				k++
			}
		}
		brokerOK := map[int64]string{}
		viewOK := map[int64]string{}
		want := "none"
		if len(es) == 0 {
			brokerOK[-1], viewOK[0] = "no successful commit", "no successful commit"
		} else {
			s := es[len(es)-1]
			if s.explicit {
				want = fmt.Sprintf("call %d = %d", s.idx, s.val)
			} else {
				want = fmt.Sprintf("the client's own commit (wire position %d) = %d", s.pos+1, s.val)
			}
			brokerOK[s.val], viewOK[s.val] = want, want
		}
		if lastApplied >= 0 {
			if f := st.frames[lastApplied]; f.call != 0 && !st.calls[f.call-1].success(p) {
				// acknowledged for p although the call reported failure (an API that
				// returns one error for all partitions, or a cancellation racing the response)
				brokerOK[f.parts[p]] = fmt.Sprintf("call %d acknowledged but reported as failed", f.call)
				viewOK[f.parts[p]] = brokerOK[f.parts[p]]
			}
		}
		for _, f := range st.frames[lastApplied+1:] {
			if v, ok := f.parts[p]; ok && f.status[p] == stUnknown {
				brokerOK[v] = "request reached the broker, response never delivered"
			}
		}

		b := int64(-1)
		if o, ok := fetched.Lookup("t", p); ok {
			if o.Err != nil {
				x.Violate("harness:offsetfetch", "admin OffsetFetch t/%d: %v", p, o.Err)
				continue
			}
			b = o.At
		}
		if _, ok := brokerOK[b]; !ok {
			x.Violate("broker-offset-mismatch", "cfg %s script %s/%s t/%d: group's committed offset is %d, but the last successful commit is %s (allowed: %v); %s", st.cfg.name, st.t1, st.t2, p, b, want, keys(brokerOK), strings.Join(obs, " "))
		}
		if m := view["t"]; m != nil {
			if eo, ok := m[p]; ok {
				obs = append(obs, fmt.Sprintf("v%d=%d", p, eo.Offset))
				_, okv := viewOK[eo.Offset]
				// Judged only while the first assignment is still in place: after a
				// revoke / re-assign / leave the entry is dropped, re-read from the
				// broker, or recreated empty by MarkCommitRecords; the docs leave
				// its value open.
				if !okv && stable {
					x.Violate("client-view-mismatch", "cfg %s script %s/%s t/%d: CommittedOffsets() reports %d, but the last successful commit is %s (allowed: %v; broker has %d; assignment stable: %v); %s", st.cfg.name, st.t1, st.t2, p, eo.Offset, want, keys(viewOK), b, stable, strings.Join(obs, " "))
				}
			}
		}
		obs = append(obs, fmt.Sprintf("b%d=%d", p, b))
	}
	x.Observe("%s", strings.Join(obs, " "))
}

// GenPlans returns the generated family. Quick: 4 configurations x every
// script of three symbols over {A,a,S,U,(M),P,Z} x second thread {-,C,B,L,X}
// x gate x broker answer {load, ok}, default schedule. Thorough: 7
// configurations, alphabet + R, second thread + {F,BF,CF}, broker answer +
// {partition error, not coordinator} on the default schedule, then every
// single deviation (time-capped).
func GenPlans() []nrun.Plan {
	return []nrun.Plan{{Scenario: genScenario(), QuickBudget: 0, ThoroughBudget: 1, Weight: 5}}
}
