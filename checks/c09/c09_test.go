package c09

import (
	"testing"
	"time"

	"verif/checks/c09/oscen"
	"verif/lib/nrun"
)

func TestC09(t *testing.T) {
	nrun.Main(t, &nrun.Check{
		ID: "C09", TestName: "TestC09", Plans: oscen.Plans(),
		QuickTime: 110 * time.Second, ThorTime: 15 * time.Minute,
		Rule: "engine N: generated family CG = every (configuration, three-symbol commit script, second-thread action and gate, first coordinator answer) combination on the default schedule (thorough: plus every single deviation, time-capped); hand-written scenarios: every order of application calls (five commits issued in program order by one group member: 2x CommitOffsets async, CommitOffsetsSync, CommitRecords, CommitUncommittedOffsets; in the C-rebalance variants a second member joining the group and a forced rejoin of the first, cooperative and eager; in C-cancel-queued three asynchronous commits of which the second has its context cancelled by a separate thread), request/response frame deliveries, timer ticks and injected faults on OffsetCommit (stalled request, COORDINATOR_LOAD_IN_PROGRESS, NOT_COORDINATOR, UNKNOWN_TOPIC_OR_PARTITION, connection killed before / after the broker handled it) within k deviations of the default order; distinct = distinct terminal outcomes (per-call result, wire order of attributed OffsetCommit requests, broker offsets, CommittedOffsets view)",
		Assume: []string{"kfake is the group coordinator", "synctests build of xsync (C31 covers the channel mutexes)", "a request the client abandons by closing its connection is never delivered afterwards (proxy model)", "goroutine micro-interleavings inside one event are the Go runtime's"},
	})
}
