#!/bin/bash
# C34 kfake authorization matches Kafka's authorizer.
# usage: run.sh                 (tier from VERIF_TIER)
#        run.sh --replay <violation artefact json>
set -eu
cd "$(dirname "$0")/../.."
. bin/env.sh                      # sets REPO, BUILD, GOFLAGS, VERIF_TIER, VERIF_WORKERS, inpkg_test
bin="$BUILD/c34_kfake.test"
inpkg_test pkg/kfake "$VERIF_ROOT/hooks/inpkg/c34_kfake_test.go" "$bin" || { echo "INFRA-ERROR: building the in-package harness failed" >&2; exit 2; }
if [ "${1:-}" = "--replay" ]; then
  export VERIF_C34_REPLAY="$2"
fi
set +e
"$bin" -test.run '^TestVerifC34$' -test.timeout 0
rc=$?
set -e
# the harness exits 0 (held) / 1 (VIOLATION) / 2 (infra) itself; anything else is a crash
case $rc in 0|1|2) exit $rc;; *) echo "INFRA-ERROR: harness exited with $rc" >&2; exit 2;; esac
