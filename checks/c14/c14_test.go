package c14

import (
	"strings"
	"testing"
	"time"

	"verif/checks/c01/pscen"
	"verif/checks/c04/cscen"
	"verif/lib/nrun"
)

// C14 rides on the producer scenarios of C01 and the direct-consumer
// scenarios of C04: both families install nscen.HookLedger through
// kgo.WithHooks and judge the buffered/unbuffered pairing in Final. Only the
// hook-* oracle failures (and harness keys) belong to this property.
func plans() []nrun.Plan {
	var out []nrun.Plan
	out = append(out, pscen.Plans()...)
	out = append(out, cscen.Plans()...)
	// generated producer family (5 configurations x scripts x disruptors x gates), default schedule
	out = append(out, pscen.GenPlans()...)
	// generated consumer hook family (hook speed x placement x polling scripts x seek/remove/purge/second poller/Close
	// disruptors started after a poll or while its hook dispatch is running), default schedule
	out = append(out, cscen.HookGenPlans()...)
	return out
}

func keep(_, key string) bool {
	return strings.HasPrefix(key, "hook-") || key == "worker-crash"
}

func TestC14(t *testing.T) {
	nrun.Main(t, &nrun.Check{
		ID: "C14", TestName: "TestC14", Plans: plans(), Keep: keep,
		QuickTime: 85 * time.Second, ThorTime: 18 * time.Minute,
		Rule:   "engine N, riding on the C01 producer scenarios (Flush / AbortBufferedRecords / PurgeTopicsFromClient / context cancel / Close as disruptors, produce faults) and the C04 direct-consumer scenarios (small polls, pause/resume, leader moves that discard buffered fetches, fetch faults, Close): every order of application calls, frame deliveries, ticks and faults within k deviations, plus the generated consumer hook family HG (4 configurations: OnFetchRecordUnbuffered instantaneous or taking 30 ms of virtual time per record x partitions on two brokers or one; polling scripts of 2-3 calls over PollFetches/PollRecords(1)/PollRecords(3); every disruptor script of at most two calls over SetOffsets back/forward, RemoveConsumePartitions, AddConsumePartitions, PurgeTopicsFromConsuming, PauseFetchPartitions, a second concurrent PollFetches, Close-last, started after the g-th poll returned or while its hook dispatch is running, optionally after fresh records were appended and buffered: 4,160 combinations quick, 44,200 thorough on the default schedule, thorough then single deviations time-capped); in each execution every record seen by OnProduceRecordBuffered must be seen exactly once by OnProduceRecordUnbuffered with the error its promise got, every record seen by OnFetchRecordBuffered exactly once by OnFetchRecordUnbuffered (polled or discarded), and BufferedFetchRecords/Bytes must be zero when nothing is buffered; distinct = distinct terminal outcomes per scenario",
		Assume: []string{"same executions and assumptions as C01 and C04", "the group-rebalance discard path is exercised by the C04 leader-move scenarios (assignment invalidation), not by a group scenario"},
	})
}
