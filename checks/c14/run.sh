#!/bin/bash
set -eu
cd "$(dirname "$0")/../.."
. bin/env.sh
go test -c -tags synctests,verif -o "$BUILD/c14.test" ./checks/c14
exec "$BUILD/c14.test" -test.run '^TestC14$' -test.timeout 0
