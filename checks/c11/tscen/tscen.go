// Package tscen holds the transactional producer scenario family T (DESIGN.md §4 C11).
package tscen

import (
	"context"
	"errors"
	"fmt"
	"os"
	"sort"
	"strings"
	"sync"
	"time"

	"github.com/twmb/franz-go/pkg/kerr"
	"github.com/twmb/franz-go/pkg/kfake"
	"github.com/twmb/franz-go/pkg/kgo"
	"github.com/twmb/franz-go/pkg/kmsg"
	"github.com/twmb/franz-go/pkg/kversion"

	"verif/lib/netctl"
	"verif/lib/nrun"
	"verif/lib/nscen"
)

// Scenario family T (DESIGN.md §4 C11): one transactional producer, topic t
// with two partitions led by different brokers, one application thread that
// runs two transactions back to back:
//
//	txn a: Begin, Produce a1->t/0, a2->t/1, Flush, EndTransaction(TryCommit)
//	txn b: Begin, Produce b1->t/0, b2->t/1, Flush, EndTransaction(TryCommit)
//
// following the EndTransaction documentation on errors (retry with TryAbort).
// Record values identify the transaction, so the final read_committed view
// tells which transaction's End made a record visible.

type txnLog struct {
	Name        string
	Recs        []string
	Began       bool
	BeginErr    error
	Prom        map[string]error
	PromCalls   map[string]int
	FlushErr    error
	CommitCall  bool
	CommitErr   error
	Recommit    bool // the application retried TryCommit after an unconfirmed commit
	RecommitErr error
	Aborts      []error
	// frames observed at the proxy while this transaction was the current one
	CommitReqs int // EndTxn(commit=true) requests delivered to the broker
	AbortReqs  int // EndTxn(commit=false) requests delivered to the broker
	OkResps    int // EndTxn responses with error code 0 delivered to the client
}

type state struct {
	mu      sync.Mutex
	cl      *kgo.Client
	c       *kfake.Cluster
	th      *netctl.Thread
	phase   int
	txns    []*txnLog
	stopped string
	group   bool
}

const callTimeout = 70 * time.Second

func errClass(err error) string {
	if err == nil {
		return "nil"
	}
	var ke *kerr.Error
	switch {
	case errors.As(err, &ke):
		return ke.Message
	case errors.Is(err, context.DeadlineExceeded), errors.Is(err, context.Canceled):
		return "ctx"
	case errors.Is(err, kgo.ErrClientClosed):
		return "closed"
	}
	s := err.Error()
	switch {
	case strings.Contains(s, "already in a transaction"):
		return "already-in-txn"
	case strings.Contains(s, "fatal, unrecoverable"):
		return "fatal-pid"
	case strings.Contains(s, "cannot retry a commit"):
		return "commit-retry-refused"
	case strings.Contains(s, "not in a transaction"):
		return "not-in-txn"
	case strings.Contains(s, "producer id"), strings.Contains(s, "producer ID"):
		return "pid-load"
	}
	return "transport"
}

// retryAsAbort is the documented classification of EndTransaction errors
// after which the application retries with TryAbort: OPERATION_NOT_ATTEMPTED,
// TRANSACTION_ABORTABLE, and an unconfirmed outcome (transport error,
// UNKNOWN_SERVER_ERROR, or a retriable broker code that outlived the client's
// retries).
func retryAsAbort(err error) bool {
	var ke *kerr.Error
	if errors.As(err, &ke) {
		return ke.Retriable || errors.Is(err, kerr.OperationNotAttempted) || errors.Is(err, kerr.TransactionAbortable) || errors.Is(err, kerr.UnknownServerError)
	}
	if errors.Is(err, context.DeadlineExceeded) || errors.Is(err, context.Canceled) {
		return false
	}
	return true
}

func faults(x *netctl.Exec, dir string, key int16, c *netctl.Conn) []string {
	if dir == "resp" {
		switch key {
		case 22, 24, 0, 25, 28, 26:
			return []string{"killafter"}
		}
		return nil
	}
	switch key {
	case 22: // InitProducerID
		return []string{"killbefore", "err:15", "err:51"}
	case 24: // AddPartitionsToTxn
		return []string{"killbefore", "err:15", "err:51"}
	case 0: // Produce
		return []string{"killbefore", "err:6", "err:47"}
	case 25: // AddOffsetsToTxn
		return []string{"killbefore", "err:14", "err:51"}
	case 28: // TxnOffsetCommit
		return []string{"killbefore", "err:14", "err:51"}
	case 26: // EndTxn
		return []string{"killbefore", "err:14", "err:16", "err:51", "err:47", "err:90"}
	}
	return nil
}

type variant struct {
	name        string
	tv1         bool // broker capped below KIP-890 part 2: explicit AddPartitionsToTxn, EndTxn v4
	retries     int  // kgo.RequestRetries
	alwaysAbort bool // application follows EVERY failed commit with one TryAbort (else only the documented classes)
	probeCommit bool // after an unconfirmed commit the application first retries TryCommit once (documented to be refused)
}

func tv1Versions() *kversion.Versions {
	v := kversion.Stable()
	v.SetMaxKeyVersion(0, 11) // Produce < v12: no implicit partition add, no transaction.version feature
	v.SetMaxKeyVersion(24, 3) // AddPartitionsToTxn
	v.SetMaxKeyVersion(26, 4) // EndTxn < v5: no epoch bump
	v.SetMaxKeyVersion(28, 4) // TxnOffsetCommit < v5: explicit AddOffsetsToTxn
	return v
}

func scenario(v variant) *netctl.Scenario {
	return &netctl.Scenario{
		Name:      v.name,
		Faults:    faults,
		Horizon:   4 * time.Minute,
		MaxPoints: 400,
		// the application pausing longer than the 10 s transaction timeout
		Idle: []time.Duration{15 * time.Second},
		Setup: func(x *netctl.Exec) {
			opts := []kfake.Opt{kfake.SeedTopics(2, "t")}
			if v.tv1 {
				opts = append(opts, kfake.MaxVersions(tv1Versions()))
			}
			c := x.Cluster(2, opts...)
			c.MoveTopicPartition("t", 0, 0)
			c.MoveTopicPartition("t", 1, 1)
			st := &state{c: c, phase: -1}
			x.Data = st
			var dbg []kgo.Opt
			if os.Getenv("VERIF_KLOG") != "" {
				dbg = append(dbg, kgo.WithLogger(kgo.BasicLogger(os.Stderr, kgo.LogLevelDebug, nil)))
			}
			st.cl = nscen.NewClient(x, "tx", c, append(dbg,
				kgo.TransactionalID("tx"),
				kgo.TransactionTimeout(10*time.Second),
				kgo.RecordPartitioner(kgo.ManualPartitioner()),
				kgo.ProducerLinger(0),
				kgo.ProduceRequestTimeout(5*time.Second),
				kgo.RequestRetries(v.retries),
			)...)
			x.FrameHook = func(conn *netctl.Conn, dir string, key, ver int16, frame []byte) {
				if key != 26 {
					return
				}
				st.mu.Lock()
				defer st.mu.Unlock()
				if st.phase < 0 {
					return
				}
				tx := st.txns[st.phase]
				if dir == "req" {
					if req, _, ok := netctl.DecodeRequest(frame); ok {
						if req.(*kmsg.EndTxnRequest).Commit {
							tx.CommitReqs++
						} else {
							tx.AbortReqs++
						}
					}
				} else if resp, ok := netctl.DecodeResponse(frame, key, ver); ok {
					if resp.(*kmsg.EndTxnResponse).ErrorCode == 0 {
						tx.OkResps++
					}
				}
			}
			for _, n := range []string{"a", "b"} {
				st.txns = append(st.txns, &txnLog{Name: n, Recs: []string{n + "1", n + "2"}, Prom: map[string]error{}, PromCalls: map[string]int{}})
			}
			st.th = x.Thread("T", func(t *netctl.Thread) {
				for i := range st.txns {
					if !runTxn(x, st, t, i, v) {
						return
					}
				}
			})
		},
		Final: final,
	}
}

// runTxn runs one transaction; it returns false if the application must stop
// (fatal producer state, or a call that did not return within its context).
func runTxn(x *netctl.Exec, st *state, t *netctl.Thread, i int, v variant) bool {
	tx := st.txns[i]
	stop := func(why string) bool {
		st.mu.Lock()
		st.stopped = tx.Name + ":" + why
		st.mu.Unlock()
		return false
	}
	t.Step("begin-" + tx.Name)
	if err := st.cl.BeginTransaction(); err != nil {
		st.mu.Lock()
		tx.BeginErr = err
		st.mu.Unlock()
		return stop("begin:" + errClass(err))
	}
	st.mu.Lock()
	tx.Began = true
	st.phase = i
	st.mu.Unlock()
	for p, name := range tx.Recs {
		name := name
		t.Step("produce-" + name)
		st.cl.Produce(context.Background(), &kgo.Record{Topic: "t", Partition: int32(p), Value: []byte(name)}, func(_ *kgo.Record, err error) {
			st.mu.Lock()
			tx.PromCalls[name]++
			if tx.PromCalls[name] == 1 {
				tx.Prom[name] = err
			}
			st.mu.Unlock()
		})
	}
	t.Step("flush-" + tx.Name)
	ctx, cancel := context.WithTimeout(context.Background(), callTimeout)
	err := st.cl.Flush(ctx)
	cancel()
	if err != nil {
		st.mu.Lock()
		tx.FlushErr = err
		st.mu.Unlock()
		return stop("flush:" + errClass(err))
	}
	st.mu.Lock()
	allOK := true
	for _, n := range tx.Recs {
		if tx.PromCalls[n] == 0 || tx.Prom[n] != nil {
			allOK = false
		}
	}
	st.mu.Unlock()
	needAbort := !allOK
	if allOK {
		t.Step("commit-" + tx.Name)
		ctx, cancel := context.WithTimeout(context.Background(), callTimeout)
		err := st.cl.EndTransaction(ctx, kgo.TryCommit)
		cancel()
		st.mu.Lock()
		tx.CommitCall, tx.CommitErr = true, err
		st.mu.Unlock()
		switch {
		case err == nil:
			return true
		case errClass(err) == "ctx":
			return stop("commit:ctx")
		case v.alwaysAbort || retryAsAbort(err):
			needAbort = true
		}
		var ke *kerr.Error
		if needAbort && v.probeCommit && (!errors.As(err, &ke) || errors.Is(err, kerr.UnknownServerError)) {
			// Unconfirmed outcome. The documentation says a TryCommit retry is
			// refused; if it is not (nil), the application is entitled to
			// believe the transaction committed.
			t.Step("recommit-" + tx.Name)
			ctx, cancel := context.WithTimeout(context.Background(), callTimeout)
			err := st.cl.EndTransaction(ctx, kgo.TryCommit)
			cancel()
			st.mu.Lock()
			tx.Recommit, tx.RecommitErr = true, err
			st.mu.Unlock()
			if err == nil {
				return true
			}
			if errClass(err) == "ctx" {
				return stop("recommit:ctx")
			}
		}
	}
	for tries := 0; needAbort && tries < 3; tries++ {
		t.Step("abort-" + tx.Name)
		ctx, cancel := context.WithTimeout(context.Background(), callTimeout)
		err := st.cl.EndTransaction(ctx, kgo.TryAbort)
		cancel()
		st.mu.Lock()
		tx.Aborts = append(tx.Aborts, err)
		st.mu.Unlock()
		if err == nil {
			break
		}
		if errClass(err) == "ctx" {
			return stop("abort:ctx")
		}
		if !retryAsAbort(err) {
			break
		}
	}
	return true
}

func txnOf(value string) string {
	if len(value) == 2 && (value[0] == 'a' || value[0] == 'b') && (value[1] == '1' || value[1] == '2') {
		return value[:1]
	}
	return ""
}

func readAll(x *netctl.Exec, st *state) (logs [2][]nscen.LogRecord, visible, open []nscen.LogRecord) {
	for p := int32(0); p < 2; p++ {
		logs[p] = nscen.ReadRaw(x, st.c, "t", p)
		v, o := nscen.Committed(logs[p])
		visible = append(visible, v...)
		open = append(open, o...)
	}
	return
}

// ownMarker reports whether, for every visible record of transaction tx, the
// control marker that decided it precedes every record of later transactions
// in the same partition (i.e. the deciding marker is this transaction's own
// end, not the end of a later transaction it was merged into).
func ownMarker(logs [2][]nscen.LogRecord, tx string) bool {
	for _, log := range logs {
		for i, r := range log {
			if r.Control || txnOf(r.Value) != tx {
				continue
			}
			for _, m := range log[i+1:] {
				if m.Control && m.PID == r.PID {
					break
				}
				if !m.Control && txnOf(m.Value) > tx {
					return false
				}
			}
		}
	}
	return true
}

func final(x *netctl.Exec) {
	st := x.Data.(*state)
	// Pass-through: let the application finish (every call is bounded by its context).
	deadline := time.Now().Add(12 * time.Minute)
	for !st.th.Done() && time.Now().Before(deadline) {
		time.Sleep(200 * time.Millisecond)
	}
	appDone := st.th.Done()
	// Longer than the transaction timeout: whatever the client left open is
	// aborted by the coordinator before we judge.
	time.Sleep(15 * time.Second)
	logs, visible, open := readAll(x, st)
	for waited := 0; len(open) > 0 && waited < 12; waited++ {
		time.Sleep(5 * time.Second)
		logs, visible, open = readAll(x, st)
	}
	st.mu.Lock()
	defer st.mu.Unlock()
	count := map[string]int{}
	for _, r := range visible {
		if txnOf(r.Value) == "" {
			x.Violate("harness:unknown-record", "unexpected record %q in t/%d", r.Value, r.Partition)
			continue
		}
		count[r.Value]++
	}
	openSet := map[string]bool{}
	for _, r := range open {
		openSet[r.Value] = true
	}
	var obs []string
	for _, tx := range st.txns {
		var vis []string
		nvis, dup := 0, false
		for _, n := range tx.Recs {
			if count[n] > 0 {
				nvis++
				vis = append(vis, n)
			}
			if count[n] > 1 {
				dup = true
			}
		}
		committed := tx.CommitCall && (tx.CommitErr == nil || (tx.Recommit && tx.RecommitErr == nil))
		desc := describe(tx)
		switch {
		case committed:
			for _, n := range tx.Recs {
				if count[n] == 0 {
					x.Violate("commit-ok-not-visible", "transaction %s: EndTransaction(TryCommit) returned nil but record %s is not in the read_committed view (open=%v); %s", tx.Name, n, openSet[n], desc)
				}
			}
			if dup {
				x.Violate("visible-twice", "transaction %s committed, a record is visible more than once: %v; %s", tx.Name, count, desc)
			}
		case nvis > 0:
			// Not reported as committed, yet visible. The only excusable case
			// is an unconfirmed commit: the commit request reached the broker
			// during this transaction's End call, the client could not confirm
			// it and said so (error), and the records became visible through
			// this transaction's OWN marker, completely and once.
			ambiguous := tx.CommitCall && !committed && tx.CommitReqs > 0 && ownMarker(logs, tx.Name)
			switch {
			case !ambiguous && !ownMarker(logs, tx.Name):
				x.Violate("merged-into-next-txn", "transaction %s was not reported committed but %v became visible through a LATER transaction's commit marker; %s", tx.Name, vis, desc)
			case !ambiguous && !tx.CommitCall:
				x.Violate("aborted-visible", "transaction %s was never committed by the application but %v is visible; %s", tx.Name, vis, desc)
			case !ambiguous:
				x.Violate("errored-commit-visible", "transaction %s: EndTransaction(TryCommit) returned %v, no commit request reached the broker during that call, yet %v is visible; %s", tx.Name, tx.CommitErr, vis, desc)
			case nvis != len(tx.Recs) || dup:
				x.Violate("unconfirmed-commit-partial", "transaction %s: unconfirmed commit became visible partially or twice: %v; %s", tx.Name, count, desc)
			default:
				x.Count("unconfirmed_commit_took_effect", 1)
				desc += " UNCONFIRMED-COMMIT-VISIBLE"
			}
		}
		for n, c := range tx.PromCalls {
			if c > 1 {
				x.Violate("promise-twice", "record %s promised %d times", n, c)
			}
		}
		obs = append(obs, desc+" vis="+strings.Join(vis, ","))
	}
	if len(open) > 0 {
		x.Count("open_after_timeout", 1)
		obs = append(obs, fmt.Sprintf("OPEN-AFTER-TIMEOUT=%d", len(open)))
	}
	if !appDone {
		x.Count("app_not_done", 1)
		obs = append(obs, "APP-NOT-DONE")
	}
	if st.stopped != "" {
		obs = append(obs, "stopped="+st.stopped)
	}
	x.Observe("%s", strings.Join(obs, " ; "))
	if os.Getenv("VERIF_OBSLOG") != "" {
		fmt.Fprintf(os.Stderr, "OBS %s\n", strings.Join(obs, " ; "))
	}
}

func describe(tx *txnLog) string {
	var s []string
	s = append(s, tx.Name+":")
	if !tx.Began {
		if tx.BeginErr != nil {
			s = append(s, "begin="+errClass(tx.BeginErr))
		} else {
			s = append(s, "not-begun")
		}
		return strings.Join(s, " ")
	}
	var pr []string
	for _, n := range tx.Recs {
		if tx.PromCalls[n] == 0 {
			pr = append(pr, n+"=none")
		} else {
			pr = append(pr, n+"="+errClass(tx.Prom[n]))
		}
	}
	sort.Strings(pr)
	s = append(s, strings.Join(pr, ","))
	if tx.FlushErr != nil {
		s = append(s, "flush="+errClass(tx.FlushErr))
	}
	if tx.CommitCall {
		s = append(s, "commit="+errClass(tx.CommitErr))
	}
	if tx.Recommit {
		s = append(s, "recommit="+errClass(tx.RecommitErr))
	}
	for _, e := range tx.Aborts {
		s = append(s, "abort="+errClass(e))
	}
	s = append(s, fmt.Sprintf("endtxn(c=%d,a=%d,ok=%d)", tx.CommitReqs, tx.AbortReqs, tx.OkResps))
	return strings.Join(s, " ")
}

// Plans returns the exploration plans of scenario family T.
func Plans() []nrun.Plan { return plans }

// AllPlans is what the C11 check runs: the generated family first (its
// default-schedule enumeration must not be starved by the time-capped k=2
// levels of the hand-written scenarios), then the hand-written scenarios.
func AllPlans() []nrun.Plan { return append(GenPlans(), plans...) }

var plans = []nrun.Plan{
	{Scenario: scenario(variant{name: "T-tv2", retries: 1, alwaysAbort: true}), QuickBudget: 2, QuickFaultOnlyFrom: 2, ThoroughBudget: 2, Weight: 1},
	{Scenario: scenario(variant{name: "T-tv1", tv1: true, retries: 1, alwaysAbort: true}), QuickBudget: 2, QuickFaultOnlyFrom: 2, ThoroughBudget: 2, Weight: 1},
	{Scenario: scenario(variant{name: "T-tv2-r0", retries: 0, probeCommit: true}), QuickBudget: 2, QuickFaultOnlyFrom: 2, ThoroughBudget: 2, Weight: 1},
	{Scenario: scenario(variant{name: "T-tv1-r0", tv1: true, retries: 0, probeCommit: true}), QuickBudget: 2, QuickFaultOnlyFrom: 2, ThoroughBudget: 2, Weight: 1},
	{Scenario: offsetsScenario(variant{name: "T-offsets", retries: 1}), QuickBudget: 2, QuickFaultOnlyFrom: 2, ThoroughBudget: 2, Weight: 1},
	{Scenario: offsetsScenario(variant{name: "T-offsets-tv1", tv1: true, retries: 0}), QuickBudget: 2, QuickFaultOnlyFrom: 2, ThoroughBudget: 2, Weight: 1},
}
