package tscen

import (
	"context"
	"errors"
	"fmt"
	"os"
	"sort"
	"strings"
	"sync"
	"time"

	"github.com/twmb/franz-go/pkg/kerr"
	"github.com/twmb/franz-go/pkg/kfake"
	"github.com/twmb/franz-go/pkg/kgo"
	"github.com/twmb/franz-go/pkg/kmsg"

	"verif.local/ev"

	"verif/lib/explore"
	"verif/lib/netctl"
	"verif/lib/nrun"
	"verif/lib/nscen"
)

// Generated family TG: instead of the fixed two-transaction script, ONE
// scenario whose Setup lets the explorer choose (cost 0: every combination is
// executed at every deviation level)
//
//	cfg    KIP-890p2 broker | TV1 broker (transaction timeout 6 s in both),
//	s1     the script of the transactional producer P: one or two ROUNDS, each
//	       Begin, Produce x k (alternating t/0 t/1), [think], settle, [think],
//	       end, [think], where
//	         k      2 records (the round encoding allows 1 | 2)
//	         settle F Flush | A AbortBufferedRecords | - nothing (End with records possibly in flight)
//	         end    C EndTransaction(TryCommit) followed, on error, by the TryAbort retries | R EndTransaction(TryAbort) | - none (transaction left open)
//	         think  - none | I after the produces | S after settle, before End | E after End: 8 s of application time, longer than the transaction timeout
//	zg     gate/fin: fin = - nothing | X Close after the script (quick tier: X
//	       only without a second client);
//	       gate = when a SECOND client Z with the same transactional id starts (Begin,
//	       Produce z1 z2, Flush, EndTransaction(TryCommit): it fences P): never |
//	       after P's produces of round 0 | after round 0's settle | after round 0's
//	       end | after P's produces of round 1. Z is declared first, so on the
//	       default schedule its calls run as soon as the gate opens.
//
// Every call is issued whatever the earlier ones returned (the family includes
// misuse such as producing after a failed Begin or ending twice); the reference
// model follows the documentation of each call:
//
//   - a transaction exists from a BeginTransaction that returned nil until an
//     EndTransaction that returned nil; a record belongs to the transaction that
//     is current when Produce is called (none: it must never be visible);
//   - a record is SETTLED by an End call if its promise ran before that call.
//     Settled records whose promise got nil are visible exactly once if some
//     EndTransaction(TryCommit) of their transaction returned nil, and never
//     visible otherwise (exception as in family T: an errored commit whose EndTxn
//     request reached the broker, visible through its own marker, completely);
//   - records not settled when End was called are not judged (the documentation
//     requires Flush / AbortBufferedRecords first: they may join the next
//     transaction), nor are records whose promise got an error inside a committed
//     transaction; no record may be visible twice.
//
// "A fenced producer never commits" is the same rule: a commit that returns nil
// after Z took the id over finds its records aborted.

const (
	genTxnTimeout = 6 * time.Second
	genThink      = 8 * time.Second
)

type grec struct {
	name    string
	client  string
	txn     int // index into gclient.txns, -1: produced outside any transaction
	called  int
	err     error
	settled bool // promise had run when the next End of its transaction was called
	judged  bool // an End call was made after this record was produced
}

type gtx struct {
	name       string // "<client><index>"
	committed  bool   // an EndTransaction(TryCommit) returned nil while it was current
	commitErr  error  // last TryCommit error
	commitCall bool
	aborted    bool
	ended      bool
	CommitReqs int
	afterFence bool // TryCommit returned nil although the client had already been told PRODUCER_FENCED
}

type gclient struct {
	name   string
	cl     *kgo.Client
	txns   []*gtx
	cur    int // current transaction, -1 none
	recs   []*grec
	calls  []string // call log for violation texts / outcomes
	closed bool
	fenced bool // some call or promise of this client returned PRODUCER_FENCED
}

type genState struct {
	mu  sync.Mutex
	c   *kfake.Cluster
	p   *gclient
	z   *gclient
	ths []*netctl.Thread
}

func (st *genState) newClient(x *netctl.Exec, name string) *gclient {
	g := &gclient{name: name, cur: -1}
	var dbg []kgo.Opt
	if os.Getenv("VERIF_KLOG") != "" {
		dbg = append(dbg, kgo.WithLogger(kgo.BasicLogger(os.Stderr, kgo.LogLevelDebug, nil)))
	}
	g.cl = nscen.NewClient(x, name, st.c, append(dbg,
		kgo.TransactionalID("tx"),
		kgo.TransactionTimeout(genTxnTimeout),
		kgo.RecordPartitioner(kgo.ManualPartitioner()),
		kgo.ProducerLinger(0),
		kgo.ProduceRequestTimeout(5*time.Second),
		kgo.RequestRetries(1),
	)...)
	return g
}

func (st *genState) logf(g *gclient, format string, a ...any) {
	st.mu.Lock()
	g.calls = append(g.calls, fmt.Sprintf(format, a...))
	st.mu.Unlock()
}

func (st *genState) begin(g *gclient, t *netctl.Thread) {
	t.Step("begin")
	err := g.cl.BeginTransaction()
	st.mu.Lock()
	if err == nil {
		g.txns = append(g.txns, &gtx{name: fmt.Sprintf("%s%d", g.name, len(g.txns))})
		g.cur = len(g.txns) - 1
	}
	if errors.Is(err, kerr.ProducerFenced) {
		g.fenced = true
	}
	st.mu.Unlock()
	st.logf(g, "B=%s", errClass(err))
}

func (st *genState) produce(g *gclient, t *netctl.Thread, part int32) {
	t.Step("produce")
	st.mu.Lock()
	r := &grec{client: g.name, txn: g.cur}
	if g.cur >= 0 {
		r.name = fmt.Sprintf("%s.%d", g.txns[g.cur].name, len(g.recs))
	} else {
		r.name = fmt.Sprintf("%s-.%d", g.name, len(g.recs))
	}
	g.recs = append(g.recs, r)
	st.mu.Unlock()
	g.cl.Produce(context.Background(), &kgo.Record{Topic: "t", Partition: part, Value: []byte(r.name)}, func(_ *kgo.Record, err error) {
		st.mu.Lock()
		r.called++
		if r.called == 1 {
			r.err = err
		}
		if errors.Is(err, kerr.ProducerFenced) {
			g.fenced = true
		}
		st.mu.Unlock()
	})
	st.logf(g, "P")
}

func (st *genState) settle(g *gclient, t *netctl.Thread, how byte) {
	var err error
	ctx, cancel := context.WithTimeout(context.Background(), callTimeout)
	defer cancel()
	switch how {
	case 'F':
		t.Step("flush")
		err = g.cl.Flush(ctx)
	case 'A':
		t.Step("abort-buffered")
		err = g.cl.AbortBufferedRecords(ctx)
	default:
		return
	}
	st.logf(g, "%c=%s", how, errClass(err))
}

// markSettled is called right before an End call: records of the current
// transaction (and records produced outside any) whose promise already ran are
// settled; the others are excluded from judgement.
func (st *genState) markSettled(g *gclient) {
	st.mu.Lock()
	for _, r := range g.recs {
		if !r.judged {
			r.judged = true
			r.settled = r.called > 0
		}
	}
	st.mu.Unlock()
}

func (st *genState) end(g *gclient, t *netctl.Thread, commit bool) {
	call := func(c kgo.TransactionEndTry, label string) error {
		t.Step(label)
		st.markSettled(g)
		ctx, cancel := context.WithTimeout(context.Background(), callTimeout)
		err := g.cl.EndTransaction(ctx, c)
		cancel()
		st.mu.Lock()
		wasFenced := g.fenced
		if errors.Is(err, kerr.ProducerFenced) {
			g.fenced = true
		}
		if g.cur >= 0 {
			tx := g.txns[g.cur]
			if c == kgo.TryCommit {
				tx.commitCall = true
				tx.commitErr = err
				tx.afterFence = err == nil && wasFenced
			}
			if err == nil {
				tx.ended = true
				if c == kgo.TryCommit {
					tx.committed = true
				} else {
					tx.aborted = true
				}
				g.cur = -1
			}
		}
		st.mu.Unlock()
		st.logf(g, "%s=%s", map[bool]string{true: "C", false: "R"}[c == kgo.TryCommit], errClass(err))
		return err
	}
	if commit {
		err := call(kgo.TryCommit, "commit")
		if err == nil || errClass(err) == "ctx" {
			return
		}
		// documented protocol: retry as abort
		for tries := 0; tries < 3; tries++ {
			err = call(kgo.TryAbort, "abort")
			if err == nil || errClass(err) == "ctx" || !retryAsAbort(err) {
				return
			}
		}
		return
	}
	for tries := 0; tries < 3; tries++ {
		err := call(kgo.TryAbort, "abort")
		if err == nil || errClass(err) == "ctx" || !retryAsAbort(err) {
			return
		}
	}
}

// A round is four characters: k ('1'|'2'), settle ('F'|'A'|'-'), end
// ('C'|'R'|'-'), think ('-'|'I'|'S'|'E').
func genRounds(full bool) []string {
	ks, settles := "2", "FA"
	if full {
		settles = "FA-"
	}
	var out []string
	for _, k := range ks {
		for _, s := range settles {
			for _, e := range "CR-" {
				for _, th := range "-ISE" {
					out = append(out, string([]rune{k, s, e, th}))
				}
			}
		}
	}
	return out
}

func genScripts(full bool) []string {
	rs := genRounds(full)
	out := append([]string{}, rs...)
	for _, a := range rs {
		for _, b := range rs {
			if !full && a[3] != '-' && b[3] != '-' {
				continue // quick tier: at most one think time per script
			}
			out = append(out, a+"."+b)
		}
	}
	return out
}

// genZG lists the (gate of the second client, Close at the end) combinations.
func genZG(full bool) []string {
	out := []string{"never/-", "never/X"}
	for _, g := range genGates[1:] {
		out = append(out, g+"/-")
		if full {
			out = append(out, g+"/X")
		}
	}
	return out
}

var genGates = []string{"never", "r0-produced", "r0-settled", "r0-ended", "r1-produced"}

func genScenario() *netctl.Scenario {
	return &netctl.Scenario{
		Name:      "TG",
		Faults:    faults,
		Horizon:   4 * time.Minute,
		MaxPoints: 500,
		Setup: func(x *netctl.Exec) {
			scripts := genScripts(ev.Thorough())
			tv1 := x.ChooseOf("cfg", []string{"tv2", "tv1"}) == 1
			script := scripts[x.ChooseOf("s1", scripts)]
			zgs := genZG(ev.Thorough())
			zg := zgs[x.ChooseOf("zg", zgs)]
			gate, closeAtEnd := zg[:len(zg)-2], strings.HasSuffix(zg, "/X")

			opts := []kfake.Opt{kfake.SeedTopics(2, "t")}
			if tv1 {
				opts = append(opts, kfake.MaxVersions(tv1Versions()))
			}
			c := x.Cluster(2, opts...)
			c.MoveTopicPartition("t", 0, 0)
			c.MoveTopicPartition("t", 1, 1)
			st := &genState{c: c}
			x.Data = st
			st.p = st.newClient(x, "p")
			if gate != "never" {
				st.z = st.newClient(x, "z")
			}
			x.FrameHook = func(conn *netctl.Conn, dir string, key, ver int16, frame []byte) {
				if key != 26 || dir != "req" {
					return
				}
				req, _, ok := netctl.DecodeRequest(frame)
				if !ok || !req.(*kmsg.EndTxnRequest).Commit {
					return
				}
				st.mu.Lock()
				defer st.mu.Unlock()
				for _, g := range []*gclient{st.p, st.z} {
					if g != nil && g.name == conn.Client && g.cur >= 0 {
						g.txns[g.cur].CommitReqs++
					}
				}
			}
			gates := map[string]chan struct{}{}
			for _, g := range genGates {
				gates[g] = make(chan struct{})
			}
			var once sync.Map
			open := func(name string) {
				if _, dup := once.LoadOrStore(name, true); !dup {
					close(gates[name])
				}
			}
			// Z first: once its gate is open its calls come before P's next one.
			if st.z != nil {
				st.ths = append(st.ths, x.Thread("Z", func(t *netctl.Thread) {
					<-gates[gate]
					st.begin(st.z, t)
					st.produce(st.z, t, 0)
					st.produce(st.z, t, 1)
					st.settle(st.z, t, 'F')
					st.end(st.z, t, true)
				}))
			}
			st.ths = append(st.ths, x.Thread("P", func(t *netctl.Thread) {
				g := st.p
				think := func() { time.Sleep(genThink) }
				part := int32(0)
				for i, r := range strings.Split(script, ".") {
					st.begin(g, t)
					for n := 0; n < int(r[0]-'0'); n++ {
						st.produce(g, t, part)
						part = 1 - part
					}
					open(fmt.Sprintf("r%d-produced", i))
					if r[3] == 'I' {
						think()
					}
					st.settle(g, t, r[1])
					if i == 0 {
						open("r0-settled")
					}
					if r[3] == 'S' {
						think()
					}
					switch r[2] {
					case 'C':
						st.end(g, t, true)
					case 'R':
						st.end(g, t, false)
					}
					if i == 0 {
						open("r0-ended")
					}
					if r[3] == 'E' {
						think()
					}
				}
				if closeAtEnd {
					t.Step("close")
					st.mu.Lock()
					g.closed = true
					st.mu.Unlock()
					g.cl.Close()
				}
				// gates that were never reached (one-round scripts): Z runs after P
				for _, n := range genGates[1:] {
					open(n)
				}
			}))
		},
		Final: genFinal,
	}
}

func genFinal(x *netctl.Exec) {
	st := x.Data.(*genState)
	deadline := time.Now().Add(15 * time.Minute)
	done := func() bool {
		for _, t := range st.ths {
			if !t.Done() {
				return false
			}
		}
		return true
	}
	for !done() && time.Now().Before(deadline) {
		time.Sleep(200 * time.Millisecond)
	}
	appDone := done()
	// longer than the transaction timeout: whatever is still open gets aborted
	time.Sleep(2*genTxnTimeout + 3*time.Second)
	read := func() (logs [2][]nscen.LogRecord, visible, open []nscen.LogRecord) {
		for p := int32(0); p < 2; p++ {
			logs[p] = nscen.ReadRaw(x, st.c, "t", p)
			v, o := nscen.Committed(logs[p])
			visible = append(visible, v...)
			open = append(open, o...)
		}
		return
	}
	logs, visible, open := read()
	for waited := 0; len(open) > 0 && waited < 12; waited++ {
		time.Sleep(5 * time.Second)
		logs, visible, open = read()
	}
	st.mu.Lock()
	defer st.mu.Unlock()
	byName := map[string]*grec{}
	clients := []*gclient{st.p}
	if st.z != nil {
		clients = append(clients, st.z)
	}
	for _, g := range clients {
		for _, r := range g.recs {
			byName[r.name] = r
		}
	}
	count := map[string]int{}
	for _, r := range visible {
		if byName[r.Value] == nil {
			x.Violate("harness:unknown-record", "unexpected record %q in t/%d", r.Value, r.Partition)
			continue
		}
		count[r.Value]++
	}
	txOf := func(r *grec) *gtx {
		if r.txn < 0 {
			return nil
		}
		for _, g := range clients {
			if g.name == r.client {
				return g.txns[r.txn]
			}
		}
		return nil
	}
	// ownMarker: the marker deciding r precedes every settled record of another transaction.
	// (returns the first record of another transaction found in between, nil if none)
	ownMarker := func(r *grec) *grec {
		for _, log := range logs {
			for i, lr := range log {
				if lr.Control || lr.Value != r.name {
					continue
				}
				for _, m := range log[i+1:] {
					if m.Control && m.PID == lr.PID {
						break
					}
					if o := byName[m.Value]; !m.Control && o != nil && o.settled && (o.client != r.client || o.txn != r.txn) {
						return o
					}
				}
			}
		}
		return nil
	}
	calls := func() string {
		var s []string
		for _, g := range clients {
			s = append(s, g.name+":"+strings.Join(g.calls, " "))
		}
		return strings.Join(s, " | ")
	}()
	var names []string
	for n := range byName {
		names = append(names, n)
	}
	sort.Strings(names)
	var vis []string
	unconfirmed := map[*gtx][]string{}
	for _, n := range names {
		r, c := byName[n], count[n]
		if c > 0 {
			vis = append(vis, n)
		}
		if c > 1 {
			x.Violate("visible-twice", "record %s is %d times in the read_committed view; %s", n, c, calls)
		}
		if r.called > 1 {
			x.Violate("promise-twice", "record %s promised %d times", n, r.called)
		}
		if !r.judged || !r.settled {
			continue // produced after the last End, or not settled when End was called: not judged
		}
		tx := txOf(r)
		switch {
		case tx == nil:
			if c > 0 {
				x.Violate("outside-txn-visible", "record %s was produced while no transaction was open (promise: %v) and is visible; %s", n, r.err, calls)
			}
		case tx.committed:
			if tx.afterFence && c > 0 {
				x.Violate("fenced-producer-committed", "client %s had been told PRODUCER_FENCED, yet a later EndTransaction(TryCommit) of its transaction %s returned nil and %s is visible; %s", r.client, tx.name, n, calls)
			}
			if r.err == nil && c == 0 {
				x.Violate("commit-ok-not-visible", "transaction %s: EndTransaction(TryCommit) returned nil, record %s (promise nil before the call) is not in the read_committed view; %s", tx.name, n, calls)
			}
		case c > 0:
			// As in family T: a TryCommit that returned an error after its EndTxn
			// request reached the broker is an unconfirmed outcome, whatever the
			// error says (a lost response followed by a retry that is answered
			// PRODUCER_FENCED because a successor took the id over meanwhile).
			excusable := tx.commitCall && tx.commitErr != nil && tx.CommitReqs > 0
			other := ownMarker(r)
			switch {
			case other != nil && other.client != r.client:
				// the successor that took the transactional id over (fencing)
				// continued the fenced producer's open transaction and committed it
				x.Violate("fenced-txn-committed-by-successor", "transaction %s of client %s was never reported committed (the client was fenced by %s), but %s became visible through the commit marker of %s's transaction (record %s lies between it and the marker): the fenced producer's open transaction was not aborted when the successor initialised the id; %s", tx.name, r.client, other.client, n, other.client, other.name, calls)
			case other != nil:
				x.Violate("merged-into-next-txn", "transaction %s was not reported committed but %s became visible through a LATER transaction's commit marker; %s", tx.name, n, calls)
			case !excusable:
				x.Violate("not-committed-visible", "transaction %s was never reported committed (no unconfirmed commit either) but %s is visible; %s", tx.name, n, calls)
			default:
				unconfirmed[tx] = append(unconfirmed[tx], n)
			}
		}
	}
	for tx, ns := range unconfirmed {
		// an unconfirmed commit that took effect must have taken effect completely
		for _, n := range names {
			r := byName[n]
			if txOf(r) == tx && r.judged && r.settled && r.err == nil && count[n] == 0 {
				x.Violate("unconfirmed-commit-partial", "transaction %s: unconfirmed commit made %v visible but not %s; %s", tx.name, ns, n, calls)
			}
		}
		x.Count("unconfirmed_commit_took_effect", 1)
	}
	obs := calls + " vis=" + strings.Join(vis, ",")
	if len(open) > 0 {
		x.Count("open_after_timeout", 1)
		obs += fmt.Sprintf(" OPEN-AFTER-TIMEOUT=%d", len(open))
	}
	if !appDone {
		x.Count("app_not_done", 1)
		obs += " APP-NOT-DONE"
	}
	x.Observe("%s", obs)
	if os.Getenv("VERIF_OBSLOG") != "" {
		fmt.Fprintf(os.Stderr, "OBS %s\n", obs)
	}
}

// GenPlans returns the generated family: quick = every (cfg, script, gate/fin)
// with settle F|A and at most one think time per script on the default
// schedule (2 x 276 x 6 = 3312); thorough = settle F|A|-, any think times, all
// gate/fin pairs (2 x 1332 x 10 = 26640) on the default schedule, then every
// single deviation, time-capped.
//
// The single deviations are restricted to the one-round scripts (2 x 36 x 10
// parents): every execution is the parent of 100-200 deviating jobs, and keeping
// those for all 26640 members would need gigabytes in the explorer.
func GenPlans() []nrun.Plan {
	return []nrun.Plan{{Scenario: genScenario(), QuickBudget: 0, ThoroughBudget: 1, Weight: 4, Allow: genAllow}}
}

func genAllow(parent explore.Job, point int, label string, cost int) bool {
	if cost == 0 {
		return true
	}
	for _, l := range parent.Labels {
		if strings.HasPrefix(l, "s1=") && strings.Contains(l, ".") {
			return false
		}
	}
	return true
}
