package tscen

import (
	"context"
	"fmt"
	"os"
	"strings"
	"sync"
	"time"

	"github.com/twmb/franz-go/pkg/kadm"
	"github.com/twmb/franz-go/pkg/kfake"
	"github.com/twmb/franz-go/pkg/kgo"
	"github.com/twmb/franz-go/pkg/kmsg"

	"verif/lib/netctl"
	"verif/lib/nscen"
)

// Scenario T-offsets: the same two transactions, run through a
// GroupTransactSession with a single member, so that every transaction also
// carries consumer offsets (AddOffsetsToTxn on a TV1 broker, TxnOffsetCommit):
// input topic "in" (1 partition, records i0 i1), each transaction polls one
// input record, produces X1->t/0 and X2->t/1 and calls End(TryCommit).
// Oracle: as for scenario T, and additionally records and offsets are atomic:
// the group's committed offset at the end is exactly the one of the last
// transaction whose records are visible.

type gtxn struct {
	txnLog
	Polled    int64 // offset of the input record polled for this transaction (-1: none)
	EndCalled bool
	Committed bool
	EndErr    error
}

type gstate struct {
	mu      sync.Mutex
	c       *kfake.Cluster
	sess    *kgo.GroupTransactSession
	th      *netctl.Thread
	phase   int
	txns    []*gtxn
	stopped string
}

func offsetsScenario(v variant) *netctl.Scenario {
	return &netctl.Scenario{
		Name:      v.name,
		Faults:    faults,
		Horizon:   4 * time.Minute,
		MaxPoints: 500,
		Setup: func(x *netctl.Exec) {
			opts := []kfake.Opt{kfake.SeedTopics(2, "t"), kfake.SeedTopics(1, "in")}
			if v.tv1 {
				opts = append(opts, kfake.MaxVersions(tv1Versions()))
			}
			c := x.Cluster(1, opts...)
			h := nscen.Helper(x, c, kgo.RecordPartitioner(kgo.ManualPartitioner()))
			if err := h.ProduceSync(context.Background(),
				&kgo.Record{Topic: "in", Partition: 0, Value: []byte("i0")},
				&kgo.Record{Topic: "in", Partition: 0, Value: []byte("i1")}).FirstErr(); err != nil {
				panic(fmt.Sprintf("preload: %v", err))
			}
			h.Close()
			st := &gstate{c: c, phase: -1}
			x.Data = st
			var dbg []kgo.Opt
			if os.Getenv("VERIF_KLOG") != "" {
				dbg = append(dbg, kgo.WithLogger(kgo.BasicLogger(os.Stderr, kgo.LogLevelDebug, nil)))
			}
			sess, err := kgo.NewGroupTransactSession(append(append(nscen.BaseOpts(x, "tx", c), dbg...),
				kgo.ConsumerGroup("g"),
				kgo.ConsumeTopics("in"),
				kgo.ConsumeResetOffset(kgo.NewOffset().AtStart()),
				kgo.TransactionalID("tx"),
				kgo.TransactionTimeout(10*time.Second),
				kgo.RequireStableFetchOffsets(),
				kgo.FetchIsolationLevel(kgo.ReadCommitted()),
				kgo.SessionTimeout(2*time.Minute),
				kgo.HeartbeatInterval(time.Second),
				kgo.FetchMaxWait(1300*time.Millisecond),
				kgo.RecordPartitioner(kgo.ManualPartitioner()),
				kgo.ProducerLinger(0),
				kgo.ProduceRequestTimeout(5*time.Second),
				kgo.RequestRetries(v.retries),
			)...)
			if err != nil {
				panic(fmt.Sprintf("NewGroupTransactSession: %v", err))
			}
			st.sess = sess
			x.OnCleanup(sess.Close)
			x.FrameHook = func(conn *netctl.Conn, dir string, key, ver int16, frame []byte) {
				if key != 26 {
					return
				}
				st.mu.Lock()
				defer st.mu.Unlock()
				if st.phase < 0 {
					return
				}
				tx := st.txns[st.phase]
				if dir == "req" {
					if req, _, ok := netctl.DecodeRequest(frame); ok {
						if req.(*kmsg.EndTxnRequest).Commit {
							tx.CommitReqs++
						} else {
							tx.AbortReqs++
						}
					}
				} else if resp, ok := netctl.DecodeResponse(frame, key, ver); ok {
					if resp.(*kmsg.EndTxnResponse).ErrorCode == 0 {
						tx.OkResps++
					}
				}
			}
			for _, n := range []string{"a", "b"} {
				st.txns = append(st.txns, &gtxn{Polled: -1, txnLog: txnLog{Name: n, Recs: []string{n + "1", n + "2"}, Prom: map[string]error{}, PromCalls: map[string]int{}}})
			}
			st.th = x.Thread("T", func(t *netctl.Thread) {
				for i := range st.txns {
					if !runGroupTxn(st, t, i) {
						return
					}
				}
			})
		},
		Final: offsetsFinal,
	}
}

func runGroupTxn(st *gstate, t *netctl.Thread, i int) bool {
	tx := st.txns[i]
	stop := func(why string) bool {
		st.mu.Lock()
		st.stopped = tx.Name + ":" + why
		st.mu.Unlock()
		return false
	}
	var rec *kgo.Record
	for tries := 0; rec == nil && tries < 3; tries++ {
		t.Step("poll-" + tx.Name)
		ctx, cancel := context.WithTimeout(context.Background(), 3*time.Second)
		fs := st.sess.PollRecords(ctx, 1)
		cancel()
		fs.EachRecord(func(r *kgo.Record) { rec = r })
	}
	if rec == nil {
		return stop("nothing-polled")
	}
	t.Step("begin-" + tx.Name)
	if err := st.sess.Begin(); err != nil {
		st.mu.Lock()
		tx.BeginErr = err
		st.mu.Unlock()
		return stop("begin:" + errClass(err))
	}
	st.mu.Lock()
	tx.Began, tx.Polled, st.phase = true, rec.Offset, i
	st.mu.Unlock()
	for p, name := range tx.Recs {
		name := name
		t.Step("produce-" + name)
		st.sess.Produce(context.Background(), &kgo.Record{Topic: "t", Partition: int32(p), Value: []byte(name)}, func(_ *kgo.Record, err error) {
			st.mu.Lock()
			tx.PromCalls[name]++
			if tx.PromCalls[name] == 1 {
				tx.Prom[name] = err
			}
			st.mu.Unlock()
		})
	}
	t.Step("flush-" + tx.Name)
	ctx, cancel := context.WithTimeout(context.Background(), callTimeout)
	err := st.sess.Client().Flush(ctx)
	cancel()
	if err != nil {
		st.mu.Lock()
		tx.FlushErr = err
		st.mu.Unlock()
		return stop("flush:" + errClass(err))
	}
	st.mu.Lock()
	allOK := true
	for _, n := range tx.Recs {
		if tx.PromCalls[n] == 0 || tx.Prom[n] != nil {
			allOK = false
		}
	}
	st.mu.Unlock()
	t.Step("end-" + tx.Name)
	ctx, cancel = context.WithTimeout(context.Background(), callTimeout)
	committed, err := st.sess.End(ctx, kgo.TransactionEndTry(allOK))
	cancel()
	st.mu.Lock()
	tx.EndCalled, tx.Committed, tx.EndErr = true, committed, err
	tx.CommitCall = allOK
	st.mu.Unlock()
	if err != nil && errClass(err) == "ctx" {
		return stop("end:ctx")
	}
	// "No returned error is retryable": the application nevertheless tries the
	// next transaction; Begin refuses if the client is in a failed state.
	return true
}

func offsetsFinal(x *netctl.Exec) {
	st := x.Data.(*gstate)
	deadline := time.Now().Add(12 * time.Minute)
	for !st.th.Done() && time.Now().Before(deadline) {
		time.Sleep(200 * time.Millisecond)
	}
	appDone := st.th.Done()
	time.Sleep(15 * time.Second)
	read := func() (logs [2][]nscen.LogRecord, visible, open []nscen.LogRecord) {
		for p := int32(0); p < 2; p++ {
			logs[p] = nscen.ReadRaw(x, st.c, "t", p)
			v, o := nscen.Committed(logs[p])
			visible = append(visible, v...)
			open = append(open, o...)
		}
		return
	}
	logs, visible, open := read()
	for waited := 0; len(open) > 0 && waited < 12; waited++ {
		time.Sleep(5 * time.Second)
		logs, visible, open = read()
	}
	// committed group offset, read by an independent plain client
	plain := nscen.Helper(x, st.c)
	groupOffset := int64(-1)
	octx, ocancel := context.WithTimeout(context.Background(), 30*time.Second)
	if offs, err := kadm.NewClient(plain).FetchOffsets(octx, "g"); err != nil {
		x.Violate("harness:fetch-offsets", "FetchOffsets: %v", err)
	} else if o, ok := offs.Lookup("in", 0); ok && o.Err == nil {
		groupOffset = o.At
	}
	ocancel()
	plain.Close()

	st.mu.Lock()
	defer st.mu.Unlock()
	count := map[string]int{}
	for _, r := range visible {
		if txnOf(r.Value) == "" {
			x.Violate("harness:unknown-record", "unexpected record %q in t/%d", r.Value, r.Partition)
			continue
		}
		count[r.Value]++
	}
	var obs []string
	wantOffset := int64(-1)
	for _, tx := range st.txns {
		var vis []string
		nvis, dup := 0, false
		for _, n := range tx.Recs {
			if count[n] > 0 {
				nvis++
				vis = append(vis, n)
			}
			if count[n] > 1 {
				dup = true
			}
		}
		desc := describe(&tx.txnLog)
		if tx.EndCalled {
			desc += fmt.Sprintf(" end=(%v,%s) polled=%d", tx.Committed, errClass(tx.EndErr), tx.Polled)
		}
		switch {
		case tx.EndCalled && tx.Committed && tx.EndErr == nil:
			for _, n := range tx.Recs {
				if count[n] == 0 {
					x.Violate("commit-ok-not-visible", "transaction %s: End reported committed but record %s is not in the read_committed view; %s", tx.Name, n, desc)
				}
			}
			if dup {
				x.Violate("visible-twice", "transaction %s committed, a record is visible more than once: %v; %s", tx.Name, count, desc)
			}
			if groupOffset < tx.Polled+1 {
				x.Violate("commit-ok-offsets-missing", "transaction %s: End reported committed (input offset %d) but the group's committed offset is %d; %s", tx.Name, tx.Polled, groupOffset, desc)
			}
		case nvis > 0:
			own := ownMarker(logs, tx.Name)
			ambiguous := tx.EndCalled && tx.CommitCall && tx.EndErr != nil && tx.CommitReqs > 0 && own
			switch {
			case !ambiguous && !own:
				x.Violate("merged-into-next-txn", "transaction %s was not reported committed but %v became visible through a LATER transaction's commit marker; %s", tx.Name, vis, desc)
			case !ambiguous:
				x.Violate("not-committed-visible", "transaction %s: End did not report a commit, no commit request reached the broker during that call with an error reported, yet %v is visible; %s", tx.Name, vis, desc)
			case nvis != len(tx.Recs) || dup:
				x.Violate("unconfirmed-commit-partial", "transaction %s: unconfirmed commit became visible partially or twice: %v; %s", tx.Name, count, desc)
			default:
				x.Count("unconfirmed_commit_took_effect", 1)
				desc += " UNCONFIRMED-COMMIT-VISIBLE"
			}
		}
		if nvis > 0 && tx.Polled+1 > wantOffset {
			wantOffset = tx.Polled + 1
		}
		obs = append(obs, desc+" vis="+strings.Join(vis, ","))
	}
	if len(open) == 0 && groupOffset != wantOffset {
		x.Violate("offsets-not-atomic", "the group's committed offset is %d but the transactions whose records are visible consumed the input up to %d; %s", groupOffset, wantOffset, strings.Join(obs, " ; "))
	}
	obs = append(obs, fmt.Sprintf("group-offset=%d", groupOffset))
	if len(open) > 0 {
		x.Count("open_after_timeout", 1)
		obs = append(obs, fmt.Sprintf("OPEN-AFTER-TIMEOUT=%d", len(open)))
	}
	if !appDone {
		x.Count("app_not_done", 1)
		obs = append(obs, "APP-NOT-DONE")
	}
	if st.stopped != "" {
		obs = append(obs, "stopped="+st.stopped)
	}
	x.Observe("%s", strings.Join(obs, " ; "))
	if os.Getenv("VERIF_OBSLOG") != "" {
		fmt.Fprintf(os.Stderr, "OBS %s\n", strings.Join(obs, " ; "))
	}
}
