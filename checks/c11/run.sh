#!/bin/bash
set -eu
cd "$(dirname "$0")/../.."
. bin/env.sh
go test -c -tags synctests,verif -o "$BUILD/c11.test" ./checks/c11
exec "$BUILD/c11.test" -test.run '^TestC11$' -test.timeout 0
