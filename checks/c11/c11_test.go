package c11

import (
	"testing"
	"time"

	"verif/checks/c11/tscen"
	"verif/lib/explore"
	"verif/lib/nrun"
)

func TestC11(t *testing.T) {
	if explore.IsWorker() {
		// same protocol as nrun's worker loop, more tolerant of unowned nondeterminism (see tscen.ServeWorker)
		tscen.ServeWorker(t, tscen.AllPlans())
		return
	}
	nrun.Main(t, &nrun.Check{
		ID: "C11", TestName: "TestC11", Plans: tscen.AllPlans(),
		QuickTime: 120 * time.Second, ThorTime: 18 * time.Minute,
		Rule:   "engine N. Generated family TG (tscen/gen.go): every (broker KIP-890p2|TV1, transaction timeout 6 s; script of the transactional producer: one or two rounds Begin / Produce x2 / settle (Flush | AbortBufferedRecords | nothing) / end (EndTransaction(TryCommit) with the documented TryAbort retries | EndTransaction(TryAbort) | none) with 8 s of application time (longer than the transaction timeout) after the produces, before End or after End; Close at the end or not; gate at which a second client with the same transactional id runs one committed transaction: never | after round 0 produced | settled | ended | after round 1 produced), every call issued whatever the earlier ones returned, on the default schedule in the quick tier (2 x 276 x 6 = 3312 executions), 2 x 1332 x 10 = 26640 plus single deviations, time-capped, in the thorough tier; reference model per record (transaction current at Produce, settled before End or not). Hand-written scenarios: every order of application calls (Begin/Produce x2/Flush/EndTransaction(TryCommit)/documented TryAbort retries, two transactions back to back), request/response frame deliveries, timer ticks (transaction timeout 10 s) and injected faults on InitProducerID, AddPartitionsToTxn, Produce, EndTxn (connection kill before/after handling, COORDINATOR_NOT_AVAILABLE/LOAD_IN_PROGRESS/NOT_COORDINATOR, CONCURRENT_TRANSACTIONS, NOT_LEADER, INVALID_PRODUCER_EPOCH, PRODUCER_FENCED) within k deviations of the default order; six scenarios: KIP-890p2 broker and TV1 broker (Produce v11/EndTxn v4, explicit AddPartitionsToTxn) x RequestRetries 1 (application always aborts after a failed commit) and RequestRetries 0 (one lost response already surfaces an unconfirmed End; application retries TryAbort only for the documented error classes and first probes the documented refusal of a TryCommit retry), plus T-offsets / T-offsets-tv1: the same two transactions through a single-member GroupTransactSession (one input record polled per transaction, AddOffsetsToTxn/TxnOffsetCommit in the sequence, faults also on those) where additionally the group's committed offset must be exactly that of the last transaction whose records are visible. Quick tier: k=1 complete, then pairs of faults (k=2, both deviations faults) until the time slice ends; thorough tier: all pairs of deviations (k=2); distinct = distinct terminal outcomes (per transaction: promise results, End results, EndTxn frames seen, visible records)",
		Assume: []string{"kfake is the broker (transactions complete synchronously)", "read_committed view computed from the raw log (next control marker of the producer id decides)", "an End that returned an error after its commit request reached the broker is an unconfirmed outcome: its records may be visible, but only through that transaction's own marker, completely and once", "synctests build of xsync", "goroutine micro-interleavings inside one event are the Go runtime's"},
	})
}
