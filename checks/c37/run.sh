#!/bin/bash
# C37 kotel record carrier + trace context across the wire. usage: run.sh [--replay <violation.json>]
set -eu
cd "$(dirname "$0")/../.."
. bin/env.sh
go build -o "$BUILD/c37" ./checks/c37
exec "$BUILD/c37" "$@"
