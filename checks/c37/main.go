// C37: the kotel record carrier behaves as a string map over record headers,
// and a trace context injected by the producer hook is extracted unchanged by
// the consumer hook after the record crossed the wire.
//
// Part A: every header list (bounded) x every Set/Get/Keys sequence (bounded)
// is run on kotel.RecordCarrier and on a list model.
// Part B: for a fixed set of pre-existing header shapes x span-context
// variants x tracer providers, a record goes producer hook -> this tree's kgo
// client -> kfake -> kgo client -> consumer hook, and the extracted context is
// compared with the injected one.
package main

import (
	"context"
	"encoding/json"
	"fmt"
	"hash/fnv"
	"os"
	"strconv"
	"strings"
	"sync"
	"sync/atomic"
	"time"

	"github.com/twmb/franz-go/pkg/kfake"
	"github.com/twmb/franz-go/pkg/kgo"
	"github.com/twmb/franz-go/plugin/kotel"
	"go.opentelemetry.io/otel/propagation"
	"go.opentelemetry.io/otel/trace"
	"go.opentelemetry.io/otel/trace/embedded"
	"go.opentelemetry.io/otel/trace/noop"
	"verif.local/ev"
)

// ---------------------------------------------------------------- part A

type KV struct {
	K string `json:"k"`
	V string `json:"v"`
}

type Op struct {
	Kind string `json:"op"` // "set" | "get" | "keys"
	K    string `json:"k,omitempty"`
	V    string `json:"v,omitempty"`
	R    int    `json:"r,omitempty"` // target record (fan-out layout only)
}

// model: the statement's map-over-list semantics.
type model []KV

func (m model) get(k string) string {
	for _, h := range m {
		if h.K == k {
			return h.V
		}
	}
	return ""
}

func (m model) set(k, v string) model {
	for i, h := range m {
		if h.K == k {
			out := append(model{}, m...)
			out[i].V = v
			return out
		}
	}
	return append(append(model{}, m...), KV{k, v})
}

func (m model) keys() []string {
	out := make([]string, len(m))
	for i, h := range m {
		out[i] = h.K
	}
	return out
}

func headersOf(m model) []kgo.RecordHeader {
	if len(m) == 0 {
		return nil
	}
	hs := make([]kgo.RecordHeader, len(m))
	for i, h := range m {
		hs[i] = kgo.RecordHeader{Key: h.K, Value: []byte(h.V)}
	}
	return hs
}

func sameHeaders(hs []kgo.RecordHeader, m model) bool {
	if len(hs) != len(m) {
		return false
	}
	for i := range hs {
		if hs[i].Key != m[i].K || string(hs[i].Value) != m[i].V {
			return false
		}
	}
	return true
}

func fmtHeaders(hs []kgo.RecordHeader) string {
	ss := make([]string, len(hs))
	for i, h := range hs {
		ss[i] = h.Key + "=" + string(h.Value)
	}
	return "[" + strings.Join(ss, " ") + "]"
}

func fmtModel(m model) string { return fmtHeaders(headersOf(m)) }

// modelCarrier lets an otel propagator write into the list model.
type modelCarrier struct{ m model }

func (c *modelCarrier) Get(k string) string { return c.m.get(k) }
func (c *modelCarrier) Set(k, v string)     { c.m = c.m.set(k, v) }
func (c *modelCarrier) Keys() []string      { return c.m.keys() }

type failure struct{ key, what string }

// How the value bytes of the initial headers are laid out in memory.
const (
	aliasFresh     = "fresh"      // every value its own allocation
	aliasSameBytes = "same-bytes" // headers with equal values share one []byte (two headers built from one slice)
	aliasOneBuffer = "one-buffer" // all values are consecutive sub-slices of one buffer, capacity running to its end
	aliasFanOut    = "fan-out"    // two records whose Headers slices are shallow copies of one source (separate slices, shared value bytes)
)

// guard remembers memory that existed before any carrier operation: Set must
// never write into it (it may only store newly allocated values).
type guard struct{ mem, snap []byte }

func newGuard(b []byte) guard { return guard{b, append([]byte{}, b...)} }

// buildAliased lays out init under mode. It returns the records (two for
// fan-out) and the guards over every pre-existing value byte.
func buildAliased(init model, mode string) (recs []*kgo.Record, guards []guard) {
	var hs []kgo.RecordHeader
	switch mode {
	case aliasSameBytes:
		shared := map[string][]byte{}
		for _, h := range init {
			b, ok := shared[h.V]
			if !ok {
				b = []byte(h.V)
				shared[h.V] = b
				guards = append(guards, newGuard(b))
			}
			hs = append(hs, kgo.RecordHeader{Key: h.K, Value: b})
		}
	case aliasOneBuffer:
		var buf []byte
		for _, h := range init {
			buf = append(buf, h.V...)
		}
		buf = append(buf, "...."...) // spare room behind the last value
		off := 0
		for _, h := range init {
			hs = append(hs, kgo.RecordHeader{Key: h.K, Value: buf[off : off+len(h.V)]}) // capacity runs on
			off += len(h.V)
		}
		guards = append(guards, newGuard(buf))
	default:
		hs = headersOf(init)
		for _, h := range hs {
			guards = append(guards, newGuard(h.Value))
		}
	}
	recs = []*kgo.Record{{Headers: hs}}
	if mode == aliasFanOut {
		recs = append(recs, &kgo.Record{Headers: append([]kgo.RecordHeader(nil), hs...)})
	}
	return recs, guards
}

// runCarrier executes ops on record(s) carrying init (laid out per mode) and
// on the list model; after every operation every header of every record is
// compared with the model and every pre-existing value byte with its snapshot.
func runCarrier(init model, ops []Op, mode string) (fail *failure, outcome uint64) {
	defer func() {
		if p := recover(); p != nil {
			fail = &failure{"carrier-panic", fmt.Sprintf("panic: %v", p)}
		}
	}()
	recs, guards := buildAliased(init, mode)
	ms := make([]model, len(recs))
	for i := range ms {
		ms[i] = init
	}
	h := fnv.New64a()
	for i, op := range ops {
		if op.R >= len(recs) {
			continue
		}
		rec := recs[op.R]
		c := kotel.NewRecordCarrier(rec)
		m := ms[op.R]
		switch op.Kind {
		case "set":
			c.Set(op.K, op.V)
			m = m.set(op.K, op.V)
			ms[op.R] = m
			if got := c.Get(op.K); got != op.V {
				return &failure{"set-then-get", fmt.Sprintf("op %d: after Set(%q,%q) Get(%q)=%q; headers now %s", i, op.K, op.V, op.K, got, fmtHeaders(rec.Headers))}, 0
			}
		case "get":
			got, want := c.Get(op.K), m.get(op.K)
			if got != want {
				return &failure{"get", fmt.Sprintf("op %d: Get(%q)=%q, map semantics give %q; headers %s", i, op.K, got, want, fmtHeaders(rec.Headers))}, 0
			}
			h.Write([]byte(got + "\x00"))
		case "keys":
			got, want := c.Keys(), m.keys()
			if strings.Join(got, "\x00") != strings.Join(want, "\x00") || len(got) != len(want) {
				return &failure{"keys", fmt.Sprintf("op %d: Keys()=%q, header keys are %q", i, got, want)}, 0
			}
			h.Write([]byte(strings.Join(got, ",") + "\x01"))
		}
		for ri := range recs {
			if !sameHeaders(recs[ri].Headers, ms[ri]) {
				key := "other-header-changed/" + op.Kind
				if ri != op.R {
					key = "other-record-changed/" + op.Kind
				}
				return &failure{key, fmt.Sprintf("op %d %+v (layout %s): headers of record %d are %s, expected %s (only the first header with the key in the target record may change, or one header be appended to it)", i, op, mode, ri, fmtHeaders(recs[ri].Headers), fmtModel(ms[ri]))}, 0
			}
		}
		for _, g := range guards {
			if string(g.mem) != string(g.snap) {
				return &failure{"wrote-into-existing-bytes/" + op.Kind, fmt.Sprintf("op %d %+v (layout %s): value bytes that existed before the operation changed from %q to %q (a carrier may only store newly allocated values)", i, op, mode, g.snap, g.mem)}, 0
			}
		}
	}
	for ri := range ms {
		h.Write([]byte(fmtModel(ms[ri])))
	}
	h.Write([]byte(mode))
	return nil, h.Sum64()
}

func allLists(alpha []KV, maxLen int) []model {
	out := []model{nil}
	var rec func(cur model)
	rec = func(cur model) {
		if len(cur) == maxLen {
			return
		}
		for _, kv := range alpha {
			next := append(append(model{}, cur...), kv)
			out = append(out, next)
			rec(next)
		}
	}
	rec(nil)
	return out
}

func allSeqs(alpha []Op, maxLen int) [][]Op {
	out := [][]Op{nil}
	var rec func(cur []Op)
	rec = func(cur []Op) {
		if len(cur) == maxLen {
			return
		}
		for _, op := range alpha {
			next := append(append([]Op{}, cur...), op)
			out = append(out, next)
			rec(next)
		}
	}
	rec(nil)
	return out
}

func partA(r *ev.Run) {
	maxList, maxSeq := 3, 3
	if ev.Thorough() {
		maxList, maxSeq = 4, 4
	}
	var halpha []KV
	for _, k := range []string{"k1", "k2"} {
		for _, v := range []string{"a", "b"} {
			halpha = append(halpha, KV{k, v})
		}
	}
	opAlpha := func(values []string, records int) []Op {
		var out []Op
		for rr := 0; rr < records; rr++ {
			for _, k := range []string{"k1", "k2", "k3"} {
				for _, v := range values {
					out = append(out, Op{Kind: "set", K: k, V: v, R: rr})
				}
			}
			for _, k := range []string{"k1", "k2", "k3"} {
				out = append(out, Op{Kind: "get", K: k, R: rr})
			}
			out = append(out, Op{Kind: "keys", R: rr})
		}
		return out
	}
	lists := allLists(halpha, maxList)
	r.Set("carrier_header_lists", len(lists))
	r.Set("bound_completed_carrier", map[string]int{"max_headers": maxList, "max_ops": maxSeq})

	// one stage per memory layout of the initial values; in the one-buffer
	// layout Set also writes a longer value (it would run into the neighbour's
	// bytes if the old buffer were reused); fan-out addresses either record.
	type stageT struct {
		mode string
		seqs [][]Op
	}
	fanSeq := maxSeq
	if fanSeq > 3 {
		fanSeq = 3
	}
	stages := []stageT{
		{aliasFresh, allSeqs(opAlpha([]string{"a", "b", "c"}, 1), maxSeq)},
		{aliasSameBytes, allSeqs(opAlpha([]string{"a", "b", "c"}, 1), maxSeq)},
		{aliasOneBuffer, allSeqs(opAlpha([]string{"a", "c", "ccc"}, 1), maxSeq)},
		{aliasFanOut, allSeqs(opAlpha([]string{"a", "b", "c"}, 2), fanSeq)},
	}
	seqCounts := map[string]int{}
	for _, st := range stages {
		seqCounts[st.mode] = len(st.seqs)
		var wg sync.WaitGroup
		var next int64
		for w := 0; w < ev.Workers(); w++ {
			wg.Add(1)
			go func() {
				defer wg.Done()
				out := map[uint64]struct{}{}
				for {
					li := int(atomic.AddInt64(&next, 1) - 1)
					if li >= len(lists) {
						break
					}
					for _, ops := range st.seqs {
						f, o := runCarrier(lists[li], ops, st.mode)
						if f != nil {
							r.Violation(f.key, f.what, map[string]any{"part": "carrier", "layout": st.mode, "headers": lists[li], "ops": ops})
							continue
						}
						out[o] = struct{}{}
					}
					r.Evals(int64(len(st.seqs)))
					if r.Violations() > 100 {
						r.NotExhaustive("stopped after more than 100 violations")
						break
					}
				}
				for o := range out {
					r.DistinctHash(o)
				}
			}()
		}
		wg.Wait()
		r.Sample(map[string]any{"part": "carrier", "layout": st.mode, "headers": lists[len(lists)/2], "ops": st.seqs[len(st.seqs)/3]})
	}
	r.Set("carrier_op_sequences_by_layout", seqCounts)
}

// ---------------------------------------------------------------- part B

// childTP is a deterministic stand-in for an SDK tracer provider: a started
// span keeps the parent's trace id, flags and state and gets a fresh span id.
type childTP struct {
	embedded.TracerProvider
	n atomic.Uint64
}

func (p *childTP) Tracer(string, ...trace.TracerOption) trace.Tracer { return &childTracer{p: p} }

type childTracer struct {
	embedded.Tracer
	p *childTP
}

type childSpan struct {
	noop.Span
	sc, parent trace.SpanContext
	name       string
}

func (s *childSpan) SpanContext() trace.SpanContext { return s.sc }

func (t *childTracer) Start(ctx context.Context, name string, opts ...trace.SpanStartOption) (context.Context, trace.Span) {
	parent := trace.SpanContextFromContext(ctx)
	cfg := trace.NewSpanStartConfig(opts...)
	seen := parent
	if cfg.NewRoot() {
		parent = trace.SpanContext{}
	}
	n := t.p.n.Add(1)
	var sid trace.SpanID
	sid[0] = 0xC5
	for i := 0; i < 7; i++ {
		sid[7-i] = byte(n >> (8 * i))
	}
	tid := parent.TraceID()
	if !parent.IsValid() {
		tid = trace.TraceID{0xEE, 1, 2, 3, 4, 5, 6, 7, 8, 9, 10, 11, 12, 13, 14, byte(n)}
	}
	sc := trace.NewSpanContext(trace.SpanContextConfig{TraceID: tid, SpanID: sid, TraceFlags: parent.TraceFlags(), TraceState: parent.TraceState()})
	sp := &childSpan{sc: sc, parent: seen, name: name}
	return trace.ContextWithSpan(ctx, sp), sp
}

type WireCase struct {
	Provider string `json:"provider"`
	Headers  model  `json:"headers"`
	Alias    string `json:"alias,omitempty"` // memory layout of the header values ("" = fresh)
	Sampled  bool   `json:"sampled"`
	State    string `json:"tracestate"`
	Index    int    `json:"index"`
}

func scString(sc trace.SpanContext) string {
	return fmt.Sprintf("trace=%s span=%s flags=%s state=%q", sc.TraceID(), sc.SpanID(), sc.TraceFlags(), sc.TraceState().String())
}

func sameSC(a, b trace.SpanContext) bool {
	return a.TraceID() == b.TraceID() && a.SpanID() == b.SpanID() && a.TraceFlags() == b.TraceFlags() && a.TraceState().String() == b.TraceState().String()
}

const stale1 = "00-aaaaaaaaaaaaaaaaaaaaaaaaaaaaaaaa-bbbbbbbbbbbbbbbb-01"
const stale2 = "00-cccccccccccccccccccccccccccccccc-dddddddddddddddd-00"

func wireShapes() []model {
	return []model{
		nil,
		{{"k1", "a"}},
		{{"traceparent", stale1}},
		{{"traceparent", stale1}, {"traceparent", stale2}},
		{{"k1", "a"}, {"traceparent", stale1}, {"k2", "b"}},
		{{"k1", "a"}, {"k1", "b"}, {"k2", "a"}},
		{{"Traceparent", stale1}, {"k1", "a"}},
		{{"k2", "b"}, {"traceparent", "garbage"}, {"traceparent", stale1}},
	}
}

func partB(r *ev.Run) {
	cluster, err := kfake.NewCluster(kfake.NumBrokers(1), kfake.SeedTopics(1, "noop", "child"))
	if err != nil {
		ev.InfraError("kfake: %v", err)
	}
	defer cluster.Close()
	prop := propagation.TraceContext{}
	nwire := 0
	for _, provider := range []string{"noop", "child"} {
		var tp trace.TracerProvider
		if provider == "noop" {
			tp = noop.NewTracerProvider()
		} else {
			tp = &childTP{}
		}
		topic := provider
		ptracer := kotel.NewTracer(kotel.TracerProvider(tp), kotel.TracerPropagator(prop))
		ctracer := kotel.NewTracer(kotel.TracerProvider(tp), kotel.TracerPropagator(prop))
		pcl, err := kgo.NewClient(kgo.SeedBrokers(cluster.ListenAddrs()...), kgo.WithHooks(ptracer), kgo.DefaultProduceTopic(topic))
		if err != nil {
			ev.InfraError("producer client: %v", err)
		}
		ccl, err := kgo.NewClient(kgo.SeedBrokers(cluster.ListenAddrs()...), kgo.WithHooks(ctracer), kgo.ConsumeTopics(topic), kgo.ConsumeResetOffset(kgo.NewOffset().AtStart()))
		if err != nil {
			ev.InfraError("consumer client: %v", err)
		}

		// build cases
		var cases []WireCase
		var recs []*kgo.Record
		var parents []trace.SpanContext
		var guards []guard
		type variant struct {
			sampled bool
			state   string
		}
		variants := []variant{{true, ""}, {false, ""}, {true, "vendor=x,other=y"}}
		addCase := func(hs model, headers []kgo.RecordHeader, alias string, v variant) {
			i := len(cases)
			wc := WireCase{Provider: provider, Headers: hs, Alias: alias, Sampled: v.sampled, State: v.state, Index: i}
			cases = append(cases, wc)
			var flags trace.TraceFlags
			if v.sampled {
				flags = trace.FlagsSampled
			}
			ts, err := trace.ParseTraceState(v.state)
			if err != nil {
				ev.InfraError("tracestate: %v", err)
			}
			sc := trace.NewSpanContext(trace.SpanContextConfig{
				TraceID:    trace.TraceID{0x11, byte(i + 1), 3, 4, 5, 6, 7, 8, 9, 10, 11, 12, 13, 14, 15, 16},
				SpanID:     trace.SpanID{0x22, byte(i + 1), 3, 4, 5, 6, 7, 8},
				TraceFlags: flags,
				TraceState: ts,
			})
			parents = append(parents, sc)
			recs = append(recs, &kgo.Record{
				Value:   []byte(strconv.Itoa(i)),
				Headers: headers,
				Context: trace.ContextWithSpanContext(context.Background(), sc),
			})
		}
		for _, hs := range wireShapes() {
			for _, v := range variants {
				addCase(hs, headersOf(hs), "", v)
			}
		}
		// aliasing shapes: value bytes shared between headers / between records
		for _, v := range variants {
			// two headers of one record built from one []byte
			x := []byte(stale1)
			guards = append(guards, newGuard(x))
			addCase(model{{"k1", "a"}, {"traceparent", stale1}, {"audit", stale1}},
				[]kgo.RecordHeader{{Key: "k1", Value: []byte("a")}, {Key: "traceparent", Value: x}, {Key: "audit", Value: x}}, aliasSameBytes, v)
			// fan-out: one source record re-produced twice with shallow-copied Headers
			srcModel := model{{"k1", "a"}, {"traceparent", stale1}, {"tracestate", "old=1"}, {"k2", "b"}}
			src := headersOf(srcModel)
			for _, h := range src {
				guards = append(guards, newGuard(h.Value))
			}
			v2 := v
			v2.state = "vendor=x,other=y" // the stale tracestate must be replaced in every copy
			addCase(srcModel, append([]kgo.RecordHeader(nil), src...), aliasFanOut+"/copy-1", v2)
			addCase(srcModel, append([]kgo.RecordHeader(nil), src...), aliasFanOut+"/copy-2", v2)
		}

		ctx, cancel := context.WithTimeout(context.Background(), 120*time.Second) // safety net only
		res := pcl.ProduceSync(ctx, recs...)
		if err := res.FirstErr(); err != nil {
			ev.InfraError("produce: %v", err)
		}

		// what the producer-side hook injected
		injected := make([]trace.SpanContext, len(cases))
		wantHeaders := make([]model, len(cases))
		for i, rec := range recs {
			viol := func(key, what string) {
				r.Violation("wire/"+key, what, map[string]any{"part": "wire", "case": cases[i]})
			}
			inj := trace.SpanContextFromContext(rec.Context)
			injected[i] = inj
			if !inj.IsValid() {
				viol("no-publish-span", "record context carries no valid span context after the producer hook")
				continue
			}
			if inj.TraceID() != parents[i].TraceID() || inj.TraceFlags() != parents[i].TraceFlags() {
				viol("publish-span-parent", "publish span "+scString(inj)+" is not in the trace of the caller's span "+scString(parents[i]))
			}
			if provider == "noop" && !sameSC(inj, parents[i]) {
				viol("publish-span-parent", "non-recording publish span "+scString(inj)+" differs from caller's "+scString(parents[i]))
			}
			// headers after the hook: the same propagator injecting the same
			// context into the list model (the order of its Set calls is its own)
			mc := &modelCarrier{m: cases[i].Headers}
			prop.Inject(rec.Context, mc)
			m := mc.m
			if mc.m.get("traceparent") == "" {
				ev.InfraError("propagator injected no traceparent into the model carrier")
			}
			wantHeaders[i] = m
			if !sameHeaders(rec.Headers, m) {
				viol("produce-headers", "headers after the producer hook are "+fmtHeaders(rec.Headers)+", expected "+fmtModel(m))
			}
		}

		// the hooks must not have written into value bytes that existed before
		for _, g := range guards {
			if string(g.mem) != string(g.snap) {
				r.Violation("wire/wrote-into-existing-bytes", fmt.Sprintf("header value bytes shared with another header/record changed from %q to %q during the producer hook", g.snap, g.mem), map[string]any{"part": "wire", "provider": provider})
			}
		}

		// consume everything back
		got := map[int]*kgo.Record{}
		for len(got) < len(cases) {
			fs := ccl.PollFetches(ctx)
			if ctx.Err() != nil {
				ev.InfraError("consume: safety-net timeout with %d of %d records", len(got), len(cases))
			}
			if errs := fs.Errors(); len(errs) > 0 {
				ev.InfraError("consume: %v", errs)
			}
			fs.EachRecord(func(rec *kgo.Record) {
				i, err := strconv.Atoi(string(rec.Value))
				if err != nil || i < 0 || i >= len(cases) || int64(i) != rec.Offset {
					ev.InfraError("consume: unexpected record value %q at offset %d", rec.Value, rec.Offset)
				}
				got[i] = rec
			})
		}
		cancel()

		for i := range cases {
			rec := got[i]
			nwire++
			viol := func(key, what string) {
				r.Violation("wire/"+key, what, map[string]any{"part": "wire", "case": cases[i]})
			}
			if !injected[i].IsValid() {
				continue
			}
			if wantHeaders[i] != nil && !sameHeaders(rec.Headers, wantHeaders[i]) {
				viol("consume-headers", "consumed headers are "+fmtHeaders(rec.Headers)+", produced "+fmtModel(wantHeaders[i]))
			}
			// (1) the propagator over the carrier of the consumed record
			ex := trace.SpanContextFromContext(prop.Extract(context.Background(), kotel.NewRecordCarrier(rec)))
			if !sameSC(ex, injected[i]) {
				viol("extract", "carrier extract gives "+scString(ex)+", injected was "+scString(injected[i])+"; consumed headers "+fmtHeaders(rec.Headers))
			} else if !ex.IsRemote() {
				viol("extract", "extracted span context is not marked remote")
			}
			// (2) what the consumer-side hook saw
			if rec.Context == nil {
				viol("consumer-hook", "consumed record has no context")
				continue
			}
			span := trace.SpanFromContext(rec.Context)
			var hooked trace.SpanContext
			if cs, ok := span.(*childSpan); ok {
				hooked = cs.parent
				if cs.sc.TraceID() != injected[i].TraceID() {
					viol("consumer-hook", "receive span "+scString(cs.sc)+" is not in the injected trace "+scString(injected[i]))
				}
			} else {
				hooked = span.SpanContext() // non-recording span carries the extracted parent
			}
			if !sameSC(hooked, injected[i]) {
				viol("consumer-hook", "consumer hook extracted "+scString(hooked)+", injected was "+scString(injected[i]))
			}
			r.Distinct(fmt.Sprintf("wire/%s/%s/%s/%v/%s", provider, cases[i].Alias, fmtModel(cases[i].Headers), cases[i].Sampled, cases[i].State))
		}
		r.Sample(map[string]any{"part": "wire", "case": cases[len(cases)-1], "consumed_headers": fmtHeaders(got[len(cases)-1].Headers)})
		pcl.Close()
		ccl.Close()
	}
	r.Evals(int64(nwire))
	r.Set("wire_records", nwire)
}

func main() {
	if len(os.Args) == 3 && os.Args[1] == "--replay" {
		replay(os.Args[2])
		return
	}
	r := ev.New("C37", "exploration")
	r.Rule("part A: every header list of length <=3 (thorough 4) over keys {k1,k2} x values {a,b}, duplicates included, x 4 memory layouts of the initial value bytes (fresh allocations; equal values sharing one []byte; all values consecutive sub-slices of one buffer with capacity running on; fan-out = two records with shallow-copied Headers slices sharing the value bytes) x every sequence of length <=3 (thorough 4; fan-out 3) over Set(k in {k1,k2,k3}, v in {a,b,c}; one-buffer layout {a,c,ccc}), Get(k in {k1,k2,k3}), Keys (fan-out: on either record); after every operation every header of every record is compared with the list model and every pre-existing value byte with its snapshot; a case is one (layout, list, sequence) triple, distinct = distinct (results, final headers) outcomes. part B: 8 pre-existing header shapes (none, unrelated, stale traceparent, duplicate stale traceparents, traceparent in the middle, duplicate unrelated keys, differently-cased key, garbage+stale) + 2 aliasing shapes (two headers of one record built from one []byte; one source header list shallow-copied into two records produced separately) x {sampled, unsampled, sampled+tracestate} x {non-recording provider, deterministic child-span provider}, one record each through kgo+kfake")
	r.Assume("go.opentelemetry.io/otel propagation.TraceContext is correct (it is the propagator under which the carrier is exercised)",
		"the wire part uses real sockets to kfake; its only timing element is a 120 s safety-net context that yields an infrastructure error, never a verdict",
		"Set on an absent key appends at the end; Set on a present key rewrites the first header with that key (what Get reads)")
	if os.Getenv("VERIF_C37_ONLY") != "wire" { // debugging aid: run only the wire part
		partA(r)
	}
	partB(r)
	r.Finish()
}

func replay(path string) {
	b, err := os.ReadFile(path)
	if err != nil {
		ev.InfraError("replay: %v", err)
	}
	var v struct {
		Artefact struct {
			Part    string `json:"part"`
			Headers model  `json:"headers"`
			Ops     []Op   `json:"ops"`
			Layout  string `json:"layout"`
		} `json:"artefact"`
	}
	if err := json.Unmarshal(b, &v); err != nil {
		ev.InfraError("replay: %v", err)
	}
	if v.Artefact.Part != "carrier" {
		fmt.Println("REPLAY: wire cases are replayed by re-running the check (the whole wire part takes about a second)")
		os.Exit(2)
	}
	if v.Artefact.Layout == "" {
		v.Artefact.Layout = aliasFresh
	}
	if f, _ := runCarrier(v.Artefact.Headers, v.Artefact.Ops, v.Artefact.Layout); f != nil {
		fmt.Printf("REPLAY: VIOLATION key=%s\n  %s\n", f.key, f.what)
		os.Exit(1)
	}
	fmt.Println("REPLAY: held")
}
