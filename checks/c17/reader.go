package main

import (
	"encoding/binary"
	"encoding/hex"
	"fmt"
	"math"
	"strings"
	"sync/atomic"
)

// ---- length-prefixed encoders -------------------------------------------------

func data(l int) []byte {
	b := make([]byte, l)
	for i := range b {
		b[i] = byte(1 + (i*31+7)%200) // never 0xEE (the poison byte), never 0
	}
	return b
}

func be16(v int16) []byte { return binary.BigEndian.AppendUint16(nil, uint16(v)) }
func be32(v int32) []byte { return binary.BigEndian.AppendUint32(nil, uint32(v)) }
func uv(v uint64) []byte  { return refAppendUvarint(nil, v) }
func zv(v int64) []byte   { return refAppendUvarint(nil, refZigzag64(v)) }
func cat(a ...[]byte) []byte {
	var out []byte
	for _, x := range a {
		out = append(out, x...)
	}
	return out
}

var encLens16 = []int{0, 1, 2, 62, 63, 64, 65, 126, 127, 128, 129, 8190, 8191, 8192, 16382, 16383, 16384, 16385, 32766, 32767}
var encLensBig = []int{32768, 65535, 65536, 1048575, 1048576, 2097150, 2097151, 2097152}
var arrayLens = []int{0, 1, 126, 127, 128, 16382, 16383, 16384, 1<<21 - 2, 1<<21 - 1, 1 << 21, 1<<28 - 2, 1<<28 - 1, 1 << 28, 1<<31 - 2, 1<<31 - 1}

// sweepPrefixed: every length-prefixed encoder at every length where a prefix
// changes width (int16 / int32 / uvarint / zig-zag varint boundaries), null
// and empty values, against prefixes built with encoding/binary and the
// reference varint encoder.
func (h *harness) sweepPrefixed(im *Impl) (evals int64) {
	defer func() {
		if p := recover(); p != nil {
			h.fail("C17:"+im.Name+":prefixed:panic", fmt.Sprintf("panic: %v", p), art{Copy: im.Name, Suite: "enc"})
		}
	}()
	for _, l := range append(append([]int{}, encLens16...), encLensBig...) {
		b := data(l)
		s := string(b)
		lab := fmt.Sprintf("len=%d", l)
		if l <= math.MaxInt16 {
			h.encEq(im, "AppendString", lab, im.AppendString(dst(), s), cat(be16(int16(l)), b))
			h.encEq(im, "AppendNullableString", lab, im.AppendNullableString(dst(), &s), cat(be16(int16(l)), b))
			evals += 2
		}
		h.encEq(im, "AppendCompactString", lab, im.AppendCompactString(dst(), s), cat(uv(uint64(l)+1), b))
		h.encEq(im, "AppendCompactNullableString", lab, im.AppendCompactNullableString(dst(), &s), cat(uv(uint64(l)+1), b))
		h.encEq(im, "AppendBytes", lab, im.AppendBytes(dst(), b), cat(be32(int32(l)), b))
		h.encEq(im, "AppendNullableBytes", lab, im.AppendNullableBytes(dst(), b), cat(be32(int32(l)), b))
		h.encEq(im, "AppendCompactBytes", lab, im.AppendCompactBytes(dst(), b), cat(uv(uint64(l)+1), b))
		h.encEq(im, "AppendCompactNullableBytes", lab, im.AppendCompactNullableBytes(dst(), b), cat(uv(uint64(l)+1), b))
		h.encEq(im, "AppendVarintString", lab, im.AppendVarintString(dst(), s), cat(zv(int64(l)), b))
		h.encEq(im, "AppendVarintBytes", lab, im.AppendVarintBytes(dst(), b), cat(zv(int64(l)), b))
		evals += 8
		h.r.Distinct("enc/" + lab)
	}
	h.encEq(im, "AppendNullableString", "nil", im.AppendNullableString(dst(), nil), []byte{0xff, 0xff})
	h.encEq(im, "AppendCompactNullableString", "nil", im.AppendCompactNullableString(dst(), nil), []byte{0})
	h.encEq(im, "AppendNullableBytes", "nil", im.AppendNullableBytes(dst(), nil), []byte{0xff, 0xff, 0xff, 0xff})
	h.encEq(im, "AppendCompactNullableBytes", "nil", im.AppendCompactNullableBytes(dst(), nil), []byte{0})
	h.encEq(im, "AppendVarintBytes", "nil", im.AppendVarintBytes(dst(), nil), []byte{1})
	evals += 5
	for _, l := range arrayLens {
		lab := fmt.Sprintf("len=%d", l)
		h.encEq(im, "AppendCompactArrayLen", lab, im.AppendCompactArrayLen(dst(), l), uv(uint64(l)+1))
		h.encEq(im, "AppendCompactNullableArrayLen", lab, im.AppendCompactNullableArrayLen(dst(), l, false), uv(uint64(l)+1))
		h.encEq(im, "AppendCompactNullableArrayLen", lab+",nil", im.AppendCompactNullableArrayLen(dst(), l, true), []byte{0})
		evals += 3
	}
	return evals
}

// ---- Reader methods --------------------------------------------------------------

type nstr struct { // normalised *string
	Null bool
	S    string
}
type nbytes struct { // normalised nullable []byte
	Null bool
	B    string
}

func normS(p *string) any {
	if p == nil {
		return nstr{Null: true}
	}
	return nstr{S: *p}
}
func normB(b []byte) any {
	if b == nil {
		return nbytes{Null: true}
	}
	return nbytes{B: string(b)}
}
func hasPoison(v any) bool {
	switch x := v.(type) {
	case string:
		return strings.IndexByte(x, 0xEE) >= 0
	case nstr:
		return strings.IndexByte(x.S, 0xEE) >= 0
	case nbytes:
		return strings.IndexByte(x.B, 0xEE) >= 0
	}
	return false
}
func contentLen(v any) int {
	switch x := v.(type) {
	case string:
		return len(x)
	case nstr:
		return len(x.S)
	case nbytes:
		return len(x.B)
	}
	return 0
}

const (
	mustDecode    = iota // the valid encoding decodes to want
	nullForNonNil        // a null length where the type is not nullable: reject, or accept as empty (EventHubs leniency); never panic
	mustReject           // no value can be returned (negative Span)
)

type rcase struct {
	method  string
	label   string
	enc     []byte
	consume int // bytes of enc the method consumes when it succeeds
	call    func(Reader) any
	want    any
	mode    int
}

var methods = map[string]func(Reader) any{
	"Bool":                        func(r Reader) any { return r.Bool() },
	"Int8":                        func(r Reader) any { return r.Int8() },
	"Int16":                       func(r Reader) any { return r.Int16() },
	"Uint16":                      func(r Reader) any { return r.Uint16() },
	"Int32":                       func(r Reader) any { return r.Int32() },
	"Uint32":                      func(r Reader) any { return r.Uint32() },
	"Int64":                       func(r Reader) any { return r.Int64() },
	"Float64":                     func(r Reader) any { return math.Float64bits(r.Float64()) },
	"Uuid":                        func(r Reader) any { return r.Uuid() },
	"Varint":                      func(r Reader) any { return r.Varint() },
	"Uvarint":                     func(r Reader) any { return r.Uvarint() },
	"Varlong":                     func(r Reader) any { return r.Varlong() },
	"String":                      func(r Reader) any { return r.String() },
	"UnsafeString":                func(r Reader) any { return r.UnsafeString() },
	"CompactString":               func(r Reader) any { return r.CompactString() },
	"UnsafeCompactString":         func(r Reader) any { return r.UnsafeCompactString() },
	"NullableString":              func(r Reader) any { return normS(r.NullableString()) },
	"UnsafeNullableString":        func(r Reader) any { return normS(r.UnsafeNullableString()) },
	"CompactNullableString":       func(r Reader) any { return normS(r.CompactNullableString()) },
	"UnsafeCompactNullableString": func(r Reader) any { return normS(r.UnsafeCompactNullableString()) },
	"VarintString":                func(r Reader) any { return r.VarintString() },
	"UnsafeVarintString":          func(r Reader) any { return r.UnsafeVarintString() },
	"Bytes":                       func(r Reader) any { return string(r.Bytes()) },
	"CompactBytes":                func(r Reader) any { return string(r.CompactBytes()) },
	"NullableBytes":               func(r Reader) any { return normB(r.NullableBytes()) },
	"CompactNullableBytes":        func(r Reader) any { return normB(r.CompactNullableBytes()) },
	"VarintBytes":                 func(r Reader) any { return normB(r.VarintBytes()) },
	"ArrayLen":                    func(r Reader) any { return r.ArrayLen() },
	"CompactArrayLen":             func(r Reader) any { return r.CompactArrayLen() },
	"VarintArrayLen":              func(r Reader) any { return r.VarintArrayLen() },
}

func spanCall(l int) func(Reader) any {
	return func(r Reader) any { return normB(r.Span(l)) }
}

// caseGen is an indexable family of reader cases (generated on demand so that
// millions of fixed-width patterns are not held in memory).
type caseGen struct {
	name string
	n    uint64
	at   func(i uint64) rcase
}

func listGen(name string, cs []rcase) caseGen {
	return caseGen{name, uint64(len(cs)), func(i uint64) rcase { return cs[i] }}
}

func mk(method, label string, enc []byte, consume int, want any, mode int) rcase {
	return rcase{method: method, label: label, enc: enc, consume: consume, call: methods[method], want: want, mode: mode}
}

// prefixedCases: every string / bytes / array-length method at the length
// prefix boundaries -1, 0, 1, 126, 127, 128 (compact: uvarint 1->2 bytes at
// 127), 32767 (largest int16 prefix) and the further varint width changes.
func prefixedCases() []rcase {
	var cs []rcase
	lens := []int{0, 1, 63, 64, 126, 127, 128, 8191, 8192, 16382, 16383, 16384, 32767}
	for _, l := range lens {
		b := data(l)
		s := string(b)
		lab := fmt.Sprintf("len=%d", l)
		e16 := cat(be16(int16(l)), b)
		e32 := cat(be32(int32(l)), b)
		ec := cat(uv(uint64(l)+1), b)
		ez := cat(zv(int64(l)), b)
		for _, m := range []string{"String", "UnsafeString"} {
			cs = append(cs, mk(m, lab, e16, len(e16), s, mustDecode))
		}
		for _, m := range []string{"NullableString", "UnsafeNullableString"} {
			cs = append(cs, mk(m, lab, e16, len(e16), nstr{S: s}, mustDecode))
		}
		for _, m := range []string{"CompactString", "UnsafeCompactString"} {
			cs = append(cs, mk(m, lab, ec, len(ec), s, mustDecode))
		}
		for _, m := range []string{"CompactNullableString", "UnsafeCompactNullableString"} {
			cs = append(cs, mk(m, lab, ec, len(ec), nstr{S: s}, mustDecode))
		}
		for _, m := range []string{"VarintString", "UnsafeVarintString"} {
			cs = append(cs, mk(m, lab, ez, len(ez), s, mustDecode))
		}
		cs = append(cs,
			mk("Bytes", lab, e32, len(e32), s, mustDecode),
			mk("NullableBytes", lab, e32, len(e32), nbytes{B: s}, mustDecode),
			mk("CompactBytes", lab, ec, len(ec), s, mustDecode),
			mk("CompactNullableBytes", lab, ec, len(ec), nbytes{B: s}, mustDecode),
			mk("VarintBytes", lab, ez, len(ez), nbytes{B: s}, mustDecode),
			// array lengths: the reader requires at least n more bytes to follow and leaves them unread
			mk("ArrayLen", lab, e32, 4, int32(l), mustDecode),
			mk("CompactArrayLen", lab, ec, len(ec)-l, int32(l), mustDecode),
			mk("VarintArrayLen", lab, ez, len(ez)-l, int32(l), mustDecode),
		)
		sp := rcase{method: "Span", label: lab, enc: b, consume: l, call: spanCall(l), want: nbytes{B: s}, mode: mustDecode}
		cs = append(cs, sp)
	}
	// length -1
	n16, n32, nc, nz := []byte{0xff, 0xff}, []byte{0xff, 0xff, 0xff, 0xff}, []byte{0}, []byte{1}
	cs = append(cs,
		mk("NullableString", "len=-1", n16, 2, nstr{Null: true}, mustDecode),
		mk("UnsafeNullableString", "len=-1", n16, 2, nstr{Null: true}, mustDecode),
		mk("CompactNullableString", "len=-1", nc, 1, nstr{Null: true}, mustDecode),
		mk("UnsafeCompactNullableString", "len=-1", nc, 1, nstr{Null: true}, mustDecode),
		mk("NullableBytes", "len=-1", n32, 4, nbytes{Null: true}, mustDecode),
		mk("CompactNullableBytes", "len=-1", nc, 1, nbytes{Null: true}, mustDecode),
		mk("VarintBytes", "len=-1", nz, 1, nbytes{Null: true}, mustDecode),
		mk("ArrayLen", "len=-1", n32, 4, int32(-1), mustDecode),
		mk("CompactArrayLen", "len=-1", nc, 1, int32(-1), mustDecode),
		mk("VarintArrayLen", "len=-1", nz, 1, int32(-1), mustDecode),
		mk("String", "len=-1", n16, 2, "", nullForNonNil),
		mk("UnsafeString", "len=-1", n16, 2, "", nullForNonNil),
		mk("CompactString", "len=-1", nc, 1, "", nullForNonNil),
		mk("UnsafeCompactString", "len=-1", nc, 1, "", nullForNonNil),
		mk("VarintString", "len=-1", nz, 1, "", nullForNonNil),
		mk("UnsafeVarintString", "len=-1", nz, 1, "", nullForNonNil),
		mk("Bytes", "len=-1", n32, 4, "", nullForNonNil),
		mk("CompactBytes", "len=-1", nc, 1, "", nullForNonNil),
		rcase{method: "Span", label: "len=-1 (empty input)", enc: nil, call: spanCall(-1), mode: mustReject},
		rcase{method: "Span", label: "len=-1", enc: data(4), call: spanCall(-1), mode: mustReject},
	)
	return cs
}

// varintCases: Reader.Varint/Uvarint/Varlong on the minimal encoding of every
// boundary value (each strict prefix of such an encoding is short input).
func varintCases() []rcase {
	var cs []rcase
	for _, v := range boundary64() {
		cs = append(cs, mk("Varlong", fmt.Sprint(v), zv(v), len(zv(v)), v, mustDecode))
		if v >= math.MinInt32 && v <= math.MaxInt32 {
			cs = append(cs, mk("Varint", fmt.Sprint(v), zv(v), len(zv(v)), int32(v), mustDecode))
		}
		if v >= 0 && v <= math.MaxUint32 {
			cs = append(cs, mk("Uvarint", fmt.Sprint(v), uv(uint64(v)), len(uv(uint64(v))), uint32(v), mustDecode))
		}
	}
	return cs
}

func fixedGens() []caseGen {
	p4, p8 := patterns(4), patterns(8)
	ids := uuids()
	return []caseGen{
		{"Bool", 256, func(i uint64) rcase {
			return mk("Bool", fmt.Sprintf("%02x", i), []byte{byte(i)}, 1, i != 0, mustDecode)
		}},
		{"Int8", 256, func(i uint64) rcase {
			return mk("Int8", fmt.Sprintf("%02x", i), []byte{byte(i)}, 1, int8(i), mustDecode)
		}},
		{"Int16", 65536, func(i uint64) rcase {
			return mk("Int16", "", binary.BigEndian.AppendUint16(nil, uint16(i)), 2, int16(i), mustDecode)
		}},
		{"Uint16", 65536, func(i uint64) rcase {
			return mk("Uint16", "", binary.BigEndian.AppendUint16(nil, uint16(i)), 2, uint16(i), mustDecode)
		}},
		{"Int32", uint64(len(p4)), func(i uint64) rcase {
			return mk("Int32", "", binary.BigEndian.AppendUint32(nil, uint32(p4[i])), 4, int32(p4[i]), mustDecode)
		}},
		{"Uint32", uint64(len(p4)), func(i uint64) rcase {
			return mk("Uint32", "", binary.BigEndian.AppendUint32(nil, uint32(p4[i])), 4, uint32(p4[i]), mustDecode)
		}},
		{"Int64", uint64(len(p8)), func(i uint64) rcase {
			return mk("Int64", "", binary.BigEndian.AppendUint64(nil, p8[i]), 8, int64(p8[i]), mustDecode)
		}},
		{"Float64", uint64(len(p8)), func(i uint64) rcase {
			return mk("Float64", "", binary.BigEndian.AppendUint64(nil, p8[i]), 8, p8[i], mustDecode)
		}},
		{"Uuid", uint64(len(ids)), func(i uint64) rcase { return mk("Uuid", "", ids[i][:], 16, ids[i], mustDecode) }},
	}
}

var trailer = []byte{0x01, 0x80, 0xff}

// runCase runs one reader case on one copy: the valid encoding (alone and
// followed by trailer bytes, both inside a buffer whose spare capacity is
// poisoned with 0xEE) and every strict prefix of it. Returns evaluations.
func (h *harness) runCase(im *Impl, c rcase) (evals int64, ok bool) {
	ok = true
	bad := func(kind, what string, in []byte, trunc int) {
		ok = false
		hx := hex.EncodeToString(clipN(in, 64))
		h.fail("C17:"+im.Name+":Reader."+c.method+":"+kind, fmt.Sprintf("Reader.%s [%s] on %d bytes (%s%s): %s", c.method, c.label, len(in), hx, dots(in, 64), what),
			art{Copy: im.Name, Suite: "reader", Method: c.method, Label: c.label, Hex: hx, Trunc: trunc})
	}
	invoke := func(in []byte, trunc int) (r Reader, v any, panicked bool) {
		defer func() {
			if p := recover(); p != nil {
				panicked = true
				bad("panic", fmt.Sprintf("panic: %v", p), in, trunc)
			}
		}()
		r = im.NewReader(in)
		v = c.call(r)
		return r, v, false
	}
	for _, tr := range [][]byte{nil, trailer} {
		full := make([]byte, len(c.enc)+len(tr)+16)
		copy(full, c.enc)
		copy(full[len(c.enc):], tr)
		for i := len(c.enc) + len(tr); i < len(full); i++ {
			full[i] = 0xEE
		}
		in := full[:len(c.enc)+len(tr)]
		evals++
		r, v, p := invoke(in, -1)
		if p {
			continue
		}
		err := r.Complete()
		src := im.Src(r)
		rest := in[c.consume:]
		restOK := len(src) == len(rest) && (len(src) == 0 || &src[0] == &rest[0])
		if hasPoison(v) {
			bad("overread", "result contains bytes from beyond the input", in, -1)
		}
		switch c.mode {
		case mustDecode:
			if err != nil || !r.Ok() {
				bad("valid-rejected", fmt.Sprintf("valid encoding rejected: Complete()=%v", err), in, -1)
			} else if v != c.want {
				bad("value", fmt.Sprintf("decoded %s, want %s", show(v), show(c.want)), in, -1)
			} else if !restOK {
				bad("consumed", fmt.Sprintf("%d bytes left unread, want %d", len(src), len(rest)), in, -1)
			}
		case nullForNonNil:
			if err == nil && (contentLen(v) != 0 || !restOK) {
				bad("null", fmt.Sprintf("null length accepted but decoded %s with %d bytes left (want empty, %d left)", show(v), len(src), len(rest)), in, -1)
			}
		case mustReject:
			if err == nil || r.Ok() {
				bad("accepted", "reader not invalidated", in, -1)
			}
		}
	}
	for k := 0; k < len(c.enc); k++ {
		in := c.enc[:k] // the rest of the valid encoding lies right behind len(in): an over-read would succeed
		evals++
		r, v, p := invoke(in, k)
		if p {
			continue
		}
		if err := r.Complete(); err == nil || r.Ok() {
			bad("short-accepted", fmt.Sprintf("truncated to %d of %d bytes but the reader was not invalidated (returned %s)", k, len(c.enc), show(v)), in, k)
		} else if contentLen(v) > k || len(im.Src(r)) > k {
			bad("overread", fmt.Sprintf("truncated to %d bytes but %d bytes were returned", k, contentLen(v)), in, k)
		}
	}
	return evals, ok
}

func clipN(b []byte, n int) []byte {
	if len(b) > n {
		return b[:n]
	}
	return b
}
func dots(b []byte, n int) string {
	if len(b) > n {
		return "..."
	}
	return ""
}
func show(v any) string {
	s := fmt.Sprintf("%#v", v)
	if len(s) > 80 {
		s = s[:80] + "..."
	}
	return s
}

func (h *harness) sweepReader(impls []*Impl) (evals int64) {
	gens := append([]caseGen{listGen("prefixed", prefixedCases()), listGen("varints", varintCases())}, fixedGens()...)
	var total atomic.Int64
	for _, g := range gens {
		g := g
		h.r.Set("reader_cases "+g.name, g.n)
		parallel(g.n, 64, func(lo, hi uint64) bool {
			var n int64
			good := true
			for i := lo; i < hi; i++ {
				c := g.at(i)
				for _, im := range impls {
					e, ok := h.runCase(im, c)
					n += e
					good = good && ok
				}
			}
			total.Add(n)
			return good
		})
	}
	for _, c := range append(prefixedCases(), varintCases()...) {
		h.r.Distinct("reader/" + c.method + "/" + c.label)
	}
	for _, g := range fixedGens() {
		h.r.Distinct("reader/" + g.name)
	}
	return total.Load()
}
