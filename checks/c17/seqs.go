package main

import (
	"encoding/hex"
	"fmt"
	"sync/atomic"

	"verif.local/ev"
)

// Control-byte structure of the varint decoders: byte sequences built from
// bytes that sit on every branch boundary of the unrolled decoders
// (continuation bit set/clear, payload 0 / 1 / max), with the last byte
// running over all 256 values so that the 5th-byte (<= 0x0f) and 10th-byte
// (<= 0x01) overflow limits are crossed from both sides.

var alphaA = []byte{0x00, 0x01, 0x7f, 0x80, 0x81, 0xff}
var alphaCont = []byte{0x80, 0xff}
var alphaAll = func() []byte {
	b := make([]byte, 256)
	for i := range b {
		b[i] = byte(i)
	}
	return b
}()

// family is a product of per-position alphabets.
type family struct {
	name string
	pos  [][]byte
}

func (f family) size() uint64 {
	n := uint64(1)
	for _, p := range f.pos {
		n *= uint64(len(p))
	}
	return n
}

// fill writes sequence number idx (mixed radix, last position fastest).
func (f family) fill(idx uint64, out []byte) {
	for p := len(f.pos) - 1; p >= 0; p-- {
		a := f.pos[p]
		out[p] = a[idx%uint64(len(a))]
		idx /= uint64(len(a))
	}
}

func rep(a []byte, n int) [][]byte {
	out := make([][]byte, n)
	for i := range out {
		out[i] = a
	}
	return out
}

func seqFamilies(thorough bool) []family {
	var fs []family
	if !thorough {
		for n := 1; n <= 6; n++ { // superset of A^n
			fs = append(fs, family{fmt.Sprintf("len%d:A^%d x any", n, n-1), append(rep(alphaA, n-1), alphaAll)})
		}
		for n := 7; n <= 11; n++ { // superset of {80,ff}^(n-2) x A^2
			fs = append(fs, family{fmt.Sprintf("len%d:{80,ff}^%d x A x any", n, n-2), append(append(rep(alphaCont, n-2), alphaA), alphaAll)})
		}
		return fs
	}
	for n := 1; n <= 8; n++ {
		fs = append(fs, family{fmt.Sprintf("len%d:A^%d x any", n, n-1), append(rep(alphaA, n-1), alphaAll)})
	}
	for n := 9; n <= 11; n++ {
		fs = append(fs, family{fmt.Sprintf("len%d:A^%d", n, n), rep(alphaA, n)})
		fs = append(fs, family{fmt.Sprintf("len%d:{80,ff}^%d x A x any", n, n-2), append(append(rep(alphaCont, n-2), alphaA), alphaAll)})
	}
	return fs
}

// checkSeq feeds one byte sequence to the three decoders and the three Reader
// methods of one copy. Returns the outcome class (for distinct counting) and
// whether everything agreed with the reference.
func (h *harness) checkSeq(im *Impl, in []byte) (class uint32, ok bool) {
	ok = true
	v32, n32, k32 := refUvarint(in, 32)
	v64, n64, k64 := refUvarint(in, 64)
	mk := func() art { return art{Copy: im.Name, Suite: "seq", Hex: hex.EncodeToString(in)} }

	if v, n := im.Uvarint(in); !kindMatches(k32, n32, n) || (k32 == decOK && v != uint32(v32)) {
		h.fail("C17:"+im.Name+":Uvarint:"+k32.String(), fmt.Sprintf("Uvarint(% x) = (%d,%d); reference: %v value=%d n=%d", in, v, n, k32, v32, n32), mk())
		ok = false
	}
	if v, n := im.Varint(in); !kindMatches(k32, n32, n) || (k32 == decOK && v != refUnzigzag32(uint32(v32))) {
		h.fail("C17:"+im.Name+":Varint:"+k32.String(), fmt.Sprintf("Varint(% x) = (%d,%d); reference: %v value=%d n=%d", in, v, n, k32, refUnzigzag32(uint32(v32)), n32), mk())
		ok = false
	}
	if v, n := im.Varlong(in); !kindMatches(k64, n64, n) || (k64 == decOK && v != refUnzigzag64(v64)) {
		h.fail("C17:"+im.Name+":Varlong:"+k64.String(), fmt.Sprintf("Varlong(% x) = (%d,%d); reference: %v value=%d n=%d", in, v, n, k64, refUnzigzag64(v64), n64), mk())
		ok = false
	}

	rd := func(method string, kind decKind, n int, call func(Reader) bool) {
		r := im.NewReader(in)
		same := call(r)
		err := r.Complete()
		if kind == decOK {
			src := im.Src(r)
			if err != nil || !r.Ok() || !same || len(src) != len(in)-n || (len(src) > 0 && &src[0] != &in[n]) {
				h.fail("C17:"+im.Name+":Reader."+method+":ok", fmt.Sprintf("Reader{% x}.%s: value matches reference=%v, Complete()=%v, %d bytes left unread (want %d)", in, method, same, err, len(src), len(in)-n), mk())
				ok = false
			}
		} else if err == nil || r.Ok() {
			h.fail("C17:"+im.Name+":Reader."+method+":"+kind.String(), fmt.Sprintf("Reader{% x}.%s did not invalidate the reader; reference says %v", in, method, kind), mk())
			ok = false
		}
	}
	rd("Uvarint", k32, n32, func(r Reader) bool { return r.Uvarint() == uint32(v32) || k32 != decOK })
	rd("Varint", k32, n32, func(r Reader) bool { return r.Varint() == refUnzigzag32(uint32(v32)) || k32 != decOK })
	rd("Varlong", k64, n64, func(r Reader) bool { return r.Varlong() == refUnzigzag64(v64) || k64 != decOK })

	return uint32(len(in))<<16 | uint32(k32)<<12 | uint32(n32)<<8 | uint32(k64)<<4 | uint32(n64), ok
}

func (h *harness) sweepSeqs(impls []*Impl, thorough bool) (total int64) {
	classes := make([]atomic.Bool, 1<<20)
	for _, f := range seqFamilies(thorough) {
		f := f
		size := f.size()
		h.r.Set("seq_family "+f.name, size)
		var cnt atomic.Int64
		parallel(size, 1<<14, func(lo, hi uint64) bool {
			buf := make([]byte, len(f.pos), len(f.pos)+8)
			for i := range buf[:cap(buf)] {
				buf[:cap(buf)][i] = 0xEE
			}
			ok := h.guard(lo, hi, "C17:seq:"+fmt.Sprint(len(f.pos)), func(i uint64) art {
				b := make([]byte, len(f.pos))
				f.fill(i, b)
				return art{Suite: "seq", Hex: hex.EncodeToString(b)}
			}, func(i uint64) bool {
				f.fill(i, buf)
				if !thorough || i%4099 == 0 { // oracle self-check against encoding/binary (thorough: on a fixed sub-grid)
					if err := selfCheckRef(buf); err != nil {
						ev.InfraError("reference decoder: %v", err)
					}
				}
				good := true
				for _, im := range impls {
					c, ok := h.checkSeq(im, buf)
					if !classes[c&(1<<20-1)].Load() {
						classes[c&(1<<20-1)].Store(true)
					}
					good = good && ok
				}
				return good
			})
			cnt.Add(int64(hi - lo))
			return ok
		})
		total += cnt.Load()
	}
	for c := range classes {
		if classes[c].Load() {
			h.r.Distinct(fmt.Sprintf("seq-outcome/%05x", c))
		}
	}
	return total
}
