package main

// Reader is the method set of kbin.Reader that the harness drives. Both the
// public package and the private copy satisfy it, so one harness runs on both.
type Reader interface {
	Bool() bool
	Int8() int8
	Int16() int16
	Uint16() uint16
	Int32() int32
	Int64() int64
	Uint32() uint32
	Float64() float64
	Uuid() [16]byte
	Varint() int32
	Varlong() int64
	Uvarint() uint32
	Span(int) []byte
	String() string
	UnsafeString() string
	CompactString() string
	UnsafeCompactString() string
	NullableString() *string
	UnsafeNullableString() *string
	CompactNullableString() *string
	UnsafeCompactNullableString() *string
	Bytes() []byte
	CompactBytes() []byte
	NullableBytes() []byte
	CompactNullableBytes() []byte
	ArrayLen() int32
	VarintArrayLen() int32
	CompactArrayLen() int32
	VarintBytes() []byte
	VarintString() string
	UnsafeVarintString() string
	Complete() error
	Ok() bool
}

// Impl is one copy of the primitives package as a struct of function values.
type Impl struct {
	Name string // "pub" (pkg/kbin) or "priv" (pkg/kmsg/internal/kbin)

	AppendBool    func([]byte, bool) []byte
	AppendInt8    func([]byte, int8) []byte
	AppendInt16   func([]byte, int16) []byte
	AppendUint16  func([]byte, uint16) []byte
	AppendInt32   func([]byte, int32) []byte
	AppendUint32  func([]byte, uint32) []byte
	AppendInt64   func([]byte, int64) []byte
	AppendFloat64 func([]byte, float64) []byte
	AppendUuid    func([]byte, [16]byte) []byte

	AppendVarint   func([]byte, int32) []byte
	AppendUvarint  func([]byte, uint32) []byte
	AppendVarlong  func([]byte, int64) []byte
	VarintLen      func(int32) int
	UvarintLen     func(uint32) int
	VarlongLen     func(int64) int
	Varint         func([]byte) (int32, int)
	Uvarint        func([]byte) (uint32, int)
	Varlong        func([]byte) (int64, int)
	ErrNotEnough   error
	NewReader      func([]byte) Reader
	Src            func(Reader) []byte
	UnsafeStringFn func([]byte) string

	AppendString                  func([]byte, string) []byte
	AppendCompactString           func([]byte, string) []byte
	AppendNullableString          func([]byte, *string) []byte
	AppendCompactNullableString   func([]byte, *string) []byte
	AppendBytes                   func(dst, b []byte) []byte
	AppendCompactBytes            func(dst, b []byte) []byte
	AppendNullableBytes           func(dst, b []byte) []byte
	AppendCompactNullableBytes    func(dst, b []byte) []byte
	AppendVarintString            func([]byte, string) []byte
	AppendVarintBytes             func(dst, b []byte) []byte
	AppendArrayLen                func([]byte, int) []byte
	AppendCompactArrayLen         func([]byte, int) []byte
	AppendNullableArrayLen        func([]byte, int, bool) []byte
	AppendCompactNullableArrayLen func([]byte, int, bool) []byte
}
