package main

import (
	"fmt"
	"sync"
	"sync/atomic"

	"verif.local/ev"
)

// ---- shared plumbing -------------------------------------------------------

type harness struct {
	r       *ev.Run
	seen    sync.Map // violation keys already reported (first failing input per class only)
	replay  bool     // --replay: print instead of recording
	nreplay atomic.Int64
}

// art is the replayable description of one failing input.
type art struct {
	Copy   string `json:"copy"`             // pub | priv
	Suite  string `json:"suite"`            // u32 | i32 | i64 | seq | reader | enc | be
	U32    uint32 `json:"u32,omitempty"`    // suite u32
	I32    int32  `json:"i32,omitempty"`    // suite i32
	I64    int64  `json:"i64,omitempty"`    // suite i64
	Hex    string `json:"hex,omitempty"`    // suite seq / reader: input bytes
	Method string `json:"method,omitempty"` // suite reader / enc
	Label  string `json:"label,omitempty"`
	Trunc  int    `json:"trunc,omitempty"` // suite reader: -1 valid input, else prefix length
}

func (h *harness) fail(key, what string, a art) {
	if _, dup := h.seen.LoadOrStore(key, true); dup {
		return
	}
	if h.replay {
		h.nreplay.Add(1)
		fmt.Printf("  key=%s\n  %s\n", key, what)
		return
	}
	h.r.Violation(key, what, a)
}

// parallel runs fn over [0,total) in chunks on ev.Workers() goroutines. fn
// returns false to stop its worker's suite early (after a violation).
func parallel(total, chunk uint64, fn func(lo, hi uint64) bool) {
	var next atomic.Uint64
	var stop atomic.Bool
	var wg sync.WaitGroup
	for w := 0; w < ev.Workers(); w++ {
		wg.Add(1)
		go func() {
			defer wg.Done()
			for !stop.Load() {
				lo := next.Add(chunk) - chunk
				if lo >= total {
					return
				}
				hi := lo + chunk
				if hi > total {
					hi = total
				}
				if !fn(lo, hi) {
					stop.Store(true)
				}
			}
		}()
	}
	wg.Wait()
}

// guard runs body(i) for i in [lo,hi); a panic at i is turned into a violation
// and the loop resumes at i+1.
func (h *harness) guard(lo, hi uint64, key string, mk func(i uint64) art, body func(i uint64) bool) (ok bool) {
	ok = true
	i := lo
	for i < hi {
		func() {
			defer func() {
				if p := recover(); p != nil {
					a := mk(i)
					h.fail(key+":panic", fmt.Sprintf("panic: %v (input %s%v)", p, a.Hex, a.I64), a)
					ok = false
					i++
				}
			}()
			for ; i < hi; i++ {
				if !body(i) {
					ok = false
					i = hi
					return
				}
			}
		}()
	}
	return ok
}

// ---- full 32-bit domains ----------------------------------------------------

// checkU32 is the slow, explaining version of the per-value test of the
// uvarint codec; the hot loop below calls it only on a mismatch (and --replay
// calls it directly).
func (h *harness) checkU32(im *Impl, u uint32) bool {
	ref := refAppendUvarint(nil, uint64(u))
	a := art{Copy: im.Name, Suite: "u32", U32: u}
	ok := true
	buf := make([]byte, 2, 16)
	buf[0], buf[1] = 0xAA, 0x55
	got := im.AppendUvarint(buf, u)
	if string(got) != "\xaa\x55"+string(ref) {
		h.fail("C17:"+im.Name+":AppendUvarint", fmt.Sprintf("AppendUvarint(%d) appended % x, reference % x", u, got[min(2, len(got)):], ref), a)
		ok = false
	}
	if l := im.UvarintLen(u); l != len(ref) {
		h.fail("C17:"+im.Name+":UvarintLen", fmt.Sprintf("UvarintLen(%d) = %d, encoded length is %d", u, l, len(ref)), a)
		ok = false
	}
	if v, n := im.Uvarint(ref); v != u || n != len(ref) {
		h.fail("C17:"+im.Name+":Uvarint", fmt.Sprintf("Uvarint(% x) = (%d,%d), want (%d,%d)", ref, v, n, u, len(ref)), a)
		ok = false
	}
	return ok
}

func (h *harness) checkI32(im *Impl, i int32) bool {
	ref := refAppendUvarint(nil, uint64(refZigzag32(i)))
	a := art{Copy: im.Name, Suite: "i32", I32: i}
	ok := true
	buf := make([]byte, 2, 16)
	buf[0], buf[1] = 0xAA, 0x55
	got := im.AppendVarint(buf, i)
	if string(got) != "\xaa\x55"+string(ref) {
		h.fail("C17:"+im.Name+":AppendVarint", fmt.Sprintf("AppendVarint(%d) appended % x, reference % x", i, got[min(2, len(got)):], ref), a)
		ok = false
	}
	if l := im.VarintLen(i); l != len(ref) {
		h.fail("C17:"+im.Name+":VarintLen", fmt.Sprintf("VarintLen(%d) = %d, encoded length is %d", i, l, len(ref)), a)
		ok = false
	}
	if v, n := im.Varint(ref); v != i || n != len(ref) {
		h.fail("C17:"+im.Name+":Varint", fmt.Sprintf("Varint(% x) = (%d,%d), want (%d,%d)", ref, v, n, i, len(ref)), a)
		ok = false
	}
	return ok
}

// domain32 selects which 32-bit values a sweep covers.
type domain32 struct {
	name string
	has  func(u uint32) bool // nil: every value
	size uint64
}

var fullDomain = domain32{name: "all 2^32 values", size: 1 << 32}

// splitDomain is every 32-bit value whose upper OR lower 16 bits lie in
// S16 = {2^k-1, 2^k, 2^k+1 : k = 0..16} (46 values: all powers of two and
// their neighbours, 0 and 0xffff): no stride, every carry boundary of the
// 7-bit groups (bits 7, 14, 21, 28) is crossed with all 65536 settings of the
// other half.
func splitDomain() domain32 {
	inS := make([]bool, 65536)
	n := uint64(0)
	for k := uint(0); k <= 16; k++ {
		for _, d := range []int{-1, 0, 1} {
			v := (1 << k) + d
			if v >= 0 && v < 65536 && !inS[v] {
				inS[v] = true
				n++
			}
		}
	}
	return domain32{
		name: fmt.Sprintf("values whose upper or lower 16 bits are one of the %d values 2^k-1, 2^k, 2^k+1", n),
		has:  func(u uint32) bool { return inS[u>>16] || inS[u&0xffff] },
		size: 2*n*65536 - n*n,
	}
}

// sweep32 runs the full 32-bit domains on one copy in a single pass over a
// counter u = 0..2^32-1: the reference encoding E(u) is built once; then
//
//	unsigned: AppendUvarint(u) == E(u), UvarintLen(u) == len E(u), Uvarint(E(u)) == (u, len)
//	signed:   s = unzigzag(u)  (a bijection uint32 -> int32, asserted by zigzag(s) == u, so
//	          every int32 is visited exactly once)
//	          AppendVarint(s) == E(u), VarintLen(s) == len E(u), Varint(E(u)) == (s, len)
//
// The loop is written out (no per-value closure) because it runs 2^32 times;
// on any mismatch the slow explaining check*32 is called. Returns evaluations
// (2 per counter value: one uint32, one int32).
func (h *harness) sweep32(im *Impl, d domain32) int64 {
	au, ul, du := im.AppendUvarint, im.UvarintLen, im.Uvarint
	av, vl, dv := im.AppendVarint, im.VarintLen, im.Varint
	var evals atomic.Int64
	var lens [6]atomic.Int64
	parallel(1<<32, 1<<22, func(lo, hi uint64) (ok bool) {
		var ebuf, rbuf [16]byte
		var cnt int64
		var ln [6]int64
		ok = true
		cur := lo
		for cur < hi {
			func() {
				defer func() {
					if p := recover(); p != nil {
						u := uint32(cur)
						h.fail("C17:"+im.Name+":varint32:panic", fmt.Sprintf("panic: %v (uint32 %d / int32 %d)", p, u, refUnzigzag32(u)), art{Copy: im.Name, Suite: "u32+i32", U32: u, I32: refUnzigzag32(u)})
						ok = false
						cur++
					}
				}()
				for i := cur; i < hi; i++ {
					cur = i
					u := uint32(i)
					if d.has != nil && !d.has(u) {
						continue
					}
					n := 0 // reference encoding of u
					for x := u; ; x >>= 7 {
						if x < 0x80 {
							rbuf[n] = byte(x)
							n++
							break
						}
						rbuf[n] = byte(x) | 0x80
						n++
					}
					ref := rbuf[:n]
					got := au(ebuf[:0], u)
					v, m := du(ref)
					if len(got) != n || ul(u) != n || v != u || m != n || string(got) != string(ref) {
						h.checkU32(im, u)
						ok = false
						cur = hi
						return
					}
					var s int32 // reference un-zig-zag: odd -> -(u+1)/2, even -> u/2
					if u&1 == 1 {
						s = ^int32(u >> 1)
					} else {
						s = int32(u >> 1)
					}
					if refZigzag32(s) != u {
						ev.InfraError("reference zig-zag is not a bijection at %d", u)
					}
					got = av(ebuf[:0], s)
					sv, sm := dv(ref)
					if len(got) != n || vl(s) != n || sv != s || sm != n || string(got) != string(ref) {
						h.checkI32(im, s)
						ok = false
						cur = hi
						return
					}
					cnt += 2
					ln[n]++
				}
				cur = hi
			}()
		}
		evals.Add(cnt)
		for i := range ln {
			lens[i].Add(ln[i])
		}
		return ok
	})
	for n := 1; n <= 5; n++ {
		if c := lens[n].Load(); c > 0 {
			h.r.Distinct(fmt.Sprintf("%s/uvarint32/len=%d", im.Name, n))
			h.r.Distinct(fmt.Sprintf("%s/varint32/len=%d", im.Name, n))
			h.r.Set(fmt.Sprintf("%s_varint32_len%d_values", im.Name, n), c)
		}
	}
	return evals.Load()
}
