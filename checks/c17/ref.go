package main

import (
	"encoding/binary"
	"fmt"
)

// Reference varint codec, written from the Protobuf / Kafka definition:
//
//   uvarint: the value is cut into 7-bit groups, least significant group first;
//            every byte but the last carries the continuation bit 0x80.
//   varint/varlong: zig-zag: non-negative n -> 2n, negative n -> 2|n|-1,
//            then uvarint.
//
// No table, no unrolling, no shared code with the implementation under test.

func refAppendUvarint(dst []byte, u uint64) []byte {
	for u >= 0x80 {
		dst = append(dst, byte(u&0x7f)|0x80)
		u >>= 7
	}
	return append(dst, byte(u))
}

func refZigzag32(i int32) uint32 {
	if i < 0 {
		return uint32(^i)*2 + 1 // 2|i|-1 == 2(-i-1)+1
	}
	return uint32(i) * 2
}

func refZigzag64(i int64) uint64 {
	if i < 0 {
		return uint64(^i)*2 + 1
	}
	return uint64(i) * 2
}

func refUnzigzag32(u uint32) int32 {
	if u&1 == 1 {
		return ^int32(u >> 1) // -(u>>1)-1
	}
	return int32(u >> 1)
}

func refUnzigzag64(u uint64) int64 {
	if u&1 == 1 {
		return ^int64(u >> 1)
	}
	return int64(u >> 1)
}

type decKind uint8

const (
	decOK        decKind = iota // value, n>0
	decShort                    // input ended inside the varint: n == 0
	decOverflow                 // more than maxBytes bytes, or payload beyond `bits` bits: n < 0
	decAmbiguous                // exactly maxBytes bytes, last one still has the continuation bit:
	//                             encoding/binary calls it short (0), the unrolled decoders call it
	//                             overflow (<0). Both reject; the oracle accepts any n <= 0.
)

func (k decKind) String() string {
	return [...]string{"ok", "short", "overflow", "reject"}[k]
}

// refUvarint decodes a uvarint holding at most `bits` (32 or 64) payload bits.
func refUvarint(in []byte, bits uint) (val uint64, n int, kind decKind) {
	maxBytes := int((bits + 6) / 7) // 5 resp. 10
	var x uint64
	for i := 0; i < len(in); i++ {
		b := in[i]
		if i == maxBytes-1 {
			if b >= 0x80 { // a (maxBytes+1)th byte would be needed: overlong
				if len(in) > maxBytes {
					return 0, 0, decOverflow
				}
				return 0, 0, decAmbiguous
			}
			room := bits - uint(7*i) // payload bits left in the last byte: 4 resp. 1
			if uint64(b)>>room != 0 {
				return 0, 0, decOverflow
			}
		}
		x |= uint64(b&0x7f) << uint(7*i)
		if b < 0x80 {
			return x, i + 1, decOK
		}
	}
	return 0, 0, decShort
}

// kindMatches says whether an implementation's n is acceptable for a
// reference outcome.
func kindMatches(kind decKind, refN, n int) bool {
	switch kind {
	case decOK:
		return n == refN
	case decShort:
		return n == 0
	case decOverflow:
		return n < 0
	default:
		return n <= 0
	}
}

// selfCheckRef cross-checks the reference decoder against encoding/binary on
// one input; a disagreement is a bug of the harness, not of franz-go.
func selfCheckRef(in []byte) error {
	bv, bn := binary.Uvarint(in)
	v64, n64, k64 := refUvarint(in, 64)
	switch {
	case bn > 0:
		if k64 != decOK || v64 != bv || n64 != bn {
			return fmt.Errorf("ref64(% x) = %d,%d,%v but binary.Uvarint = %d,%d", in, v64, n64, k64, bv, bn)
		}
	case bn == 0:
		if k64 != decShort && k64 != decAmbiguous {
			return fmt.Errorf("ref64(% x) = %v but binary.Uvarint says short", in, k64)
		}
	default:
		if k64 != decOverflow {
			return fmt.Errorf("ref64(% x) = %v but binary.Uvarint says overflow", in, k64)
		}
	}
	v32, n32, k32 := refUvarint(in, 32)
	switch {
	case bn > 0 && bn <= 5 && bv <= 0xffffffff:
		if k32 != decOK || v32 != bv || n32 != bn {
			return fmt.Errorf("ref32(% x) = %d,%d,%v but binary.Uvarint = %d,%d", in, v32, n32, k32, bv, bn)
		}
	case bn > 0 || bn < 0:
		if k32 != decOverflow && k32 != decAmbiguous {
			return fmt.Errorf("ref32(% x) = %v but binary.Uvarint = %d,%d does not fit 32 bits / 5 bytes", in, k32, bv, bn)
		}
	case len(in) < 5:
		if k32 != decShort {
			return fmt.Errorf("ref32(% x) = %v but input is short", in, k32)
		}
	}
	return nil
}

// selfCheckEnc cross-checks the reference encoder against encoding/binary.
func selfCheckEnc(u uint64) error {
	a := refAppendUvarint(nil, u)
	b := binary.AppendUvarint(nil, u)
	if string(a) != string(b) {
		return fmt.Errorf("refAppendUvarint(%d) = % x, binary.AppendUvarint = % x", u, a, b)
	}
	i := int64(u)
	if c := binary.AppendVarint(nil, i); string(c) != string(refAppendUvarint(nil, refZigzag64(i))) {
		return fmt.Errorf("ref zigzag(%d) disagrees with binary.AppendVarint", i)
	}
	if refUnzigzag64(refZigzag64(i)) != i || refUnzigzag32(refZigzag32(int32(i))) != int32(i) {
		return fmt.Errorf("ref zigzag not invertible at %d", i)
	}
	return nil
}
