// C17: wire primitives encode and decode exactly (pkg/kbin/primitives.go and
// its private copy pkg/kmsg/internal/kbin/primitives.go).
//
// Bounded exhaustive exploration, engine Q (input sweeps against a reference
// codec). Built by run.sh with a -overlay that maps the private copy into the
// virtual package verif/checks/c17/priv, so that both copies are compiled from
// the tree under test and driven by the same harness.
package main

import (
	"encoding/hex"
	"encoding/json"
	"fmt"
	"os"
	"sync"
	"time"

	"verif.local/ev"
)

func main() {
	impls := []*Impl{pubImpl(), privImpl()}
	if len(os.Args) == 3 && os.Args[1] == "--replay" {
		replay(impls, os.Args[2])
		return
	}
	repo := os.Getenv("REPO")
	if repo == "" {
		ev.InfraError("REPO not set (run through run.sh)")
	}

	r := ev.New("C17", "exploration")
	h := &harness{r: r}
	thorough := ev.Thorough()
	r.Rule("one case = one input value / byte sequence / (reader method, encoding, truncation point) run on one copy of the primitives; " +
		"32-bit domains are enumerated completely by counter, byte sequences by mixed-radix index over per-position alphabets, so no case repeats inside a family; " +
		"distinct_nontrivial counts outcome classes: (copy, function, encoded length), (sequence length, reference outcome and consumed bytes for 32- and 64-bit decoding), (reader method, length-prefix boundary)")
	r.Assume("reference varint codec in checks/c17/ref.go (cross-checked against encoding/binary on every explored sequence in quick, on a fixed sub-grid in thorough, and on every boundary value)",
		"encoding/binary big-endian and math.Float64bits are correct",
		"go build -overlay compiles pkg/kmsg/internal/kbin/primitives.go of the tree under test as package verif/checks/c17/priv",
		"non-minimal varints (80 00) are valid, as in encoding/binary; a 5th/10th byte with the continuation bit and no further input may be reported as short or as overflow")

	// 0. textual identity of the two copies
	t0 := time.Now()
	what, ntok, err := diffCopies(repo)
	if err != nil {
		ev.InfraError("compare copies: %v", err)
	}
	if what != "" {
		h.fail("C17:private-copy-differs", "pkg/kmsg/internal/kbin/primitives.go is not identical to pkg/kbin/primitives.go (comments, whitespace and package clause ignored)\n"+what,
			map2art("textdiff", what))
	}
	r.Set("copies_compared_code_tokens", ntok)
	r.Evals(1)
	r.Distinct("textual comparison of the two copies")

	// 1. full 32-bit domains, both copies
	// The public copy always gets the full domain. The private copy gets the full
	// domain in thorough, and in quick whenever its code differs from the public
	// copy; when the two files are token-identical (checked above on this very
	// tree) quick runs it on the split domain only.
	var full int64
	for _, im := range impls {
		d := fullDomain
		if im.Name == "priv" && !thorough && what == "" {
			d = splitDomain()
		}
		n := h.sweep32(im, d)
		if want := int64(2 * d.size); n != want && r.Violations() == 0 {
			ev.InfraError("%s: swept %d values, domain has %d", im.Name, n, want)
		}
		r.Set("domain32_"+im.Name, d.name)
		full += n
	}
	r.Evals(full)
	r.Set("domain32_functions", "every uint32 of the domain through AppendUvarint/UvarintLen/Uvarint and every int32 through AppendVarint/VarintLen/Varint")
	r.Set("domain32_evaluations", full)
	r.Set("phase_s full32", time.Since(t0).Seconds())

	// 2. 64-bit values
	t1 := time.Now()
	n := h.sweepI64(impls)
	r.Evals(n * int64(len(impls)))
	r.Set("varlong_values", n)
	r.Set("phase_s varlong", time.Since(t1).Seconds())

	// 3. control-byte sequences through decoders and Reader varint methods
	t1 = time.Now()
	n = h.sweepSeqs(impls, thorough)
	r.Evals(n * int64(len(impls)))
	r.Set("decoder_byte_sequences", n)
	r.Set("phase_s sequences", time.Since(t1).Seconds())

	// 4. fixed-width and length-prefixed encoders
	t1 = time.Now()
	var wg sync.WaitGroup
	for _, im := range impls {
		im := im
		wg.Add(2)
		go func() { defer wg.Done(); r.Evals(h.sweepFixed(im)) }()
		go func() { defer wg.Done(); r.Evals(h.sweepPrefixed(im)) }()
	}
	wg.Wait()
	r.Set("phase_s encoders", time.Since(t1).Seconds())

	// 5. every Reader method on valid encodings and all their truncations
	t1 = time.Now()
	r.Evals(h.sweepReader(impls))
	r.Set("reader_methods", len(methods)+1)
	r.Set("phase_s reader", time.Since(t1).Seconds())

	r.Sample(map[string]any{"suite": "u32", "value": 268435455, "encoding": hex.EncodeToString(refAppendUvarint(nil, 268435455)), "next": hex.EncodeToString(refAppendUvarint(nil, 268435456))})
	r.Sample(map[string]any{"suite": "seq", "input": "ffffffff10", "uvarint32": "overflow", "varlong": "ok n=5"})
	r.Sample(map[string]any{"suite": "seq", "input": "ffffffffffffffffff02", "varlong": "overflow (10th byte > 1)"})
	r.Sample(map[string]any{"suite": "reader", "method": "CompactNullableString", "label": "len=127", "prefix": "8001", "truncations": 129})
	r.Sample(map[string]any{"suite": "reader", "method": "ArrayLen", "label": "len=128", "note": "needs 128 bytes to follow; every shorter input must invalidate the reader"})
	r.Set("bound_completed", map[string]any{
		"varint32_uvarint32": map[bool]string{false: "pkg/kbin: full 2^32 domain (unsigned and signed); private copy (token-identical): all values with upper or lower half in {2^k-1,2^k,2^k+1}", true: "full 2^32 domain (unsigned and signed) on both copies"}[thorough || what != ""],
		"varlong":            "boundary set + all 16-bit windows at all shifts and their complements",
		"sequences":          map[bool]string{false: "len 1-6: A^(n-1) x any byte; len 7-11: {80,ff}^(n-2) x A x any byte", true: "len 1-8: A^(n-1) x any byte; len 9-11: A^n and {80,ff}^(n-2) x A x any byte"}[thorough],
		"reader":             "every method, every boundary length, every strict prefix",
	})
	r.Finish()
}

func map2art(suite, what string) art { return art{Suite: suite, Label: what} }

// replay re-runs the artefact of one violation file and prints the verdict.
func replay(impls []*Impl, path string) {
	b, err := os.ReadFile(path)
	if err != nil {
		ev.InfraError("%v", err)
	}
	var f struct {
		Key      string `json:"key"`
		Artefact art    `json:"artefact"`
	}
	if err := json.Unmarshal(b, &f); err != nil {
		ev.InfraError("%v", err)
	}
	h := &harness{replay: true} // prints, never writes evidence or violation files
	a := f.Artefact
	for _, im := range impls {
		if a.Copy != "" && a.Copy != im.Name {
			continue
		}
		switch a.Suite {
		case "u32+i32":
			h.guardOne("C17:"+im.Name+":uvarint32", a, func() { h.checkU32(im, a.U32) })
			h.guardOne("C17:"+im.Name+":varint32", a, func() { h.checkI32(im, a.I32) })
		case "u32":
			h.guardOne("C17:"+im.Name+":uvarint32", a, func() { h.checkU32(im, a.U32) })
		case "i32":
			h.guardOne("C17:"+im.Name+":varint32", a, func() { h.checkI32(im, a.I32) })
		case "i64":
			h.guardOne("C17:"+im.Name+":varlong", a, func() { h.checkI64(im, a.I64) })
		case "seq":
			in, _ := hex.DecodeString(a.Hex)
			h.guardOne("C17:"+im.Name+":seq", a, func() { h.checkSeq(im, in) })
		case "reader":
			for _, c := range append(prefixedCases(), varintCases()...) {
				if c.method == a.Method && c.label == a.Label {
					h.runCase(im, c)
				}
			}
			for _, g := range fixedGens() {
				if g.name == a.Method {
					for i := uint64(0); i < g.n; i++ {
						h.runCase(im, g.at(i))
					}
				}
			}
		case "enc":
			h.sweepFixed(im)
			h.sweepPrefixed(im)
		case "textdiff":
			if what, _, err := diffCopies(os.Getenv("REPO")); err != nil {
				ev.InfraError("%v", err)
			} else if what != "" {
				h.fail("C17:private-copy-differs", what, a)
			}
		default:
			ev.InfraError("unknown artefact suite %q", a.Suite)
		}
	}
	if n := h.nreplay.Load(); n > 0 {
		fmt.Printf("replay %s: VIOLATED (%d)\n", f.Key, n)
		os.Exit(1)
	}
	fmt.Printf("replay %s: holds\n", f.Key)
}
