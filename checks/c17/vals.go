package main

import (
	"encoding/binary"
	"fmt"
	"math"
	"sort"
	"sync/atomic"

	"verif.local/ev"
)

// ---- 64-bit values for varlong ----------------------------------------------

// boundary64 is the stated boundary set: +-2^k+-{0,1}, the 7-bit group
// boundaries +-1 (in zig-zag space and in plain space) and the extremes.
func boundary64() []int64 {
	set := map[int64]bool{}
	add := func(u uint64) {
		for _, d := range []uint64{0, 1, ^uint64(0)} {
			x := u + d
			set[int64(x)] = true
			set[int64(^x)] = true
			set[int64(-x)] = true
			set[refUnzigzag64(x)] = true // x is a boundary of the encoded (zig-zag) value
		}
	}
	for k := uint(0); k < 64; k++ {
		add(1 << k)
	}
	for j := uint(1); j <= 9; j++ {
		add(1 << (7 * j))
	}
	add(0)
	add(math.MaxInt64)
	out := make([]int64, 0, len(set))
	for v := range set {
		out = append(out, v)
	}
	sort.Slice(out, func(i, j int) bool { return out[i] < out[j] })
	return out
}

func (h *harness) checkI64(im *Impl, i int64) bool {
	ref := refAppendUvarint(nil, refZigzag64(i))
	a := art{Copy: im.Name, Suite: "i64", I64: i}
	ok := true
	buf := make([]byte, 2, 24)
	buf[0], buf[1] = 0xAA, 0x55
	got := im.AppendVarlong(buf, i)
	if string(got) != "\xaa\x55"+string(ref) {
		h.fail("C17:"+im.Name+":AppendVarlong", fmt.Sprintf("AppendVarlong(%d) appended % x, reference % x", i, got[min(2, len(got)):], ref), a)
		ok = false
	}
	if l := im.VarlongLen(i); l != len(ref) {
		h.fail("C17:"+im.Name+":VarlongLen", fmt.Sprintf("VarlongLen(%d) = %d, encoded length is %d", i, l, len(ref)), a)
		ok = false
	}
	if v, n := im.Varlong(ref); v != i || n != len(ref) {
		h.fail("C17:"+im.Name+":Varlong", fmt.Sprintf("Varlong(% x) = (%d,%d), want (%d,%d)", ref, v, n, i, len(ref)), a)
		ok = false
	}
	return ok
}

// sweepI64 runs the boundary set and every 64-bit pattern whose set bits (or
// whose clear bits) fit a 16-bit window at any shift: (a<<s) and ^(a<<s) for
// a < 65536, s < 64.
func (h *harness) sweepI64(impls []*Impl) int64 {
	b := boundary64()
	for _, v := range b {
		if err := selfCheckEnc(uint64(v)); err != nil {
			ev.InfraError("reference encoder: %v", err)
		}
		for _, im := range impls {
			h.guardOne("C17:"+im.Name+":varlong", art{Copy: im.Name, Suite: "i64", I64: v}, func() { h.checkI64(im, v) })
		}
	}
	h.r.Set("varlong_boundary_values", len(b))
	var lens [11]atomic.Bool
	total := uint64(65536 * 64 * 2)
	parallel(total, 1<<16, func(lo, hi uint64) bool {
		return h.guard(lo, hi, "C17:varlong-window", func(i uint64) art { return art{Suite: "i64", I64: windowValue(i)} }, func(i uint64) bool {
			v := windowValue(i)
			n := len(refAppendUvarint(nil, refZigzag64(v)))
			if !lens[n].Load() {
				lens[n].Store(true)
			}
			good := true
			for _, im := range impls {
				good = h.checkI64(im, v) && good
			}
			return good
		})
	})
	for n := range lens {
		if lens[n].Load() {
			h.r.Distinct(fmt.Sprintf("varlong/len=%d", n))
		}
	}
	return int64(len(b)) + int64(total)
}

func windowValue(i uint64) int64 {
	inv := i&1 == 1
	i >>= 1
	s := uint(i & 63)
	a := i >> 6
	u := a << s
	if inv {
		u = ^u
	}
	return int64(u)
}

func (h *harness) guardOne(key string, a art, fn func()) {
	defer func() {
		if p := recover(); p != nil {
			h.fail(key+":panic", fmt.Sprintf("panic: %v", p), a)
		}
	}()
	fn()
}

// ---- fixed-width big-endian encoders ------------------------------------------

var alphaB = []byte{0x00, 0x01, 0x7f, 0x80, 0xfe, 0xff}

// encEq compares an encoder's output (appended to the two bytes aa 55) with
// the reference bytes; arg is only formatted on a mismatch.
func (h *harness) encEq(im *Impl, fn string, arg any, got, want []byte) {
	if string(got) != "\xaa\x55"+string(want) {
		h.fail("C17:"+im.Name+":"+fn, fmt.Sprintf("%s(%v) appended % x to {aa 55}, want % x (first 24 bytes shown)", fn, arg, clip(got), clip(want)),
			art{Copy: im.Name, Suite: "enc", Method: fn, Label: fmt.Sprint(arg)})
	}
}

type hexbits uint64

func (b hexbits) String() string { return fmt.Sprintf("float64 bits %016x", uint64(b)) }

func clip(b []byte) []byte {
	if len(b) > 24 {
		return b[:24]
	}
	return b
}

func dst() []byte { return append(make([]byte, 0, 64), 0xAA, 0x55) }

// sweepFixed: encoders of fixed-width values against encoding/binary:
// bool and int8 on all 256 values, 16-bit on all 65536, 32- and 64-bit on
// every byte pattern over {00,01,7f,80,fe,ff} and on +-2^k+-1.
func (h *harness) sweepFixed(im *Impl) (evals int64) {
	defer func() {
		if p := recover(); p != nil {
			h.fail("C17:"+im.Name+":fixed:panic", fmt.Sprintf("panic: %v", p), art{Copy: im.Name, Suite: "enc"})
		}
	}()
	h.encEq(im, "AppendBool", "true", im.AppendBool(dst(), true), []byte{1})
	h.encEq(im, "AppendBool", "false", im.AppendBool(dst(), false), []byte{0})
	for i := 0; i < 256; i++ {
		h.encEq(im, "AppendInt8", int8(i), im.AppendInt8(dst(), int8(i)), []byte{byte(i)})
		evals++
	}
	for i := 0; i < 65536; i++ {
		w := binary.BigEndian.AppendUint16(nil, uint16(i))
		h.encEq(im, "AppendUint16", i, im.AppendUint16(dst(), uint16(i)), w)
		h.encEq(im, "AppendInt16", int16(i), im.AppendInt16(dst(), int16(i)), w)
		evals += 2
	}
	for _, u := range patterns(4) {
		w := binary.BigEndian.AppendUint32(nil, uint32(u))
		h.encEq(im, "AppendUint32", uint32(u), im.AppendUint32(dst(), uint32(u)), w)
		h.encEq(im, "AppendInt32", int32(u), im.AppendInt32(dst(), int32(u)), w)
		if int32(u) >= 0 { // an array length is a len()
			h.encEq(im, "AppendArrayLen", int32(u), im.AppendArrayLen(dst(), int(int32(u))), w)
			h.encEq(im, "AppendNullableArrayLen", int32(u), im.AppendNullableArrayLen(dst(), int(int32(u)), false), w)
			h.encEq(im, "AppendNullableArrayLen(nil)", int32(u), im.AppendNullableArrayLen(dst(), int(int32(u)), true), []byte{0xff, 0xff, 0xff, 0xff})
			evals += 3
		}
		evals += 2
	}
	for _, u := range patterns(8) {
		w := binary.BigEndian.AppendUint64(nil, u)
		h.encEq(im, "AppendInt64", int64(u), im.AppendInt64(dst(), int64(u)), w)
		h.encEq(im, "AppendFloat64", hexbits(u), im.AppendFloat64(dst(), math.Float64frombits(u)), w)
		evals += 2
	}
	for _, id := range uuids() {
		h.encEq(im, "AppendUuid", fmt.Sprintf("%x", id), im.AppendUuid(dst(), id), id[:])
		evals++
	}
	h.r.Distinct(im.Name + "/fixed-width encoders")
	return evals
}

// patterns returns every w-byte big-endian pattern over alphaB plus +-2^k+-1
// (a few values occur twice; harmless).
func patterns(w int) []uint64 {
	n := 1
	for i := 0; i < w; i++ {
		n *= len(alphaB)
	}
	out := make([]uint64, 0, n+6*8*w)
	mask := ^uint64(0) >> uint(64-8*w)
	for idx := 0; idx < n; idx++ {
		var u uint64
		x := idx
		for i := 0; i < w; i++ {
			u = u<<8 | uint64(alphaB[x%len(alphaB)])
			x /= len(alphaB)
		}
		out = append(out, u)
	}
	for k := uint(0); k < uint(8*w); k++ {
		for _, d := range []uint64{0, 1, ^uint64(0)} {
			x := (uint64(1)<<k + d)
			out = append(out, x&mask, (-x)&mask)
		}
	}
	return out
}

func uuids() [][16]byte {
	var out [][16]byte
	for _, b := range alphaB {
		var id [16]byte
		for i := range id {
			id[i] = b
		}
		out = append(out, id)
	}
	var seq [16]byte
	for i := range seq {
		seq[i] = byte(0x10*i + i + 1)
	}
	out = append(out, seq)
	for p := 0; p < 16; p++ { // one distinguished byte at every position
		var id [16]byte
		id[p] = 0xff
		out = append(out, id)
		id = seq
		id[p] = 0
		out = append(out, id)
	}
	return out
}
