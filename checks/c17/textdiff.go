package main

import (
	"fmt"
	"go/scanner"
	"go/token"
	"os"
	"strings"
)

type tok struct {
	t    token.Token
	lit  string
	line int
}

// codeTokens returns the Go token stream of a file without comments (compiler
// directives such as //go:... are kept) and without the package clause.
func codeTokens(path string) ([]tok, string, error) {
	src, err := os.ReadFile(path)
	if err != nil {
		return nil, "", err
	}
	fset := token.NewFileSet()
	f := fset.AddFile(path, fset.Base(), len(src))
	var s scanner.Scanner
	var scanErr error
	s.Init(f, src, func(pos token.Position, msg string) { scanErr = fmt.Errorf("%v: %s", pos, msg) }, scanner.ScanComments)
	var out []tok
	pkg := ""
	for {
		pos, t, lit := s.Scan()
		if t == token.EOF {
			break
		}
		if t == token.COMMENT {
			if !strings.HasPrefix(lit, "//go:") && !strings.HasPrefix(lit, "// +build") {
				continue
			}
		}
		if t == token.SEMICOLON {
			lit = ";" // explicit and automatic semicolons are the same token
		}
		out = append(out, tok{t, lit, fset.Position(pos).Line})
	}
	if scanErr != nil {
		return nil, "", scanErr
	}
	// drop "package <name> ;"
	for i := 0; i+1 < len(out); i++ {
		if out[i].t == token.PACKAGE {
			pkg = out[i+1].lit
			j := i + 2
			if j < len(out) && out[j].t == token.SEMICOLON {
				j++
			}
			out = append(out[:i:i], out[j:]...)
			break
		}
	}
	return out, pkg, nil
}

// diffCopies compares pkg/kbin/primitives.go with the private copy, token by
// token. It returns "" when the code is identical.
func diffCopies(repo string) (what string, ntok int, err error) {
	pa := repo + "/pkg/kbin/primitives.go"
	pb := repo + "/pkg/kmsg/internal/kbin/primitives.go"
	a, pkgA, err := codeTokens(pa)
	if err != nil {
		return "", 0, err
	}
	b, pkgB, err := codeTokens(pb)
	if err != nil {
		return "", 0, err
	}
	if pkgA != "kbin" || pkgB != "kbin" {
		return "", 0, fmt.Errorf("unexpected package clauses %q / %q", pkgA, pkgB)
	}
	show := func(ts []tok, i int) string {
		if i >= len(ts) {
			return "<end of file>"
		}
		var sb strings.Builder
		fmt.Fprintf(&sb, "line %d:", ts[i].line)
		for j := i; j < len(ts) && j < i+8; j++ {
			if ts[j].lit != "" {
				sb.WriteString(" " + ts[j].lit)
			} else {
				sb.WriteString(" " + ts[j].t.String())
			}
		}
		return sb.String()
	}
	for i := 0; i < len(a) || i < len(b); i++ {
		if i >= len(a) || i >= len(b) || a[i].t != b[i].t || a[i].lit != b[i].lit {
			return fmt.Sprintf("first difference at code token %d:\n  %s %s\n  %s %s", i, pa, show(a, i), pb, show(b, i)), len(a), nil
		}
	}
	return "", len(a), nil
}
