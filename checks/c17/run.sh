#!/bin/bash
# C17 wire primitives. Builds the harness against BOTH copies of primitives.go
# of the tree under test: pkg/kbin is imported normally; the private copy
# pkg/kmsg/internal/kbin/primitives.go (internal to another module, so not
# importable) is mapped by -overlay into the virtual package
# verif/checks/c17/priv (a directory that exists only through the overlay).
set -eu
cd "$(dirname "$0")/../.."
. bin/env.sh
priv="$REPO/pkg/kmsg/internal/kbin/primitives.go"
[ -f "$priv" ] || { echo "INFRA-ERROR: $priv missing" >&2; exit 2; }
ov="$BUILD/c17-overlay.json"
printf '{"Replace":{"%s":"%s"}}\n' "$VERIF_ROOT/checks/c17/priv/primitives.go" "$priv" > "$ov"
go build -overlay="$ov" -o "$BUILD/c17" ./checks/c17 || exit 2
exec "$BUILD/c17" "$@"
