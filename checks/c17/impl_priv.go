package main

import kbin "verif/checks/c17/priv"

// privImpl binds the private copy pkg/kmsg/internal/kbin, which run.sh maps into
// the virtual directory checks/c17/priv with a go build -overlay (the directory
// does not exist on disk; it is compiled from $REPO at every run).
func privImpl() *Impl {
	return &Impl{
		Name:          "priv",
		AppendBool:    kbin.AppendBool,
		AppendInt8:    kbin.AppendInt8,
		AppendInt16:   kbin.AppendInt16,
		AppendUint16:  kbin.AppendUint16,
		AppendInt32:   kbin.AppendInt32,
		AppendUint32:  kbin.AppendUint32,
		AppendInt64:   kbin.AppendInt64,
		AppendFloat64: kbin.AppendFloat64,
		AppendUuid:    kbin.AppendUuid,

		AppendVarint:   kbin.AppendVarint,
		AppendUvarint:  kbin.AppendUvarint,
		AppendVarlong:  kbin.AppendVarlong,
		VarintLen:      kbin.VarintLen,
		UvarintLen:     kbin.UvarintLen,
		VarlongLen:     kbin.VarlongLen,
		Varint:         kbin.Varint,
		Uvarint:        kbin.Uvarint,
		Varlong:        kbin.Varlong,
		ErrNotEnough:   kbin.ErrNotEnoughData,
		NewReader:      func(b []byte) Reader { return &kbin.Reader{Src: b} },
		Src:            func(r Reader) []byte { return r.(*kbin.Reader).Src },
		UnsafeStringFn: kbin.UnsafeString,

		AppendString:                  kbin.AppendString,
		AppendCompactString:           kbin.AppendCompactString,
		AppendNullableString:          kbin.AppendNullableString,
		AppendCompactNullableString:   kbin.AppendCompactNullableString,
		AppendBytes:                   kbin.AppendBytes,
		AppendCompactBytes:            kbin.AppendCompactBytes,
		AppendNullableBytes:           kbin.AppendNullableBytes,
		AppendCompactNullableBytes:    kbin.AppendCompactNullableBytes,
		AppendVarintString:            kbin.AppendVarintString,
		AppendVarintBytes:             kbin.AppendVarintBytes,
		AppendArrayLen:                kbin.AppendArrayLen,
		AppendCompactArrayLen:         kbin.AppendCompactArrayLen,
		AppendNullableArrayLen:        kbin.AppendNullableArrayLen,
		AppendCompactNullableArrayLen: kbin.AppendCompactNullableArrayLen,
	}
}
