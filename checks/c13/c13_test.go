package c13

import (
	"testing"
	"time"

	"verif/checks/c13/xscen"
	"verif/lib/nrun"
)

func TestC13(t *testing.T) {
	nrun.Main(t, &nrun.Check{
		ID: "C13", TestName: "TestC13", Plans: xscen.Plans(),
		QuickTime: 80 * time.Second, ThorTime: 18 * time.Minute,
		Rule:   "engine N: six base workloads (idempotent producer to 2 brokers + unknown topic; direct consumer of a pre-loaded 2-partition topic; cooperative group consumer with a second member joining; the same with BlockRebalanceOnPoll closed by CloseAllowingRebalance; transactional producer ending mid-transaction; share-group consumer holding un-acked records) x three broker modes from the Close call on (responsive; every connection old and new stalled: accepts bytes, never answers; every connection dead and every dial refused). Close is called by a separate goroutine at EVERY decision point of the base execution (one deviation = release of the ARM selector after j of n skips: Close is called exactly when j request/response frames and application steps have fired, j=0..n, n >= length of the base execution, default = after the workload finished); with budget 2 additionally one deviation anywhere after the selector (another enabled frame first, timer tick first, connection killed before/after the broker handled a request, connection stalled). distinct = distinct terminal outcomes (placement class, close duration class, per-record promise results, workload-visible results)",
		Assume: []string{"kfake is the broker", "synctests build of xsync (C31 covers the channel mutexes)", "goroutine micro-interleavings inside one event are the Go runtime's", "slow brokers are modelled as (a) all connections of the client stalled (x.StallClient) from the Close call on and (b) at k=2 one stalled connection at any request; partial slowness of several connections at different times needs k>2"},
	})
}
