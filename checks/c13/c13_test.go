package c13

import (
	"os"
	"strconv"
	"testing"
	"time"

	"verif/checks/c13/xscen"
	"verif/lib/nrun"
)

func TestC13(t *testing.T) {
	quick, thor := 130*time.Second, 18*time.Minute
	// Development aid on a loaded machine: C13_TIME=<seconds> replaces the
	// tier's wall budget (the registered command never sets it).
	if s, err := strconv.Atoi(os.Getenv("C13_TIME")); err == nil && s > 0 {
		quick, thor = time.Duration(s)*time.Second, time.Duration(s)*time.Second
	}
	nrun.Main(t, &nrun.Check{
		ID: "C13", TestName: "TestC13", Plans: xscen.Plans(),
		QuickTime: quick, ThorTime: thor,
		Rule:   "engine N. (1) Nine hand-written base workloads (idempotent producer to 2 brokers + unknown topic; direct consumer of a pre-loaded 2-partition topic; the same with MaxConcurrentFetches(1); cooperative group consumer with a second member joining; the same with BlockRebalanceOnPoll closed by CloseAllowingRebalance; the same with the eager range balancer; the same on the KIP-848 protocol; transactional producer ending mid-transaction; share-group consumer holding un-acked records) x three broker modes from the Close call on (responsive; every connection old and new stalled: accepts bytes, never answers; every connection dead and every dial refused). Close is called by a separate goroutine at EVERY decision point of the base execution (one deviation = release of the ARM selector after j of n skips: Close is called exactly when j request/response frames and application steps have fired, j=0..n, n >= length of the base execution, default = after the workload finished); with budget 2 additionally one deviation anywhere after the selector (another enabled frame first, timer tick first, connection killed before/after the broker handled a request, connection stalled). (2) Generated family XG (cost-0 choices, every combination executed): 21 client configurations (producer plain / linger / MaxBufferedRecords(1) / both; transactional; direct consumer with MaxConcurrentFetches -1, 0, 1; group consumer eager, cooperative, KIP-848, autocommit off, BlockRebalanceOnPoll, 2 s rebalance callbacks that commit, second member joining, first JoinGroup held 1 s by the coordinator with the application starting inside that join; share group) x every application script of length <= 2 (thorough <= 3) over the API alphabet of the configuration (Produce, Produce to an unknown topic, ProduceSync, Flush, EndTransaction commit/abort, PollFetches, CommitUncommittedOffsets, CommitOffsetsSync with a 200 ms context, ForceRebalance, AllowRebalance, ack+FlushAcks, think time) x the call during which the shutdown thread starts x the virtual delay before it shuts down (0 / 1.2 s; thorough 0 / 600 ms / 3 s) x cluster state applied at that moment (healthy, all connections stalled, all connections dead and dials refused, coordinator loading) x shutdown form (Close or CloseAllowingRebalance; LeaveGroup then Close; cancel the application's context then Close; two concurrent Closes); quick: default schedule, thorough: plus every single deviation, time-capped. distinct = distinct terminal outcomes (placement class / configuration, shutdown duration class, per-record promise results, application-visible call results)",
		Assume: []string{"kfake is the broker", "synctests build of xsync (C31 covers the channel mutexes)", "goroutine micro-interleavings inside one event are the Go runtime's", "slow brokers are modelled as (a) all connections of the client stalled (x.StallClient) from the Close call on and (b) at k=2 one stalled connection at any request; partial slowness of several connections at different times needs k>2", "coordinator loading is modelled by kfake control functions answering COORDINATOR_LOAD_IN_PROGRESS to every coordinator-bound request from the shutdown moment on"},
	})
}
