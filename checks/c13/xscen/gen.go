package xscen

import (
	"context"
	"encoding/binary"
	"fmt"
	"os"
	"sort"
	"strings"
	"sync"
	"sync/atomic"
	"time"

	"github.com/twmb/franz-go/pkg/kfake"
	"github.com/twmb/franz-go/pkg/kgo"
	"github.com/twmb/franz-go/pkg/kmsg"

	"verif.local/ev"
	"verif/lib/netctl"
	"verif/lib/nrun"
	"verif/lib/nscen"
)

// Generated family XG. ONE scenario whose Setup lets the explorer choose
// (x.ChooseOf, cost 0: every combination runs at every deviation level)
//
//	cfg    the client configuration (producer / transactional / direct consumer
//	       with MaxConcurrentFetches -1,0,1 / group consumer eager, cooperative,
//	       KIP-848, autocommit off, BlockRebalanceOnPoll, slow rebalance
//	       callbacks, a second member joining / share group),
//	a      the application thread's script: every sequence of length <= L over
//	       the API alphabet of that kind of client (L=2 quick, 3 thorough),
//	gate   the call of A during which the shutdown thread S starts (S starts
//	       when A is ABOUT to make call number gate, i.e. while A is inside that
//	       call if it blocks; gate=len(a): after A's last call returned),
//	delay  virtual time S lets pass after its gate opened (0: Close arrives
//	       before any frame of that call moved; 1.2 s: after a fetch wait / a
//	       heartbeat / a linger; 3 s: after a rebalance round),
//	net    what S does to the cluster right before shutting down (healthy;
//	       every connection of the client stalled; every connection killed and
//	       every dial refused; coordinator answering COORDINATOR_LOAD_IN_PROGRESS),
//	shut   how S shuts down: Close / CloseAllowingRebalance / LeaveGroup then
//	       Close / cancel the context of A's calls then Close / two Closes at once.
//
// S (and S2) are declared BEFORE A, so once the gate is open their calls are
// the default next event: the overlap is on the default schedule.
//
// Oracle (as for the hand-written workloads, plus "blocked calls return"):
// every shutdown call returns within the bound of the configuration on
// virtual time; the application thread - whose blocking calls (Flush,
// ProduceSync, Produce on a full buffer, commit, EndTransaction) carry no
// deadline shorter than the horizon - returns within 30 virtual seconds of the
// last shutdown call returning; every promise has run once by then; a poll
// returns the ErrClientClosed fetch at once; netctl's goroutine dump is empty.

type gkind int

const (
	kProd gkind = iota
	kTxn
	kDirect
	kGroup
	kShare
)

type gcfg struct {
	name   string
	kind   gkind
	opts   []kgo.Opt
	block  bool // BlockRebalanceOnPoll: shutdown by CloseAllowingRebalance
	slowcb bool // rebalance callbacks take 2 virtual seconds (and the revoke callback commits)
	envB   bool // a second member joins when A starts its second call
	k848   bool
	hold   bool // the broker holds the member's first JoinGroup for joinHold; the application starts once it is in flight
}

const cbThink = 2 * time.Second

// joinHold: how long the broker sits on the first JoinGroup in the "hold"
// configurations (a slow coordinator), so that the application's first calls
// land inside the join&sync on the default schedule.
const joinHold = time.Second

func gcfgs() []gcfg {
	direct := kgo.ConsumePartitions(map[string]map[int32]kgo.Offset{"t": {0: kgo.NewOffset().At(0), 1: kgo.NewOffset().At(0)}})
	return []gcfg{
		{name: "prod", kind: kProd},
		{name: "prod-linger", kind: kProd, opts: []kgo.Opt{kgo.ProducerLinger(5 * time.Second)}},
		{name: "prod-maxbuf1", kind: kProd, opts: []kgo.Opt{kgo.MaxBufferedRecords(1)}},
		{name: "prod-maxbuf1-linger", kind: kProd, opts: []kgo.Opt{kgo.MaxBufferedRecords(1), kgo.ProducerLinger(5 * time.Second)}},
		{name: "txn", kind: kTxn},
		{name: "direct", kind: kDirect, opts: []kgo.Opt{direct}},
		{name: "direct-mcf0", kind: kDirect, opts: []kgo.Opt{direct, kgo.MaxConcurrentFetches(0)}},
		{name: "direct-mcf1", kind: kDirect, opts: []kgo.Opt{direct, kgo.MaxConcurrentFetches(1)}},
		{name: "eager", kind: kGroup, opts: []kgo.Opt{kgo.Balancers(kgo.RangeBalancer())}},
		{name: "eager-slowcb+B", kind: kGroup, opts: []kgo.Opt{kgo.Balancers(kgo.RangeBalancer())}, slowcb: true, envB: true},
		{name: "coop", kind: kGroup},
		{name: "coop-hold", kind: kGroup, hold: true},
		{name: "eager-hold+B", kind: kGroup, opts: []kgo.Opt{kgo.Balancers(kgo.RangeBalancer())}, hold: true, envB: true},
		{name: "coop+B", kind: kGroup, envB: true},
		{name: "coop-slowcb+B", kind: kGroup, slowcb: true, envB: true},
		{name: "coop-noauto-mcf1", kind: kGroup, opts: []kgo.Opt{kgo.DisableAutoCommit(), kgo.MaxConcurrentFetches(1)}},
		{name: "coop-block", kind: kGroup, block: true},
		{name: "coop-block+B", kind: kGroup, block: true, envB: true},
		{name: "g848", kind: kGroup, k848: true},
		{name: "g848+B", kind: kGroup, k848: true, envB: true},
		{name: "share", kind: kShare},
	}
}

// Alphabets (one rune per call; '-' is application think time, 1.5 virtual s).
//
//	producer: p Produce(t/0)  u Produce(unknown topic)  s ProduceSync(t/1)  f Flush
//	txn:      (BeginTransaction first) p Produce  e EndTransaction(commit)
//	          a EndTransaction(abort)  f Flush
//	consumer: o PollFetches (4 s)  c CommitUncommittedOffsets (group)
//	          w AllowRebalance (BlockRebalanceOnPoll)
//	          k CommitOffsetsSync(t/0@0) with a 200 ms context (gives up while
//	            a join&sync is in flight)   r ForceRebalance (group)
//	share:    o PollFetches  F ack everything held + FlushAcks
func alphabet(c gcfg) string {
	switch c.kind {
	case kProd:
		return "pusf-"
	case kTxn:
		return "peaf-"
	case kDirect:
		return "o-"
	case kShare:
		return "oF-"
	}
	if c.block {
		return "ocwkr"
	}
	return "ockr-"
}

func scripts(alpha string, maxLen int) []string {
	out := []string{"."} // the empty script: the application has done nothing yet
	level := []string{""}
	for l := 1; l <= maxLen; l++ {
		var next []string
		for _, p := range level {
			for _, a := range alpha {
				next = append(next, p+string(a))
			}
		}
		out = append(out, next...)
		level = next
	}
	return out
}

func shuts(c gcfg, net string) []string {
	x := "X"
	if c.block {
		// Plain Close/LeaveGroup after a poll without AllowRebalance hang by
		// contract; the documented shutdown is CloseAllowingRebalance.
		x = "R"
	}
	if net == "unreach" || net == "loading" {
		return []string{x}
	}
	out := []string{x, "C" + x, x + x}
	if (c.kind == kGroup || c.kind == kShare) && !c.block {
		out = append(out, "L"+x)
	}
	return out
}

type gcall struct {
	what       string
	start, end time.Duration
	done       bool
}

type gstate struct {
	x    *netctl.Exec
	cfg  gcfg
	desc string
	cl   *kgo.Client
	led  *nscen.Ledger

	mu      sync.Mutex
	calls   []*gcall // shutdown calls, in start order
	sdone   int      // shutdown threads finished
	sthr    int
	inCall  string // the call A is in ("" between calls)
	aDone   bool
	results []string
	cancelA context.CancelFunc
	loading bool
	bound   time.Duration
	held    []*kgo.Record
	cleaned bool
	b       *kgo.Client
}

func (g *gstate) res(format string, a ...any) {
	g.mu.Lock()
	g.results = append(g.results, fmt.Sprintf(format, a...))
	g.mu.Unlock()
}

func (g *gstate) shutdownCall(what string, f func()) {
	c := &gcall{what: what, start: g.x.Elapsed()}
	g.mu.Lock()
	g.calls = append(g.calls, c)
	g.mu.Unlock()
	f()
	g.mu.Lock()
	c.end, c.done = g.x.Elapsed(), true
	g.mu.Unlock()
}

// loadingControl makes kfake answer every coordinator-bound request with
// COORDINATOR_LOAD_IN_PROGRESS while g.loading is set.
func (g *gstate) loadingControl(c *kfake.Cluster) {
	for _, key := range []int16{8, 9, 10, 11, 12, 13, 14, 22, 24, 25, 26, 28, 68, 76} {
		key := key
		c.ControlKey(key, func(req kmsg.Request) (kmsg.Response, error, bool) {
			c.KeepControl()
			g.mu.Lock()
			on := g.loading
			g.mu.Unlock()
			if !on {
				return nil, nil, false
			}
			// Frame the request so that netctl's fabricator can mirror it.
			b := make([]byte, 12, 128)
			binary.BigEndian.PutUint16(b[4:], uint16(req.Key()))
			binary.BigEndian.PutUint16(b[6:], uint16(req.GetVersion()))
			b = append(b, 0xff, 0xff) // null client id
			if req.IsFlexible() {
				b = append(b, 0)
			}
			b = req.AppendTo(b)
			binary.BigEndian.PutUint32(b, uint32(len(b)-4))
			fb := netctl.FabricateError(b, 14)
			if fb == nil {
				return nil, nil, false
			}
			resp, ok := netctl.DecodeResponse(fb, req.Key(), req.GetVersion())
			if !ok {
				return nil, nil, false
			}
			return resp, nil, true
		})
	}
}

// genLogger: analysis aid (C13_KGOLOG=1), the client's log with virtual timestamps.
func genLogger(x *netctl.Exec) kgo.Opt {
	if os.Getenv("C13_KGOLOG") == "" {
		return nil
	}
	return kgo.WithLogger(kgo.BasicLogger(os.Stderr, kgo.LogLevelDebug, func() string {
		return fmt.Sprintf("[%8.3fs] kgo: ", x.Elapsed().Seconds())
	}))
}

func genScenario() *netctl.Scenario {
	return &netctl.Scenario{
		Name:    "XG",
		Faults:  faults,
		Horizon: 90*time.Second + boundGroup,
		// Two group members fetching from two brokers with a 500 ms fetch wait
		// produce ~100 frame events per virtual second; the longest scripts
		// shut down after ~8 s.
		MaxPoints: 2000,
		Setup: func(x *netctl.Exec) {
			cfgs := gcfgs()
			if only := os.Getenv("C13_CFG"); only != "" {
				// Development aid: restrict the family to the named
				// configurations (comma separated, exact names) to push the
				// deviation levels deeper on a subset. Artefacts written with
				// it replay only with the same setting.
				var sub []gcfg
				for _, c := range cfgs {
					for _, n := range strings.Split(only, ",") {
						if c.name == n {
							sub = append(sub, c)
						}
					}
				}
				if len(sub) > 0 {
					cfgs = sub
				}
			}
			var cfgNames []string
			for _, c := range cfgs {
				cfgNames = append(cfgNames, c.name)
			}
			maxLen := 2
			delays := []string{"0", "1.2s"}
			if ev.Thorough() {
				maxLen = 3
				delays = []string{"0", "600ms", "3s"}
			}
			cfg := cfgs[x.ChooseOf("cfg", cfgNames)]
			as := scripts(alphabet(cfg), maxLen)
			a := strings.TrimPrefix(as[x.ChooseOf("a", as)], ".")
			var gateNames []string
			for i := 0; i <= len(a); i++ {
				gateNames = append(gateNames, fmt.Sprint(i))
			}
			gate := x.ChooseOf("gate", gateNames)
			delay, _ := time.ParseDuration(delays[x.ChooseOf("delay", delays)])
			nets := []string{"healthy", "stalled", "unreach"}
			if cfg.kind == kTxn || cfg.kind == kGroup || cfg.kind == kShare {
				nets = append(nets, "loading")
			}
			net := nets[x.ChooseOf("net", nets)]
			ss := shuts(cfg, net)
			shut := ss[x.ChooseOf("shut", ss)]

			g := &gstate{x: x, cfg: cfg, led: nscen.NewLedger(), bound: boundPlain}
			g.desc = fmt.Sprintf("cfg=%s a=%q gate=%d delay=%v net=%s shut=%s", cfg.name, a, gate, delay, net, shut)
			if cfg.kind == kGroup || cfg.kind == kShare {
				g.bound = boundGroup
			}
			x.Data = g
			c := twoBrokerTopic(x)
			if cfg.kind == kShare {
				setShareEarliest(x, c, "s")
			}
			if cfg.kind != kProd && cfg.kind != kTxn {
				preload(x, c, 2)
			}
			joinSeen := make(chan struct{})
			if cfg.hold {
				// Registered before the loading control so that it runs first;
				// it does not handle the request, it only delays it.
				var held atomic.Bool // not sync.Once: a second JoinGroup (member B) may run this while the first sleeps
				c.ControlKey(11, func(kmsg.Request) (kmsg.Response, error, bool) {
					c.DropControl() // only the very first JoinGroup is held
					if held.CompareAndSwap(false, true) {
						close(joinSeen)
						c.SleepControl(func() { time.Sleep(joinHold) })
					}
					return nil, nil, false
				})
			}
			g.loadingControl(c)

			opts := append([]kgo.Opt{}, cfg.opts...)
			switch cfg.kind {
			case kProd, kTxn:
				opts = append(opts,
					kgo.RecordPartitioner(kgo.ManualPartitioner()),
					kgo.UnknownTopicRetries(2),
					kgo.RecordRetries(4),
					kgo.ProduceRequestTimeout(5*time.Second),
					kgo.RecordDeliveryTimeout(60*time.Second))
				if cfg.kind == kTxn {
					opts = append(opts, kgo.TransactionalID("tx"), kgo.TransactionTimeout(40*time.Second))
				}
			case kDirect:
				opts = append(opts, kgo.FetchMaxWait(500*time.Millisecond))
			case kShare:
				opts = append(opts, kgo.ShareGroup("s"), kgo.ConsumeTopics("t"), kgo.FetchMaxWait(500*time.Millisecond), kgo.HeartbeatInterval(time.Second))
			}
			gopts := func() []kgo.Opt {
				o := []kgo.Opt{
					kgo.ConsumerGroup("g"),
					kgo.ConsumeTopics("t"),
					kgo.ConsumeResetOffset(kgo.NewOffset().AtStart()),
					kgo.FetchMaxWait(500 * time.Millisecond),
					kgo.HeartbeatInterval(time.Second),
					kgo.SessionTimeout(sessionTimeout),
					kgo.RebalanceTimeout(rebalanceTimeout),
					kgo.AutoCommitInterval(10 * time.Minute),
				}
				if cfg.k848 {
					o = append(o, kgo.WithContext(context.WithValue(context.Background(), "opt_in_kafka_next_gen_balancer_beta", true)))
				}
				return o
			}
			if cfg.kind == kGroup {
				opts = append(gopts(), opts...)
				if cfg.block {
					opts = append(opts, kgo.BlockRebalanceOnPoll())
				}
				if cfg.slowcb {
					opts = append(opts,
						kgo.OnPartitionsAssigned(func(ctx context.Context, cl *kgo.Client, _ map[string][]int32) {
							time.Sleep(cbThink)
						}),
						kgo.OnPartitionsRevoked(func(ctx context.Context, cl *kgo.Client, _ map[string][]int32) {
							time.Sleep(cbThink)
							if err := cl.CommitUncommittedOffsets(ctx); err != nil {
								g.res("revoke-commit:%s", nscen.ErrClass(err))
							}
						}),
						kgo.OnPartitionsLost(func(ctx context.Context, cl *kgo.Client, _ map[string][]int32) {
							time.Sleep(cbThink)
						}))
				}
			}
			if lg := genLogger(x); lg != nil {
				opts = append(opts, lg)
			}
			g.cl = newClient(x, "c", c, opts...)
			ctxA, cancelA := context.WithCancel(context.Background())
			g.cancelA = cancelA
			x.OnCleanup(func() {
				cancelA()
				g.mu.Lock()
				g.loading = false
				g.cleaned = true
				b := g.b
				g.mu.Unlock()
				if b != nil {
					b.Close()
				}
			})

			gates := make([]chan struct{}, len(a)+1)
			for i := range gates {
				gates[i] = make(chan struct{})
			}
			closeFn := func() {
				if cfg.block {
					g.shutdownCall("CloseAllowingRebalance", g.cl.CloseAllowingRebalance)
				} else {
					g.shutdownCall("Close", g.cl.Close)
				}
			}
			applyNet := func() {
				switch net {
				case "stalled":
					x.StallClient("c", true)
				case "unreach":
					x.FailDials("c", true)
					for _, cn := range x.Conns() {
						if cn.Client == "c" {
							cn.Kill()
						}
					}
				case "loading":
					g.mu.Lock()
					g.loading = true
					g.mu.Unlock()
				}
			}
			sdone := func() {
				g.mu.Lock()
				g.sdone++
				g.mu.Unlock()
			}
			two := len(shut) == 2 && shut[0] == shut[1]
			s2go := make(chan struct{})
			g.sthr = 1
			if two {
				g.sthr = 2
			}
			// S first, S2 second, then A: once the gate is open the shutdown
			// calls are the default next events.
			x.Thread("S", func(t *netctl.Thread) {
				defer sdone()
				<-gates[gate]
				if delay > 0 {
					time.Sleep(delay)
				}
				applyNet()
				close(s2go)
				for i, op := range shut {
					if two && i == 1 {
						break
					}
					switch op {
					case 'X', 'R':
						t.Step("close")
						closeFn()
					case 'L':
						t.Step("leave-group")
						g.shutdownCall("LeaveGroup", g.cl.LeaveGroup)
					case 'C':
						t.Step("cancel-app-ctx")
						cancelA()
					}
				}
			})
			if two {
				x.Thread("S2", func(t *netctl.Thread) {
					defer sdone()
					<-s2go
					t.Step("close-2")
					closeFn()
				})
			}
			nrec := 0
			rec := func(topic string, p int32) *kgo.Record {
				nrec++
				name := fmt.Sprintf("r%d", nrec)
				r := &kgo.Record{Topic: topic, Partition: p, Value: []byte(name)}
				g.led.Hand(name, r)
				return r
			}
			long := func() (context.Context, context.CancelFunc) {
				// Longer than horizon: only Close (or the cancel of ctxA)
				// may release a call blocked on this context.
				return context.WithTimeout(ctxA, 400*time.Second)
			}
			x.Thread("A", func(t *netctl.Thread) {
				defer func() {
					g.mu.Lock()
					g.aDone, g.inCall = true, ""
					g.mu.Unlock()
				}()
				if cfg.kind == kTxn {
					if err := g.cl.BeginTransaction(); err != nil {
						g.res("begin:%s", nscen.ErrClass(err))
					}
				}
				if cfg.hold {
					// The application starts while the first join is in flight.
					tm := time.NewTimer(10 * time.Second)
					select {
					case <-joinSeen:
					case <-tm.C:
					}
					tm.Stop()
				}
				for i, op := range a {
					label := fmt.Sprintf("%d-%c", i, op)
					t.Step(label)
					g.mu.Lock()
					g.inCall = label
					g.mu.Unlock()
					close(gates[i])
					switch op {
					case 'p':
						g.cl.Produce(ctxA, rec("t", 0), g.led.Promise())
					case 'u':
						g.cl.Produce(ctxA, rec("u", 0), g.led.Promise())
					case 's':
						r := rec("t", 1)
						ctx, cancel := long()
						rs := g.cl.ProduceSync(ctx, r)
						cancel()
						if len(rs) == 1 && rs[0].Record == r {
							g.led.Promise()(r, rs[0].Err)
						} else {
							x.Violate("producesync-shape", "%s: ProduceSync returned %d results", g.desc, len(rs))
						}
					case 'f':
						ctx, cancel := long()
						if err := g.cl.Flush(ctx); err != nil {
							g.res("%s:%s", label, nscen.ErrClass(err))
						}
						cancel()
					case 'e', 'a':
						ctx, cancel := long()
						if err := g.cl.EndTransaction(ctx, kgo.TransactionEndTry(op == 'e')); err != nil {
							g.res("%s:%s", label, nscen.ErrClass(err))
						}
						cancel()
						if err := g.cl.BeginTransaction(); err != nil {
							g.res("%s-begin:%s", label, nscen.ErrClass(err))
						}
					case 'o':
						ctx, cancel := context.WithTimeout(ctxA, 4*time.Second)
						fs := g.cl.PollFetches(ctx)
						cancel()
						switch {
						case fs.IsClientClosed():
							g.res("%s:closed", label)
						default:
							if n := fs.NumRecords(); n > 0 {
								g.res("%s:records", label)
							}
							g.mu.Lock()
							g.held = append(g.held, fs.Records()...)
							g.mu.Unlock()
						}
					case 'c':
						ctx, cancel := long()
						if err := g.cl.CommitUncommittedOffsets(ctx); err != nil {
							g.res("%s:%s", label, nscen.ErrClass(err))
						}
						cancel()
					case 'w':
						g.cl.AllowRebalance()
					case 'k':
						ctx, cancel := context.WithTimeout(ctxA, 200*time.Millisecond)
						g.cl.CommitOffsetsSync(ctx, map[string]map[int32]kgo.EpochOffset{"t": {0: {Epoch: -1, Offset: 0}}},
							func(_ *kgo.Client, _ *kmsg.OffsetCommitRequest, _ *kmsg.OffsetCommitResponse, err error) {
								if err != nil {
									g.res("%s:%s", label, nscen.ErrClass(err))
								}
							})
						cancel()
					case 'r':
						g.cl.ForceRebalance()
					case 'F':
						g.mu.Lock()
						held := g.held
						g.held = nil
						g.mu.Unlock()
						for _, r := range held {
							r.Ack(kgo.AckAccept)
						}
						ctx, cancel := long()
						if err := g.cl.FlushAcks(ctx); err != nil {
							g.res("%s:%s", label, nscen.ErrClass(err))
						}
						cancel()
					case '-':
						time.Sleep(1500 * time.Millisecond)
					}
					g.mu.Lock()
					g.inCall = ""
					g.mu.Unlock()
				}
				close(gates[len(a)])
				if cfg.block {
					// BlockRebalanceOnPoll contract: every poll that returned -
					// also one that returned only because its own context
					// expired, or with the ErrClientClosed fetch - registers a
					// poller that blocks rebalances (and thereby the leave
					// inside Close) until the application calls AllowRebalance
					// ("Close will hang if you polled, did not allow
					// rebalances"). CloseAllowingRebalance allows only the
					// pollers registered BEFORE it is called; a poll of the
					// application's loop that returns later must be followed
					// by the loop's own AllowRebalance. The application
					// therefore ends like a real poll loop: once the shutdown
					// has been requested (so that "records held, rebalance not
					// yet allowed" is still a state Close can arrive in) it
					// finishes processing (1 s) and allows the rebalance.
					for i := 0; i < 600; i++ {
						g.mu.Lock()
						n := len(g.calls)
						g.mu.Unlock()
						if n > 0 {
							break
						}
						time.Sleep(100 * time.Millisecond)
					}
					time.Sleep(time.Second)
					g.cl.AllowRebalance()
				}
			})
			if cfg.envB {
				bgate := gates[len(a)]
				if len(a) >= 2 {
					bgate = gates[1]
				}
				x.Thread("ENV", func(t *netctl.Thread) {
					<-bgate
					g.mu.Lock()
					defer g.mu.Unlock()
					if !g.cleaned && len(g.calls) == 0 {
						g.b = nscen.Helper(x, c, gopts()...)
					}
				})
			}
		},
		Final: genFinal,
	}
}

func genFinal(x *netctl.Exec) {
	g := x.Data.(*gstate)
	snap := func() (calls []gcall, sdone bool, aDone bool, inCall string) {
		g.mu.Lock()
		defer g.mu.Unlock()
		for _, c := range g.calls {
			calls = append(calls, *c)
		}
		return calls, g.sdone == g.sthr, g.aDone, g.inCall
	}
	// (0) the shutdown thread must have started (A's calls before the gate are
	// bounded by the harness' own timeouts).
	for i := 0; i < 1200; i++ {
		if calls, _, _, _ := snap(); len(calls) > 0 {
			break
		}
		time.Sleep(100 * time.Millisecond)
	}
	calls, _, _, inCall := snap()
	if len(calls) == 0 {
		x.Violate("harness:shutdown-not-started", "%s: the application did not reach the gate within 2 virtual minutes of the fault-free suffix (A in call %q)", g.desc, inCall)
		g.cancelA()
		return
	}
	// (1) every shutdown call returns within the bound.
	for {
		calls, sdone, _, _ := snap()
		if sdone {
			break
		}
		pending := false
		for _, c := range calls {
			if !c.done && x.Elapsed() < c.start+g.bound {
				pending = true
			}
		}
		last := calls[len(calls)-1]
		if last.done && x.Elapsed() < last.end+time.Second {
			pending = true // the next call of the shutdown script is about to start
		}
		if !pending {
			break
		}
		time.Sleep(100 * time.Millisecond)
	}
	calls, sdone, _, _ := snap()
	var lastEnd, maxDur time.Duration
	hang := false
	for _, c := range calls {
		key := "close"
		if c.what == "LeaveGroup" {
			key = "leave"
		}
		if !c.done {
			hang = true
			x.Violate(key+"-hang", "%s: %s had not returned %v (virtual) after it was called; bound %v. kgo goroutines:\n%s", g.desc, c.what, x.Elapsed()-c.start, g.bound, kgoStacks(6000))
			continue
		}
		d := c.end - c.start
		if d > maxDur {
			maxDur = d
		}
		if c.end > lastEnd {
			lastEnd = c.end
		}
		if d > g.bound {
			x.Violate(key+"-late", "%s: %s returned after %v (virtual); bound %v", g.desc, c.what, d, g.bound)
		}
	}
	if hang || !sdone {
		if !hang {
			x.Violate("harness:shutdown-thread-stuck", "%s: shutdown thread did not finish although its calls returned", g.desc)
		}
		x.Observe("%s HANG", g.cfg.name)
		g.cancelA()
		return
	}
	// (2) blocked calls return, promises run: 30 virtual seconds after the
	// last shutdown call returned.
	for x.Elapsed() < lastEnd+30*time.Second {
		_, _, aDone, _ := snap()
		if aDone && len(g.led.Outstanding()) == 0 {
			break
		}
		time.Sleep(100 * time.Millisecond)
	}
	if _, _, aDone, inCall := snap(); !aDone {
		x.Violate("blocked-call-stuck", "%s: the client is closed (last shutdown call returned %v ago) but the application is still inside call %q. kgo goroutines:\n%s", g.desc, x.Elapsed()-lastEnd, inCall, kgoStacks(4000))
	}
	if out := g.led.Outstanding(); len(out) > 0 {
		x.Violate("promise-never", "%s: the client is closed, 30 virtual seconds later the promises of %v have not run", g.desc, out)
	}
	g.led.Check(x, false)
	g.cancelA()
	// (3) polls report ErrClientClosed at once.
	t0 := x.Elapsed()
	ctx, cancel := context.WithTimeout(context.Background(), 5*time.Second)
	fs := g.cl.PollFetches(ctx)
	cancel()
	if !fs.IsClientClosed() {
		x.Violate("poll-after-close", "%s: PollFetches after Close returned %d records, errors %v, not the ErrClientClosed fetch", g.desc, fs.NumRecords(), fs.Errors())
	} else if d := x.Elapsed() - t0; d != 0 {
		x.Violate("poll-after-close-slow", "%s: PollFetches after Close took %v of virtual time", g.desc, d)
	}
	g.cl.AllowRebalance()
	for i := 0; i < 600 && !x.ThreadsDone(); i++ {
		time.Sleep(100 * time.Millisecond)
	}
	if !x.ThreadsDone() {
		x.Violate("harness:thread-stuck", "%s: a harness thread did not return within a virtual minute after the application context was cancelled:\n%s", g.desc, kgoStacks(4000))
	}
	bucket := "0"
	switch {
	case maxDur == 0:
	case maxDur <= 2*time.Second:
		bucket = "<=2s"
	case maxDur <= 35*time.Second:
		bucket = "<=35s"
	case maxDur <= 70*time.Second:
		bucket = "<=70s"
	default:
		bucket = ">70s"
	}
	g.mu.Lock()
	rs := append([]string(nil), g.results...)
	g.mu.Unlock()
	sort.Strings(rs)
	x.Count("gen_combinations", 1)
	x.Count("gen_kind_"+[...]string{"producer", "txn", "direct", "group", "share"}[g.cfg.kind], 1)
	x.Observe("%s shutdown-took=%s %s %v", g.cfg.name, bucket, g.led.Summary(), rs)
}

// GenPlans returns the generated family: quick = every (cfg, script of length
// <= 2, gate, delay, net, shut) on the default schedule; thorough = scripts of
// length <= 3 and three delays on the default schedule, then every single
// deviation (time-capped).
func GenPlans() []nrun.Plan {
	return []nrun.Plan{{Scenario: genScenario(), QuickBudget: 0, ThoroughBudget: 1, Weight: 6}}
}
