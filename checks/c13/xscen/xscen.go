// Package xscen holds the C13 scenarios: six base workloads with a CLOSER
// goroutine whose placement and broker behaviour are explored choices.
package xscen

import (
	"context"
	"fmt"
	"os"
	"regexp"
	"runtime"
	"sort"
	"strings"
	"sync"
	"testing/synctest"
	"time"

	"github.com/twmb/franz-go/pkg/kerr"
	"github.com/twmb/franz-go/pkg/kfake"
	"github.com/twmb/franz-go/pkg/kgo"
	"github.com/twmb/franz-go/pkg/kmsg"

	"verif/lib/explore"
	"verif/lib/netctl"
	"verif/lib/nrun"
	"verif/lib/nscen"
)

// C13: Close always finishes and leaves nothing running.
//
// Six compact base workloads (producer, direct consumer, cooperative group
// consumer, BlockRebalanceOnPoll group consumer closed with
// CloseAllowingRebalance, transactional producer, share-group consumer) are
// each combined with one CLOSER goroutine and three broker modes.
//
// Placement of Close. netctl lists a parked application thread BEFORE every
// frame event, so a thread parked at t.Step("close") would be the DEFAULT
// choice as soon as the workload thread blocks inside an API call (Close would
// run first, not last, and one deviation could only delay it by one event).
// The placement is therefore made an explicit explored choice: a selector
// chain SEL/ARM in front of the workload. SEL parks at skip-0, skip-1, ...
// (default); ARM parks at "arm". Releasing ARM after j skips (ONE deviation)
// fixes the placement "Close is called at the decision point at which exactly
// j events of the workload have fired" (event = delivered request/response
// frame of the client or released application step). The default execution
// takes all n skips, which places Close after the workload finished. Budget
// k=1 therefore puts Close at every point of the base execution, k=2 combines
// that with one fault / reordering / timer tick anywhere after the selector.
//
// The trigger is exact: for a frame event the FrameHook (which runs on the
// controller goroutine before the frame is handed over) wakes the CLOSER and
// waits for quiescence (synctest.Wait) before the frame continues; for an
// application step the thread wakes the CLOSER and parks once more.

// ---------------------------------------------------------------------------
// Bounds. Close itself has no deadline of its own: it leaves the group with
// the client's context (client.go close -> LeaveGroupContext(cl.ctx)), so the
// time it may take is what the request layer allows:
//
//   - every request issued through Client.Request is retried for at most the
//     retry timeout, 30 s for all keys but Join/Sync/Heartbeat (config.go,
//     RetryTimeoutFn doc). The timeout is evaluated after an attempt failed
//     ("if the time since the start plus the backoff is less than the retry
//     timeout, the request is issued again"), so a chain ends at most one
//     attempt later; one attempt against a silent broker costs the read
//     timeout of the ApiVersions handshake on a fresh connection plus the read
//     timeout of the request itself, each RequestTimeoutOverhead = 1 s here
//     (nscen.BaseOpts; OffsetCommit, LeaveGroup, ShareAcknowledge and
//     ShareGroupHeartbeat carry no broker-side wait). chain = 30 s + 3 x 1 s.
//   - a classic group Close runs at most three such chains in sequence:
//     LeaveGroupContext documents that "if a rebalance is in progress, this
//     function waits for the rebalance to complete" - that rebalance's
//     OnPartitionsRevoked commit (1), then the commit in the revoke of the
//     leave itself (2), then LeaveGroup (3). (Measured on the unchanged tree
//     with all connections black-holed: 33 s + 32 s + 32 s, replay analysed.)
//     A share group Close runs the final ShareAcknowledge per source (in
//     parallel) and the leaving ShareGroupHeartbeat, possibly after an ack
//     flush already in flight: the same three-chain bound is used.
//   - a JoinGroup or SyncGroup that is in flight when Close is called is NOT
//     cancelled by leaving: joinAndSync deliberately issues both with the
//     client context, not the group context (consumer_group.go, "NOTE: For
//     this function, we have to use the client context ..."), and the leave
//     waits for the manage goroutine. If that request's connection is stalled
//     the wait lasts until the request layer gives up: retry timeout for
//     Join/Sync = SessionTimeout (40 s here), evaluated after an attempt whose
//     read deadline is RebalanceTimeout (20 s here) + RequestTimeoutOverhead
//     for JoinGroup, the stashed RebalanceTimeout for SyncGroup
//     (client.go connTimeouter), plus the handshake of the fresh connection:
//     joinChain = 40 s + 20 s + 2 x 1 s. (Replay of the thorough artefacts
//     "stall:c/b1/group#0:SyncGroup": the stalled SyncGroup is read for
//     exactly 20 s and retried once.)
//   - with BlockRebalanceOnPoll the manage goroutine additionally waits for the
//     application to allow the rebalance; the application may be inside one
//     more call that the request layer bounds (a commit: one more chain).
//   - then one second to kill fetch sessions and one second for the final
//     client-metrics push (client.go close).
//
// A generous 30 virtual seconds are added on top of the sum.
const (
	retryTimeout     = 30 * time.Second
	reqTimeout       = 1 * time.Second
	chain            = retryTimeout + 3*reqTimeout
	sessionTimeout   = 40 * time.Second // kgo.SessionTimeout of every group scenario
	rebalanceTimeout = 20 * time.Second // kgo.RebalanceTimeout of every group scenario
	joinChain        = sessionTimeout + rebalanceTimeout + 2*reqTimeout
	sessKill         = 1 * time.Second
	metricsQuit      = 1 * time.Second
	slack            = 30 * time.Second

	boundPlain = sessKill + metricsQuit + slack
	boundGroup = joinChain + 4*chain + sessKill + metricsQuit + slack
)

type mode int

const (
	responsive  mode = iota // brokers answer
	blackhole               // from the Close call on, every connection of the client (old and new) is stalled (x.StallClient): accepts bytes, never answers
	unreachable             // from the Close call on, every connection is dead and every dial fails
)

func (m mode) String() string { return [...]string{"ok", "stalled", "unreach"}[m] }

// ---------------------------------------------------------------------------

type state struct {
	x    *netctl.Exec
	w    *workload
	mode mode
	cl   *kgo.Client
	led  *nscen.Ledger

	mu       sync.Mutex
	target   int // number of fired events after which Close is called; -1 until selected
	count    int
	last     string
	fired    bool
	placed   string
	trigger  chan struct{}
	selected chan struct{}
	baseDone chan struct{}
	nbase    int
	skips    int

	closeCalled bool
	closeStart  time.Duration
	closeEnd    time.Duration
	closed      bool
	atEnd       bool

	polled     int  // records the workload received
	sawClosed  bool // a workload poll returned the ErrClientClosed fetch
	notes      []string
	extraClose []func()
}

func (st *state) note(format string, a ...any) {
	st.mu.Lock()
	st.notes = append(st.notes, fmt.Sprintf(format, a...))
	st.mu.Unlock()
}

func (st *state) isClosed() bool { st.mu.Lock(); defer st.mu.Unlock(); return st.closed }
func (st *state) closing() bool  { st.mu.Lock(); defer st.mu.Unlock(); return st.closeCalled }

func onController() bool {
	buf := make([]byte, 16<<10)
	buf = buf[:runtime.Stack(buf, false)]
	return strings.Contains(string(buf), "netctl.(*Exec).run(")
}

// check reports whether Close has to be called now (before the event that is
// about to fire) and marks it.
func (st *state) check() bool {
	st.mu.Lock()
	defer st.mu.Unlock()
	if st.fired || st.target < 0 || st.count != st.target {
		return false
	}
	st.fired = true
	st.placed = fmt.Sprintf("after %d events (last: %s)", st.count, st.last)
	close(st.trigger)
	return true
}

func (st *state) fire(label string) {
	st.mu.Lock()
	st.count++
	st.last = label
	st.mu.Unlock()
}

// step is the workload's t.Step: a placement point.
func (st *state) step(t *netctl.Thread, label string) {
	t.Step(label)
	if st.check() {
		// Let Close run up to its first blocking point before this
		// application call is made.
		t.Step(label + "/after-close-call")
	}
	st.fire("app:" + t.Name + ":" + label)
}

func (st *state) frameHook(c *netctl.Conn, dir string, key, ver int16, frame []byte) {
	if c.Client != "c" {
		return
	}
	if st.check() && onController() {
		synctest.Wait()
	}
	st.fire(dir + ":" + c.Name + ":" + kmsg.NameForKey(key))
}

// thread starts a workload thread: it waits for the placement selection and
// counts towards "base workload finished".
func (st *state) thread(name string, body func(t *netctl.Thread)) {
	st.nbase++
	st.x.Thread(name, func(t *netctl.Thread) {
		<-st.selected
		body(t)
		st.mu.Lock()
		st.nbase--
		if st.nbase == 0 {
			close(st.baseDone)
		}
		st.mu.Unlock()
	})
}

// client builds the controlled client "c" (dialer = proxy).
func (st *state) client(c *kfake.Cluster, opts ...kgo.Opt) *kgo.Client {
	if os.Getenv("C13_KGOLOG") != "" { // analysis aid: the client's own log with virtual timestamps
		x := st.x
		opts = append(opts, kgo.WithLogger(kgo.BasicLogger(os.Stderr, kgo.LogLevelDebug, func() string {
			return fmt.Sprintf("[%8.3fs] kgo: ", x.Elapsed().Seconds())
		})))
	}
	st.cl = newClient(st.x, "c", c, opts...)
	return st.cl
}

// newClient is nscen.NewClient with a bounded cleanup: if Close really hangs
// forever, the cleanup's own (second) Close would hang the controller as well
// and the execution - with its close-hang violation - would be lost in a job
// timeout. The cleanup therefore calls Close from a goroutine and gives it
// five virtual minutes; a Close still stuck then is left to netctl's
// goroutine dump, which reports it and emits the result.
func newClient(x *netctl.Exec, name string, c *kfake.Cluster, opts ...kgo.Opt) *kgo.Client {
	cl, err := kgo.NewClient(append(nscen.BaseOpts(x, name, c), opts...)...)
	if err != nil {
		panic(fmt.Sprintf("kgo.NewClient(%s): %v", name, err))
	}
	x.OnCleanup(func() {
		done := make(chan struct{})
		go func() {
			cl.Close()
			close(done)
		}()
		tm := time.NewTimer(5 * time.Minute)
		defer tm.Stop()
		select {
		case <-done:
		case <-tm.C:
		}
	})
	return cl
}

type workload struct {
	name     string
	n        int // selector range (must be >= number of events of the base execution)
	bound    time.Duration
	consumer bool
	build    func(x *netctl.Exec, st *state)
	closeFn  func(st *state)
}

func faults(x *netctl.Exec, dir string, key int16, c *netctl.Conn) []string {
	if c.Client != "c" {
		return nil
	}
	if dir == "req" {
		return []string{"killbefore", "stall"}
	}
	return []string{"killafter"}
}

func scenario(w *workload) *netctl.Scenario {
	horizon := 90*time.Second + w.bound
	return &netctl.Scenario{
		Name:      w.name,
		Faults:    faults,
		Horizon:   horizon,
		MaxPoints: w.n + 400,
		Setup: func(x *netctl.Exec) {
			st := &state{x: x, w: w, led: nscen.NewLedger(), target: -1,
				trigger: make(chan struct{}), selected: make(chan struct{}), baseDone: make(chan struct{})}
			x.Data = st
			x.FrameHook = st.frameHook
			x.Thread("SEL", func(t *netctl.Thread) {
				for i := 0; i < w.n; i++ {
					st.mu.Lock()
					sel := st.target >= 0
					st.mu.Unlock()
					if sel {
						return
					}
					t.Step(fmt.Sprintf("skip-%d", i))
					st.mu.Lock()
					if st.target < 0 {
						st.skips = i + 1
					}
					st.mu.Unlock()
				}
			})
			// One ARM thread per broker mode: releasing ARM-<mode> after j
			// skips selects (placement j, mode). The default after n skips is
			// ARM-ok (Close after the workload, responsive brokers). The ARM
			// threads not chosen are released next (by default) and do nothing.
			for _, m := range []mode{responsive, blackhole, unreachable} {
				m := m
				x.Thread("ARM-"+m.String(), func(t *netctl.Thread) {
					t.Step("arm")
					st.mu.Lock()
					defer st.mu.Unlock()
					if st.target >= 0 {
						return
					}
					st.target = st.skips
					st.mode = m
					close(st.selected)
				})
			}
			w.build(x, st)
			x.OnCleanup(func() {
				for _, f := range st.extraClose {
					f()
				}
			})
			x.Thread("CLOSER", func(t *netctl.Thread) {
				select {
				case <-st.trigger:
				case <-st.baseDone:
					st.mu.Lock()
					st.atEnd = true
					if !st.fired {
						st.fired = true
						st.placed = fmt.Sprintf("at end, after %d events (last: %s)", st.count, st.last)
					}
					st.mu.Unlock()
				}
				st.mu.Lock()
				m := st.mode
				st.mu.Unlock()
				switch m {
				case blackhole:
					// Every current and future connection of the client is
					// frozen in the proxy: bytes are accepted, nothing is
					// delivered and nothing comes back, until the client
					// gives the connection up. (Pass-through un-stalls; the
					// explored phase lasts until this thread returned or
					// the horizon, which lies beyond closeStart+bound, and
					// the duration is stamped here.)
					x.StallClient("c", true)
				case unreachable:
					x.FailDials("c", true)
					for _, c := range x.Conns() {
						if c.Client == "c" {
							c.Kill()
						}
					}
				}
				st.mu.Lock()
				st.closeCalled = true
				st.closeStart = x.Elapsed()
				st.mu.Unlock()
				if w.closeFn != nil {
					w.closeFn(st)
				} else {
					st.cl.Close()
				}
				st.mu.Lock()
				st.closeEnd = x.Elapsed()
				st.closed = true
				st.mu.Unlock()
			})
		},
		Final: func(x *netctl.Exec) { final(x, x.Data.(*state)) },
	}
}

var kgoFrame = regexp.MustCompile(`franz-go/pkg/kgo\.`)

// kgoStacks returns the stacks of the bubble's goroutines that are inside
// pkg/kgo (used to describe a hang).
func kgoStacks(max int) string {
	buf := make([]byte, 1<<20)
	buf = buf[:runtime.Stack(buf, true)]
	var out []string
	for _, g := range strings.Split(string(buf), "\n\n") {
		if kgoFrame.MatchString(g) && strings.Contains(g, "synctest bubble") && !strings.Contains(g, "nscen.Helper") {
			out = append(out, g)
		}
	}
	sort.Strings(out)
	s := strings.Join(out, "\n\n")
	if len(s) > max {
		s = s[:max] + "\n…"
	}
	return s
}

func final(x *netctl.Exec, st *state) {
	w := st.w
	// (0) harness sanity: the CLOSER must have been started.
	for i := 0; i < 600 && !st.closing(); i++ {
		time.Sleep(100 * time.Millisecond)
	}
	if !st.closing() {
		x.Violate("harness:close-not-called", "the base workload did not finish within a virtual minute of the fault-free suffix; Close was never called (target %d, count %d)", st.target, st.count)
		return
	}
	// (1) Close returns within the bound.
	for !st.isClosed() && x.Elapsed() < st.closeStart+w.bound {
		time.Sleep(100 * time.Millisecond)
	}
	st.mu.Lock()
	closed, start, end, placed := st.closed, st.closeStart, st.closeEnd, st.placed+", brokers "+st.mode.String()
	st.mu.Unlock()
	if !closed {
		x.Violate("close-hang", "Close called %s had not returned %v (virtual) later; bound %v. kgo goroutines:\n%s", placed, x.Elapsed()-start, w.bound, kgoStacks(6000))
		x.Observe("%s HANG", placed)
		return
	}
	dur := end - start
	x.Logf("C13: Close called %s took %v (bound %v)", placed, dur, w.bound)
	if dur > w.bound {
		x.Violate("close-late", "Close called %s returned after %v (virtual); bound %v", placed, dur, w.bound)
	}
	// (2a) every promise runs, exactly once.
	for i := 0; i < 300 && len(st.led.Outstanding()) > 0; i++ {
		time.Sleep(100 * time.Millisecond)
	}
	if out := st.led.Outstanding(); len(out) > 0 {
		x.Violate("promise-never", "Close (called %s) returned, 30 virtual seconds later the promises of %v have not run", placed, out)
	}
	st.led.Check(x, false)
	// (2b) polling a closed client reports ErrClientClosed at once.
	t0 := x.Elapsed()
	ctx, cancel := context.WithTimeout(context.Background(), 5*time.Second)
	fs := st.cl.PollFetches(ctx)
	cancel()
	if !fs.IsClientClosed() {
		x.Violate("poll-after-close", "PollFetches after Close (called %s) returned %d records, errors %v, not the ErrClientClosed fetch", placed, fs.NumRecords(), fs.Errors())
	} else if d := x.Elapsed() - t0; d != 0 {
		x.Violate("poll-after-close-slow", "PollFetches after Close took %v of virtual time", d)
	}
	if w.consumer {
		ctx, cancel := context.WithTimeout(context.Background(), 5*time.Second)
		fs := st.cl.PollRecords(ctx, 1)
		cancel()
		if !fs.IsClientClosed() {
			x.Violate("poll-after-close", "second poll (PollRecords) after Close (called %s) returned %d records, errors %v, not the ErrClientClosed fetch", placed, fs.NumRecords(), fs.Errors())
		}
	}
	// BlockRebalanceOnPoll contract: every poll, also one that returned the
	// ErrClientClosed fetch, registers a poller; the cleanup calls Close a
	// second time, and Close documents "you must AllowRebalance before".
	st.cl.AllowRebalance()
	// (3) the workload's own calls come back (they all carry virtual
	// timeouts, so this only guards the harness); the goroutine dump is
	// taken by netctl.Run after cleanup.
	for i := 0; i < 1500 && !x.ThreadsDone(); i++ {
		time.Sleep(100 * time.Millisecond)
	}
	if !x.ThreadsDone() {
		x.Violate("harness:thread-stuck", "an application thread did not return within 150 virtual seconds after Close (called %s):\n%s", placed, kgoStacks(4000))
	}
	st.mu.Lock()
	notes := append([]string(nil), st.notes...)
	sort.Strings(notes)
	bucket := "0"
	switch {
	case dur == 0:
	case dur <= 2*time.Second:
		bucket = "<=2s"
	case dur <= 35*time.Second:
		bucket = "<=35s"
	default:
		bucket = ">35s"
	}
	if st.target == w.n && !st.atEnd {
		// The default execution has more events than the selector range:
		// placements beyond it were not explored.
		x.Count("placement_range_too_small", 1)
		notes = append(notes, "RANGE-TOO-SMALL")
	}
	if !st.atEnd {
		x.Count("close_placed_inside_workload", 1)
	} else {
		x.Count("close_placed_at_end", 1)
	}
	x.Count("mode_"+st.mode.String(), 1)
	obs := fmt.Sprintf("brokers=%s close %s took=%s polled=%d sawClosed=%v %s %v", st.mode, st.placedClass(), bucket, st.polled, st.sawClosed, st.led.Summary(), notes)
	st.mu.Unlock()
	x.Observe("%s", obs)
}

// placedClass is the placement without the event ordinal (outcome class).
func (st *state) placedClass() string {
	if st.atEnd {
		return "at-end"
	}
	return "before-next-after(" + st.last4() + ")"
}

func (st *state) last4() string {
	// st.placed = "after N events (last: L)"
	if i := strings.Index(st.placed, "(last: "); i >= 0 {
		return strings.TrimSuffix(st.placed[i+7:], ")")
	}
	return st.placed
}

// ---------------------------------------------------------------------------
// Workloads.

func twoBrokerTopic(x *netctl.Exec, opts ...kfake.Opt) *kfake.Cluster {
	c := x.Cluster(2, append([]kfake.Opt{kfake.SeedTopics(2, "t")}, opts...)...)
	c.MoveTopicPartition("t", 0, 0)
	c.MoveTopicPartition("t", 1, 1)
	return c
}

func preload(x *netctl.Exec, c *kfake.Cluster, perPartition int) {
	h := nscen.Helper(x, c, kgo.RecordPartitioner(kgo.ManualPartitioner()))
	defer h.Close()
	ctx, cancel := context.WithTimeout(context.Background(), 60*time.Second)
	defer cancel()
	var rs []*kgo.Record
	for p := int32(0); p < 2; p++ {
		for i := 0; i < perPartition; i++ {
			rs = append(rs, &kgo.Record{Topic: "t", Partition: p, Value: []byte(fmt.Sprintf("v%d-%d", p, i))})
		}
	}
	if err := h.ProduceSync(ctx, rs...).FirstErr(); err != nil {
		panic(fmt.Sprintf("preload: %v", err))
	}
}

func (st *state) produce(ctx context.Context, name, topic string, p int32) {
	r := &kgo.Record{Topic: topic, Partition: p, Value: []byte(name)}
	st.led.Hand(name, r)
	st.cl.Produce(ctx, r, st.led.Promise())
}

// poll is one workload poll with a virtual timeout; it returns false once the
// client reported ErrClientClosed.
func (st *state) poll(d time.Duration, max int) (kgo.Fetches, bool) {
	ctx, cancel := context.WithTimeout(context.Background(), d)
	defer cancel()
	fs := st.cl.PollRecords(ctx, max)
	if fs.IsClientClosed() {
		st.mu.Lock()
		st.sawClosed = true
		st.mu.Unlock()
		return fs, false
	}
	st.mu.Lock()
	st.polled += fs.NumRecords()
	st.mu.Unlock()
	return fs, true
}

var wProduce = &workload{name: "produce", n: 23, bound: boundPlain, build: func(x *netctl.Exec, st *state) {
	c := twoBrokerTopic(x)
	st.client(c,
		kgo.RecordPartitioner(kgo.ManualPartitioner()),
		kgo.UnknownTopicRetries(2),
		kgo.RecordRetries(4),
		kgo.ProducerLinger(0),
		kgo.ProduceRequestTimeout(5*time.Second),
		kgo.RecordDeliveryTimeout(60*time.Second),
	)
	st.thread("W", func(t *netctl.Thread) {
		bg := context.Background()
		st.step(t, "produce-r1-t0")
		st.produce(bg, "r1", "t", 0)
		st.step(t, "produce-r2-t1")
		st.produce(bg, "r2", "t", 1)
		st.step(t, "produce-r3-unknown")
		st.produce(bg, "r3", "u", 0)
		st.step(t, "produce-r4-t0")
		st.produce(bg, "r4", "t", 0)
		st.step(t, "flush")
		ctx, cancel := context.WithTimeout(bg, 100*time.Second)
		defer cancel()
		if err := st.cl.Flush(ctx); err != nil {
			st.note("flush:%s", nscen.ErrClass(err))
		}
	})
}}

var wConsume = &workload{name: "consume", n: 16, bound: boundPlain, consumer: true, build: func(x *netctl.Exec, st *state) {
	c := twoBrokerTopic(x)
	preload(x, c, 2)
	st.client(c,
		kgo.ConsumePartitions(map[string]map[int32]kgo.Offset{"t": {0: kgo.NewOffset().At(0), 1: kgo.NewOffset().At(0)}}),
		kgo.FetchMaxWait(500*time.Millisecond),
	)
	st.thread("W", func(t *netctl.Thread) {
		for i := 0; i < 4; i++ {
			st.step(t, fmt.Sprintf("poll-%d", i))
			if _, ok := st.poll(5*time.Second, 2); !ok {
				return
			}
			st.mu.Lock()
			got := st.polled
			st.mu.Unlock()
			if got >= 4 {
				return
			}
		}
	})
}}

// wConsumeLimited: MaxConcurrentFetches(1) over partitions led by two
// brokers, so that one source holds the only fetch slot while the other is
// queued in the fetch manager when Close arrives (the default, unlimited
// configuration never queues a source).
var wConsumeLimited = &workload{name: "consume-limited", n: 16, bound: boundPlain, consumer: true, build: func(x *netctl.Exec, st *state) {
	c := twoBrokerTopic(x)
	preload(x, c, 2)
	st.client(c,
		kgo.ConsumePartitions(map[string]map[int32]kgo.Offset{"t": {0: kgo.NewOffset().At(0), 1: kgo.NewOffset().At(0)}}),
		kgo.FetchMaxWait(500*time.Millisecond),
		kgo.MaxConcurrentFetches(1),
	)
	st.thread("W", func(t *netctl.Thread) {
		for i := 0; i < 3; i++ {
			st.step(t, fmt.Sprintf("poll-%d", i))
			if _, ok := st.poll(5*time.Second, 1); !ok {
				return
			}
		}
	})
}}

// groupWorkload: variant "" (cooperative-sticky, classic protocol), "eager"
// (range balancer) or "848" (KIP-848 heartbeat protocol); both members use it.
func groupWorkload(name string, block bool, n int, variant string) *workload {
	w := &workload{name: name, n: n, bound: boundGroup, consumer: true}
	w.build = func(x *netctl.Exec, st *state) {
		c := twoBrokerTopic(x)
		preload(x, c, 2)
		gopts := func() []kgo.Opt {
			o := []kgo.Opt{
				kgo.ConsumerGroup("g"),
				kgo.ConsumeTopics("t"),
				kgo.ConsumeResetOffset(kgo.NewOffset().AtStart()),
				kgo.FetchMaxWait(500 * time.Millisecond),
				kgo.HeartbeatInterval(time.Second),
				kgo.SessionTimeout(sessionTimeout),
				kgo.RebalanceTimeout(rebalanceTimeout),
				// Autocommit stays enabled (no periodic commit inside the run):
				// leaving the group commits in OnPartitionsRevoked.
				kgo.AutoCommitInterval(10 * time.Minute),
			}
			switch variant {
			case "eager":
				o = append(o, kgo.Balancers(kgo.RangeBalancer()))
			case "848":
				o = append(o, kgo.WithContext(context.WithValue(context.Background(), "opt_in_kafka_next_gen_balancer_beta", true)))
			}
			return o
		}
		opts := gopts()
		if block {
			opts = append(opts, kgo.BlockRebalanceOnPoll())
		}
		st.client(c, opts...)
		// Member B is created by the workload thread; if the execution ends
		// early (a diverged replay skips Final) the cleanup may already have
		// run, and B must then not be created at all.
		var b *kgo.Client
		var bmu sync.Mutex
		cleaned := false
		st.extraClose = append(st.extraClose, func() {
			bmu.Lock()
			cleaned = true
			bb := b
			bmu.Unlock()
			if bb != nil {
				bb.Close()
			}
		})
		allow := func(t *netctl.Thread, i int) {
			if block {
				st.step(t, fmt.Sprintf("allow-rebalance-%d", i))
				st.cl.AllowRebalance()
			}
		}
		st.thread("W", func(t *netctl.Thread) {
			st.step(t, "poll-0")
			_, ok := st.poll(8*time.Second, 2)
			allow(t, 0)
			if !ok {
				return
			}
			// A second member joins: a rebalance is in progress from here on.
			st.step(t, "member-B-joins")
			bmu.Lock()
			if !cleaned {
				b = nscen.Helper(x, c, gopts()...)
			}
			bmu.Unlock()
			for i := 1; i <= 3; i++ {
				st.step(t, fmt.Sprintf("poll-%d", i))
				_, ok := st.poll(1500*time.Millisecond, 2)
				allow(t, i)
				if !ok {
					return
				}
			}
		})
	}
	if block {
		w.closeFn = func(st *state) { st.cl.CloseAllowingRebalance() }
	}
	return w
}

var wGroup = groupWorkload("group", false, 72, "")
var wGroupBlock = groupWorkload("groupblock", true, 76, "")
var wGroupEager = groupWorkload("group-eager", false, 68, "eager")
var wGroup848 = groupWorkload("group-848", false, 58, "848")

var wTxn = &workload{name: "txn", n: 27, bound: boundPlain, build: func(x *netctl.Exec, st *state) {
	c := twoBrokerTopic(x)
	st.client(c,
		kgo.TransactionalID("tx"),
		kgo.TransactionTimeout(40*time.Second),
		kgo.RecordPartitioner(kgo.ManualPartitioner()),
		kgo.RecordRetries(4),
		kgo.ProducerLinger(0),
		kgo.ProduceRequestTimeout(5*time.Second),
		kgo.RecordDeliveryTimeout(60*time.Second),
	)
	st.thread("W", func(t *netctl.Thread) {
		bg := context.Background()
		st.step(t, "begin-1")
		if err := st.cl.BeginTransaction(); err != nil {
			st.note("begin1:%s", nscen.ErrClass(err))
		}
		st.step(t, "produce-r1-t0")
		st.produce(bg, "r1", "t", 0)
		st.step(t, "produce-r2-t1")
		st.produce(bg, "r2", "t", 1)
		st.step(t, "commit-1")
		ctx, cancel := context.WithTimeout(bg, 60*time.Second)
		if err := st.cl.Flush(ctx); err != nil {
			st.note("flush1:%s", nscen.ErrClass(err))
		}
		if err := st.cl.EndTransaction(ctx, kgo.TryCommit); err != nil {
			st.note("end1:%s", nscen.ErrClass(err))
		}
		cancel()
		st.step(t, "begin-2")
		if err := st.cl.BeginTransaction(); err != nil {
			st.note("begin2:%s", nscen.ErrClass(err))
		}
		st.step(t, "produce-r3-t0")
		st.produce(bg, "r3", "t", 0)
		st.step(t, "flush-2")
		ctx, cancel = context.WithTimeout(bg, 60*time.Second)
		if err := st.cl.Flush(ctx); err != nil {
			st.note("flush2:%s", nscen.ErrClass(err))
		}
		cancel()
		// The base workload ends inside the second transaction.
	})
}}

func setShareEarliest(x *netctl.Exec, c *kfake.Cluster, group string) {
	h := nscen.Helper(x, c)
	defer h.Close()
	req := kmsg.NewPtrIncrementalAlterConfigsRequest()
	res := kmsg.NewIncrementalAlterConfigsRequestResource()
	res.ResourceType = kmsg.ConfigResourceTypeGroupConfig
	res.ResourceName = group
	cfg := kmsg.NewIncrementalAlterConfigsRequestResourceConfig()
	cfg.Name = "share.auto.offset.reset"
	cfg.Op = 0
	cfg.Value = kmsg.StringPtr("earliest")
	res.Configs = append(res.Configs, cfg)
	req.Resources = append(req.Resources, res)
	ctx, cancel := context.WithTimeout(context.Background(), 60*time.Second)
	defer cancel()
	resp, err := req.RequestWith(ctx, h)
	if err != nil {
		panic(fmt.Sprintf("IncrementalAlterConfigs: %v", err))
	}
	for _, r := range resp.Resources {
		if err := kerr.ErrorForCode(r.ErrorCode); err != nil {
			panic(fmt.Sprintf("IncrementalAlterConfigs: %v", err))
		}
	}
}

var wShare = &workload{name: "share", n: 30, bound: boundGroup, consumer: true, build: func(x *netctl.Exec, st *state) {
	c := twoBrokerTopic(x)
	setShareEarliest(x, c, "s")
	preload(x, c, 2)
	st.client(c,
		kgo.ShareGroup("s"),
		kgo.ConsumeTopics("t"),
		kgo.FetchMaxWait(500*time.Millisecond),
		kgo.HeartbeatInterval(time.Second),
	)
	st.thread("W", func(t *netctl.Thread) {
		var held []*kgo.Record
		for i := 0; i < 3 && len(held) == 0; i++ {
			st.step(t, fmt.Sprintf("poll-%d", i))
			fs, ok := st.poll(6*time.Second, 0)
			if !ok {
				return
			}
			held = append(held, fs.Records()...)
		}
		if len(held) == 0 {
			return
		}
		// Acknowledge one record, keep the others un-acked.
		st.step(t, "ack-one")
		held[0].Ack(kgo.AckAccept)
		st.step(t, "flush-acks")
		ctx, cancel := context.WithTimeout(context.Background(), 5*time.Second)
		if err := st.cl.FlushAcks(ctx); err != nil {
			st.note("flushacks:%s", nscen.ErrClass(err))
		}
		cancel()
	})
}}

// ---------------------------------------------------------------------------

// allow: the first deviation is always the placement of Close (release ARM
// early); later deviations are anything after the selector chain.
func allow(parent explore.Job, point int, label string, cost int) bool {
	isSel := strings.HasPrefix(label, "app:ARM-") || strings.HasPrefix(label, "app:SEL:")
	if cost == 1 {
		return strings.HasPrefix(label, "app:ARM-")
	}
	return !isSel
}

// Plans returns the exploration plans of C13.
func Plans() []nrun.Plan {
	var ps []nrun.Plan
	add := func(w *workload, weight float64) {
		ps = append(ps, nrun.Plan{Scenario: scenario(w), QuickBudget: 1, ThoroughBudget: 2, Weight: weight, Allow: allow})
	}
	add(wProduce, 1)
	add(wConsume, 1)
	add(wConsumeLimited, 1)
	add(wGroup, 2)
	add(wGroupBlock, 2)
	add(wGroupEager, 2)
	add(wGroup848, 2)
	add(wTxn, 1)
	add(wShare, 1.5)
	return append(ps, GenPlans()...)
}
