#!/bin/bash
set -eu
cd "$(dirname "$0")/../.."
. bin/env.sh
go test -c -tags synctests,verif -o "$BUILD/c13.test" ./checks/c13
exec "$BUILD/c13.test" -test.run '^TestC13$' -test.timeout 0
