// C29: producer sequence numbers wrap modulo 2^31, in the client and in kfake.
//
// This binary
//   - reads the summaries of the two in-package harnesses
//     (hooks/inpkg/c29_kgo_test.go: incrementSequence sweeps;
//     hooks/inpkg/c29_kfake_test.go: pidwindow.pushAndValidate chains),
//   - runs part (c) itself: the same oracle through the real protocol (raw
//     ProduceRequests with crafted record batches against a kfake cluster),
//   - checks that incrementSequence really is the only sequence arithmetic in
//     pkg/kgo, and
//   - reports everything as ONE evidence file through lib/ev.
package main

import (
	"context"
	"encoding/json"
	"fmt"
	"go/ast"
	"go/parser"
	"go/token"
	"hash/crc32"
	"hash/fnv"
	"os"
	"os/exec"
	"path/filepath"
	"sort"
	"strings"
	"sync"
	"sync/atomic"
	"time"

	"github.com/twmb/franz-go/pkg/kfake"
	"github.com/twmb/franz-go/pkg/kgo"
	"github.com/twmb/franz-go/pkg/kmsg"
	"verif.local/ev"
)

const (
	mod    = int64(1) << 31
	badMod = mod - 1
	oooSN  = int16(45) // OUT_OF_ORDER_SEQUENCE_NUMBER
	keyMod = "C29:kfake:pidwindow:wrap-modulus"
)

// ------------------------------------------------------------ summaries (a),(b)

type subViolation struct {
	Key      string          `json:"key"`
	What     string          `json:"what"`
	Count    int64           `json:"count"`
	Artefact json.RawMessage `json:"artefact"`
}

type subSummary struct {
	Part        string         `json:"part"`
	Evaluations int64          `json:"evaluations"`
	Nontrivial  int64          `json:"nontrivial"`
	Distinct    []uint64       `json:"distinct"`
	Samples     []any          `json:"samples"`
	Sets        map[string]any `json:"sets"`
	Violations  []subViolation `json:"violations"`
}

// ------------------------------------------------------------ reference model

type entry struct {
	first, n int32
	off      int64
}

type model struct {
	mod  int64
	seen bool
	next int32
	win  [5]entry
	cnt  int
}

type result struct {
	Kind string `json:"kind"`             // "accepted" | "duplicate" | "out-of-order" | "error"
	Off  int64  `json:"offset,omitempty"` // accepted: base offset; duplicate: original base offset
	Code int16  `json:"error_code,omitempty"`
}

func (r result) String() string {
	switch r.Kind {
	case "accepted":
		return fmt.Sprintf("accepted at base offset %d", r.Off)
	case "duplicate":
		return fmt.Sprintf("duplicate answered with offset %d, nothing appended", r.Off)
	case "out-of-order":
		return "OUT_OF_ORDER_SEQUENCE_NUMBER"
	}
	return fmt.Sprintf("error code %d", r.Code)
}

// eval: what Kafka specifies for a batch (single epoch), hwm = current log end.
func (m *model) eval(first, n int32, hwm int64) result {
	if !m.seen {
		return result{Kind: "accepted", Off: hwm}
	}
	for i := 0; i < m.cnt; i++ {
		if e := m.win[i]; e.first == first && e.n == n {
			return result{Kind: "duplicate", Off: e.off}
		}
	}
	if first != m.next {
		return result{Kind: "out-of-order"}
	}
	return result{Kind: "accepted", Off: hwm}
}

func (m *model) apply(first, n int32, off int64) {
	m.seen = true
	m.next = int32((int64(first) + int64(n)) % m.mod)
	if m.cnt == 5 {
		copy(m.win[:], m.win[1:])
		m.cnt = 4
	}
	m.win[m.cnt] = entry{first, n, off}
	m.cnt++
}

// ------------------------------------------------------------ part (c)

type batchRef struct {
	First int32 `json:"first_sequence"`
	N     int32 `json:"num_records"`
	Off   int64 `json:"base_offset"` // relative to the partition's log end when the scenario started
}

type protoCase struct {
	Part     string     `json:"part"`
	Chain    []batchRef `json:"accepted_chain"`
	Probe    batchRef   `json:"probe"`
	Kind     string     `json:"probe_kind"`
	Expected result     `json:"expected"`
	Got      result     `json:"got"`
}

type protoViolation struct {
	key   string
	what  string
	count int64
	c     protoCase
}

func caseLess(a, b *protoCase) bool {
	if len(a.Chain) != len(b.Chain) {
		return len(a.Chain) < len(b.Chain)
	}
	for i := range a.Chain {
		if a.Chain[i].N != b.Chain[i].N {
			return a.Chain[i].N < b.Chain[i].N
		}
	}
	if len(a.Chain) > 0 && a.Chain[0].First != b.Chain[0].First {
		return a.Chain[0].First < b.Chain[0].First
	}
	if a.Kind != b.Kind {
		return a.Kind < b.Kind
	}
	if a.Probe.N != b.Probe.N {
		return a.Probe.N < b.Probe.N
	}
	return a.Probe.First < b.Probe.First
}

type protoStats struct {
	mu        sync.Mutex
	requests  int64
	produces  int64
	scenarios int64
	states    int64
	wrapped   int64
	byKind    map[string]int64
	viol      map[string]*protoViolation
	distinct  map[uint64]struct{}
	samples   []any
}

var crcTab = crc32.MakeTable(crc32.Castagnoli)

func makeBatch(pid int64, epoch int16, seq, n int32) []byte {
	var recs []byte
	for i := int32(0); i < n; i++ {
		rec := kmsg.Record{Key: []byte("k"), Value: []byte("v"), TimestampDelta64: int64(i), OffsetDelta: i}
		rec.Length = int32(len(rec.AppendTo(nil)) - 1)
		recs = rec.AppendTo(recs)
	}
	const ts = int64(1700000000000) // fixed: no wall clock in the inputs
	b := kmsg.RecordBatch{
		PartitionLeaderEpoch: -1,
		Magic:                2,
		LastOffsetDelta:      n - 1,
		FirstTimestamp:       ts,
		MaxTimestamp:         ts + int64(n-1),
		ProducerID:           pid,
		ProducerEpoch:        epoch,
		FirstSequence:        seq,
		NumRecords:           n,
		Records:              recs,
	}
	raw := b.AppendTo(nil)
	b.Length = int32(len(raw) - 12)
	raw = b.AppendTo(nil)
	b.CRC = int32(crc32.Checksum(raw[21:], crcTab))
	return b.AppendTo(nil)
}

type worker struct {
	st      *protoStats
	c       *kfake.Cluster
	cl      *kgo.Client
	topic   string
	topicID [16]byte
	ctx     context.Context
	reqs    int64
}

func newWorker(st *protoStats) (*worker, error) {
	w := &worker{st: st, topic: "c29", ctx: context.Background()}
	c, err := kfake.NewCluster(kfake.NumBrokers(1), kfake.SeedTopics(1, w.topic))
	if err != nil {
		return nil, err
	}
	w.c = c
	cl, err := kgo.NewClient(kgo.SeedBrokers(c.ListenAddrs()...), kgo.RequestRetries(0))
	if err != nil {
		c.Close()
		return nil, err
	}
	w.cl = cl
	mreq := kmsg.NewPtrMetadataRequest()
	mt := kmsg.NewMetadataRequestTopic()
	mt.Topic = kmsg.StringPtr(w.topic)
	mreq.Topics = append(mreq.Topics, mt)
	mresp, err := mreq.RequestWith(w.ctx, cl)
	if err != nil {
		w.close()
		return nil, err
	}
	if len(mresp.Topics) != 1 || mresp.Topics[0].ErrorCode != 0 {
		w.close()
		return nil, fmt.Errorf("metadata: %+v", mresp.Topics)
	}
	w.topicID = mresp.Topics[0].TopicID
	return w, nil
}

func (w *worker) close() { w.cl.Close(); w.c.Close() }

func (w *worker) initPID() (int64, int16, error) {
	req := kmsg.NewPtrInitProducerIDRequest()
	req.ProducerID, req.ProducerEpoch = -1, -1
	w.reqs++
	resp, err := req.RequestWith(w.ctx, w.cl)
	if err != nil {
		return 0, 0, err
	}
	if resp.ErrorCode != 0 {
		return 0, 0, fmt.Errorf("InitProducerID error code %d", resp.ErrorCode)
	}
	return resp.ProducerID, resp.ProducerEpoch, nil
}

func (w *worker) logEnd() (int64, error) {
	req := kmsg.NewPtrListOffsetsRequest()
	req.ReplicaID = -1
	rt := kmsg.NewListOffsetsRequestTopic()
	rt.Topic = w.topic
	rp := kmsg.NewListOffsetsRequestTopicPartition()
	rp.Partition, rp.Timestamp, rp.CurrentLeaderEpoch = 0, -1, -1
	rt.Partitions = append(rt.Partitions, rp)
	req.Topics = append(req.Topics, rt)
	w.reqs++
	resp, err := req.RequestWith(w.ctx, w.cl)
	if err != nil {
		return 0, err
	}
	if len(resp.Topics) != 1 || len(resp.Topics[0].Partitions) != 1 || resp.Topics[0].Partitions[0].ErrorCode != 0 {
		return 0, fmt.Errorf("ListOffsets: %+v", resp.Topics)
	}
	return resp.Topics[0].Partitions[0].Offset, nil
}

func (w *worker) produce(pid int64, epoch int16, seq, n int32) (int16, int64, error) {
	req := kmsg.NewPtrProduceRequest()
	req.Acks = -1
	req.TimeoutMillis = 5000
	rt := kmsg.NewProduceRequestTopic()
	rt.Topic, rt.TopicID = w.topic, w.topicID
	rp := kmsg.NewProduceRequestTopicPartition()
	rp.Partition = 0
	rp.Records = makeBatch(pid, epoch, seq, n)
	rt.Partitions = append(rt.Partitions, rp)
	req.Topics = append(req.Topics, rt)
	w.reqs++
	kresp, err := w.cl.Request(w.ctx, req)
	if err != nil {
		return 0, 0, err
	}
	resp := kresp.(*kmsg.ProduceResponse)
	if len(resp.Topics) != 1 || len(resp.Topics[0].Partitions) != 1 {
		return 0, 0, fmt.Errorf("produce response shape: %+v", resp.Topics)
	}
	p := resp.Topics[0].Partitions[0]
	return p.ErrorCode, p.BaseOffset, nil
}

type scenario struct {
	s, n1 int32
	tail  []int32
	canon []bool // canon[i]: run the probe set after accepted batch i
}

// run executes one scenario. hwm is the partition's current log end (checked).
type scenarioRun struct {
	w     *worker
	pid   int64
	epoch int16
	base  int64 // log end when the scenario started
	hwm   int64
	ref   model
	alt   model
	chain []batchRef
	abort bool
}

func (r *scenarioRun) fail(kind string, probe batchRef, want, got, alt result) {
	var key string
	switch {
	case got.Kind == "error":
		key = "C29:kfake:error-code"
	case want.Kind == "duplicate" || got.Kind == "duplicate":
		key = "C29:kfake:duplicate"
	case want.Kind == "accepted" && got.Kind == "accepted":
		key = "C29:kfake:base-offset"
	case want.Kind == "accepted":
		key = "C29:kfake:next-rejected"
	default:
		key = "C29:kfake:out-of-order-accepted"
	}
	if got == alt && got != want {
		// Candidate for the modulus class: the answer is what a window
		// computing (s+n) mod (2^31-1) gives. It is filed there only if the
		// function-level harness (which can test the window state for
		// consistency) found that class too; otherwise under the key above.
		key = keyMod + "|" + key
	}
	c := protoCase{Part: "kfake-protocol", Chain: append([]batchRef(nil), r.chain...), Probe: probe, Kind: kind, Expected: want, Got: got}
	var cs []string
	for _, b := range c.Chain {
		cs = append(cs, fmt.Sprintf("(s=%d n=%d @%d)", b.First, b.N, b.Off))
	}
	what := fmt.Sprintf("kfake cluster, fresh producer id, accepted produce chain [%s]; then %s batch (FirstSequence %d, %d records): Kafka says %s, kfake answered %s",
		strings.Join(cs, " "), kind, probe.First, probe.N, want, got)
	st := r.w.st
	st.mu.Lock()
	if v := st.viol[key]; v == nil {
		st.viol[key] = &protoViolation{key: key, what: what, count: 1, c: c}
	} else {
		v.count++
		if caseLess(&c, &v.c) {
			v.c, v.what = c, what
		}
	}
	st.mu.Unlock()
}

// send produces one batch and classifies the observable outcome. Offsets in
// results are relative to r.base so that cases are comparable across workers.
func (r *scenarioRun) send(kind string, first, n int32) (ok bool, err error) {
	want := r.ref.eval(first, n, r.hwm-r.base)
	altw := r.alt.eval(first, n, r.hwm-r.base)
	code, off, err := r.w.produce(r.pid, r.epoch, first, n)
	if err != nil {
		return false, err
	}
	var got result
	newEnd := r.hwm
	switch {
	case code == 0:
		if newEnd, err = r.w.logEnd(); err != nil {
			return false, err
		}
		switch newEnd - r.hwm {
		case 0:
			got = result{Kind: "duplicate", Off: off - r.base}
		case int64(n):
			got = result{Kind: "accepted", Off: off - r.base}
		default:
			return false, fmt.Errorf("log end moved by %d after a %d-record batch", newEnd-r.hwm, n)
		}
	case code == oooSN:
		got = result{Kind: "out-of-order"}
	default:
		got = result{Kind: "error", Code: code}
	}
	st := r.w.st
	st.mu.Lock()
	st.produces++
	st.byKind[kind]++
	st.mu.Unlock()
	probe := batchRef{first, n, r.hwm - r.base}
	good := got == want
	if kind == "retry-of-evicted-batch" && want.Kind == "out-of-order" && got.Kind == "duplicate" {
		// remembering more than five batches is allowed; appending again is not
		for _, b := range r.chain {
			if b.First == first && b.N == n && b.Off == got.Off {
				good = true
			}
		}
	}
	if !good {
		r.fail(kind, probe, want, got, altw)
	}
	if got.Kind == "accepted" {
		// the broker appended: follow ITS state only if that was specified
		r.hwm = newEnd
		if want.Kind != "accepted" {
			r.abort = true // diverged; the rest of the scenario is meaningless
			return false, nil
		}
		r.ref.apply(first, n, got.Off)
		r.alt.apply(first, n, got.Off)
		r.chain = append(r.chain, batchRef{first, n, got.Off})
		return good, nil
	}
	if want.Kind == "accepted" {
		r.abort = true
	}
	return good, nil
}

func (r *scenarioRun) probes(neighbourNs []int32) error {
	st := r.w.st
	st.mu.Lock()
	st.states++
	st.mu.Unlock()
	inWin := func(b batchRef) bool {
		for i := 0; i < r.ref.cnt; i++ {
			if e := r.ref.win[i]; e.first == b.First && e.n == b.N && e.off == b.Off {
				return true
			}
		}
		return false
	}
	hist := append([]batchRef(nil), r.chain...)
	for i, b := range hist {
		kind := "retried-duplicate"
		if !inWin(b) {
			kind = "retry-of-evicted-batch"
		}
		if _, err := r.send(kind, b.First, b.N); err != nil || r.abort {
			return err
		}
		if i == len(hist)-1 && int64(b.N)+1 < mod {
			if _, err := r.send("same-first-seq-other-count", b.First, b.N+1); err != nil || r.abort {
				return err
			}
		}
	}
	e := int64(r.ref.next)
	for d := int64(-3); d <= 3; d++ {
		if d == 0 {
			continue
		}
		f := int32(((e+d)%mod + mod) % mod)
		for _, n := range neighbourNs {
			if n != 1 && d != -1 && d != 1 {
				continue
			}
			if _, err := r.send("neighbour-of-expected", f, n); err != nil || r.abort {
				return err
			}
		}
	}
	// nothing of the above may have appended anything
	end, err := r.w.logEnd()
	if err != nil {
		return err
	}
	if end != r.hwm {
		return fmt.Errorf("log end %d differs from tracked %d after rejected probes", end, r.hwm)
	}
	return nil
}

func (w *worker) runScenario(sc scenario, neighbourNs []int32) error {
	pid, epoch, err := w.initPID()
	if err != nil {
		return err
	}
	end, err := w.logEnd()
	if err != nil {
		return err
	}
	r := &scenarioRun{w: w, pid: pid, epoch: epoch, base: end, hwm: end, ref: model{mod: mod}, alt: model{mod: badMod}}
	ns := append([]int32{sc.n1}, sc.tail...)
	first := sc.s
	wrapped := false
	for i, n := range ns {
		kind := "chain-extension"
		if i == 0 {
			kind = "first-batch"
		}
		if _, err := r.send(kind, first, n); err != nil {
			return err
		}
		if r.abort {
			break
		}
		if int64(first)+int64(n) >= badMod {
			wrapped = true
		}
		if sc.canon[i] {
			if wrapped {
				w.st.mu.Lock()
				w.st.wrapped++
				w.st.mu.Unlock()
			}
			if err := r.probes(neighbourNs); err != nil {
				return err
			}
			if r.abort {
				break
			}
		}
		first = r.ref.next
	}
	w.st.mu.Lock()
	w.st.scenarios++
	if wrapped {
		w.st.distinct[h64(fmt.Sprintf("proto:s=%d:n=%v", sc.s, ns))] = struct{}{}
	}
	if len(w.st.samples) < 3 && wrapped && !r.abort && len(ns) > 2 && sc.canon[0] {
		w.st.samples = append(w.st.samples, map[string]any{"part": "kfake-protocol", "accepted_chain": r.chain, "then": "all retried duplicates answered with their original offsets; +-3 neighbours OUT_OF_ORDER_SEQUENCE_NUMBER; log end unchanged"})
	}
	w.st.mu.Unlock()
	return nil
}

func h64(s string) uint64 { h := fnv.New64a(); h.Write([]byte(s)); return h.Sum64() }

func protocolPart() (*protoStats, map[string]any) {
	st := &protoStats{byKind: map[string]int64{}, viol: map[string]*protoViolation{}, distinct: map[uint64]struct{}{}}
	const near = 8
	var ss []int32
	for s := mod - near; s < mod; s++ {
		ss = append(ss, int32(s))
	}
	for s := int64(0); s <= near; s++ {
		ss = append(ss, int32(s))
	}
	firstNs := []int32{1, 2, 3, 5, 8, 9, 16}
	alphabet := []int32{1, 3}
	neighbourNs := []int32{1, 2}
	depth := 6
	if ev.Thorough() {
		alphabet = []int32{1, 2, 9}
	}
	var scs []scenario
	var tails [][]int32
	var gen func(cur []int32)
	gen = func(cur []int32) {
		if len(cur) == depth-1 {
			tails = append(tails, append([]int32(nil), cur...))
			return
		}
		for _, a := range alphabet {
			gen(append(cur, a))
		}
	}
	gen(nil)
	for _, s := range ss {
		for _, n1 := range firstNs {
			for _, t := range tails {
				// every prefix of a chain is probed exactly once: by the tail
				// that continues it with the first letter only
				canon := make([]bool, depth)
				for i := 0; i < depth; i++ {
					c := true
					for _, a := range t[i:] {
						if a != alphabet[0] {
							c = false
						}
					}
					canon[i] = c
				}
				scs = append(scs, scenario{s, n1, t, canon})
			}
		}
	}
	nw := ev.Workers()
	if nw > 8 {
		nw = 8
	}
	var next atomic.Int64
	var wg sync.WaitGroup
	var infra atomic.Value
	var reqs atomic.Int64
	for i := 0; i < nw; i++ {
		wg.Add(1)
		go func() {
			defer wg.Done()
			w, err := newWorker(st)
			if err != nil {
				infra.Store(err)
				return
			}
			defer w.close()
			for infra.Load() == nil {
				j := int(next.Add(1) - 1)
				if j >= len(scs) {
					break
				}
				if err := w.runScenario(scs[j], neighbourNs); err != nil {
					infra.Store(fmt.Errorf("scenario s=%d n1=%d tail=%v: %w", scs[j].s, scs[j].n1, scs[j].tail, err))
					return
				}
			}
			reqs.Add(w.reqs)
		}()
	}
	wg.Wait()
	if e := infra.Load(); e != nil {
		ev.InfraError("protocol part: %v", e)
	}
	st.requests = reqs.Load()
	sets := map[string]any{
		"protocol_start_sequences":      ss,
		"protocol_first_batch_sizes":    firstNs,
		"protocol_chain_batch_sizes":    alphabet,
		"protocol_chain_length":         depth,
		"protocol_scenarios":            st.scenarios,
		"protocol_window_states_probed": st.states,
		"protocol_states_past_wrap":     st.wrapped,
		"protocol_produce_requests":     st.produces,
		"protocol_requests_total":       st.requests,
		"protocol_produces_by_kind":     st.byKind,
		"protocol_reachability":         "kfake (like Kafka) accepts ANY first sequence for the first batch of a producer id it has no state for on that partition, so a fresh InitProducerID id starting at 2^31-k reaches the wrap boundary in one request",
	}
	return st, sets
}

// ------------------------------------------------------------ source scan

// seqArithmeticSites lists every write to recBuf.seq / recBuf.batch0Seq in
// pkg/kgo and every arithmetic expression over them, so that the claim "the
// in-package sweep of incrementSequence covers all client sequence
// arithmetic" is checked rather than assumed.
func seqArithmeticSites(repo string) (sites []string, unmodelled []string, err error) {
	dir := filepath.Join(repo, "pkg", "kgo")
	fset := token.NewFileSet()
	ents, err := os.ReadDir(dir)
	if err != nil {
		return nil, nil, err
	}
	isSeq := func(e ast.Expr) bool {
		switch x := e.(type) {
		case *ast.SelectorExpr:
			return x.Sel.Name == "seq" || x.Sel.Name == "batch0Seq"
		}
		return false
	}
	found := false
	for _, de := range ents {
		name := de.Name()
		if !strings.HasSuffix(name, ".go") || strings.HasSuffix(name, "_test.go") {
			continue
		}
		f, perr := parser.ParseFile(fset, filepath.Join(dir, name), nil, 0)
		if perr != nil {
			return nil, nil, perr
		}
		for _, d := range f.Decls {
			fd, ok := d.(*ast.FuncDecl)
			if !ok || fd.Body == nil {
				continue
			}
			if fd.Name.Name == "incrementSequence" && fd.Recv == nil {
				found = true
				continue // the function under sweep
			}
			ast.Inspect(fd.Body, func(n ast.Node) bool {
				pos := func(p token.Pos) string {
					pp := fset.Position(p)
					return fmt.Sprintf("%s:%d", filepath.Base(pp.Filename), pp.Line)
				}
				switch x := n.(type) {
				case *ast.AssignStmt:
					for i, l := range x.Lhs {
						if !isSeq(l) {
							continue
						}
						how := "?"
						if x.Tok == token.ASSIGN && len(x.Rhs) == len(x.Lhs) {
							switch r := x.Rhs[i].(type) {
							case *ast.BasicLit:
								if r.Value == "0" {
									how = "reset-to-0"
								}
							case *ast.SelectorExpr:
								if r.Sel.Name == "batch0Seq" {
									how = "rewind-to-batch0Seq"
								}
							case *ast.CallExpr:
								if id, ok := r.Fun.(*ast.Ident); ok && id.Name == "incrementSequence" {
									how = "incrementSequence"
								}
							}
						}
						s := fmt.Sprintf("%s %s.%s: %s", pos(x.Pos()), fd.Name.Name, l.(*ast.SelectorExpr).Sel.Name, how)
						sites = append(sites, s)
						if how == "?" {
							unmodelled = append(unmodelled, s)
						}
					}
				case *ast.IncDecStmt:
					if isSeq(x.X) {
						unmodelled = append(unmodelled, fmt.Sprintf("%s %s: ++/-- on a sequence field", pos(x.Pos()), fd.Name.Name))
					}
				case *ast.BinaryExpr:
					switch x.Op {
					case token.ADD, token.SUB, token.REM, token.AND, token.MUL, token.QUO:
						if isSeq(x.X) || isSeq(x.Y) {
							unmodelled = append(unmodelled, fmt.Sprintf("%s %s: arithmetic on a sequence field outside incrementSequence", pos(x.Pos()), fd.Name.Name))
						}
					}
				}
				return true
			})
		}
	}
	if !found {
		return nil, nil, fmt.Errorf("func incrementSequence not found in %s", dir)
	}
	sort.Strings(sites)
	return sites, unmodelled, nil
}

// ------------------------------------------------------------ replay

func replay(path string) {
	b, err := os.ReadFile(path)
	if err != nil {
		ev.InfraError("%v", err)
	}
	var v struct {
		Artefact map[string]json.RawMessage `json:"artefact"`
	}
	if err := json.Unmarshal(b, &v); err != nil {
		ev.InfraError("%v", err)
	}
	code := 0
	for part, raw := range v.Artefact {
		tmp, _ := os.CreateTemp(os.Getenv("BUILD"), "c29-replay-*.json")
		fmt.Fprintf(tmp, `{"artefact": %s}`, raw)
		tmp.Close()
		defer os.Remove(tmp.Name())
		switch part {
		case "client", "kfake-window":
			bin := os.Getenv("C29_KGO_TEST")
			if part == "kfake-window" {
				bin = os.Getenv("C29_KFAKE_TEST")
			}
			cmd := exec.Command(bin, "-test.run", "^TestVerifC29$")
			cmd.Env = append(os.Environ(), "C29_REPLAY="+tmp.Name())
			cmd.Stdout, cmd.Stderr = os.Stdout, os.Stderr
			if err := cmd.Run(); err != nil {
				code = 1
			}
		case "kfake-protocol":
			var c protoCase
			if err := json.Unmarshal(raw, &c); err != nil {
				ev.InfraError("%v", err)
			}
			st := &protoStats{byKind: map[string]int64{}, viol: map[string]*protoViolation{}, distinct: map[uint64]struct{}{}}
			w, err := newWorker(st)
			if err != nil {
				ev.InfraError("%v", err)
			}
			pid, epoch, err := w.initPID()
			if err != nil {
				ev.InfraError("%v", err)
			}
			r := &scenarioRun{w: w, pid: pid, epoch: epoch, ref: model{mod: mod}, alt: model{mod: badMod}}
			for i, s := range append(append([]batchRef(nil), c.Chain...), c.Probe) {
				want := r.ref.eval(s.First, s.N, r.hwm)
				if _, err := r.send("replay", s.First, s.N); err != nil {
					ev.InfraError("%v", err)
				}
				fmt.Printf("replay protocol[%d] FirstSequence=%d records=%d: reference %s\n", i, s.First, s.N, want)
			}
			w.close()
			for _, pv := range st.viol {
				fmt.Printf("  %s\n", pv.what)
				code = 1
			}
		}
	}
	if code != 0 {
		fmt.Println("VIOLATION reproduced")
	} else {
		fmt.Println("held")
	}
	os.Exit(code)
}

// ------------------------------------------------------------ main

func main() {
	if len(os.Args) == 3 && os.Args[1] == "--replay" {
		replay(os.Args[2])
	}
	if len(os.Args) != 3 {
		ev.InfraError("usage: c29 <client summary.json> <kfake summary.json> | --replay <artefact>")
	}
	r := ev.New("C29", "exploration")
	r.Rule("(a) client: incrementSequence(s,n) == (s+n) mod 2^31 for every (s,n) of the boundary window product and for ALL 2^31 s at selected n; " +
		"(b) kfake pidwindow.pushAndValidate: every chain of accepted batches over a batch-size alphabet starting at every boundary s x boundary n, " +
		"and at every reached window state the full probe set (correct next with every boundary n, every retried duplicate, same first sequence with another count, " +
		"every first sequence within +-3 of the expected one, epoch bump) compared with a reference window; " +
		"(c) the same oracle through raw ProduceRequests against a kfake cluster for s within 8 of the boundary. " +
		"A case is non-trivial when some batch of its history has s+n >= 2^31-1 (the only region where the modulus matters); distinct = distinct (s, first n[, chain]) of such cases plus swept rows.")
	r.Assume(
		"Kafka's specification of the sequence window is the reference model written in the harness (next = (s+n) mod 2^31; duplicate = same first sequence and count as one of the last five appended batches; first batch of an unknown producer accepted at any sequence; new epoch only at sequence 0)",
		"pushAndValidate is called by 00_produce.go only with epoch >= the stored epoch (lower epochs are rejected earlier with INVALID_PRODUCER_EPOCH)",
		"record batches in part (c) are well formed (NumRecords equals the records encoded), so batch sizes there are small; sizes near 2^31 are covered at function level in (a) and (b)",
	)

	subs := []string{os.Args[1], os.Args[2]}
	type merged struct {
		what  []string
		count int64
		art   map[string]json.RawMessage
	}
	viol := map[string]*merged{}
	addViol := func(key, part, what string, count int64, art json.RawMessage) {
		m := viol[key]
		if m == nil {
			m = &merged{art: map[string]json.RawMessage{}}
			viol[key] = m
		}
		m.what = append(m.what, what)
		m.count += count
		m.art[part] = art
	}
	for _, p := range subs {
		b, err := os.ReadFile(p)
		if err != nil {
			ev.InfraError("summary %s: %v", p, err)
		}
		var s subSummary
		if err := json.Unmarshal(b, &s); err != nil {
			ev.InfraError("summary %s: %v", p, err)
		}
		if s.Evaluations == 0 {
			ev.InfraError("summary %s: no evaluations", p)
		}
		r.Evals(s.Evaluations)
		for _, h := range s.Distinct {
			r.DistinctHash(h)
		}
		for i, smp := range s.Samples {
			if i < 2 {
				r.Sample(smp)
			}
		}
		for k, v := range s.Sets {
			r.Set(k, v)
		}
		r.Set(strings.ReplaceAll(s.Part, "-", "_")+"_evaluations", s.Evaluations)
		r.Set(strings.ReplaceAll(s.Part, "-", "_")+"_nontrivial", s.Nontrivial)
		for _, v := range s.Violations {
			addViol(v.Key, s.Part, v.What, v.Count, v.Artefact)
		}
	}

	// client source scan
	repo := os.Getenv("REPO")
	if repo == "" {
		repo = "/repo"
	}
	sites, unmodelled, err := seqArithmeticSites(repo)
	if err != nil {
		ev.InfraError("source scan: %v", err)
	}
	r.Set("client_sequence_write_sites", sites)
	r.Evals(int64(len(sites)))
	if len(unmodelled) > 0 {
		a, _ := json.Marshal(map[string]any{"sites": unmodelled})
		addViol("C29:client:unmodelled-sequence-arithmetic", "client-source",
			"pkg/kgo advances or rewinds a sequence number by arithmetic outside incrementSequence, which the sweep does not cover: "+strings.Join(unmodelled, "; "), int64(len(unmodelled)), a)
	}

	// part (c)
	t0 := time.Now()
	st, sets := protocolPart()
	sets["protocol_wall_s"] = time.Since(t0).Seconds()
	r.Evals(st.produces)
	for k, v := range sets {
		r.Set(k, v)
	}
	for h := range st.distinct {
		r.DistinctHash(h)
	}
	for _, s := range st.samples {
		r.Sample(s)
	}
	byKey := map[string]*protoViolation{}
	for _, v := range st.viol {
		key := v.key
		if cand, fallback, ok := strings.Cut(key, "|"); ok {
			key = fallback
			if viol[cand] != nil && viol[cand].art["kfake-window"] != nil {
				key = cand
			}
		}
		if cur := byKey[key]; cur == nil {
			byKey[key] = &protoViolation{key: key, what: v.what, count: v.count, c: v.c}
		} else {
			cur.count += v.count
			if caseLess(&v.c, &cur.c) {
				cur.c, cur.what = v.c, v.what
			}
		}
	}
	for key, v := range byKey {
		a, _ := json.Marshal(v.c)
		addViol(key, "kfake-protocol", v.what, v.count, a)
	}

	r.Set("bound_completed", map[string]any{
		"client":          "window product 8193 x 8192 complete; all 2^31 s for each listed n complete",
		"kfake_window":    "all chains to the listed depth over the listed alphabets from every listed (s, first n) complete",
		"kfake_protocol":  "all scenarios complete",
		"tier":            ev.Tier(),
		"violation_class": "violations are reported once per class (key) with the minimal failing case and the number of wrong answers of that class",
	})

	keys := make([]string, 0, len(viol))
	for k := range viol {
		keys = append(keys, k)
	}
	sort.Strings(keys)
	for _, k := range keys {
		m := viol[k]
		r.Violation(k, fmt.Sprintf("%s\n(%d wrong answers of this class in total)", strings.Join(m.what, "\n"), m.count), m.art)
	}
	r.Finish()
}
