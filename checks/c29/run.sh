#!/bin/bash
# C29: sequence numbers wrap modulo 2^31 in the client (incrementSequence) and in
# kfake (pidwindow.pushAndValidate + the produce path). Three parts, one evidence file:
#   (a) in-package harness in pkg/kgo   -> $BUILD/c29_client.json
#   (b) in-package harness in pkg/kfake -> $BUILD/c29_kfake.json
#   (c) raw Produce requests against a real kfake cluster, run by the main binary,
# which also aggregates (a)+(b) and is the only one reporting through lib/ev.
# Replay: checks/c29/run.sh --replay /verif/violations/C29/<file>.json
set -eu
cd "$(dirname "$0")/../.."
. bin/env.sh
inpkg_test pkg/kgo   "$VERIF_ROOT/hooks/inpkg/c29_kgo_test.go"   "$BUILD/c29_kgo.test"
inpkg_test pkg/kfake "$VERIF_ROOT/hooks/inpkg/c29_kfake_test.go" "$BUILD/c29_kfake.test"
go build -o "$BUILD/c29" ./checks/c29
export C29_KGO_TEST="$BUILD/c29_kgo.test" C29_KFAKE_TEST="$BUILD/c29_kfake.test"
if [ "${1:-}" = "--replay" ]; then
  exec "$BUILD/c29" --replay "$2"
fi
rm -f "$BUILD/c29_client.json" "$BUILD/c29_kfake.json"
C29_OUT="$BUILD/c29_client.json" "$BUILD/c29_kgo.test"   -test.run '^TestVerifC29$' -test.timeout 0 &
pa=$!
C29_OUT="$BUILD/c29_kfake.json"  "$BUILD/c29_kfake.test" -test.run '^TestVerifC29$' -test.timeout 0 &
pb=$!
rc=0
wait $pa || rc=$?
wait $pb || rc=$?
if [ $rc -ne 0 ]; then echo "INFRA-ERROR: in-package harness exited $rc" >&2; exit 2; fi
exec "$BUILD/c29" "$BUILD/c29_client.json" "$BUILD/c29_kfake.json"
