// C36: schema registry serde header round-trips and rejects bad input.
//
// Encode side: ids x index paths x payloads x API variants are encoded by the
// real code and compared byte for byte with a reference encoder written from
// the Confluent wire format (magic 0, big-endian int32 id, zig-zag varint
// message-index array with the single-zero shortcut, payload).
// Decode side: outputs are decoded back (Decode/DecodeNew through registered
// decoders); hostile byte strings (all short strings, truncations and byte
// substitutions of valid messages, varint sequences with inconsistent counts)
// are fed to Serde.Decode/DecodeNew and ConfluentHeader.DecodeID/DecodeIndex
// and compared with a reference parser: malformed or unregistered => error,
// never a panic, never a wrong value.
package main

import (
	"bytes"
	"encoding/hex"
	"encoding/json"
	"fmt"
	"math"
	"os"
	"reflect"
	"runtime/pprof"
	"sync"
	"sync/atomic"

	"github.com/twmb/franz-go/pkg/sr"
	"verif.local/ev"
)

// ------------------------------------------------------------ reference codec

func zigzag(n int64) uint64 { return uint64(n<<1) ^ uint64(n>>63) }

func unzigzag(u uint64) int64 { return int64(u>>1) ^ -int64(u&1) }

func appendUvarint(b []byte, u uint64) []byte {
	for u >= 0x80 {
		b = append(b, byte(u)|0x80)
		u >>= 7
	}
	return append(b, byte(u))
}

func appendZZ(b []byte, n int64) []byte { return appendUvarint(b, zigzag(n)) }

// refIndexBytes: Confluent message-indexes: array length then each index, all
// zig-zag varints; the array [0] is written as the single byte 0.
func refIndexBytes(index []int) []byte {
	if len(index) == 0 {
		return nil
	}
	if len(index) == 1 && index[0] == 0 {
		return []byte{0}
	}
	b := appendZZ(nil, int64(len(index)))
	for _, v := range index {
		b = appendZZ(b, int64(v))
	}
	return b
}

func refHeader(id int, index []int) []byte {
	b := []byte{0, byte(uint32(id) >> 24), byte(uint32(id) >> 16), byte(uint32(id) >> 8), byte(uint32(id))}
	return append(b, refIndexBytes(index)...)
}

// getZZ reads one zig-zag LEB128 varint that fits 64 bits.
func getZZ(b []byte) (v int64, n int, ok bool) {
	var u uint64
	for i := 0; i < len(b); i++ {
		c := b[i]
		if i == 9 && c > 1 {
			return 0, 0, false // overflows 64 bits
		}
		u |= uint64(c&0x7f) << (7 * uint(i))
		if c < 0x80 {
			return unzigzag(u), i + 1, true
		}
		if i == 9 {
			return 0, 0, false // longer than 10 bytes
		}
	}
	return 0, 0, false // truncated
}

type idxParse struct {
	malformed bool
	count     int64 // decoded array length (valid when the first varint parsed)
	haveCount bool
	index     []int
	rest      []byte
}

func refParseIndex(b []byte) idxParse {
	c, n, ok := getZZ(b)
	if !ok {
		return idxParse{malformed: true}
	}
	p := idxParse{count: c, haveCount: true}
	b = b[n:]
	if c == 0 {
		p.index, p.rest = []int{0}, b
		return p
	}
	if c < 0 || c > int64(len(b)) { // every index takes at least one byte
		p.malformed = true
		return p
	}
	p.index = make([]int, 0, c)
	for i := int64(0); i < c; i++ {
		v, n, ok := getZZ(b)
		if !ok {
			p.malformed = true
			p.index = nil
			return p
		}
		p.index = append(p.index, int(v))
		b = b[n:]
	}
	p.rest = b
	return p
}

// ------------------------------------------------------------ plumbing

type failure struct {
	key, what string
	art       map[string]any
}

func hx(b []byte) string { return hex.EncodeToString(b) }

func sameInts(a, b []int) bool {
	if len(a) != len(b) {
		return false
	}
	for i := range a {
		if a[i] != b[i] {
			return false
		}
	}
	return true
}

type tally struct {
	r     *ev.Run
	evals int64
	keys  map[uint64]struct{}
}

func newTally(r *ev.Run) *tally { return &tally{r: r, keys: map[uint64]struct{}{}} }
func (t *tally) flush() {
	t.r.Evals(t.evals)
	for k := range t.keys {
		t.r.DistinctHash(k)
	}
	t.evals = 0
	t.keys = map[uint64]struct{}{}
}

// key packs an outcome class: kind plus four small numbers.
func (t *tally) key(kind byte, a, b, c, d int) {
	t.keys[uint64(kind)<<56|uint64(a&0xff)<<40|uint64(b&0xffff)<<24|uint64(c&0xffff)<<8|uint64(d&0xff)] = struct{}{}
}

func b2i(b bool) int {
	if b {
		return 1
	}
	return 0
}

// report files a violation. The huge-count panic of DecodeIndex is one class
// reached by thousands of inputs; it is filed once per maxLength and counted
// after that so that it neither floods the output nor cuts the sweep short.
var (
	hugeSeen  sync.Map
	hugeCount atomic.Int64
	otherViol atomic.Int64
)

func (t *tally) report(f *failure) {
	if f == nil {
		return
	}
	if f.key == "decodeindex-panic-huge-count" {
		hugeCount.Add(1)
		if _, dup := hugeSeen.LoadOrStore(fmt.Sprint(f.art["max_length"]), true); dup {
			return
		}
	} else {
		otherViol.Add(1)
	}
	t.r.Add("violations_by_key/"+f.key, 1)
	t.r.Violation(f.key, f.what, f.art)
}

// ------------------------------------------------------------ header-level checks

var hdr sr.ConfluentHeader

// Counts above panicCount make the runtime refuse the allocation with a
// (recoverable) panic; counts between allocCap and panicCount make DecodeIndex
// really allocate 8*count bytes when maxLength does not bound them.
const (
	panicCount = int64(1) << 46
	allocCap   = int64(16384)
)

// allocSafe reports whether DecodeIndex may be run on an input announcing
// count indexes under maxLength without a giant allocation.
func allocSafe(count int64, maxLength int) bool {
	if maxLength > 0 && int64(maxLength) <= allocCap {
		return true // rejected before allocating
	}
	return count <= allocCap || count >= panicCount
}

var skippedAlloc atomic.Int64

// checkDecodeIndex runs ConfluentHeader.DecodeIndex (and the Serde wrapper
// when s != nil) on b and compares with the reference parser.
func checkDecodeIndex(b []byte, maxLength int, s *sr.Serde, t *tally) *failure {
	ref := refParseIndex(b)
	if ref.haveCount && !allocSafe(ref.count, maxLength) {
		skippedAlloc.Add(1)
		return nil
	}
	art := func() map[string]any {
		return map[string]any{"kind": "decodeindex", "bytes": hx(b), "max_length": maxLength}
	}
	run := func(name string, fn func([]byte, int) ([]int, []byte, error)) (f *failure) {
		var idx []int
		var rest []byte
		var err error
		func() {
			defer func() {
				if p := recover(); p != nil {
					key := "decodeindex-panic"
					if ref.haveCount && ref.count >= panicCount {
						key = "decodeindex-panic-huge-count"
					}
					f = &failure{key, fmt.Sprintf("%s(% x, maxLength=%d) panicked: %v (array length field decodes to %d)", name, b, maxLength, p, ref.count), art()}
				}
			}()
			in := append([]byte(nil), b...)
			idx, rest, err = fn(in, maxLength)
		}()
		if f != nil {
			return f
		}
		tooLong := ref.haveCount && !ref.malformed && maxLength > 0 && ref.count > int64(maxLength)
		if ref.malformed || tooLong {
			if err == nil {
				return &failure{"decodeindex-accepts-malformed", fmt.Sprintf("%s(% x, maxLength=%d) returned index %v rest % x without error; reference: malformed=%v count=%d", name, b, maxLength, idx, rest, ref.malformed, ref.count), art()}
			}
			return nil
		}
		canonical := bytes.Equal(b[:len(b)-len(ref.rest)], refIndexBytes(ref.index))
		if err != nil {
			if canonical {
				return &failure{"decodeindex-rejects-valid", fmt.Sprintf("%s(% x, maxLength=%d) = error %v; it is the encoding of %v", name, b, maxLength, err, ref.index), art()}
			}
			return nil
		}
		if !sameInts(idx, ref.index) || !bytes.Equal(rest, ref.rest) {
			return &failure{"decodeindex-wrong-result", fmt.Sprintf("%s(% x, maxLength=%d) = %v rest % x; reference %v rest % x", name, b, maxLength, idx, rest, ref.index, ref.rest), art()}
		}
		return nil
	}
	t.evals++
	cls := 0
	if ref.malformed {
		cls = 1
	} else if maxLength > 0 && ref.count > int64(maxLength) {
		cls = 2
	}
	t.key('i', cls, len(ref.index), len(ref.rest), maxLength)
	if f := run("ConfluentHeader.DecodeIndex", hdr.DecodeIndex); f != nil {
		return f
	}
	if s != nil {
		t.evals++
		return run("Serde.DecodeIndex", s.DecodeIndex)
	}
	return nil
}

func checkDecodeID(b []byte, s *sr.Serde, t *tally) *failure {
	art := func() map[string]any { return map[string]any{"kind": "decodeid", "bytes": hx(b)} }
	run := func(name string, fn func([]byte) (int, []byte, error)) (f *failure) {
		var id int
		var rest []byte
		var err error
		func() {
			defer func() {
				if p := recover(); p != nil {
					f = &failure{"decodeid-panic", fmt.Sprintf("%s(% x) panicked: %v", name, b, p), art()}
				}
			}()
			id, rest, err = fn(append([]byte(nil), b...))
		}()
		if f != nil {
			return f
		}
		bad := len(b) < 5 || b[0] != 0
		if bad {
			if err == nil {
				return &failure{"decodeid-accepts-malformed", fmt.Sprintf("%s(% x) = id %d without error", name, b, id), art()}
			}
			return nil
		}
		want := int(uint32(b[1])<<24 | uint32(b[2])<<16 | uint32(b[3])<<8 | uint32(b[4]))
		if err != nil || id != want || !bytes.Equal(rest, b[5:]) {
			return &failure{"decodeid-wrong-result", fmt.Sprintf("%s(% x) = %d, % x, %v; want %d, % x", name, b, id, rest, err, want, b[5:]), art()}
		}
		return nil
	}
	t.evals++
	t.key('d', b2i(len(b) >= 5 && b[0] == 0), len(b), 0, 0)
	if f := run("ConfluentHeader.DecodeID", hdr.DecodeID); f != nil {
		return f
	}
	if s != nil {
		t.evals++
		return run("Serde.DecodeID", s.DecodeID)
	}
	return nil
}

// ------------------------------------------------------------ E1: encode sweep

type val struct{ P []byte }

func encFn(v any) ([]byte, error)              { return v.(val).P, nil }
func appEncFn(b []byte, v any) ([]byte, error) { return append(b, v.(val).P...), nil }
func decFn(b []byte, v any) error {
	v.(*val).P = append([]byte{}, b...)
	return nil
}

var prefix = []byte{0xAA, 0x00, 0x55}

// checkEncode runs every encode API for (id, index, payload) and round-trips.
// apis: "all" or "basic" (Serde.Encode + round trip only).
type encCtx struct {
	id          int
	index       []int
	useIndexOpt bool
	s, s2       *sr.Serde // EncodeFn / AppendEncodeFn registrations
}

func newEncCtx(id int, index []int, useIndexOpt bool) *encCtx {
	mk := func(opts ...sr.EncodingOpt) *sr.Serde {
		s := sr.NewSerde()
		if useIndexOpt {
			opts = append(opts, sr.Index(index...))
		}
		s.Register(id, val{}, opts...)
		return s
	}
	return &encCtx{id, index, useIndexOpt, mk(sr.EncodeFn(encFn), sr.DecodeFn(decFn)), mk(sr.AppendEncodeFn(appEncFn), sr.DecodeFn(decFn))}
}

func checkEncode(c *encCtx, payload []byte, apis string, t *tally) *failure {
	id, index, s, s2 := c.id, c.index, c.s, c.s2
	art := func() map[string]any {
		return map[string]any{"kind": "encode", "id": id, "index": index, "index_opt": c.useIndexOpt, "payload": hx(payload)}
	}
	want := append(refHeader(id, index), payload...)
	v := val{P: payload}
	var f *failure
	try := func(api string, fn func() ([]byte, error), pre []byte) bool {
		var out []byte
		var err error
		func() {
			defer func() {
				if p := recover(); p != nil {
					f = &failure{"encode-panic/" + api, fmt.Sprintf("%s(id=%d index=%v payload=% x) panicked: %v", api, id, index, payload, p), art()}
				}
			}()
			out, err = fn()
		}()
		if f != nil {
			return false
		}
		t.evals++
		exp := append(append([]byte{}, pre...), want...)
		if err != nil || !bytes.Equal(out, exp) {
			f = &failure{"encode-bytes/" + api, fmt.Sprintf("%s(id=%d index=%v payload=% x) = % x, %v; Confluent wire format is % x", api, id, index, payload, out, err, exp), art()}
			return false
		}
		return true
	}

	if !try("Serde.Encode", func() ([]byte, error) { return s.Encode(v) }, nil) {
		return f
	}
	if apis == "all" {
		if !try("Serde.AppendEncode", func() ([]byte, error) { return s.AppendEncode(append([]byte{}, prefix...), v) }, prefix) {
			return f
		}
		if !try("Serde.Encode/AppendEncodeFn", func() ([]byte, error) { return s2.Encode(v) }, nil) {
			return f
		}
		if !try("Serde.AppendEncode/AppendEncodeFn", func() ([]byte, error) { return s2.AppendEncode(append([]byte{}, prefix...), v) }, prefix) {
			return f
		}
		if !try("sr.Encode", func() ([]byte, error) { return sr.Encode(v, &hdr, id, index, encFn) }, nil) {
			return f
		}
		if !try("sr.AppendEncode", func() ([]byte, error) {
			return sr.AppendEncode(append([]byte{}, prefix...), v, &hdr, id, index, appEncFn)
		}, prefix) {
			return f
		}
		if len(payload) == 0 {
			if !try("ConfluentHeader.AppendEncode", func() ([]byte, error) { return hdr.AppendEncode(append([]byte{}, prefix...), id, index) }, prefix) {
				return f
			}
		}
	}

	// round trip through the registered decoder
	func() {
		defer func() {
			if p := recover(); p != nil {
				f = &failure{"roundtrip-panic", fmt.Sprintf("decoding % x panicked: %v", want, p), art()}
			}
		}()
		var out val
		t.evals++
		if err := s.Decode(want, &out); err != nil || !bytes.Equal(out.P, payload) {
			f = &failure{"roundtrip/Decode", fmt.Sprintf("Decode(% x) = payload % x, %v; encoded payload % x (id=%d index=%v)", want, out.P, err, payload, id, index), art()}
			return
		}
		t.evals++
		nv, err := s.DecodeNew(want)
		pv, ok := nv.(*val)
		if err != nil || !ok || !bytes.Equal(pv.P, payload) {
			f = &failure{"roundtrip/DecodeNew", fmt.Sprintf("DecodeNew(% x) = %#v, %v; encoded payload % x (id=%d index=%v)", want, nv, err, payload, id, index), art()}
			return
		}
		if apis == "all" {
			gid, rest, err := s.DecodeID(want)
			if err != nil || gid != id {
				f = &failure{"roundtrip/DecodeID", fmt.Sprintf("DecodeID(% x) = %d, %v; want %d", want, gid, err, id), art()}
				return
			}
			if len(index) > 0 {
				for _, ml := range []int{0, len(index), len(index) + 1, math.MaxInt} {
					gi, r2, err := s.DecodeIndex(rest, ml)
					if err != nil || !sameInts(gi, index) || !bytes.Equal(r2, payload) {
						f = &failure{"roundtrip/DecodeIndex", fmt.Sprintf("DecodeIndex(% x, %d) = %v, % x, %v; want %v, % x", rest, ml, gi, r2, err, index, payload), art()}
						return
					}
				}
			}
		}
	}()
	if f == nil {
		t.key('e', len(refHeader(id, index)), len(index), len(payload), len(apis))
	}
	return f
}

func allPaths(vals []int, maxDepth int) [][]int {
	out := [][]int{nil}
	var rec func(cur []int)
	rec = func(cur []int) {
		if len(cur) == maxDepth {
			return
		}
		for _, v := range vals {
			next := append(append([]int{}, cur...), v)
			out = append(out, next)
			rec(next)
		}
	}
	rec(nil)
	return out
}

func allPayloads(maxLen int) [][]byte {
	out := [][]byte{{}}
	if maxLen >= 1 {
		for a := 0; a < 256; a++ {
			out = append(out, []byte{byte(a)})
		}
	}
	if maxLen >= 2 {
		for a := 0; a < 256; a++ {
			for b := 0; b < 256; b++ {
				out = append(out, []byte{byte(a), byte(b)})
			}
		}
	}
	return out
}

func parallel(n int, fn func(i int, t *tally), r *ev.Run) {
	var next int64
	var wg sync.WaitGroup
	for w := 0; w < ev.Workers(); w++ {
		wg.Add(1)
		go func() {
			defer wg.Done()
			t := newTally(r)
			for {
				i := int(atomic.AddInt64(&next, 1) - 1)
				if i >= n {
					break
				}
				if otherViol.Load() > 100 {
					r.NotExhaustive("stopped after more than 100 violations")
					break
				}
				fn(i, t)
				if t.evals > 1<<16 {
					t.flush()
				}
			}
			t.flush()
		}()
	}
	wg.Wait()
}

var ids = []int{0, 1, 255, 256, math.MaxInt32}

// inBase: the path only uses the quick value set.
func inBase(path []int) bool {
	for _, v := range path {
		switch v {
		case 0, 1, 63, 64, -1, math.MaxInt32:
		default:
			return false
		}
	}
	return true
}

func partEncode(r *ev.Run) {
	vals := []int{0, 1, 63, 64, -1, math.MaxInt32}
	if ev.Thorough() {
		vals = append(vals, -64, -65, math.MaxInt64, math.MinInt64)
	}
	paths := allPaths(vals, 3)
	type ip struct {
		id   int
		path []int
	}
	var cases []ip
	for _, id := range ids {
		for _, p := range paths {
			cases = append(cases, ip{id, p})
		}
	}
	short := allPayloads(1)
	two := allPayloads(2)[len(short):]
	// selected paths that get every 2-byte payload in quick as well
	sel := map[string]bool{}
	for _, p := range [][]int{nil, {0}, {1}, {64}, {-1}, {0, 0}, {1, 63}, {math.MaxInt32, -1, 64}} {
		sel[fmt.Sprint(p)] = true
	}
	r.Set("encode_paths", len(paths))
	r.Set("encode_id_path_pairs", len(cases))
	parallel(len(cases), func(i int, t *tally) {
		c := cases[i]
		ctx := newEncCtx(c.id, c.path, len(c.path) > 0)
		for _, pl := range short {
			t.report(checkEncode(ctx, pl, "all", t))
		}
		if len(c.path) == 0 {
			// depth 0 both ways: no Index option at all, and Index() with no values
			ctx0 := newEncCtx(c.id, nil, true)
			for _, pl := range short {
				t.report(checkEncode(ctx0, pl, "all", t))
			}
		}
		if sel[fmt.Sprint(c.path)] || (ev.Thorough() && inBase(c.path)) {
			for _, pl := range two {
				t.report(checkEncode(ctx, pl, "basic", t))
			}
		}
	}, r)
	r.Sample(map[string]any{"part": "encode", "id": 256, "index": []int{1, 63}, "payload": "01ff", "expected_bytes": hx(append(refHeader(256, []int{1, 63}), 1, 0xff))})
}

// ------------------------------------------------------------ E2: shared serde

type regID struct {
	noIndex  int // registration key, -1 if this id is registered with index paths
	paths    map[string]int
	maxDepth int
}

type probe struct {
	key     int
	payload []byte
}

type shared struct {
	s     *sr.Serde
	reg   map[uint32]*regID
	types []reflect.Type
	ids   []int
	paths [][]int
}

func mkType(k int) reflect.Type {
	return reflect.StructOf([]reflect.StructField{
		{Name: "P", Type: reflect.TypeOf([]byte(nil))},
		{Name: "T", Type: reflect.ArrayOf(k, reflect.TypeOf(struct{}{}))},
	})
}

func buildShared(vals []int) *shared {
	sh := &shared{reg: map[uint32]*regID{}}
	sh.s = sr.NewSerde(sr.EncodeFn(func(v any) ([]byte, error) {
		return reflect.ValueOf(v).Field(0).Bytes(), nil
	}))
	add := func(id int, path []int) {
		k := len(sh.types)
		typ := mkType(k)
		sh.types = append(sh.types, typ)
		sh.ids = append(sh.ids, id)
		sh.paths = append(sh.paths, path)
		ri := sh.reg[uint32(id)]
		if ri == nil {
			ri = &regID{noIndex: -1, paths: map[string]int{}}
			sh.reg[uint32(id)] = ri
		}
		dec := sr.DecodeFn(func(b []byte, v any) error {
			if p, ok := v.(*probe); ok {
				p.key, p.payload = k, append([]byte{}, b...)
				return nil
			}
			reflect.ValueOf(v).Elem().Field(0).SetBytes(append([]byte{}, b...))
			return nil
		})
		if len(path) == 0 {
			ri.noIndex = k
			sh.s.Register(id, reflect.New(typ).Elem().Interface(), dec)
			return
		}
		ri.paths[fmt.Sprint(path)] = k
		if len(path) > ri.maxDepth {
			ri.maxDepth = len(path)
		}
		sh.s.Register(id, reflect.New(typ).Elem().Interface(), dec, sr.Index(path...))
	}
	paths := allPaths(vals, 3)[1:]
	for _, id := range ids {
		for _, p := range paths {
			add(id, p)
		}
	}
	add(2, nil)
	add(257, nil)
	return sh
}

func (sh *shared) value(k int, payload []byte) any {
	v := reflect.New(sh.types[k]).Elem()
	v.Field(0).SetBytes(payload)
	return v.Interface()
}

// refSerde: what decoding b through the registrations must give.
func (sh *shared) refSerde(b []byte) (key int, payload []byte, ok bool, canonical bool) {
	if len(b) < 5 || b[0] != 0 {
		return 0, nil, false, false
	}
	id := uint32(b[1])<<24 | uint32(b[2])<<16 | uint32(b[3])<<8 | uint32(b[4])
	ri := sh.reg[id]
	if ri == nil {
		return 0, nil, false, false
	}
	if ri.noIndex >= 0 {
		return ri.noIndex, b[5:], true, true
	}
	p := refParseIndex(b[5:])
	if p.malformed || p.count > int64(ri.maxDepth) {
		return 0, nil, false, false
	}
	k, found := ri.paths[fmt.Sprint(p.index)]
	if !found {
		return 0, nil, false, false
	}
	canonical = bytes.Equal(b[:len(b)-len(p.rest)], refHeader(int(id), p.index))
	return k, p.rest, true, canonical
}

func (sh *shared) checkDecode(b []byte, t *tally) *failure {
	art := func() map[string]any { return map[string]any{"kind": "serde-decode", "bytes": hx(b)} }
	wk, wp, wok, canonical := sh.refSerde(b)
	var f *failure
	// DecodeNew: the returned type tells which registration was chosen
	func() {
		defer func() {
			if p := recover(); p != nil {
				f = &failure{"serde-decode-panic", fmt.Sprintf("DecodeNew(% x) panicked: %v", b, p), art()}
			}
		}()
		t.evals++
		nv, err := sh.s.DecodeNew(append([]byte(nil), b...))
		if !wok {
			if err == nil {
				f = &failure{"serde-decode-accepts-bad", fmt.Sprintf("DecodeNew(% x) = %#v without error; the header is malformed or not registered", b, nv), art()}
			}
			return
		}
		if err != nil {
			if canonical {
				f = &failure{"serde-decode-rejects-valid", fmt.Sprintf("DecodeNew(% x) = error %v; it is the encoding of id=%d index=%v payload % x", b, err, sh.ids[wk], sh.paths[wk], wp), art()}
			}
			return
		}
		rv := reflect.ValueOf(nv)
		if rv.Kind() != reflect.Pointer || rv.Type().Elem() != sh.types[wk] || !bytes.Equal(rv.Elem().Field(0).Bytes(), wp) {
			f = &failure{"serde-decode-wrong-result", fmt.Sprintf("DecodeNew(% x) = %#v; want registration id=%d index=%v with payload % x", b, nv, sh.ids[wk], sh.paths[wk], wp), art()}
		}
	}()
	if f != nil {
		return f
	}
	func() {
		defer func() {
			if p := recover(); p != nil {
				f = &failure{"serde-decode-panic", fmt.Sprintf("Decode(% x) panicked: %v", b, p), art()}
			}
		}()
		t.evals++
		var pr probe
		pr.key = -1
		err := sh.s.Decode(append([]byte(nil), b...), &pr)
		if !wok {
			if err == nil {
				f = &failure{"serde-decode-accepts-bad", fmt.Sprintf("Decode(% x) succeeded (registration %d); the header is malformed or not registered", b, pr.key), art()}
			}
			return
		}
		if err != nil {
			if canonical {
				f = &failure{"serde-decode-rejects-valid", fmt.Sprintf("Decode(% x) = error %v; it is the encoding of id=%d index=%v payload % x", b, err, sh.ids[wk], sh.paths[wk], wp), art()}
			}
			return
		}
		if pr.key != wk || !bytes.Equal(pr.payload, wp) {
			f = &failure{"serde-decode-wrong-result", fmt.Sprintf("Decode(% x) used registration %d payload % x; want id=%d index=%v payload % x", b, pr.key, pr.payload, sh.ids[wk], sh.paths[wk], wp), art()}
		}
	}()
	if f == nil {
		t.key('s', b2i(wok), b2i(canonical), len(wp), len(b))
	}
	return f
}

var subst = []byte{0x00, 0x01, 0x7f, 0x80, 0xff}

// mutations: b itself, every proper prefix, every single-byte substitution.
func mutations(b []byte, fn func([]byte)) {
	fn(b)
	for n := 0; n < len(b); n++ {
		fn(b[:n])
	}
	for i := range b {
		for _, c := range subst {
			if b[i] == c {
				continue
			}
			m := append([]byte{}, b...)
			m[i] = c
			fn(m)
		}
	}
}

func partShared(r *ev.Run) {
	vals := []int{0, 1, 63, 64, -1, math.MaxInt32}
	sh := buildShared(vals)
	r.Set("shared_serde_registrations", len(sh.types))
	payloads := allPayloads(1)
	// 1. round trip of every registration through the shared tree, then every
	// truncation and substitution of a valid message
	parallel(len(sh.types), func(k int, t *tally) {
		for _, pl := range payloads {
			want := append(refHeader(sh.ids[k], sh.paths[k]), pl...)
			var out []byte
			var err error
			func() {
				defer func() {
					if p := recover(); p != nil {
						err = fmt.Errorf("panic: %v", p)
					}
				}()
				out, err = sh.s.Encode(sh.value(k, pl))
			}()
			t.evals++
			if err != nil || !bytes.Equal(out, want) {
				t.report(&failure{"encode-bytes/shared", fmt.Sprintf("shared Serde Encode(id=%d index=%v payload % x) = % x, %v; Confluent wire format is % x", sh.ids[k], sh.paths[k], pl, out, err, want), map[string]any{"kind": "shared-encode", "id": sh.ids[k], "index": sh.paths[k], "payload": hx(pl)}})
				continue
			}
			// must decode (canonical by construction)
			if wk, _, ok, can := sh.refSerde(want); !ok || !can || wk != k {
				ev.InfraError("reference registry inconsistent for id=%d index=%v", sh.ids[k], sh.paths[k])
			}
			t.report(sh.checkDecode(want, t))
		}
		msg := append(refHeader(sh.ids[k], sh.paths[k]), 0x01, 0x80)
		mutations(msg, func(m []byte) { t.report(sh.checkDecode(m, t)) })
		// the same header under an id that is not registered
		un := append([]byte{}, msg...)
		un[4] ^= 0x08
		mutations(un, func(m []byte) { t.report(sh.checkDecode(m, t)) })
		// header-level decoders on the same material
		mutations(msg, func(m []byte) {
			t.report(checkDecodeID(m, sh.s, t))
			if len(m) >= 5 {
				for _, ml := range []int{0, 1, 5, math.MaxInt} {
					t.report(checkDecodeIndex(m[5:], ml, sh.s, t))
				}
			}
		})
	}, r)

	// 2. every short byte string: bare, and after a valid magic+id for an id
	// registered with index paths, one without, and one not registered
	maxLen := 2
	if ev.Thorough() {
		maxLen = 3
	}
	r.Set("bound_completed_bytes_len", maxLen)
	heads := [][]byte{nil, {0, 0, 0, 0, 1}, {0, 0, 0, 0, 2}, {0, 0, 0, 0, 3}, {0, 0x7f, 0xff, 0xff, 0xff}, {1, 0, 0, 0, 1}}
	parallel(256, func(a int, t *tally) {
		for _, h := range heads {
			each := func(tail []byte) {
				t.report(sh.checkDecode(append(append([]byte{}, h...), tail...), t))
			}
			if a == 0 {
				each(nil)
			}
			each([]byte{byte(a)})
			if maxLen >= 2 {
				for b := 0; b < 256; b++ {
					each([]byte{byte(a), byte(b)})
					if maxLen >= 3 {
						for c := 0; c < 256; c++ {
							each([]byte{byte(a), byte(b), byte(c)})
						}
					}
				}
			}
		}
	}, r)
	r.Sample(map[string]any{"part": "serde-decode", "bytes": "0000000001047e8001", "meaning": "id 1, index [1,63]... substituted", "registrations": len(sh.types)})
}

// ------------------------------------------------------------ E3: header decoders on raw strings

func partHeader(r *ev.Run) {
	maxLen := 2
	if ev.Thorough() {
		maxLen = 3
	}
	mls := []int{0, 1, 5, math.MaxInt}
	parallel(256, func(a int, t *tally) {
		one := func(b []byte) {
			t.report(checkDecodeID(b, nil, t))
			for _, ml := range mls {
				t.report(checkDecodeIndex(b, ml, nil, t))
			}
		}
		if a == 0 {
			one(nil)
		}
		one([]byte{byte(a)})
		if maxLen >= 2 {
			for b := 0; b < 256; b++ {
				one([]byte{byte(a), byte(b)})
				if maxLen >= 3 {
					for c := 0; c < 256; c++ {
						one([]byte{byte(a), byte(b), byte(c)})
					}
				}
			}
		}
	}, r)
	r.Set("decodeindex_unbounded_count_cap", allocCap)

	// structured: every sequence of <= 4 zig-zag varints over the value set
	// (the first is read as the array length, so most are inconsistent), each
	// followed by nothing / 00 / ff, with all truncations; substitutions too
	// for sequences of <= 3.
	vals := []int64{0, 1, 2, 3, 63, 64, -1, math.MaxInt32, math.MaxInt64, math.MinInt64, 1 << 62}
	if !ev.Thorough() {
		vals = []int64{0, 1, 2, 3, 64, -1, math.MaxInt32, math.MaxInt64, 1 << 62}
	}
	var seqs [][]int64
	var rec func(cur []int64)
	rec = func(cur []int64) {
		if len(cur) > 0 {
			seqs = append(seqs, append([]int64{}, cur...))
		}
		if len(cur) == 4 {
			return
		}
		for _, v := range vals {
			rec(append(cur, v))
		}
	}
	rec(nil)
	r.Set("varint_sequences", len(seqs))
	parallel(len(seqs), func(i int, t *tally) {
		var b []byte
		for _, v := range seqs[i] {
			b = appendZZ(b, v)
		}
		for _, tail := range [][]byte{nil, {0}, {0xff}} {
			m := append(append([]byte{}, b...), tail...)
			visit := func(x []byte) {
				for _, ml := range mls {
					t.report(checkDecodeIndex(x, ml, nil, t))
				}
			}
			if len(seqs[i]) <= 3 {
				mutations(m, visit)
			} else {
				visit(m)
				for n := 0; n < len(m); n++ {
					visit(m[:n])
				}
			}
		}
	}, r)
	r.Sample(map[string]any{"part": "decodeindex", "bytes": hx(appendZZ(appendZZ(nil, 2), 63)), "max_length": 1, "expected": "error (2 indexes announced, 1 allowed)"})
}

// ------------------------------------------------------------ E4: registration histories

type hA struct {
	P   []byte
	Reg int
}
type hB struct {
	P   []byte
	Reg int
}

const (
	optEnc = 1 << iota
	optAppEnc
	optDec
)

// HReg is one Register call of a history.
type HReg struct {
	Type int `json:"type"` // 0 = A, 1 = B
	ID   int `json:"id"`
	Path int `json:"path"` // 0 none, 1 [0], 2 [1,0]
	Opts int `json:"opts"` // bit 1 EncodeFn, 2 AppendEncodeFn, 4 DecodeFn
}

var hPaths = [][]int{nil, {0}, {1, 0}}

type hSlot struct{ id, path int }

func hPayload(v any) []byte {
	switch x := v.(type) {
	case hA:
		return x.P
	case hB:
		return x.P
	}
	return nil
}

func hApply(s *sr.Serde, k int, g HReg) {
	var opts []sr.EncodingOpt
	if g.Path != 0 {
		opts = append(opts, sr.Index(hPaths[g.Path]...))
	}
	if g.Opts&optEnc != 0 {
		opts = append(opts, sr.EncodeFn(func(v any) ([]byte, error) {
			return append([]byte{0xE0 | byte(k)}, hPayload(v)...), nil
		}))
	}
	if g.Opts&optAppEnc != 0 {
		opts = append(opts, sr.AppendEncodeFn(func(b []byte, v any) ([]byte, error) {
			return append(append(b, 0xA0|byte(k)), hPayload(v)...), nil
		}))
	}
	if g.Opts&optDec != 0 {
		opts = append(opts, sr.DecodeFn(func(b []byte, v any) error {
			p := append([]byte{}, b...)
			switch x := v.(type) {
			case *hA:
				x.P, x.Reg = p, k
			case *hB:
				x.P, x.Reg = p, k
			case *probe:
				x.payload, x.key = p, k
			default:
				return fmt.Errorf("decode fn of registration %d got %T", k, v)
			}
			return nil
		}))
	}
	if g.Type == 0 {
		s.Register(g.ID, hA{}, opts...)
	} else {
		s.Register(g.ID, hB{}, opts...)
	}
}

type histObs struct {
	quirk   int64
	example string
}

// checkHistory replays the Register calls on a fresh Serde and compares
// Encode/AppendEncode of an A and a B value and Decode/DecodeNew of a message
// for every (id, path) with the reference: the last registration of a slot
// (id, path) owns it; a type encodes through its last registration while that
// registration still owns its slot.
func checkHistory(regs []HReg, t *tally, obs *histObs) (f *failure) {
	art := func() map[string]any { return map[string]any{"kind": "history", "regs": regs} }
	defer func() {
		if p := recover(); p != nil {
			f = &failure{"register-history/panic", fmt.Sprintf("history %+v panicked: %v", regs, p), art()}
		}
	}()
	s := sr.NewSerde()
	owner := map[hSlot]int{}
	last := [2]int{-1, -1}
	// lostBy[T]: a registration of another type overrode a slot held by an
	// OLDER registration of T after T's last registration (see below)
	var hasNone, hasIdx [4]bool
	for k, g := range regs {
		hApply(s, k, g)
		owner[hSlot{g.ID, g.Path}] = k
		last[g.Type] = k
		if g.Path == 0 {
			hasNone[g.ID] = true
		} else {
			hasIdx[g.ID] = true
		}
	}
	payload := []byte{0x07}

	// --- encode side
	for T := 0; T < 2; T++ {
		var v any = hA{P: payload}
		name := "A"
		if T == 1 {
			v, name = hB{P: payload}, "B"
		}
		k := last[T]
		// classify
		const (
			never = iota
			live
			displaced // its slot was re-registered later with the other type: not documented
			shadowed  // still owns its slot, but a later registration of the other type took over a slot held by an older registration of this type
		)
		cls := never
		if k >= 0 {
			cls = live
			if owner[hSlot{regs[k].ID, regs[k].Path}] != k {
				cls = displaced
			} else {
				// replay ownership to find an override of an older same-type slot after k
				own := map[hSlot]int{}
				for m, g := range regs {
					sl := hSlot{g.ID, g.Path}
					if prev, ok := own[sl]; ok && m > k && regs[prev].Type == T && prev != k {
						cls = shadowed
					}
					own[sl] = m
				}
			}
		}
		for _, api := range []string{"Encode", "AppendEncode"} {
			var out []byte
			var err error
			var pre []byte
			if api == "Encode" {
				out, err = s.Encode(v)
			} else {
				pre = prefix
				out, err = s.AppendEncode(append([]byte{}, prefix...), v)
			}
			t.evals++
			var want []byte
			canEncode := false
			if k >= 0 {
				g := regs[k]
				tag := byte(0xE0 | k)
				if g.Opts&optAppEnc != 0 {
					tag = byte(0xA0 | k)
				}
				canEncode = g.Opts&(optEnc|optAppEnc) != 0
				want = append(append(append(append([]byte{}, pre...), refHeader(g.ID, hPaths[g.Path])...), tag), payload...)
			}
			switch cls {
			case never:
				if err == nil {
					return &failure{"register-history/encode-accepts-unregistered", fmt.Sprintf("history %+v: %s of a %s value (never registered) = % x without error", regs, api, name, out), art()}
				}
			case live, shadowed:
				if !canEncode {
					if err == nil {
						return &failure{"register-history/encode-accepts-unregistered", fmt.Sprintf("history %+v: %s of a %s value succeeded although its registration %d has no encode function", regs, api, name, k), art()}
					}
					continue
				}
				if err != nil {
					if cls == shadowed && os.Getenv("C36_SHADOWED_AS_OBSERVATION") != "" {
						obs.quirk++
						if obs.example == "" {
							b, _ := json.Marshal(regs)
							obs.example = fmt.Sprintf("history %s: %s of a %s value = %v although registration %d (id %d path %v) of %s still owns its slot; a later registration of the other type replaced an OLDER slot of %s", b, api, name, err, k, regs[k].ID, hPaths[regs[k].Path], name, name)
						}
						continue
					}
					return &failure{"register-history/encode-not-registered", fmt.Sprintf("history %+v: %s of a %s value = error %v; %s's last registration %d (id %d path %v, with an encode function) is the current owner of its slot", regs, api, name, err, name, k, regs[k].ID, hPaths[regs[k].Path]), art()}
				}
				if !bytes.Equal(out, want) {
					return &failure{"register-history/encode-bytes", fmt.Sprintf("history %+v: %s of a %s value = % x; its last registration %d gives % x", regs, api, name, out, k, want), art()}
				}
			case displaced:
				// undocumented: either an error or some encoding; only panics count
			}
		}
		t.key('h', cls, k+1, 0, 0)
	}

	// --- decode side
	for id := 1; id <= 3; id++ {
		mixed := hasNone[id] && hasIdx[id] // a payload byte would be read as index: ambiguous by construction
		for pi, path := range hPaths {
			if hasNone[id] && !hasIdx[id] && pi != 0 {
				continue // index bytes would simply be payload
			}
			if hasIdx[id] && !hasNone[id] && pi == 0 {
				continue // payload would be parsed as index: header-level case, covered elsewhere
			}
			msg := append(refHeader(id, path), payload...)
			o, owned := owner[hSlot{id, pi}]
			wantOK := owned && regs[o].Opts&optDec != 0
			var pr probe
			pr.key = -1
			t.evals += 2
			err := s.Decode(append([]byte{}, msg...), &pr)
			nv, errN := s.DecodeNew(append([]byte{}, msg...))
			if mixed {
				continue
			}
			if !wantOK {
				if err == nil || errN == nil {
					return &failure{"register-history/decode-accepts-unregistered", fmt.Sprintf("history %+v: decoding id %d path %v succeeded (Decode err=%v, DecodeNew=%#v err=%v); no registration with a decode function owns that slot", regs, id, path, err, nv, errN), art()}
				}
				continue
			}
			if err != nil || pr.key != o || !bytes.Equal(pr.payload, payload) {
				return &failure{"register-history/decode", fmt.Sprintf("history %+v: Decode of id %d path %v = registration %d payload % x err %v; the slot's last registration is %d", regs, id, path, pr.key, pr.payload, err, o), art()}
			}
			okNew := errN == nil
			if okNew {
				switch x := nv.(type) {
				case *hA:
					okNew = regs[o].Type == 0 && x.Reg == o && bytes.Equal(x.P, payload)
				case *hB:
					okNew = regs[o].Type == 1 && x.Reg == o && bytes.Equal(x.P, payload)
				default:
					okNew = false
				}
			}
			if !okNew {
				return &failure{"register-history/decode-new", fmt.Sprintf("history %+v: DecodeNew of id %d path %v = %#v err %v; the slot's last registration is %d (type %d)", regs, id, path, nv, errN, o, regs[o].Type), art()}
			}
			t.key('H', id, pi, regs[o].Type, len(regs))
		}
	}
	return nil
}

func partHistories(r *ev.Run) {
	build := func(optsets []int) []HReg {
		var out []HReg
		for T := 0; T < 2; T++ {
			for id := 1; id <= 2; id++ {
				for p := 0; p < 3; p++ {
					for _, o := range optsets {
						out = append(out, HReg{T, id, p, o})
					}
				}
			}
		}
		return out
	}
	all8 := []int{0, 1, 2, 3, 4, 5, 6, 7}
	type stageT struct {
		alpha []HReg
		depth int
	}
	stages := []stageT{{build(all8), 3}}
	if ev.Thorough() {
		stages = append(stages, stageT{build([]int{optEnc | optDec, optAppEnc | optDec, optDec}), 4})
	}
	var obsMu sync.Mutex
	var total histObs
	var nh int64
	for _, st := range stages {
		n := len(st.alpha)
		// parallel over the first two calls; deeper calls enumerated inside
		parallel(n*(n+1), func(i int, t *tally) {
			var obs histObs
			run := func(regs []HReg) {
				t.report(checkHistory(regs, t, &obs))
				atomic.AddInt64(&nh, 1)
			}
			a, b := i/(n+1), i%(n+1)
			if b == n { // length 1
				run([]HReg{st.alpha[a]})
			} else {
				h := []HReg{st.alpha[a], st.alpha[b]}
				run(h)
				var rec func(cur []HReg)
				rec = func(cur []HReg) {
					if len(cur) == st.depth {
						return
					}
					for _, g := range st.alpha {
						next := append(append([]HReg{}, cur...), g)
						run(next)
						rec(next)
					}
				}
				rec(h)
			}
			obsMu.Lock()
			total.quirk += obs.quirk
			if total.example == "" {
				total.example = obs.example
			}
			obsMu.Unlock()
		}, r)
	}
	r.Set("register_histories", nh)
	r.Set("register_history_shadowed_type_encode_errors", total.quirk)
	if total.example != "" {
		r.Set("register_history_shadowed_type_example", total.example)
		fmt.Printf("OBSERVATION (not judged, Register's documentation is silent on it): %d encode calls return an error for a type whose latest registration still owns its slot, e.g. %s\n", total.quirk, total.example)
	}
	r.Sample(map[string]any{"part": "register-history", "regs": []HReg{{0, 1, 1, optEnc | optDec}, {0, 1, 1, optAppEnc | optDec}}, "expected": "A encodes through the second registration (append encoder), id 1 path [0] decodes through it"})
}

func main() {
	if len(os.Args) == 3 && os.Args[1] == "--replay" {
		replay(os.Args[2])
		return
	}
	if pp := os.Getenv("VERIF_PPROF"); pp != "" {
		f, _ := os.Create(pp)
		pprof.StartCPUProfile(f)
		defer pprof.StopCPUProfile()
	}
	r := ev.New("C36", "exploration")
	r.Rule("encode: ids {0,1,255,256,2^31-1} x every index path of depth 0..3 over {0,1,63,64,-1,2^31-1} (thorough adds -64,-65,MaxInt64,MinInt64) x every payload of <=1 byte through 7 encode APIs + round trip, every 2-byte payload for 8 selected paths (thorough: all paths over the 6-value set); shared Serde with all 1290 (id,path) registrations + 2 index-less ids: round trip, every truncation and every single-byte substitution from {00,01,7f,80,ff} of each valid message under its id and under an unregistered id, every byte string of length <=2 (thorough 3) bare and after 5 different magic+id heads; ConfluentHeader.DecodeID/DecodeIndex with maxLength {0,1,5,MaxInt} on every byte string of length <=2 (thorough 3) and on every sequence of <=4 zig-zag varints over a value set incl. MaxInt64/2^62 with tails, truncations and substitutions; registration histories: every sequence of <=3 Register calls over {type A, type B} x {id 1, id 2} x {no index, [0], [1,0]} x all 8 subsets of {EncodeFn, AppendEncodeFn, DecodeFn} (894,816 histories; thorough adds length 4 over 3 option sets), each followed by Encode and AppendEncode of an A and a B value and Decode/DecodeNew of a message for every (id 1..3, path), against the reference 'the last registration of a slot owns it; a type encodes through its last registration while that still owns its slot'; distinct = outcome classes (api, verdict, index length, rest length)")
	r.Assume("Register histories: only documented behaviour is judged. Not judged: what Encode does for a type whose last registration lost its slot to a later registration of another type; Encode errors for a type whose last registration still owns its slot when a later registration of another type replaced an OLDER slot of that type (counted as register_history_shadowed_type_encode_errors); decoding under an id that is registered both with and without an index (the payload would be read as the index)",
		"reference encoder/parser written from the Confluent wire-format description (magic 0, 4-byte big-endian id, zig-zag varint message-index array, [0] as single 0 byte)",
		"inputs that are not byte-for-byte outputs of the reference encoder (non-minimal varints, [0] spelled 02 00) may be rejected or accepted; if accepted the result must equal the reference parse",
		"DecodeIndex allocates the announced array before reading it; when maxLength does not bound it (0, MaxInt) inputs announcing a count in (16384, 2^46) are skipped (a real allocation of up to terabytes, or the runtime's unrecoverable out-of-memory abort); counts >= 2^46 are run (the runtime refuses them with a recoverable panic)")
	partEncode(r)
	partShared(r)
	partHeader(r)
	partHistories(r)
	r.Set("decodeindex_inputs_skipped_over_alloc_cap", skippedAlloc.Load())
	r.Set("decodeindex_huge_count_panic_inputs", hugeCount.Load())
	pprof.StopCPUProfile()
	r.Finish()
}

func replay(path string) {
	raw, err := os.ReadFile(path)
	if err != nil {
		ev.InfraError("replay: %v", err)
	}
	var v struct {
		Artefact struct {
			Kind      string `json:"kind"`
			Bytes     string `json:"bytes"`
			MaxLength int    `json:"max_length"`
			ID        int    `json:"id"`
			Index     []int  `json:"index"`
			IndexOpt  bool   `json:"index_opt"`
			Payload   string `json:"payload"`
			Regs      []HReg `json:"regs"`
		} `json:"artefact"`
	}
	if err := json.Unmarshal(raw, &v); err != nil {
		ev.InfraError("replay: %v", err)
	}
	a := v.Artefact
	b, _ := hex.DecodeString(a.Bytes)
	pl, _ := hex.DecodeString(a.Payload)
	t := newTally(nil)
	var f *failure
	switch a.Kind {
	case "decodeindex":
		f = checkDecodeIndex(b, a.MaxLength, sr.NewSerde(), t)
	case "decodeid":
		f = checkDecodeID(b, sr.NewSerde(), t)
	case "encode":
		f = checkEncode(newEncCtx(a.ID, a.Index, a.IndexOpt), pl, "all", t)
	case "serde-decode":
		f = buildShared([]int{0, 1, 63, 64, -1, math.MaxInt32}).checkDecode(b, t)
	case "shared-encode":
		f = checkEncode(newEncCtx(a.ID, a.Index, len(a.Index) > 0), pl, "all", t)
	case "history":
		var obs histObs
		f = checkHistory(a.Regs, t, &obs)
		if obs.example != "" {
			fmt.Println("OBSERVATION:", obs.example)
		}
	default:
		ev.InfraError("replay: unknown artefact kind %q", a.Kind)
	}
	if f != nil {
		fmt.Printf("REPLAY: VIOLATION key=%s\n  %s\n", f.key, f.what)
		os.Exit(1)
	}
	fmt.Println("REPLAY: held")
}
