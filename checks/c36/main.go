package main

import (
	"encoding/binary"
	"fmt"

	"github.com/twmb/franz-go/pkg/sr"
)

func main() {
	var h sr.ConfluentHeader
	for _, c := range []int64{1 << 62, 1<<63 - 1, 1 << 45} {
		func() {
			defer func() { fmt.Println("recovered:", recover()) }()
			b := binary.AppendVarint(nil, c)
			idx, rest, err := h.DecodeIndex(b, 0)
			fmt.Println(len(idx), rest, err)
		}()
	}
}
