#!/bin/bash
# C36 schema registry serde header. usage: run.sh [--replay <violation.json>]
set -eu
cd "$(dirname "$0")/../.."
. bin/env.sh
go build -o "$BUILD/c36" ./checks/c36
exec "$BUILD/c36" "$@"
