package main

// Part 2: every operation sequence up to a depth against the stateful
// partitioners, through the exported interfaces only
// (Partitioner.ForTopic -> TopicPartitioner / TopicBackupPartitioner /
// TopicPartitionerOnNewBatch), the way Client.doPartition drives them:
// RequiresConsistency, then PartitionByBackup if implemented else Partition.
//
// The partitioners seed math/rand from time.Now() in ForTopic. The exploration
// runs inside testing/synctest bubbles, whose clock starts at a fixed instant;
// bubble k first sleeps k ns, so every ForTopic in bubble k gets the seed
// 946684800000000000+k and the whole run is deterministic.

import (
	"fmt"
	"math"
	"sync"
	"sync/atomic"

	"github.com/twmb/franz-go/pkg/kgo"
	"verif.local/ev"
)

type stickyMode int

const (
	stickyNone     stickyMode = iota // only range (and key) checks on the nil-key path
	stickyUntilNB                    // same partition until OnNewBatch while n is unchanged
	stickyForever                    // no roll-over can happen (uniform bytes with a huge threshold)
)

type sop struct {
	newBatch bool
	key      int // index into sKeys; 0 = nil key
	n        int
	vec      []int64 // backup counts per partition index (len n) for backup-aware partitioners
	recPart  int32   // Record.Partition (manual / basic)
}

var sKeys = [][]byte{nil, []byte("a"), []byte("b")}

func (o sop) String() string {
	if o.newBatch {
		return "OnNewBatch()"
	}
	k := "nil"
	if o.key > 0 {
		k = fmt.Sprintf("%q", sKeys[o.key])
	}
	s := fmt.Sprintf("Partition(key=%s", k)
	if o.recPart != 0 {
		s += fmt.Sprintf(",rec.Partition=%d", o.recPart)
	}
	s += fmt.Sprintf(", n=%d", o.n)
	if o.vec != nil {
		s += fmt.Sprintf(", backup=%v", o.vec)
	}
	return s + ")"
}

type kindSpec struct {
	name    string
	mk      func() kgo.Partitioner
	ops     []sop // without OnNewBatch; appended when the instance implements it
	hash    func(key []byte, n int) int
	sticky  stickyMode
	manual  bool
	basic   bool
	least   bool
	dQuick  int
	dThor   int
	backup  bool // expected to implement TopicBackupPartitioner
	wantsNB bool // expected to implement TopicPartitionerOnNewBatch
}

var n4 = []int{1, 2, 3, 5}

func partOps(keys []int, ns []int, vecs func(n int) [][]int64) []sop {
	var out []sop
	for _, k := range keys {
		for _, n := range ns {
			if vecs == nil {
				out = append(out, sop{key: k, n: n})
				continue
			}
			for _, v := range vecs(n) {
				out = append(out, sop{key: k, n: n, vec: v})
			}
		}
	}
	return out
}

func zeros(n int) []int64 { return make([]int64, n) }

// leastBackupVecs: for n<=3 every non-empty set of least-backed-up indices
// (values 0 and 2), for n=5 three shapes.
func leastBackupVecs(n int) [][]int64 {
	switch n {
	case 1:
		return [][]int64{{0}}
	case 5:
		return [][]int64{{0, 0, 0, 0, 0}, {4, 3, 2, 1, 0}, {3, 0, 3, 0, 3}}
	}
	var out [][]int64
	for mask := 0; mask < 1<<n-1; mask++ { // mask bit set = backed up; all-set excluded (same argmin as none)
		v := make([]int64, n)
		for i := 0; i < n; i++ {
			if mask>>i&1 == 1 {
				v[i] = 2
			}
		}
		out = append(out, v)
	}
	return out
}

func adaptiveVecs(n int) [][]int64 {
	asc := make([]int64, n)
	for i := range asc {
		asc[i] = int64(i) * 1000
	}
	if n == 1 {
		return [][]int64{zeros(1)}
	}
	return [][]int64{zeros(n), asc}
}

func oneZeroVec(n int) [][]int64 { return [][]int64{zeros(n)} }

func basicFn(r *kgo.Record, n int) int { return (int(r.Partition) + len(r.Key)) % n }

func kinds() []kindSpec {
	saramaFnv := func(key []byte, n int) int { return saramaFromHash(fnv1a32(key), n) }
	ks := []kindSpec{
		{name: "sticky", mk: kgo.StickyPartitioner, ops: partOps([]int{0, 1}, n4, nil), sticky: stickyUntilNB, dQuick: 6, dThor: 7, wantsNB: true},
		{name: "stickykey-kafka", mk: func() kgo.Partitioner { return kgo.StickyKeyPartitioner(nil) }, ops: append(partOps([]int{0, 1}, n4, nil), partOps([]int{2}, []int{2, 5}, nil)...),
			hash: kafkaPartition, sticky: stickyUntilNB, dQuick: 6, dThor: 7, wantsNB: true},
		{name: "stickykey-saramacompat-fnv1a", mk: func() kgo.Partitioner { return kgo.StickyKeyPartitioner(kgo.SaramaCompatHasher(fnv1a32)) },
			ops: partOps([]int{0, 1}, n4, nil), hash: saramaFnv, sticky: stickyUntilNB, dQuick: 6, dThor: 7, wantsNB: true},
		{name: "roundrobin", mk: kgo.RoundRobinPartitioner, ops: partOps([]int{0, 1}, n4, nil), dQuick: 6, dThor: 7},
		{name: "leastbackup", mk: kgo.LeastBackupPartitioner, ops: partOps([]int{0}, n4, leastBackupVecs), sticky: stickyUntilNB, least: true,
			dQuick: 5, dThor: 6, backup: true, wantsNB: true},
	}
	for _, b := range []int{1, 13, 1 << 30} {
		for _, adaptive := range []bool{false, true} {
			for _, keys := range []bool{false, true} {
				b, adaptive, keys := b, adaptive, keys
				k := kindSpec{
					name:   fmt.Sprintf("uniformbytes(bytes=%d,adaptive=%v,keys=%v)", b, adaptive, keys),
					mk:     func() kgo.Partitioner { return kgo.UniformBytesPartitioner(b, adaptive, keys, nil) },
					dQuick: 6, dThor: 7, backup: true,
				}
				if adaptive {
					k.ops = append(partOps([]int{0}, n4, adaptiveVecs), partOps([]int{1}, []int{2, 5}, oneZeroVec)...)
				} else {
					k.ops = partOps([]int{0, 1}, n4, oneZeroVec)
				}
				if keys {
					k.hash = kafkaPartition
				}
				if b == 1<<30 {
					k.sticky = stickyForever
				}
				ks = append(ks, k)
			}
		}
	}
	var man []sop
	for _, p := range []int32{0, 1, 4, -1} {
		for _, n := range []int{1, 2, 5} {
			man = append(man, sop{n: n, recPart: p})
		}
	}
	ks = append(ks, kindSpec{name: "manual", mk: kgo.ManualPartitioner, ops: man, manual: true, dQuick: 3, dThor: 4})
	var bas []sop
	for _, p := range []int32{0, 1, 4} {
		for _, k := range []int{0, 1} {
			for _, n := range []int{2, 5} {
				bas = append(bas, sop{n: n, recPart: p, key: k})
			}
		}
	}
	ks = append(ks, kindSpec{name: "basicconsistent", basic: true, ops: bas, dQuick: 3, dThor: 4,
		mk: func() kgo.Partitioner {
			return kgo.BasicConsistentPartitioner(func(topic string) func(*kgo.Record, int) int {
				if topic != "t" {
					return func(*kgo.Record, int) int { return -7 } // the topic must be passed through
				}
				return basicFn
			})
		}})
	return ks
}

type statefulArtefact struct {
	Part       string   `json:"part"` // "stateful"
	Kind       string   `json:"kind"`
	SeedOffset int      `json:"seed_offset_ns"`
	OpIndices  []int    `json:"op_indices"`
	Ops        []string `json:"ops"`
	Results    []int    `json:"results"`
	Step       int      `json:"failing_step"`
	Why        string   `json:"why"`
}

type seqStats struct {
	steps          int64
	shrinkBelowPin int64
	freshNotMin    int64
	classes        map[uint32]struct{}
	rcTrue         int64
}

// runSeq executes one sequence on a fresh TopicPartitioner and checks every
// step against the reference model. It returns (class, why, step) of the first
// disagreement, results holds the partitions returned so far.
func runSeq(k *kindSpec, kidx int, part kgo.Partitioner, ops []sop, seq []int, results []int, st *seqStats) (class, why string, step int, nres int) {
	step = -1
	defer func() {
		if p := recover(); p != nil {
			class, why = "panic", fmt.Sprintf("panic: %v", p)
		}
	}()
	tp := part.ForTopic("t")
	bp, isBackup := tp.(kgo.TopicBackupPartitioner)
	nb, _ := tp.(kgo.TopicPartitionerOnNewBatch)

	// reference model
	have := false // a sticky-path pick exists and no roll-over happened since
	lastN, lastP := 0, -1
	pin := -1 // last sticky-path result, for coverage classes only
	var keyed [3][6]int
	for i := range keyed {
		for j := range keyed[i] {
			keyed[i][j] = -1
		}
	}
	var rec kgo.Record
	var it backupIter

	for i, oi := range seq {
		step = i
		o := &ops[oi]
		if o.newBatch {
			nb.OnNewBatch()
			have = false
			pin = -1
			results[i] = -100
			nres = i + 1
			continue
		}
		rec = kgo.Record{Topic: "t", Key: sKeys[o.key], Partition: o.recPart}
		n := o.n
		rc := tp.RequiresConsistency(&rec)
		if rc {
			st.rcTrue++
		}
		var got int
		if isBackup {
			it = backupIter{rem: n, vec: o.vec}
			got = bp.PartitionByBackup(&rec, n, &it)
		} else {
			got = tp.Partition(&rec, n)
		}
		results[i] = got
		nres = i + 1
		st.steps++

		if k.manual {
			if got != int(o.recPart) {
				return "manual", fmt.Sprintf("ManualPartitioner returned %d, the record's Partition field is %d", got, o.recPart), i, nres
			}
			continue
		}
		if k.basic {
			if want := basicFn(&rec, n); got != want {
				return "basic", fmt.Sprintf("BasicConsistentPartitioner returned %d, the wrapped function returns %d", got, want), i, nres
			}
			continue
		}
		if got < 0 || got >= n {
			return "range", fmt.Sprintf("returned %d for n=%d (outside [0,n))", got, n), i, nres
		}
		isKeyed := k.hash != nil && rec.Key != nil
		if isKeyed {
			if want := k.hash(rec.Key, n); got != want {
				return "key", fmt.Sprintf("key %q n=%d: returned %d, reference hasher gives %d", rec.Key, n, got, want), i, nres
			}
			if prev := keyed[o.key][n]; prev >= 0 && prev != got {
				return "key", fmt.Sprintf("key %q n=%d: returned %d now and %d earlier", rec.Key, n, got, prev), i, nres
			}
			keyed[o.key][n] = got
			if !rc {
				return "consistency", fmt.Sprintf("RequiresConsistency is false for keyed record %q of a key-hashing partitioner", rec.Key), i, nres
			}
			st.classes[uint32(kidx)<<16|1<<15|uint32(n)<<8|uint32(got)] = struct{}{}
			continue
		}
		// sticky / unkeyed path
		rel := uint32(0)
		switch {
		case pin < 0 && i > 0 && nb != nil && lastP >= 0:
			rel = 1 // first pick after OnNewBatch
		case pin < 0:
			rel = 0 // very first pick
		case n == lastN:
			rel = 2
		case n > lastN:
			rel = 3
		case pin < n:
			rel = 4
		default:
			rel = 5 // n shrank to or below the pinned partition
			st.shrinkBelowPin++
		}
		st.classes[uint32(kidx)<<16|rel<<12|uint32(n)<<8|uint32(got)] = struct{}{}
		if k.sticky != stickyNone && have && n == lastN && got != lastP {
			return "sticky", fmt.Sprintf("nil-key path moved from partition %d to %d with n=%d unchanged and no new batch", lastP, got, n), i, nres
		}
		if k.least && (rel == 0 || rel == 1 || rel == 5) {
			min := int64(math.MaxInt64)
			for _, c := range o.vec {
				if c < min {
					min = c
				}
			}
			if o.vec[got] != min {
				st.freshNotMin++
			}
		}
		have, lastN, lastP, pin = true, n, got, got
	}
	return "", "", -1, nres
}

func depthOf(k *kindSpec, deep bool) int {
	if deep {
		return k.dThor
	}
	return k.dQuick
}

func opsFor(k *kindSpec) []sop {
	ops := append([]sop(nil), k.ops...)
	tp := k.mk().ForTopic("t")
	_, isBackup := tp.(kgo.TopicBackupPartitioner)
	_, hasNB := tp.(kgo.TopicPartitionerOnNewBatch)
	if isBackup != k.backup || hasNB != k.wantsNB {
		ev.InfraError("%s: optional interfaces changed (TopicBackupPartitioner=%v, OnNewBatch=%v); the alphabet must be revisited", k.name, isBackup, hasNB)
	}
	if hasNB {
		ops = append(ops, sop{newBatch: true})
	}
	return ops
}

type statefulTotals struct {
	mu        sync.Mutex
	seqs      map[string]int64
	steps     int64
	shrink    map[string]int64
	freshNot  int64
	rcTrue    int64
	classes   map[uint32]struct{}
	alphabets map[string]int
	depths    map[string]int
}

func newStatefulTotals() *statefulTotals {
	return &statefulTotals{seqs: map[string]int64{}, shrink: map[string]int64{}, classes: map[uint32]struct{}{}, alphabets: map[string]int{}, depths: map[string]int{}}
}

// exploreSeed runs every kind's full sequence space; must be called inside the
// bubble of the given seed offset.
func exploreSeed(r *ev.Run, seedOff int, deep bool, tot *statefulTotals) {
	ks := kinds()
	workers := ev.Workers()
	for ki := range ks {
		k := &ks[ki]
		ops := opsFor(k)
		d := depthOf(k, deep)
		total := pow(uint64(len(ops)), d)
		var next atomic.Uint64
		const chunk = 2048
		var wg sync.WaitGroup
		var stop atomic.Bool
		for w := 0; w < workers; w++ {
			wg.Add(1)
			go func() {
				defer wg.Done()
				part := k.mk()
				st := &seqStats{classes: map[uint32]struct{}{}}
				seq := make([]int, d)
				results := make([]int, d)
				var nseq int64
				for !stop.Load() {
					if r.Violations() > 200 {
						stop.Store(true)
						break
					}
					lo := next.Add(chunk) - chunk
					if lo >= total {
						break
					}
					hi := lo + chunk
					if hi > total {
						hi = total
					}
					for idx := lo; idx < hi; idx++ {
						x := idx
						for j := d - 1; j >= 0; j-- {
							seq[j] = int(x % uint64(len(ops)))
							x /= uint64(len(ops))
						}
						nseq++
						class, why, step, nres := runSeq(k, ki, part, ops, seq, results, st)
						if class != "" {
							a := statefulArtefact{Part: "stateful", Kind: k.name, SeedOffset: seedOff, OpIndices: append([]int(nil), seq[:step+1]...),
								Results: append([]int(nil), results[:nres]...), Step: step, Why: why}
							for _, oi := range seq[:step+1] {
								a.Ops = append(a.Ops, ops[oi].String())
							}
							r.Violation("stateful/"+k.name+"/"+class, fmt.Sprintf("%s (seed offset %d): %v -> %s", k.name, seedOff, a.Ops, why), a)
							if r.Violations() > 200 {
								stop.Store(true)
								break
							}
						}
					}
				}
				tot.mu.Lock()
				tot.seqs[k.name] += nseq
				tot.steps += st.steps
				tot.shrink[k.name] += st.shrinkBelowPin
				tot.freshNot += st.freshNotMin
				tot.rcTrue += st.rcTrue
				for c := range st.classes {
					tot.classes[c] = struct{}{}
				}
				tot.mu.Unlock()
			}()
		}
		wg.Wait()
		if stop.Load() {
			r.NotExhaustive("stateful exploration of " + k.name + " stopped early after more than 200 violations")
		}
		tot.alphabets[k.name] = len(ops)
		if d > tot.depths[k.name] {
			tot.depths[k.name] = d
		}
	}
}

func (tot *statefulTotals) publish(r *ev.Run, seeds []seedRun) {
	var seqs int64
	for _, n := range tot.seqs {
		seqs += n
	}
	r.Evals(seqs)
	for c := range tot.classes {
		r.DistinctHash(uint64(c) | 3<<60)
	}
	r.Set("stateful_sequences", seqs)
	r.Set("stateful_sequences_per_kind", tot.seqs)
	r.Set("stateful_partition_calls", tot.steps)
	r.Set("stateful_alphabet_size_per_kind", tot.alphabets)
	r.Set("stateful_max_depth_per_kind", tot.depths)
	r.Set("stateful_seed_plan", seeds)
	r.Set("stateful_n_shrank_to_or_below_pinned_events_per_kind", tot.shrink)
	r.Set("stateful_situation_classes", len(tot.classes))
	r.Set("leastbackup_fresh_pick_not_least_backed_up", tot.freshNot)
	ks := kinds()
	k := &ks[0]
	ops := opsFor(k)
	r.Sample(map[string]any{"part": "stateful", "kind": k.name, "alphabet": func() []string {
		var s []string
		for _, o := range ops {
			s = append(s, o.String())
		}
		return s
	}()})
	lb := &ks[4]
	lops := opsFor(lb)
	r.Sample(map[string]any{"part": "stateful", "kind": lb.name, "example_sequence": []string{lops[10].String(), lops[1].String(), lops[len(lops)-1].String(), lops[3].String()}})
}
