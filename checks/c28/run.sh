#!/bin/bash
# C28 partitioners: hashers vs the Java/Sarama reference, stateful partitioners over
# every operation sequence, doPartition's out-of-range rejection (client + kfake).
# usage: run.sh [--replay <violation.json>]
set -eu
cd "$(dirname "$0")/../.."
. bin/env.sh
go build -o "$BUILD/c28" ./checks/c28
exec "$BUILD/c28" "$@"
