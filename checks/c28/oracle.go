package main

// Reference models. Nothing in this file looks at franz-go.
//
// javaMurmur2 is a transliteration of org.apache.kafka.common.utils.Utils.murmur2
// (Java int arithmetic, `>>>` written as a logical shift on the uint32 view,
// every byte widened with `& 0xff`, tail handled by the fall-through switch on
// length % 4). javaToPositive is Utils.toPositive. The Java producer's
// BuiltInPartitioner.partitionForKey is toPositive(murmur2(key)) % numPartitions.

func javaMurmur2(data []byte) int32 {
	length := int32(len(data))
	const seed int32 = -1756908916 // 0x9747b28c as a Java int
	const m int32 = 0x5bd1e995
	const r = 24

	h := seed ^ length
	length4 := int(length / 4)
	for i := 0; i < length4; i++ {
		i4 := i * 4
		k := (int32(data[i4+0]) & 0xff) +
			((int32(data[i4+1]) & 0xff) << 8) +
			((int32(data[i4+2]) & 0xff) << 16) +
			((int32(data[i4+3]) & 0xff) << 24)
		k *= m
		k ^= int32(uint32(k) >> r) // k >>> r
		k *= m
		h *= m
		h ^= k
	}
	base := int(length) &^ 3
	switch length % 4 {
	case 3:
		h ^= (int32(data[base+2]) & 0xff) << 16
		fallthrough
	case 2:
		h ^= (int32(data[base+1]) & 0xff) << 8
		fallthrough
	case 1:
		h ^= int32(data[base]) & 0xff
		h *= m
	}
	h ^= int32(uint32(h) >> 13)
	h *= m
	h ^= int32(uint32(h) >> 15)
	return h
}

func javaToPositive(n int32) int32 { return n & 0x7fffffff }

// kafkaPartition is what the Apache Kafka Java producer picks for a keyed record.
func kafkaPartition(key []byte, n int) int {
	return int(int64(javaToPositive(javaMurmur2(key))) % int64(n))
}

// kafkaFromHash is the Java arithmetic after hashing, for an arbitrary 32-bit hash.
func kafkaFromHash(h uint32, n int) int {
	return int(int64(javaToPositive(int32(h))) % int64(n))
}

// saramaFromHash is Sarama's hashPartitioner (neither referenceAbs nor
// hashUnsigned): the 32-bit hash is reinterpreted as a signed int32, the
// remainder by numPartitions is taken with truncation towards zero and a
// negative remainder is negated. Written here in 64-bit arithmetic on the
// magnitude: a truncated remainder has the magnitude |s| mod n.
func saramaFromHash(h uint32, n int) int {
	s := int64(h)
	if s >= 1<<31 {
		s -= 1 << 32 // two's complement reinterpretation
	}
	if s < 0 {
		s = -s
	}
	return int(s % int64(n))
}

// fnv1a32 is FNV-1a 32 (Sarama's default hasher), from the FNV specification.
func fnv1a32(b []byte) uint32 {
	h := uint32(2166136261)
	for _, c := range b {
		h ^= uint32(c)
		h *= 16777619
	}
	return h
}

// murmur2Vectors are the expected values in Apache Kafka's
// clients/src/test/java/org/apache/kafka/common/utils/UtilsTest.java#testMurmur2.
var murmur2Vectors = []struct {
	in  string
	out int32
}{
	{"21", -973932308},
	{"foobar", -790332482},
	{"a-little-bit-long-string", -985981536},
	{"a-little-bit-longer-string", -1486304829},
	{"lkjh234lh9fiuh90y23oiuhsafujhadof229phr9h19h89h8", -58897971},
	{"abc", 479470107},
}

// oracleSelfTest anchors the reference models to facts that do not come from
// franz-go; returns "" or what is wrong.
func oracleSelfTest() string {
	for _, v := range murmur2Vectors {
		if got := javaMurmur2([]byte(v.in)); got != v.out {
			return "javaMurmur2(" + v.in + ") disagrees with Kafka's UtilsTest vector"
		}
	}
	// FNV-1a 32 published test vectors.
	if fnv1a32(nil) != 0x811c9dc5 || fnv1a32([]byte("a")) != 0xe40c292c || fnv1a32([]byte("foobar")) != 0xbf9cf968 {
		return "fnv1a32 disagrees with the published FNV test vectors"
	}
	// Sarama arithmetic spot values: int32(0xffffffff) = -1, -1 % 7 = -1 -> 1;
	// int32(0x80000000) = -2147483648, % 10 = -8 -> 8.
	if saramaFromHash(0xffffffff, 7) != 1 || saramaFromHash(0x80000000, 10) != 8 || saramaFromHash(5, 3) != 2 {
		return "saramaFromHash spot values wrong"
	}
	if kafkaFromHash(0xffffffff, 7) != 0x7fffffff%7 || kafkaFromHash(0x80000000, 10) != 0 {
		return "kafkaFromHash spot values wrong"
	}
	return ""
}
