package main

// Part 1: the key hashers, through the exported API only.
//
//   route K   kgo.StickyKeyPartitioner(nil).ForTopic(t).Partition(rec{Key}, n)
//             (the default Kafka hasher: the only exported way to reach murmur2)
//   route U   kgo.UniformBytesPartitioner(1<<30, false, true, nil) keyed path
//   route KF  kgo.KafkaHasher(fnv1a32)(key, n)          (mask + modulo on another hash)
//   route SF  kgo.SaramaCompatHasher(fnv1a32)(key, n)   (Sarama's defaults)
//   route LF  kgo.SaramaHasher(fnv1a32)(key, n)         (range only)
//   routes KI / SI / LI: the same three wrappers around an identity hash
//             (4-byte little-endian key = the hash value), swept over hash values.

import (
	"encoding/binary"
	"encoding/hex"
	"fmt"
	"math"
	"sync"
	"sync/atomic"

	"github.com/twmb/franz-go/pkg/kgo"
	"verif.local/ev"
)

var signSet = [4]byte{0x00, 0x7f, 0x80, 0xff}

func hasherNs() []int {
	var ns []int
	for n := 1; n <= 64; n++ {
		ns = append(ns, n)
	}
	return append(ns, 100, 1000, math.MaxInt32)
}

// keyGroup is a finite, indexable family of keys.
type keyGroup struct {
	name  string
	count uint64
	gen   func(i uint64, buf []byte) []byte // returns the i-th key (may alias buf)
	ns    []int
	slim  bool // only route K (used for the 2^32 four-byte keys)
	// coverage classes are recorded for every classEvery-th key (0 = every key)
	classEvery uint64
}

func pow(b uint64, e int) uint64 {
	r := uint64(1)
	for ; e > 0; e-- {
		r *= b
	}
	return r
}

func keyGroups(thorough bool) []keyGroup {
	ns := hasherNs()
	gs := []keyGroup{
		{name: "len0", count: 1, ns: ns, gen: func(_ uint64, buf []byte) []byte { return buf[:0] }},
		{name: "len1-all", count: 256, ns: ns, gen: func(i uint64, buf []byte) []byte { buf[0] = byte(i); return buf[:1] }},
		{name: "len2-all", count: 65536, ns: ns, gen: func(i uint64, buf []byte) []byte { buf[0], buf[1] = byte(i), byte(i>>8); return buf[:2] }},
	}
	// lengths 3..9: every key over {00,7f,80,ff}
	for L := 3; L <= 9; L++ {
		L := L
		gs = append(gs, keyGroup{name: fmt.Sprintf("len%d-sign4", L), count: pow(4, L), ns: ns, gen: func(i uint64, buf []byte) []byte {
			for j := 0; j < L; j++ {
				buf[j] = signSet[i&3]
				i >>= 2
			}
			return buf[:L]
		}})
	}
	// lengths 10..17: a fixed filler over the same alphabet followed by every
	// combination of the last 8 bytes (the last full block(s) and the whole tail)
	for L := 10; L <= 17; L++ {
		L := L
		gs = append(gs, keyGroup{name: fmt.Sprintf("len%d-sign4-last8", L), count: pow(4, 8), ns: ns, gen: func(i uint64, buf []byte) []byte {
			for j := 0; j < L-8; j++ {
				buf[j] = signSet[(j+L)&3]
			}
			for j := L - 8; j < L; j++ {
				buf[j] = signSet[i&3]
				i >>= 2
			}
			return buf[:L]
		}})
	}
	if thorough {
		gs = append(gs, keyGroup{name: "len3-all", count: 1 << 24, ns: ns, classEvery: 4096, gen: func(i uint64, buf []byte) []byte {
			buf[0], buf[1], buf[2] = byte(i), byte(i>>8), byte(i>>16)
			return buf[:3]
		}})
		// every 4-byte key; n = 2^31-1 exposes 31 bits of the hash, n = 3 folds the mask in
		gs = append(gs, keyGroup{name: "len4-all", count: 1 << 32, ns: []int{math.MaxInt32, 3}, slim: true, classEvery: 1 << 20, gen: func(i uint64, buf []byte) []byte {
			binary.LittleEndian.PutUint32(buf, uint32(i))
			return buf[:4]
		}})
	}
	return gs
}

type backupIter struct {
	rem int
	vec []int64
}

func (b *backupIter) Next() (int, int64) {
	if b.rem <= 0 {
		panic("TopicBackupIter.Next called with Rem() == 0")
	}
	b.rem--
	var c int64
	if b.rem < len(b.vec) {
		c = b.vec[b.rem]
	}
	return b.rem, c
}
func (b *backupIter) Rem() int { return b.rem }

type hashArtefact struct {
	Part   string `json:"part"` // "hasher"
	Route  string `json:"route"`
	KeyHex string `json:"key_hex"`
	N      int    `json:"n"`
	Got    int    `json:"got"`
	Want   int    `json:"want"` // -1: any value in [0,n)
}

func identityHash(b []byte) uint32 { return binary.LittleEndian.Uint32(b) }

// hasherRoutes bundles the per-worker instances.
type hasherRoutes struct {
	k   kgo.TopicPartitioner
	u   kgo.TopicBackupPartitioner
	kf  kgo.PartitionerHasher
	sf  kgo.PartitionerHasher
	lf  kgo.PartitionerHasher
	ki  kgo.PartitionerHasher
	si  kgo.PartitionerHasher
	li  kgo.PartitionerHasher
	rec kgo.Record
	it  backupIter
}

func newHasherRoutes() *hasherRoutes {
	u, ok := kgo.UniformBytesPartitioner(1<<30, false, true, nil).ForTopic("t").(kgo.TopicBackupPartitioner)
	if !ok {
		ev.InfraError("UniformBytesPartitioner no longer implements TopicBackupPartitioner")
	}
	return &hasherRoutes{
		k:  kgo.StickyKeyPartitioner(nil).ForTopic("t"),
		u:  u,
		kf: kgo.KafkaHasher(fnv1a32),
		sf: kgo.SaramaCompatHasher(fnv1a32),
		lf: kgo.SaramaHasher(fnv1a32),
		ki: kgo.KafkaHasher(identityHash),
		si: kgo.SaramaCompatHasher(identityHash),
		li: kgo.SaramaHasher(identityHash),
	}
}

// one evaluation through a route; want < 0 means "any value in [0,n)".
func (h *hasherRoutes) call(route string, key []byte, n int) int {
	switch route {
	case "K":
		h.rec = kgo.Record{Key: key}
		return h.k.Partition(&h.rec, n)
	case "U":
		h.rec = kgo.Record{Key: key}
		h.it = backupIter{rem: n}
		return h.u.PartitionByBackup(&h.rec, n, &h.it)
	case "KF":
		return h.kf(key, n)
	case "SF":
		return h.sf(key, n)
	case "LF":
		return h.lf(key, n)
	case "KI":
		return h.ki(key, n)
	case "SI":
		return h.si(key, n)
	case "LI":
		return h.li(key, n)
	}
	panic("route " + route)
}

func hashWant(route string, key []byte, n int) int {
	switch route {
	case "K", "U":
		return kafkaPartition(key, n)
	case "KF":
		return kafkaFromHash(fnv1a32(key), n)
	case "SF":
		return saramaFromHash(fnv1a32(key), n)
	case "KI":
		return kafkaFromHash(identityHash(key), n)
	case "SI":
		return saramaFromHash(identityHash(key), n)
	}
	return -1
}

var uNs = map[int]bool{1: true, 2: true, 3: true, 7: true, 64: true, math.MaxInt32: true}

func reportHash(r *ev.Run, route string, key []byte, n, got, want int, what string) {
	k := append([]byte(nil), key...)
	tail := len(k) % 4
	r.Violation(fmt.Sprintf("hasher/%s/len%%4=%d", route, tail),
		fmt.Sprintf("route %s key=%x n=%d: %s (got %d, reference %d)", route, k, n, what, got, want),
		hashArtefact{"hasher", route, hex.EncodeToString(k), n, got, want})
}

// checkOne runs one (route,key,n) with panic capture and compares.
func checkOne(r *ev.Run, h *hasherRoutes, route string, key []byte, n, want int) (ok bool) {
	defer func() {
		if p := recover(); p != nil {
			reportHash(r, route, key, n, -1, want, fmt.Sprintf("panic: %v", p))
			ok = false
		}
	}()
	got := h.call(route, key, n)
	if got < 0 || got >= n {
		reportHash(r, route, key, n, got, want, "partition outside [0,n)")
		return false
	}
	if want >= 0 && got != want {
		reportHash(r, route, key, n, got, want, "differs from the reference partition")
		return false
	}
	return true
}

func classKey(route int, key []byte, nIdx int, hashHigh bool) uint64 {
	tail := len(key) % 4
	var tb uint64
	for j := 0; j < tail; j++ {
		if key[len(key)-tail+j]&0x80 != 0 {
			tb |= 1 << j
		}
	}
	c := uint64(route) | uint64(len(key))<<4 | tb<<10 | uint64(nIdx)<<14
	if hashHigh {
		c |= 1 << 22
	}
	return c | 1<<60 // namespace: hasher classes
}

func runHashers(r *ev.Run) {
	thorough := ev.Thorough()
	groups := keyGroups(thorough)
	workers := ev.Workers()
	type task struct {
		g      int
		lo, hi uint64
	}
	const chunk = 1 << 14
	tasks := make(chan task, 64)
	go func() {
		for gi, g := range groups {
			for lo := uint64(0); lo < g.count; lo += chunk {
				hi := lo + chunk
				if hi > g.count {
					hi = g.count
				}
				tasks <- task{gi, lo, hi}
			}
		}
		close(tasks)
	}()
	var wg sync.WaitGroup
	var totalKeys, totalEvals atomic.Int64
	var mu sync.Mutex
	perGroup := map[string]int64{}
	var stop atomic.Bool
	for w := 0; w < workers; w++ {
		wg.Add(1)
		go func() {
			defer wg.Done()
			h := newHasherRoutes()
			classes := map[uint64]struct{}{}
			buf := make([]byte, 32)
			for t := range tasks {
				if stop.Load() {
					continue
				}
				g := &groups[t.g]
				var evals int64
				for i := t.lo; i < t.hi; i++ {
					key := g.gen(i, buf)
					jm := javaMurmur2(key)
					pos := int64(javaToPositive(jm))
					fh := fnv1a32(key)
					bad := false
					for ni, n := range g.ns {
						want := int(pos % int64(n))
						if !checkOne(r, h, "K", key, n, want) {
							bad = true
						}
						evals++
						if g.slim {
							if i%g.classEvery == 0 {
								classes[classKey(0, key, ni, jm < 0)] = struct{}{}
							}
							continue
						}
						if uNs[n] {
							if !checkOne(r, h, "U", key, n, want) {
								bad = true
							}
							evals++
						}
						if !checkOne(r, h, "KF", key, n, kafkaFromHash(fh, n)) ||
							!checkOne(r, h, "SF", key, n, saramaFromHash(fh, n)) ||
							!checkOne(r, h, "LF", key, n, -1) {
							bad = true
						}
						evals += 3
						if g.classEvery == 0 || i%g.classEvery == 0 {
							classes[classKey(0, key, ni, jm < 0)] = struct{}{}
							if !g.slim {
								classes[classKey(1, key, ni, fh&0x80000000 != 0)] = struct{}{}
							}
						}
					}
					if bad && r.Violations() > 200 {
						stop.Store(true)
						break
					}
				}
				totalKeys.Add(int64(t.hi - t.lo))
				totalEvals.Add(evals)
				mu.Lock()
				perGroup[g.name] += int64(t.hi - t.lo)
				mu.Unlock()
			}
			for c := range classes {
				r.DistinctHash(c)
			}
		}()
	}
	wg.Wait()
	if stop.Load() {
		r.NotExhaustive("hasher sweep stopped early after more than 200 violations")
	}

	// identity-hash sweep: the arithmetic after hashing, over hash values.
	hv := hashValueSet()
	ns := hasherNs()
	h := newHasherRoutes()
	var key [4]byte
	var ievals int64
	for _, v := range hv {
		binary.LittleEndian.PutUint32(key[:], v)
		for _, n := range ns {
			checkOne(r, h, "KI", key[:], n, kafkaFromHash(v, n))
			checkOne(r, h, "SI", key[:], n, saramaFromHash(v, n))
			checkOne(r, h, "LI", key[:], n, -1)
			ievals += 3
		}
		r.DistinctHash(uint64(v) | 2<<60)
	}
	var fullEvals int64
	if thorough {
		fullEvals = identityFullSweep(r, workers)
	}

	r.Evals(totalEvals.Load() + ievals + fullEvals)
	r.Set("hasher_keys", totalKeys.Load())
	r.Set("hasher_keys_per_group", perGroup)
	r.Set("hasher_n_values", len(ns))
	r.Set("hasher_evaluations", totalEvals.Load())
	r.Set("hashvalue_sweep_values", len(hv))
	r.Set("hashvalue_sweep_evaluations", ievals+fullEvals)
	r.Sample(map[string]any{"part": "hasher", "route": "K", "key_hex": "807fff", "n": 7,
		"reference_murmur2": javaMurmur2([]byte{0x80, 0x7f, 0xff}), "reference_partition": kafkaPartition([]byte{0x80, 0x7f, 0xff}, 7)})
	r.Sample(map[string]any{"part": "hasher", "route": "SI", "hash": "0x80000000", "n": 10, "reference_partition": saramaFromHash(0x80000000, 10)})
}

// hashValueSet: boundary hash values (around 0, 2^31, 2^32, every power of two).
func hashValueSet() []uint32 {
	seen := map[uint32]struct{}{}
	add := func(v uint32) { seen[v] = struct{}{} }
	for d := uint32(0); d <= 4096; d++ {
		add(d)
		add(0x7fffffff - d)
		add(0x80000000 + d)
		add(0xffffffff - d)
	}
	for b := uint(0); b < 32; b++ {
		add(1<<b - 1)
		add(1 << b)
		add(1<<b + 1)
	}
	out := make([]uint32, 0, len(seen))
	for v := range seen {
		out = append(out, v)
	}
	// deterministic order
	for i := 1; i < len(out); i++ {
		for j := i; j > 0 && out[j] < out[j-1]; j-- {
			out[j], out[j-1] = out[j-1], out[j]
		}
	}
	return out
}

// identityFullSweep (thorough): every 32-bit hash value through the three
// wrappers for a few n.
func identityFullSweep(r *ev.Run, workers int) int64 {
	ns := []int{1, 7, 1000, math.MaxInt32}
	var next atomic.Uint64
	const chunk = 1 << 22
	var wg sync.WaitGroup
	var evals atomic.Int64
	for w := 0; w < workers; w++ {
		wg.Add(1)
		go func() {
			defer wg.Done()
			h := newHasherRoutes()
			var key [4]byte
			var e int64
			for {
				lo := next.Add(chunk) - chunk
				if lo >= 1<<32 || r.Violations() > 200 {
					break
				}
				for v := lo; v < lo+chunk; v++ {
					binary.LittleEndian.PutUint32(key[:], uint32(v))
					for _, n := range ns {
						// fast path without the deferred recover: a panic here aborts
						// the process, which run.sh reports as an infrastructure error;
						// the boundary sweep above already ran every wrapper guarded.
						g1 := h.ki(key[:], n)
						g2 := h.si(key[:], n)
						g3 := h.li(key[:], n)
						if g1 != kafkaFromHash(uint32(v), n) {
							reportHash(r, "KI", key[:], n, g1, kafkaFromHash(uint32(v), n), "differs from the reference partition")
						}
						if g2 != saramaFromHash(uint32(v), n) {
							reportHash(r, "SI", key[:], n, g2, saramaFromHash(uint32(v), n), "differs from the reference partition")
						}
						if g3 < 0 || g3 >= n {
							reportHash(r, "LI", key[:], n, g3, -1, "partition outside [0,n)")
						}
						e += 3
					}
				}
			}
			evals.Add(e)
		}()
	}
	wg.Wait()
	r.Set("hashvalue_full_2^32_sweep_n", ns)
	return evals.Load()
}
