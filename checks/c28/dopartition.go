package main

// Part 3: Client.doPartition must turn an out-of-range pick of a user
// partitioner into a failed record promise (no panic, no bad index).
//
// A real kgo client produces to a real kfake cluster (127.0.0.1 loopback) with
// a scripted partitioner. doPartition may run on an internal client goroutine
// (first produce to a topic: the metadata loop partitions the buffered record),
// where a panic cannot be recovered, so every case runs in a child process
// (this binary with --dopartition-child); a crashed child is the violation
// "panic" for the case it was running.

import (
	"bufio"
	"bytes"
	"context"
	"encoding/json"
	"errors"
	"fmt"
	"math"
	"os"
	"os/exec"
	"strings"
	"time"

	"github.com/twmb/franz-go/pkg/kfake"
	"github.com/twmb/franz-go/pkg/kgo"
	"verif.local/ev"
)

type dpCase struct {
	ID          int    `json:"id"`
	Topic       string `json:"topic"`
	N           int    `json:"n"`
	API         string `json:"api"`  // "Partition" | "PartitionByBackup"
	Site        string `json:"site"` // "first" pick | "second" pick (after OnNewBatch aborted the first)
	Consistency bool   `json:"requires_consistency"`
	Pick        int    `json:"pick"`
	Valid       bool   `json:"valid_pick_control"`
}

func dpCases() []dpCase {
	var cs []dpCase
	id := 0
	for _, tn := range []struct {
		t string
		n int
	}{{"t3", 3}, {"t1", 1}} {
		for _, api := range []string{"Partition", "PartitionByBackup"} {
			for _, site := range []string{"first", "second"} {
				for _, cons := range []bool{false, true} {
					for _, pick := range []int{-1, tn.n, tn.n + 1, math.MinInt, math.MaxInt} {
						cs = append(cs, dpCase{id, tn.t, tn.n, api, site, cons, pick, false})
						id++
					}
					for pick := 0; pick < tn.n; pick++ { // controls: the harness really reaches doPartition
						cs = append(cs, dpCase{id, tn.t, tn.n, api, site, cons, pick, true})
						id++
					}
				}
			}
		}
	}
	return cs
}

// scripted partitioners: four concrete types for the four interface shapes.
type scripted struct {
	c          dpCase
	calls      int
	newBatches int
	sawN       []int
}

func (s *scripted) pick(n int) int {
	s.calls++
	s.sawN = append(s.sawN, n)
	if s.c.Site == "second" && s.newBatches == 0 {
		return 0 // valid; the bad value comes after OnNewBatch
	}
	return s.c.Pick
}

type plainTP struct{ s *scripted }

func (p plainTP) RequiresConsistency(*kgo.Record) bool { return p.s.c.Consistency }
func (p plainTP) Partition(_ *kgo.Record, n int) int   { return p.s.pick(n) }

type plainNB struct{ plainTP }

func (p plainNB) OnNewBatch() { p.s.newBatches++ }

type backupTP struct{ s *scripted }

func (p backupTP) RequiresConsistency(*kgo.Record) bool { return p.s.c.Consistency }
func (p backupTP) Partition(*kgo.Record, int) int       { panic("Partition called on a TopicBackupPartitioner") }
func (p backupTP) PartitionByBackup(_ *kgo.Record, n int, it kgo.TopicBackupIter) int {
	if it.Rem() != n {
		return p.s.pick(-n) // recorded in sawN as a negative n: iterator/n mismatch
	}
	return p.s.pick(n)
}

type backupNB struct{ backupTP }

func (p backupNB) OnNewBatch() { p.s.newBatches++ }

type scriptedPartitioner struct{ s *scripted }

func (p scriptedPartitioner) ForTopic(string) kgo.TopicPartitioner {
	switch {
	case p.s.c.API == "Partition" && p.s.c.Site == "first":
		return plainTP{p.s}
	case p.s.c.API == "Partition":
		return plainNB{plainTP{p.s}}
	case p.s.c.Site == "first":
		return backupTP{p.s}
	}
	return backupNB{backupTP{p.s}}
}

type dpResult struct {
	ID         int    `json:"id"`
	Err        string `json:"err"`
	Timeout    bool   `json:"timeout"`
	Partition  int32  `json:"partition"`
	Calls      int    `json:"calls"`
	NewBatches int    `json:"new_batches"`
	SawN       []int  `json:"saw_n"`
}

// dopartitionChild runs every case with from <= id < to, printing BEGIN/END lines.
func dopartitionChild(from, to int) {
	c, err := kfake.NewCluster(kfake.NumBrokers(1), kfake.SeedTopics(3, "t3"), kfake.SeedTopics(1, "t1"))
	if err != nil {
		fmt.Printf("INFRA %v\n", err)
		os.Exit(3)
	}
	defer c.Close()
	out := bufio.NewWriter(os.Stdout)
	for _, cs := range dpCases() {
		if cs.ID < from || cs.ID >= to {
			continue
		}
		fmt.Fprintf(out, "BEGIN %d\n", cs.ID)
		out.Flush()
		s := &scripted{c: cs}
		cl, err := kgo.NewClient(kgo.SeedBrokers(c.ListenAddrs()...), kgo.RecordPartitioner(scriptedPartitioner{s}),
			kgo.ProducerLinger(0), kgo.RecordDeliveryTimeout(20*time.Second))
		if err != nil {
			fmt.Fprintf(out, "INFRA %v\n", err)
			out.Flush()
			os.Exit(3)
		}
		ctx, cancel := context.WithTimeout(context.Background(), 30*time.Second)
		rec := &kgo.Record{Topic: cs.Topic, Value: []byte("v")}
		perr := cl.ProduceSync(ctx, rec).FirstErr()
		res := dpResult{ID: cs.ID, Partition: rec.Partition, Calls: s.calls, NewBatches: s.newBatches, SawN: s.sawN}
		if perr != nil {
			res.Err = perr.Error()
			res.Timeout = errors.Is(perr, context.DeadlineExceeded) || errors.Is(perr, kgo.ErrRecordTimeout)
		}
		cancel()
		cl.Close()
		b, _ := json.Marshal(res)
		fmt.Fprintf(out, "END %s\n", b)
		out.Flush()
	}
}

type dpArtefact struct {
	Part   string    `json:"part"` // "dopartition"
	Case   dpCase    `json:"case"`
	Result *dpResult `json:"result,omitempty"`
	Stderr string    `json:"child_stderr_tail,omitempty"`
}

func runDoPartition(r *ev.Run, only int) {
	cases := dpCases()
	byID := map[int]dpCase{}
	for _, c := range cases {
		byID[c.ID] = c
	}
	from, to := 0, len(cases)
	if only >= 0 {
		from, to = only, only+1
	}
	done := 0
	rejected, controls := 0, 0
	for from < to {
		args := []string{"--dopartition-child", fmt.Sprint(from), fmt.Sprint(to)}
		cmd := exec.Command(os.Args[0], args...)
		var stdout, stderr bytes.Buffer
		cmd.Stdout, cmd.Stderr = &stdout, &stderr
		runErr := cmd.Run()
		inflight := -1
		sc := bufio.NewScanner(&stdout)
		sc.Buffer(make([]byte, 1<<20), 1<<20)
		for sc.Scan() {
			line := sc.Text()
			switch {
			case strings.HasPrefix(line, "INFRA "):
				ev.InfraError("dopartition child: %s", line)
			case strings.HasPrefix(line, "BEGIN "):
				fmt.Sscanf(line, "BEGIN %d", &inflight)
			case strings.HasPrefix(line, "END "):
				var res dpResult
				if err := json.Unmarshal([]byte(line[4:]), &res); err != nil {
					ev.InfraError("dopartition child output: %v", err)
				}
				cs := byID[res.ID]
				inflight = -1
				if only >= 0 && res.ID != only {
					continue
				}
				done++
				judgeDP(r, cs, &res, &rejected, &controls)
			}
		}
		if inflight < 0 {
			if runErr != nil {
				ev.InfraError("dopartition child failed outside a case: %v\n%s", runErr, tail(stderr.String(), 2000))
			}
			break
		}
		// the child died inside case `inflight`
		cs := byID[inflight]
		if only < 0 || inflight == only {
			done++
			r.Violation(fmt.Sprintf("dopartition/%s/%s/crash", cs.API, cs.Site),
				fmt.Sprintf("client process crashed while partitioning with pick %d of n=%d (%s, %s pick, consistency=%v): %v", cs.Pick, cs.N, cs.API, cs.Site, cs.Consistency, runErr),
				dpArtefact{Part: "dopartition", Case: cs, Stderr: tail(stderr.String(), 3000)})
		}
		from = inflight + 1
		if only >= 0 {
			break
		}
	}
	r.Evals(int64(done))
	r.Set("dopartition_cases", done)
	r.Set("dopartition_bad_picks_rejected", rejected)
	r.Set("dopartition_valid_pick_controls_ok", controls)
	if len(cases) > 0 {
		r.Sample(map[string]any{"part": "dopartition", "case": cases[2]})
	}
}

func judgeDP(r *ev.Run, cs dpCase, res *dpResult, rejected, controls *int) {
	r.Distinct(fmt.Sprintf("D|%s|%s|%v|%d|%d|err=%v", cs.API, cs.Site, cs.Consistency, cs.N, cs.Pick, res.Err != ""))
	art := dpArtefact{Part: "dopartition", Case: cs, Result: res}
	wantCalls := 1
	if cs.Site == "second" {
		wantCalls = 2
	}
	reached := res.Calls == wantCalls && (cs.Site == "first" || res.NewBatches == 1)
	for _, n := range res.SawN {
		if n != cs.N {
			reached = false
		}
	}
	if !reached {
		ev.InfraError("dopartition case %+v did not drive the scripted partitioner as planned: %+v", cs, *res)
	}
	if cs.Valid {
		if res.Err != "" || int(res.Partition) != cs.Pick {
			ev.InfraError("dopartition control %+v: a valid pick did not produce to that partition: %+v", cs, *res)
		}
		*controls++
		return
	}
	switch {
	case res.Err == "":
		r.Violation(fmt.Sprintf("dopartition/%s/%s/accepted", cs.API, cs.Site),
			fmt.Sprintf("pick %d of n=%d (%s, %s pick, consistency=%v) was not rejected: the record was produced to partition %d", cs.Pick, cs.N, cs.API, cs.Site, cs.Consistency, res.Partition), art)
	case res.Timeout:
		r.Violation(fmt.Sprintf("dopartition/%s/%s/stuck", cs.API, cs.Site),
			fmt.Sprintf("pick %d of n=%d (%s, %s pick, consistency=%v): the promise was not failed by doPartition, the record only timed out: %s", cs.Pick, cs.N, cs.API, cs.Site, cs.Consistency, res.Err), art)
	default:
		*rejected++
	}
}

func tail(s string, n int) string {
	if len(s) > n {
		return s[len(s)-n:]
	}
	return s
}
