// C28: partitioners pick valid, Kafka-compatible partitions.
//
// Three bounded exhaustive sweeps of the real pkg/kgo code against reference
// models written here (see oracle.go, hashers.go, stateful.go, dopartition.go).
package main

import (
	"encoding/hex"
	"encoding/json"
	"fmt"
	"os"
	"path/filepath"
	"runtime/debug"
	"strconv"
	"testing"
	"testing/synctest"
	"time"

	"verif.local/ev"
)

// seedPlan: which RNG seeds (bubble clock offsets) are explored and to which
// depth. quick: seeds 0,1 at the quick depth. thorough: seeds 0,1 at the
// thorough depth and seeds 2..5 at the quick depth.
type seedRun struct {
	Off  int  `json:"seed_offset_ns"`
	Deep bool `json:"thorough_depth"`
}

func seedPlan() []seedRun {
	if ev.Thorough() {
		return []seedRun{{0, true}, {1, true}, {2, false}, {3, false}, {4, false}, {5, false}}
	}
	return []seedRun{{0, false}, {1, false}}
}

// inBubble runs f inside a testing/synctest bubble whose clock reads
// 2000-01-01T00:00:00Z + off ns for the whole call.
func inBubble(t *testing.T, off int, f func()) {
	synctest.Test(t, func(*testing.T) {
		time.Sleep(time.Duration(off) * time.Nanosecond)
		if got := time.Now().UnixNano(); got != 946684800000000000+int64(off) {
			ev.InfraError("synctest clock reads %d, expected the fixed bubble epoch + %d", got, off)
		}
		f()
	})
}

func run(t *testing.T) {
	if msg := oracleSelfTest(); msg != "" {
		ev.InfraError("reference model self-test: %s", msg)
	}
	r := ev.New("C28", "exploration")
	r.Rule("(1) hashers: every key of length 0..2 over all bytes, every key of length 3..9 over {00,7f,80,ff}, lengths 10..17 as a fixed filler plus every {00,7f,80,ff} combination of the last 8 bytes " +
		"(thorough: also all 2^24 three-byte and all 2^32 four-byte keys), each x n in 1..64,100,1000,2^31-1, through StickyKeyPartitioner(nil), UniformBytesPartitioner(keys), KafkaHasher, SaramaCompatHasher, SaramaHasher; " +
		"plus boundary hash values (thorough: all 2^32) through the hasher wrappers around an identity hash. Compared with a transliteration of the Java client's Utils.murmur2/toPositive and Sarama's signed arithmetic. " +
		"(2) stateful partitioners: every operation sequence of the per-kind depth over {Partition/PartitionByBackup(key in nil,a,b; n in 1,2,3,5; backup vectors), OnNewBatch} on a fresh TopicPartitioner, " +
		"for each fixed RNG seed (synctest bubble clock), checked step by step against a reference model (range, key hash, stickiness while n is unchanged, manual field). " +
		"(3) doPartition: a real client against kfake with a scripted user partitioner returning -1, n, n+1, MinInt, MaxInt at the first and the post-OnNewBatch pick, both partitioner interfaces. " +
		"distinct_nontrivial counts situation classes: hasher (route,len,tail sign bits,n,hash sign), hash boundary values, stateful (kind,relation of n to the pinned partition,n,result), doPartition cases.")
	r.Assume("The Apache Kafka Java producer's keyed partition is Utils.toPositive(Utils.murmur2(key)) % numPartitions; the transliteration in oracle.go reproduces the six vectors of Kafka's UtilsTest.testMurmur2.",
		"Sarama's default hash partitioner computes int32(hash) % numPartitions and negates a negative result.",
		"The partitioners' only source of nondeterminism is math/rand seeded from time.Now() in ForTopic; seeds are fixed through the synctest bubble clock and any value in [0,n) is accepted where the RNG decides.",
		"Stickiness is demanded only while n is unchanged and no OnNewBatch happened (uniform-bytes: only with a threshold that cannot be reached).",
		"kfake on 127.0.0.1 stands in for a broker in the doPartition cases.")

	t0 := time.Now()
	runHashers(r)
	tH := time.Since(t0)

	t0 = time.Now()
	runDoPartition(r, -1)
	tD := time.Since(t0)

	t0 = time.Now()
	tot := newStatefulTotals()
	seeds := seedPlan()
	for _, sr := range seeds {
		inBubble(t, sr.Off, func() { exploreSeed(r, sr.Off, sr.Deep, tot) })
		if r.Violations() > 200 {
			break
		}
	}
	tot.publish(r, seeds)
	tS := time.Since(t0)

	r.Set("wall_s_hashers", tH.Seconds())
	r.Set("wall_s_stateful", tS.Seconds())
	r.Set("wall_s_dopartition", tD.Seconds())
	r.Set("bound_completed", map[string]any{
		"hasher_key_lengths": "0..17 (see hasher_keys_per_group)", "hasher_n": "1..64,100,1000,2147483647",
		"stateful_max_depth_per_kind": tot.depths, "stateful_seed_plan": seeds, "dopartition_cases": len(dpCases()),
	})
	r.Finish()
}

func replay(t *testing.T, path string) {
	b, err := os.ReadFile(path)
	if err != nil {
		ev.InfraError("replay: %v", err)
	}
	var v struct {
		Artefact json.RawMessage `json:"artefact"`
	}
	var part struct {
		Part string `json:"part"`
	}
	if err := json.Unmarshal(b, &v); err != nil {
		ev.InfraError("replay: %v", err)
	}
	json.Unmarshal(v.Artefact, &part)
	r := ev.New("C28-replay", "exploration")
	switch part.Part {
	case "hasher":
		var a hashArtefact
		json.Unmarshal(v.Artefact, &a)
		key, _ := hex.DecodeString(a.KeyHex)
		ok := checkOne(r, newHasherRoutes(), a.Route, key, a.N, hashWant(a.Route, key, a.N))
		fmt.Printf("replay hasher route=%s key=%x n=%d: held=%v\n", a.Route, key, a.N, ok)
	case "stateful":
		var a statefulArtefact
		json.Unmarshal(v.Artefact, &a)
		ks := kinds()
		for ki := range ks {
			if ks[ki].name != a.Kind {
				continue
			}
			k := &ks[ki]
			inBubble(t, a.SeedOffset, func() {
				ops := opsFor(k)
				results := make([]int, len(a.OpIndices))
				st := &seqStats{classes: map[uint32]struct{}{}}
				class, why, step, nres := runSeq(k, ki, k.mk(), ops, a.OpIndices, results, st)
				for i, oi := range a.OpIndices[:nres] {
					fmt.Printf("  %d: %s -> %d\n", i, ops[oi], results[i])
				}
				if class != "" {
					r.Violation("stateful/"+k.name+"/"+class, fmt.Sprintf("step %d: %s", step, why), a)
				}
				fmt.Printf("replay stateful %s: held=%v\n", k.name, class == "")
			})
		}
	case "dopartition":
		var a dpArtefact
		json.Unmarshal(v.Artefact, &a)
		runDoPartition(r, a.Case.ID)
		fmt.Printf("replay dopartition case %d: held=%v\n", a.Case.ID, r.Violations() == 0)
	default:
		ev.InfraError("replay: unknown artefact part %q", part.Part)
	}
	// the replay run records nothing: drop the artefact copies ev wrote for it
	os.RemoveAll(filepath.Join(ev.Root(), "violations", "C28-replay"))
	if r.Violations() > 0 {
		os.Exit(1)
	}
	os.Exit(0)
}

func main() {
	args := os.Args[1:]
	if len(args) == 3 && args[0] == "--dopartition-child" {
		from, _ := strconv.Atoi(args[1])
		to, _ := strconv.Atoi(args[2])
		dopartitionChild(from, to)
		return
	}
	// ForTopic allocates a 5 KB math/rand source per explored sequence and the live
	// heap is tiny: let the collector run per GiB of garbage instead of per 4 MB.
	debug.SetGCPercent(-1)
	debug.SetMemoryLimit(1 << 30)
	replayPath := ""
	if len(args) == 2 && args[0] == "--replay" {
		replayPath = args[1]
	} else if len(args) != 0 {
		fmt.Fprintln(os.Stderr, "usage: c28 [--replay <violation.json>]")
		os.Exit(2)
	}
	// testing/synctest needs a *testing.T; testing.Main provides one outside `go test`.
	os.Args = os.Args[:1]
	self, _ := os.Executable()
	if self != "" {
		os.Args[0] = self
	}
	testing.Main(func(string, string) (bool, error) { return true, nil },
		[]testing.InternalTest{{Name: "C28", F: func(t *testing.T) {
			if replayPath != "" {
				replay(t, replayPath)
			}
			run(t)
		}}}, nil, nil)
	// run() exits through ev.Finish; reaching here means the test function aborted.
	os.Exit(2)
}
