#!/bin/bash
set -eu
cd "$(dirname "$0")/../.."
. bin/env.sh
go test -c -tags synctests,verif -o "$BUILD/c40.test" ./checks/c40
exec "$BUILD/c40.test" -test.run '^TestC40$' -test.timeout 0
