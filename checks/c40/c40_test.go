package c40

import (
	"context"
	"errors"
	"fmt"
	"strconv"
	"strings"
	"sync"
	"time"

	"github.com/twmb/franz-go/pkg/kadm"
	"github.com/twmb/franz-go/pkg/kfake"
	"github.com/twmb/franz-go/pkg/kgo"

	"verif/lib/netctl"
	"verif/lib/nscen"
)

// One execution: a fresh 1-broker cluster, topic t / partition 0 shaped by
// uncontrolled helper clients (produce, DeleteRecords, open transaction,
// commit), then ONE controlled consumer whose first returned record is
// compared with the reference model of cfg_test.go.

const (
	topic = "t"
	group = "g"
)

type state struct {
	cfg cfgT
	exp expectation

	c    *kfake.Cluster
	cl   *kgo.Client // controlled consumer
	h    *kgo.Client // helper producer / admin
	txh  *kgo.Client // helper transactional producer (open transaction)
	txOn bool

	mu       sync.Mutex
	first    *kgo.Record
	polled   []int64 // offsets of the first non-empty poll
	errs     []string
	dataLoss int
	other    []string // topic/partition other than t/0
}

func scenarioFor(cfg cfgT) *netctl.Scenario {
	return &netctl.Scenario{
		Name:      fmt.Sprintf("cfg-%d", cfg.N),
		Horizon:   3 * time.Minute,
		MaxPoints: 400,
		Setup:     func(x *netctl.Exec) { setup(x, cfg) },
		Final:     final,
	}
}

func scenarioByName(name string) *netctl.Scenario {
	n, err := strconv.Atoi(strings.TrimPrefix(name, "cfg-"))
	if err != nil || !strings.HasPrefix(name, "cfg-") || n < 0 || n >= len(allCfgs) {
		return nil
	}
	return scenarioFor(allCfgs[n])
}

func rec(ts int64, v string) *kgo.Record {
	return &kgo.Record{Topic: topic, Partition: 0, Timestamp: time.UnixMilli(ts), Value: []byte(v)}
}

func setup(x *netctl.Exec, cfg cfgT) {
	st := &state{cfg: cfg, exp: cfg.expect()}
	x.Data = st
	c := x.Cluster(1, kfake.SeedTopics(1, topic))
	st.c = c
	ctx, cancel := context.WithTimeout(context.Background(), 2*time.Minute)
	defer cancel()
	bad := func(format string, a ...any) {
		x.Violate("harness:setup", format, a...)
	}

	// ---- shape the log (helpers dial kfake directly, not through the proxy)
	hopts := []kgo.Opt{kgo.RecordPartitioner(kgo.ManualPartitioner()), kgo.ProducerLinger(0)}
	if cfg.Layout == 1 {
		hopts[1] = kgo.ProducerLinger(50 * time.Millisecond) // everything handed in at one instant forms one batch
	}
	st.h = nscen.Helper(x, c, hopts...)
	x.OnCleanup(st.h.Close)
	var pre []*kgo.Record
	for i := int64(0); i < cfg.Start; i++ {
		pre = append(pre, rec(1+i, fmt.Sprintf("pre%d", i)))
	}
	data := []*kgo.Record{rec(10, "d0"), rec(20, "d1")}
	if !cfg.Txn {
		data = append(data, rec(20, "d2"), rec(30, "d3"))
	}
	all := append(pre, data...)
	if cfg.Layout == 1 {
		if err := st.h.ProduceSync(ctx, all...).FirstErr(); err != nil {
			bad("produce: %v", err)
			return
		}
	} else {
		for _, r := range all {
			if err := st.h.ProduceSync(ctx, r).FirstErr(); err != nil {
				bad("produce: %v", err)
				return
			}
		}
	}
	if cfg.Txn {
		st.txh = nscen.Helper(x, c, kgo.RecordPartitioner(kgo.ManualPartitioner()), kgo.TransactionalID("c40-open"), kgo.TransactionTimeout(14*time.Minute))
		x.OnCleanup(st.txh.Close)
		if err := st.txh.BeginTransaction(); err != nil {
			bad("begin: %v", err)
			return
		}
		for _, r := range []*kgo.Record{rec(20, "d2"), rec(30, "d3")} {
			if err := st.txh.ProduceSync(ctx, r).FirstErr(); err != nil {
				bad("txn produce: %v", err)
				return
			}
		}
		st.txOn = true
	}
	adm := kadm.NewClient(st.h)
	if cfg.Start > 0 {
		var os kadm.Offsets
		os.AddOffset(topic, 0, cfg.Start, -1)
		resp, err := adm.DeleteRecords(ctx, os)
		if err == nil {
			err = resp.Error()
		}
		if err != nil {
			bad("DeleteRecords: %v", err)
			return
		}
	}
	if cfg.Commit >= 0 {
		var os kadm.Offsets
		os.AddOffset(topic, 0, cfg.Commit, cfg.CommitEpoch)
		resp, err := adm.CommitOffsets(ctx, group, os)
		if err == nil {
			err = resp.Error()
		}
		if err != nil {
			bad("CommitOffsets: %v", err)
			return
		}
	}
	if pi := c.PartitionInfo(topic, 0); pi == nil || pi.LogStartOffset != cfg.Start || pi.HighWatermark != cfg.hwm() || pi.LastStableOffset != cfg.lso() {
		bad("log shape is %+v, wanted start=%d hwm=%d lso=%d", pi, cfg.Start, cfg.hwm(), cfg.lso())
		return
	}

	// ---- the controlled consumer
	off := cfg.Off.build()
	opts := []kgo.Opt{kgo.FetchMaxWait(5 * time.Second)}
	if cfg.RC {
		opts = append(opts, kgo.FetchIsolationLevel(kgo.ReadCommitted()))
	}
	switch cfg.Mode {
	case "DP":
		opts = append(opts, kgo.ConsumePartitions(map[string]map[int32]kgo.Offset{topic: {0: off}}))
	case "DPR":
		opts = append(opts, kgo.ConsumePartitions(map[string]map[int32]kgo.Offset{topic: {0: off}}), kgo.ConsumeResetOffset(off))
	case "DT":
		opts = append(opts, kgo.ConsumeTopics(topic), kgo.ConsumeStartOffset(off))
	case "GS":
		opts = append(opts, kgo.ConsumerGroup(group), kgo.ConsumeTopics(topic), kgo.DisableAutoCommit(), kgo.ConsumeStartOffset(off))
	case "GR":
		opts = append(opts, kgo.ConsumerGroup(group), kgo.ConsumeTopics(topic), kgo.DisableAutoCommit(), kgo.ConsumeResetOffset(off))
	}
	st.cl = nscen.NewClient(x, "c", c, opts...)

	x.Thread("A", func(t *netctl.Thread) {
		t.Step("poll")
		// Short: in the default order resolution takes no virtual time. If the
		// schedule delays it, Final keeps polling; the verdict does not depend
		// on which poll returns the first record.
		st.pollUntilFirst(3 * time.Second)
	})
}

// pollUntilFirst polls until the first record arrives or d elapsed.
func (st *state) pollUntilFirst(d time.Duration) {
	if st.first != nil {
		return
	}
	ctx, cancel := context.WithTimeout(context.Background(), d)
	defer cancel()
	for ctx.Err() == nil {
		fs := st.cl.PollFetches(ctx)
		st.mu.Lock()
		for _, fe := range fs.Errors() {
			var dl *kgo.ErrDataLoss
			switch {
			case errors.Is(fe.Err, context.DeadlineExceeded), errors.Is(fe.Err, context.Canceled):
			case errors.As(fe.Err, &dl):
				st.dataLoss++
			default:
				st.errs = append(st.errs, fe.Err.Error())
			}
		}
		fs.EachRecord(func(r *kgo.Record) {
			if r.Topic != topic || r.Partition != 0 {
				st.other = append(st.other, fmt.Sprintf("%s/%d", r.Topic, r.Partition))
				return
			}
			if st.first == nil {
				st.first = r
			}
			st.polled = append(st.polled, r.Offset)
		})
		got := st.first != nil
		st.mu.Unlock()
		if got {
			return
		}
		if len(fs.Errors()) > 0 {
			// A partition in an error state answers every poll at once; do not
			// turn that into a zero-virtual-time spin of the harness.
			time.Sleep(250 * time.Millisecond)
		}
	}
}

func final(x *netctl.Exec) {
	st := x.Data.(*state)
	cfg, exp := st.cfg, st.exp
	if st.cl == nil {
		return // setup failed (already reported)
	}
	ctx, cancel := context.WithTimeout(context.Background(), 2*time.Minute)
	defer cancel()
	steps := ""
	if st.first == nil {
		// Let an offset resolution that the schedule delayed finish in the
		// now well-behaved environment, BEFORE the log changes (the
		// expectation is stated against the log as it is now).
		st.pollUntilFirst(10 * time.Second)
	}
	if st.first == nil {
		if pi := st.c.PartitionInfo(topic, 0); pi == nil || pi.LogStartOffset != cfg.Start || pi.HighWatermark != cfg.hwm() || pi.LastStableOffset != cfg.lso() {
			x.Violate("harness:log-moved", "log shape changed before the unblock step: %+v", pi)
		}
		if cfg.RC && st.txOn {
			// The end is the LSO: committing makes the records at it visible.
			if err := st.txh.EndTransaction(ctx, kgo.TryCommit); err != nil {
				x.Violate("harness:commit", "EndTransaction: %v", err)
			}
			st.txOn = false
			steps += "+commit"
			st.pollUntilFirst(15 * time.Second)
		}
	}
	if st.first == nil {
		if err := st.h.ProduceSync(ctx, rec(40, "extra")).FirstErr(); err != nil {
			x.Violate("harness:extra", "produce extra: %v", err)
		}
		steps += "+extra"
		st.pollUntilFirst(60 * time.Second)
	}

	// The data records a consumer of this isolation level can see now.
	raw := nscen.ReadRaw(x, st.c, topic, 0)
	vis := raw
	if cfg.RC {
		vis, _ = nscen.Committed(raw)
	}
	firstAtOrAfter := func(a int64) int64 {
		for _, r := range vis {
			if !r.Control && r.Offset >= a {
				return r.Offset
			}
		}
		return -1
	}

	st.mu.Lock()
	defer st.mu.Unlock()
	if len(st.other) > 0 {
		x.Violate("foreign-partition", "%s: records of %v returned", cfg, st.other)
	}
	got := int64(-1)
	if st.first != nil {
		got = st.first.Offset
	}
	switch {
	case exp.Fatal:
		if st.first != nil {
			x.Violate("fatal-but-consumed", "%s: expected a fatal partition (%s) but offset %d was returned", cfg, exp.Why, got)
		}
		found := false
		for _, e := range st.errs {
			if strings.Contains(e, exp.FatalErr) {
				found = true
			}
		}
		if !found {
			x.Violate("fatal-no-error", "%s: expected an error containing %q from PollFetches (%s); errors seen: %v", cfg, exp.FatalErr, exp.Why, st.errs)
		}
	default:
		if len(st.errs) > 0 {
			x.Violate("unexpected-error", "%s: PollFetches returned errors %v", cfg, st.errs)
		}
		if st.dataLoss > 0 && !exp.DataLoss {
			x.Violate("unexpected-data-loss", "%s: ErrDataLoss surfaced %d times", cfg, st.dataLoss)
		}
		if st.first == nil {
			x.Violate("missing", "%s: no record returned (expected first offset in %v: %s) after unblock steps %q and 60 virtual seconds", cfg, exp.Accept, exp.Why, steps)
			break
		}
		ok := false
		var want []int64
		for _, a := range exp.Accept {
			w := firstAtOrAfter(a)
			want = append(want, w)
			if w == got {
				ok = true
			}
		}
		if !ok {
			x.Violate("wrong-first-offset", "%s: first returned record is at offset %d; the reference gives position %v (%s), i.e. first visible record at %v (log start=%d hwm=%d lso=%d; unblock steps %q)", cfg, got, exp.Accept, exp.Why, want, cfg.Start, cfg.hwm(), cfg.lso(), steps)
		}
		for i := 1; i < len(st.polled); i++ {
			if st.polled[i] <= st.polled[i-1] {
				x.Violate("poll-order", "%s: offsets of the first poll not ascending: %v", cfg, st.polled)
				break
			}
		}
	}
	rel := "fatal"
	if st.first != nil {
		rel = fmt.Sprintf("start%+d", got-cfg.Start)
	}
	x.Observe("first=%s%s dl=%d", rel, steps, st.dataLoss)
}
