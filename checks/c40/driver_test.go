package c40

import (
	"bufio"
	"encoding/json"
	"fmt"
	"io"
	"os"
	"os/exec"
	"sort"
	"strings"
	"sync"
	"testing"
	"time"

	"verif.local/ev"

	"verif/lib/explore"
	"verif/lib/netctl"
)

// The driver. nrun's one-Explore-per-plan structure starts fresh worker
// processes per scenario (about 50 ms of CPU each, against 6 ms for one
// execution), which is too heavy for thousands of one-execution scenarios. So
// one pool of persistent worker subprocesses speaking explore's line protocol
// serves all phases: phase 1 sweeps the table in the default order (k=0),
// phases 2 and 3 call explore.Explore with Run = pool.run (k=1 / k=2).

func workerCmd() *exec.Cmd {
	cmd := exec.Command(os.Args[0], "-test.run", "^TestC40$", "-test.timeout", "0")
	cmd.Env = append(os.Environ(), "VERIF_WORKER=1", "GOMAXPROCS=1")
	cmd.Stderr = os.Stderr
	return cmd
}

func runJob(t *testing.T, job explore.Job) explore.Result {
	sc := scenarioByName(job.Scenario)
	if sc == nil {
		return explore.Result{Crash: "unknown scenario " + job.Scenario}
	}
	res := netctl.Run(t, sc, job)
	for try := 0; res.Diverged && try < 2; try++ {
		res = netctl.Run(t, sc, job)
	}
	return res
}

type proc struct {
	cmd *exec.Cmd
	in  io.WriteCloser
	out *bufio.Reader
	rf  *os.File
}

func startProc() (*proc, error) {
	cmd := workerCmd()
	rf, wf, err := os.Pipe()
	if err != nil {
		return nil, err
	}
	cmd.ExtraFiles = []*os.File{wf}
	in, err := cmd.StdinPipe()
	if err != nil {
		return nil, err
	}
	if err := cmd.Start(); err != nil {
		return nil, err
	}
	wf.Close()
	return &proc{cmd: cmd, in: in, out: bufio.NewReaderSize(rf, 1<<20), rf: rf}, nil
}

func (p *proc) kill() {
	p.in.Close()
	p.cmd.Process.Kill()
	p.cmd.Wait()
	p.rf.Close()
}

// run sends one job; ok=false means the process must be replaced.
func (p *proc) run(job explore.Job, timeout time.Duration) (res explore.Result, ok bool) {
	b, _ := json.Marshal(job)
	b = append(b, '\n')
	type rr struct {
		line []byte
		err  error
	}
	ch := make(chan rr, 1)
	go func() {
		if _, err := p.in.Write(b); err != nil {
			ch <- rr{nil, err}
			return
		}
		line, err := p.out.ReadBytes('\n')
		ch <- rr{line, err}
	}()
	select {
	case r := <-ch:
		if r.err != nil {
			return explore.Result{Crash: fmt.Sprintf("worker died: %v", r.err)}, false
		}
		if err := json.Unmarshal(r.line, &res); err != nil {
			return explore.Result{Crash: fmt.Sprintf("bad worker reply: %v", err)}, false
		}
		return res, !res.Retire
	case <-time.After(timeout):
		p.kill()
		<-ch
		return explore.Result{Capped: true, Obs: "job-timeout", Crash: "job timeout"}, false
	}
}

// pool is a set of persistent worker subprocesses shared by both phases.
type pool struct {
	free chan *proc // nil entries stand for workers not started yet
}

func newPool(n int) *pool {
	p := &pool{free: make(chan *proc, n)}
	for i := 0; i < n; i++ {
		p.free <- nil
	}
	return p
}

func (pl *pool) run(job explore.Job) explore.Result {
	p := <-pl.free
	if p == nil {
		var err error
		if p, err = startProc(); err != nil {
			ev.InfraError("cannot start worker: %v", err)
		}
	}
	res, ok := p.run(job, 3*time.Minute)
	if !ok {
		if res.Crash != "job timeout" {
			p.kill()
		} else {
			// No verdict: the execution did not finish in 3 real minutes (the
			// bubble's virtual clock stopped advancing). Reported, never silent.
			res.Crash = ""
			res.Diverged = true
			res.Viol = append(res.Viol, explore.Violation{Key: "exec-hang", What: "execution did not finish within 3 real minutes (virtual time not advancing)"})
		}
		p = nil
	}
	pl.free <- p
	return res
}

func (pl *pool) close() {
	for i := 0; i < cap(pl.free); i++ {
		if p := <-pl.free; p != nil {
			p.in.Close()
			p.cmd.Wait()
			p.rf.Close()
		}
	}
}

// sweep runs the default-order execution (k=0) of every listed configuration.
func sweep(pl *pool, cfgs []int, workers int, deadline time.Time, on func(n int, res explore.Result)) (done int) {
	var mu sync.Mutex
	next := 0
	var wg sync.WaitGroup
	for w := 0; w < workers; w++ {
		wg.Add(1)
		go func() {
			defer wg.Done()
			for {
				mu.Lock()
				if next >= len(cfgs) || time.Now().After(deadline) {
					mu.Unlock()
					return
				}
				n := cfgs[next]
				next++
				mu.Unlock()
				res := pl.run(explore.Job{Scenario: fmt.Sprintf("cfg-%d", n)})
				mu.Lock()
				done++
				on(n, res)
				mu.Unlock()
			}
		}()
	}
	wg.Wait()
	return done
}

// quickSubset is the deterministic subset of the table the quick tier runs:
// every configuration whose index is ≡ 0 (mod quickStride), plus every
// representative (so each mode × family × log shape class appears).
const quickStride = 2

// representatives picks ~30 configurations for the k=1 phase: for each mode a
// few Offset families on the richest log (start=2, open transaction), both
// isolation levels.
func representatives() []int {
	want := func(c cfgT) bool {
		if c.Start != 2 || !c.Txn || c.Layout != 0 {
			return false
		}
		o := c.Off
		switch c.Mode {
		case "DP":
			return (o.Kind == "at" && o.X == 7 && o.R == 0) || // beyond the end
				(o.Kind == "at" && o.X == 0 && o.R == 1 && o.Epoch < 0) || // below the start
				(o.Kind == "at" && o.X == 3 && o.R == 0 && o.Epoch == 0) || // in range, epoch validation
				(o.Kind == "start" && o.R == 1 && o.Epoch < 0) ||
				(o.Kind == "end" && o.R == -1 && o.Epoch < 0) ||
				(o.Kind == "end" && o.R == 0 && o.Epoch < 0) ||
				(o.Kind == "milli" && (o.X == 20 || o.X == 35))
		case "DPR":
			return o.Kind == "at" && o.R == 0 && o.Epoch < 0 && (o.X == 0 || o.X == 8)
		case "DT":
			return (o.Kind == "at" && o.X == 8 && o.R == -1 && o.Epoch < 0) || (o.Kind == "end" && o.R == -3 && o.Epoch < 0)
		case "GS":
			return (c.Commit < 0 && (o.Kind == "committed" || (o.Kind == "end" && o.R == -1))) ||
				(c.Commit == 3 && c.CommitEpoch == 0 && o.Kind == "committed") ||
				(c.Commit == 0 && o.Kind == "milli")
		case "GR":
			return c.Commit == 3 && c.CommitEpoch < 0 && o.Kind == "end" && o.R == 0
		}
		return false
	}
	var out []int
	for _, c := range allCfgs {
		if want(c) {
			out = append(out, c.N)
		}
	}
	return out
}

func TestC40(t *testing.T) {
	if explore.IsWorker() {
		explore.ServeWorker(func(job explore.Job) explore.Result { return runJob(t, job) })
		return
	}
	if p := os.Getenv("VERIF_REPLAY"); p != "" {
		replay(t, p)
		return
	}
	if os.Getenv("VERIF_LIST") != "" {
		for _, c := range allCfgs {
			fmt.Printf("%s  expect=%+v\n", c, c.expect())
		}
		return
	}
	r := ev.New("C40", "model_checking")
	r.Rule("engine N, configurations enumerated: every (log shape: start 0 or 2 after DeleteRecords, 4 records with timestamps 10,20,20,30, open transaction from start+2 or none, per-record or single-batch layout) × (isolation level) × (consumer mode: ConsumePartitions, ConsumePartitions+ConsumeResetOffset, ConsumeTopics+ConsumeStartOffset, group with ConsumeStartOffset / ConsumeResetOffset and 0 or 1 prior commit with/without epoch) × (Offset value: At(x) x∈[start-2,start+6] with Relative(r) r∈[-3,3], AtStart().Relative(0..6), AtEnd().Relative(0..-6), each with and without WithEpoch(0), AfterMilli(5..35), AtCommitted) run once in the default event order on the real client and kfake; deviations (frame delivered out of arrival order across connections, timer tick before a pending frame): every single deviation of the default order on 36 representative configurations (quick) or on every configuration (thorough), every pair of deviations on the representatives (thorough); distinct = (configuration class, observed first offset relative to the log start, unblock steps) pairs")
	r.Assume("kfake is the broker (its ListOffsets/Fetch/OffsetForLeaderEpoch/DeleteRecords/transaction handling is part of the tree under test)",
		"synctests build of xsync; virtual time",
		"offset resolution in a fault-free environment finishes within 10 virtual seconds once frames flow freely (liveness bound of the oracle)",
		"where the doc comments and the statement disagree (exact offset above the LSO under read_committed; ConsumePartitions with an out-of-range exact offset and the default reset offset) both documented outcomes are accepted; the outcome seen is part of the observation")

	total := 75 * time.Second
	if ev.Thorough() {
		total = 16 * time.Minute
	}
	begin := time.Now()
	reps := representatives()
	isRep := map[int]bool{}
	for _, n := range reps {
		isRep[n] = true
	}
	var sel []int
	for _, c := range allCfgs {
		if ev.Thorough() || c.N%quickStride == 0 || isRep[c.N] {
			sel = append(sel, c.N)
		}
	}
	if only := os.Getenv("VERIF_SCENARIO"); only != "" {
		sel = sel[:0]
		for _, c := range allCfgs {
			if fmt.Sprintf("cfg-%d", c.N) == only {
				sel = append(sel, c.N)
			}
		}
		reps = sel
	}

	nviol := 0
	outcomes := map[string]map[string]int{} // mode -> outcome -> count
	lenient := map[string]int{}
	var samples []any
	var repMu sync.Mutex
	perKey := map[string]int{}
	report := func(scen string, job explore.Job, res explore.Result) {
		repMu.Lock()
		defer repMu.Unlock()
		r.Evals(1)
		r.Traces(1)
		r.States(int64(len(res.Points)) + 1)
		r.Transitions(int64(res.Steps))
		if res.Crash != "" {
			res.Viol = append(res.Viol, explore.Violation{Key: "worker-crash", What: res.Crash})
		}
		for _, v := range res.Viol {
			cls := "?"
			if sc := scenarioByName(scen); sc != nil {
				var n int
				fmt.Sscanf(scen, "cfg-%d", &n)
				c := allCfgs[n]
				cls = c.Mode + "/" + c.Off.Kind
				if c.Layout == 1 {
					cls += "/onebatch"
				}
			}
			key := "C40:" + cls + ":" + v.Key
			if perKey[key]++; perKey[key] <= 8 { // a few artefacts per class; every one is counted below
				r.Violation(key, fmt.Sprintf("scenario %s, deviations %v: %s", scen, job.Kinds, v.What),
					map[string]any{"check": "C40", "scenario": scen, "prefix": job.Prefix, "labels": job.Labels, "violation": v})
			}
			nviol++
		}
	}

	// ---- phase 1: default order over the table
	p1deadline := begin.Add(total * 6 / 10)
	if ev.Thorough() {
		p1deadline = begin.Add(total / 2)
	}
	p1start := time.Now()
	pl := newPool(ev.Workers())
	done := sweep(pl, sel, ev.Workers(), p1deadline, func(n int, res explore.Result) {
		c := allCfgs[n]
		report(fmt.Sprintf("cfg-%d", n), explore.Job{}, res)
		r.Distinct(c.class() + "|" + res.Obs)
		if outcomes[c.Mode] == nil {
			outcomes[c.Mode] = map[string]int{}
		}
		outcomes[c.Mode][res.Obs]++
		if e := c.expect(); len(e.Accept) > 1 {
			lenient[c.Mode+": "+e.Why+" -> "+res.Obs]++
		}
		if len(samples) < 6 && n%397 == 0 {
			samples = append(samples, map[string]any{"configuration": c.String(), "expectation": c.expect(), "obs": res.Obs, "points": len(res.Points)})
		}
	})
	fmt.Printf("  phase 1 (k=0): %d of %d selected configurations (table size %d) in %.1fs\n", done, len(sel), len(allCfgs), time.Since(p1start).Seconds())
	if done < len(sel) {
		r.NotExhaustive(fmt.Sprintf("phase 1: time slice ended after %d of %d selected configurations", done, len(sel)))
	}
	for _, s := range samples {
		r.Sample(s)
	}
	r.Set("table_size", len(allCfgs))
	r.Set("phase1_selected", len(sel))
	r.Set("phase1_completed", done)
	if !ev.Thorough() {
		r.Set("phase1_subset", fmt.Sprintf("configurations with index ≡ 0 (mod %d) of the fixed enumeration order, plus the %d k=1 representatives", quickStride, len(reps)))
	}
	r.Set("phase1_outcomes_per_mode", outcomes)
	r.Set("doc_vs_statement_cases", lenient)

	// ---- phase 2: k=1 on the representatives
	p2 := map[string]any{}
	k := 1
	if ev.Thorough() {
		k = 2
	}
	p2start := time.Now()
	var p2execs int64
	completed := 0
	for i, n := range reps {
		remain := time.Until(begin.Add(total))
		if remain <= 0 {
			break
		}
		slice := remain / time.Duration(len(reps)-i)
		name := fmt.Sprintf("cfg-%d", n)
		c := allCfgs[n]
		obs := map[string]struct{}{}
		st := explore.Explore(explore.Config{
			Scenario: name, Budget: k, Workers: ev.Workers(), Deadline: time.Now().Add(slice),
			Run: pl.run,
			OnResult: func(job explore.Job, res explore.Result) {
				report(name, job, res)
				r.Distinct("k1|" + c.class() + "|" + res.Obs)
				obs[res.Obs] = struct{}{}
				if os.Getenv("VERIF_VERBOSE") != "" && (res.Capped || res.Diverged || res.Crash != "") {
					b, _ := json.Marshal(job)
					fmt.Printf("    capped=%v diverged=%v crash=%q obs=%s job=%s\n", res.Capped, res.Diverged, res.Crash, res.Obs, b)
				}
			},
		})
		p2execs += st.Execs
		var ol []string
		for o := range obs {
			ol = append(ol, o)
		}
		sort.Strings(ol)
		p2[name] = map[string]any{"configuration": c.String(), "bound_completed": st.LevelCompleted, "executions": st.Execs, "decision_points": st.Points,
			"outcomes": ol, "diverged": st.Diverged, "capped": st.Capped, "cut_by_time": st.Cut}
		if st.Cut {
			r.NotExhaustive(fmt.Sprintf("%s: level %d cut by time", name, st.LevelCompleted+1))
		} else {
			completed++
		}
		if st.Diverged > 0 {
			r.NotExhaustive(fmt.Sprintf("%s: %d replayed prefixes diverged", name, st.Diverged))
		}
		if os.Getenv("VERIF_VERBOSE") != "" {
			fmt.Printf("  %-10s k<=%d completed=%d execs=%d points=%d outcomes=%v diverged=%d capped=%d cut=%v  %s\n", name, k, st.LevelCompleted, st.Execs, st.Points, ol, st.Diverged, st.Capped, st.Cut, c)
		}
	}
	if completed < len(reps) {
		r.NotExhaustive(fmt.Sprintf("phase 2: k=%d completed on %d of %d representative configurations", k, completed, len(reps)))
	}
	fmt.Printf("  phase 2 (k=%d): %d of %d representative configurations completed, %d executions in %.1fs\n", k, completed, len(reps), p2execs, time.Since(p2start).Seconds())
	// ---- phase 3 (thorough): k=1 on EVERY configuration, configurations in parallel
	if ev.Thorough() {
		p3start := time.Now()
		var mu sync.Mutex
		next, p3done, p3cut, p3div := 0, 0, 0, int64(0)
		var p3execs int64
		var wg sync.WaitGroup
		for w := 0; w < ev.Workers(); w++ {
			wg.Add(1)
			go func() {
				defer wg.Done()
				for {
					mu.Lock()
					if next >= len(sel) || time.Now().After(begin.Add(total)) {
						mu.Unlock()
						return
					}
					n := sel[next]
					next++
					mu.Unlock()
					name := fmt.Sprintf("cfg-%d", n)
					c := allCfgs[n]
					st := explore.Explore(explore.Config{
						Scenario: name, Budget: 1, Workers: 1, Deadline: begin.Add(total), Run: pl.run,
						OnResult: func(job explore.Job, res explore.Result) {
							report(name, job, res)
							r.Distinct("k1|" + c.class() + "|" + res.Obs)
						},
					})
					mu.Lock()
					p3execs += st.Execs
					p3div += st.Diverged
					if st.Cut {
						p3cut++
					} else {
						p3done++
					}
					mu.Unlock()
				}
			}()
		}
		wg.Wait()
		fmt.Printf("  phase 3 (k=1, all configurations): %d of %d completed, %d executions, %d diverged in %.1fs\n", p3done, len(sel), p3execs, p3div, time.Since(p3start).Seconds())
		if p3done < len(sel) {
			r.NotExhaustive(fmt.Sprintf("phase 3: k=1 completed on %d of %d configurations (time)", p3done, len(sel)))
		}
		if p3div > 0 {
			r.NotExhaustive(fmt.Sprintf("phase 3: %d replayed prefixes diverged", p3div))
		}
		r.Set("phase3_k1_all", map[string]any{"configurations_completed": p3done, "configurations": len(sel), "executions": p3execs, "diverged": p3div, "cut_by_time": p3cut})
	}
	r.Set("phase2_k", k)
	r.Set("phase2", p2)
	r.Set("phase2_completed", completed)
	r.Set("violations_per_class", perKey)
	r.Set("violations_observed", nviol)
	r.Set("bound_completed", map[string]any{"k0_configurations": done, fmt.Sprintf("k%d_representatives", k): completed})
	pl.close()
	os.Exit(r.Write())
}

// replay re-runs one violation artefact in-process with debug output.
func replay(t *testing.T, path string) {
	b, err := os.ReadFile(path)
	if err != nil {
		t.Fatal(err)
	}
	var a struct {
		Artefact struct {
			Scenario string   `json:"scenario"`
			Prefix   []int    `json:"prefix"`
			Labels   []string `json:"labels"`
		} `json:"artefact"`
	}
	if err := json.Unmarshal(b, &a); err != nil {
		t.Fatal(err)
	}
	sc := scenarioByName(a.Artefact.Scenario)
	if sc == nil {
		t.Fatalf("unknown scenario %q", a.Artefact.Scenario)
	}
	res := netctl.Run(t, sc, explore.Job{Scenario: sc.Name, Prefix: a.Artefact.Prefix, Labels: a.Artefact.Labels})
	var lab []string
	for _, pt := range res.Points {
		lab = append(lab, pt.Labels[pt.Chosen])
	}
	var n int
	fmt.Sscanf(sc.Name, "cfg-%d", &n)
	fmt.Printf("replay %s\nexpectation: %+v\npoints=%d diverged=%v\nschedule: %s\nobs: %s\n", allCfgs[n], allCfgs[n].expect(), len(res.Points), res.Diverged, strings.Join(lab, " "), res.Obs)
	for _, v := range res.Viol {
		fmt.Printf("VIOLATION-REPLAYED %s: %s\n", v.Key, v.What)
	}
	if len(res.Viol) > 0 {
		os.Exit(1)
	}
	os.Exit(0)
}
