package c40

import (
	"fmt"
	"sort"

	"github.com/twmb/franz-go/pkg/kgo"
)

// ---------------------------------------------------------------------------
// Configuration space (DESIGN.md §4 C40). One configuration = one log shape,
// one consumer mode, one Offset value (and, for group modes, one prior commit).
// Configurations are enumerated once, in a fixed order; the index is carried in
// the scenario name ("cfg-<n>") so that a worker subprocess can rebuild the
// scenario from the job alone.

type offSpec struct {
	Kind  string `json:"kind"` // at | start | end | milli | committed
	X     int64  `json:"x"`    // at: the offset; milli: the timestamp
	R     int64  `json:"r"`    // Relative(R) (at/start/end)
	Epoch int32  `json:"epoch"` // -1: WithEpoch not called
}

func (o offSpec) String() string {
	s := ""
	switch o.Kind {
	case "at":
		s = fmt.Sprintf("At(%d)", o.X)
	case "start":
		s = "AtStart()"
	case "end":
		s = "AtEnd()"
	case "milli":
		return fmt.Sprintf("AfterMilli(%d)", o.X)
	case "committed":
		return "AtCommitted()"
	}
	if o.R != 0 || o.Kind != "at" {
		s += fmt.Sprintf(".Relative(%d)", o.R)
	}
	if o.Epoch >= 0 {
		s += fmt.Sprintf(".WithEpoch(%d)", o.Epoch)
	}
	return s
}

// build turns the spec into the kgo.Offset exactly as a user would write it.
func (o offSpec) build() kgo.Offset {
	off := kgo.NewOffset()
	switch o.Kind {
	case "at":
		off = off.At(o.X)
		if o.R != 0 {
			off = off.Relative(o.R)
		}
	case "start":
		off = off.AtStart().Relative(o.R)
	case "end":
		off = off.AtEnd().Relative(o.R)
	case "milli":
		return off.AfterMilli(o.X)
	case "committed":
		return off.AtCommitted()
	}
	if o.Epoch >= 0 {
		off = off.WithEpoch(o.Epoch)
	}
	return off
}

type cfgT struct {
	N      int    `json:"n"`
	Start  int64  `json:"log_start"` // 0, or 2 (DeleteRecords after producing)
	Txn    bool   `json:"open_txn"`  // open transaction from Start+2
	RC     bool   `json:"read_committed"`
	Layout int    `json:"layout"` // 0: one batch per record; 1: all non-transactional records in one batch
	Mode   string `json:"mode"`   // DP | DPR | DT | GS | GR
	Off    offSpec `json:"offset"`
	// Group modes only: a commit made by a helper before the consumer starts.
	Commit      int64 `json:"commit"` // -1: none
	CommitEpoch int32 `json:"commit_epoch"`
}

// Modes:
//   DP   kgo.ConsumePartitions({t:{0:off}})                                   (direct)
//   DPR  kgo.ConsumePartitions({t:{0:off}}) + kgo.ConsumeResetOffset(off)     (direct)
//   DT   kgo.ConsumeTopics(t) + kgo.ConsumeStartOffset(off)                   (direct)
//   GS   kgo.ConsumerGroup(g) + kgo.ConsumeTopics(t) + kgo.ConsumeStartOffset(off)
//   GR   kgo.ConsumerGroup(g) + kgo.ConsumeTopics(t) + kgo.ConsumeResetOffset(off)

func (c cfgT) String() string {
	s := fmt.Sprintf("cfg-%d log[start=%d txn=%v layout=%d] rc=%v mode=%s off=%s", c.N, c.Start, c.Txn, c.Layout, c.RC, c.Mode, c.Off)
	if c.Mode == "GS" || c.Mode == "GR" {
		if c.Commit >= 0 {
			s += fmt.Sprintf(" commit=%d/e%d", c.Commit, c.CommitEpoch)
		} else {
			s += " commit=none"
		}
	}
	return s
}

// class is the family a configuration belongs to (evidence: distinct classes ×
// distinct outcomes).
func (c cfgT) class() string {
	ep := ""
	if c.Off.Epoch >= 0 {
		ep = "+epoch"
	}
	cm := ""
	if c.Mode[0] == 'G' {
		switch {
		case c.Commit < 0:
			cm = "/nocommit"
		case c.CommitEpoch >= 0:
			cm = "/commit+epoch"
		default:
			cm = "/commit"
		}
	}
	return fmt.Sprintf("%s%s/%s%s/start%d/txn%v/rc%v/layout%d", c.Mode, cm, c.Off.Kind, ep, c.Start, c.Txn, c.RC, c.Layout)
}

func (c cfgT) hwm() int64 { return c.Start + 4 }
func (c cfgT) lso() int64 {
	if c.Txn {
		return c.Start + 2
	}
	return c.Start + 4
}

// tsOf is the timestamp of the record at offset o (Start <= o < hwm).
func (c cfgT) tsOf(o int64) int64 { return []int64{10, 20, 20, 30}[o-c.Start] }

func offsetFamily(start int64) []offSpec {
	var out []offSpec
	for _, ep := range []int32{-1, 0} {
		for x := start - 2; x <= start+6; x++ {
			for r := int64(-3); r <= 3; r++ {
				out = append(out, offSpec{Kind: "at", X: x, R: r, Epoch: ep})
			}
		}
		for n := int64(0); n <= 6; n++ {
			out = append(out, offSpec{Kind: "start", R: n, Epoch: ep})
		}
		for n := int64(0); n <= 6; n++ {
			out = append(out, offSpec{Kind: "end", R: -n, Epoch: ep})
		}
	}
	for _, t := range []int64{5, 10, 15, 20, 25, 30, 35} {
		out = append(out, offSpec{Kind: "milli", X: t, Epoch: -1})
	}
	return out
}

func groupOffsets(start int64) []offSpec {
	return []offSpec{
		{Kind: "committed", Epoch: -1},
		{Kind: "start", Epoch: -1},
		{Kind: "end", Epoch: -1},
		{Kind: "at", X: start + 1, Epoch: -1},
		{Kind: "at", X: start + 6, Epoch: -1},
		{Kind: "end", R: -1, Epoch: -1},
		{Kind: "milli", X: 20, Epoch: -1},
	}
}

var allCfgs = enumerate()

func enumerate() []cfgT {
	var out []cfgT
	add := func(c cfgT) {
		c.N = len(out)
		out = append(out, c)
	}
	type ml struct {
		mode   string
		layout int
	}
	for _, m := range []ml{{"DP", 0}, {"DPR", 0}, {"DT", 0}, {"DP", 1}} {
		for _, start := range []int64{0, 2} {
			for _, txn := range []bool{false, true} {
				for _, rc := range []bool{false, true} {
					for _, o := range offsetFamily(start) {
						add(cfgT{Start: start, Txn: txn, RC: rc, Layout: m.layout, Mode: m.mode, Off: o, Commit: -1, CommitEpoch: -1})
					}
				}
			}
		}
	}
	for _, mode := range []string{"GS", "GR"} {
		for _, start := range []int64{0, 2} {
			for _, txn := range []bool{false, true} {
				for _, rc := range []bool{false, true} {
					type ce struct {
						c int64
						e int32
					}
					commits := []ce{{-1, -1}}
					for _, c := range []int64{start, start + 1, start + 3, start + 4} {
						commits = append(commits, ce{c, -1}, ce{c, 0})
					}
					if start > 0 {
						commits = append(commits, ce{0, -1}) // committed offset below the log start
					}
					for _, cm := range commits {
						for _, o := range groupOffsets(start) {
							add(cfgT{Start: start, Txn: txn, RC: rc, Mode: mode, Off: o, Commit: cm.c, CommitEpoch: cm.e})
						}
					}
				}
			}
		}
	}
	return out
}

// ---------------------------------------------------------------------------
// Reference model, transcribed from the property statement and the doc
// comments of kgo.Offset / ConsumeStartOffset / ConsumeResetOffset /
// ConsumePartitions. It never looks at the client.

// expectation is what the documentation allows for one configuration.
type expectation struct {
	// Offsets the first returned record may be at (one element unless the
	// documentation is silent or self-contradictory; see expect()).
	Accept []int64 `json:"accept"`
	// Fatal: the partition must return no record at all, and PollFetches must
	// surface an error containing FatalErr.
	Fatal    bool   `json:"fatal,omitempty"`
	FatalErr string `json:"fatal_err,omitempty"`
	// DataLoss: an *ErrDataLoss may (not must) be surfaced before the first record.
	DataLoss bool   `json:"data_loss_allowed,omitempty"`
	Why      string `json:"why"`
}

func clamp(v, lo, hi int64) int64 {
	if v < lo {
		return lo
	}
	if v > hi {
		return hi
	}
	return v
}

// resolve is the statement's rule for one Offset against a log; end is the
// high watermark, or the last stable offset under read_committed.
func (c cfgT) resolve(o offSpec) (target int64, resolved int64) {
	start, end := c.Start, c.hwm()
	if c.RC {
		end = c.lso()
	}
	switch o.Kind {
	case "at":
		x := o.X
		if x < -2 { // "If the offset is less than -2, the client bounds it to -2"
			x = -2
		}
		switch x {
		case -2: // "-2 allows for consuming at the start ... equivalent to calling AtStart"
			target = start + o.R
		case -1: // "-1 allows for consuming at the end ... equivalent to calling AtEnd"
			target = end + o.R
		default:
			target = x + o.R
		}
	case "start":
		target = start + o.R
	case "end":
		target = end + o.R
	case "milli":
		// "the first offset with timestamp at least t, else the end"
		for off := start; off < c.hwm(); off++ {
			if c.tsOf(off) >= o.X {
				return off, off
			}
		}
		return end, end
	}
	return target, clamp(target, start, end)
}

func uniq(v ...int64) []int64 {
	sort.Slice(v, func(i, j int) bool { return v[i] < v[j] })
	out := v[:0]
	for i, x := range v {
		if i == 0 || x != v[i-1] {
			out = append(out, x)
		}
	}
	return out
}

// isExact reports whether the Offset names one exact log position (At(x>=0)).
func (o offSpec) isExact() bool { return o.Kind == "at" && o.X >= 0 }

func (c cfgT) expect() expectation {
	o := c.Off
	group := c.Mode[0] == 'G'

	// What a first-fetch OffsetOutOfRange resets to (ConsumeResetOffset doc):
	// the configured reset offset; ConsumeStartOffset doubles as the reset
	// offset when ConsumeResetOffset is not set and vice versa; default AtStart.
	reset := offSpec{Kind: "start", Epoch: -1}
	if c.Mode != "DP" {
		reset = o
	}

	if group && c.Commit >= 0 {
		// "AtCommitted, the committed offset"; a group consumer resumes from the
		// commit whatever the start offset says.
		if c.Commit >= c.Start && c.Commit <= c.hwm() {
			return expectation{Accept: []int64{c.Commit}, Why: "committed offset"}
		}
		// The committed offset is out of range on the first fetch.
		if reset.Kind == "committed" { // AtCommitted "automatically opts into NoResetOffset"
			return expectation{Fatal: true, FatalErr: "OFFSET_OUT_OF_RANGE", Why: "committed offset below the log start with a no-reset offset: the error is returned and the partition is fatal"}
		}
		_, r := c.resolve(reset)
		return expectation{Accept: []int64{r}, Why: "committed offset out of range: reset to the configured reset offset"}
	}
	if o.Kind == "committed" {
		return expectation{Fatal: true, FatalErr: "no prior committed offset", Why: "AtCommitted without a commit: fatal partition, error from PollFetches"}
	}

	target, r := c.resolve(o)
	e := expectation{Accept: []int64{r}, Why: "statement rule"}
	if !o.isExact() {
		return e
	}
	// Exact offsets. The statement says "clamped to [log start, end]" with
	// end = LSO under read_committed. Two places where the documentation
	// says something else, or nothing, are accepted as well and reported in the
	// observation (never demand more than documented):
	if c.RC && target > c.lso() {
		// The offset exists in the log (or is past it) but is above the LSO.
		// "at exact? => start at an exact offset": starting exactly there
		// (bounded by the log end) is documented behaviour too.
		e.Accept = append(e.Accept, clamp(target, c.Start, c.hwm()))
		e.Why = "exact offset above the LSO under read_committed: statement says LSO, Offset doc says the exact offset"
	}
	if o.Epoch >= 0 && target > c.hwm() {
		// WithEpoch: "used for truncation detection": an offset beyond the end
		// of its epoch is reported as data loss and consumption resumes at the
		// epoch's end offset.
		e.DataLoss = true
	}
	if c.Mode == "DP" && (target < c.Start || target > c.hwm()) {
		// ConsumePartitions says nothing about out-of-range offsets; the
		// ConsumeResetOffset doc says the first-fetch OffsetOutOfRange resets
		// to the configured reset offset (default AtStart).
		_, rr := c.resolve(reset)
		e.Accept = append(e.Accept, rr)
		e.Why = "ConsumePartitions with an out-of-range exact offset and the default reset offset: statement says nearest bound, ConsumeResetOffset doc says AtStart"
	}
	e.Accept = uniq(e.Accept...)
	return e
}
