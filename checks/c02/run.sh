#!/bin/bash
set -eu
cd "$(dirname "$0")/../.."
. bin/env.sh
go test -c -tags synctests,verif -o "$BUILD/c02.test" ./checks/c02
exec "$BUILD/c02.test" -test.run '^TestC02$' -test.timeout 0
