// Package iscen holds the idempotent-producer scenario family I (DESIGN.md §4
// C02) and its log-versus-promise oracle. C02 explores it; C41 reuses it.
package iscen

import (
	"context"
	"encoding/binary"
	"errors"
	"fmt"
	"sort"
	"strings"
	"sync"
	"time"

	"github.com/twmb/franz-go/pkg/kbin"
	"github.com/twmb/franz-go/pkg/kerr"
	"github.com/twmb/franz-go/pkg/kfake"
	"github.com/twmb/franz-go/pkg/kgo"
	"github.com/twmb/franz-go/pkg/kmsg"

	"verif/lib/netctl"
	"verif/lib/nrun"
	"verif/lib/nscen"
)

// Scenario family I (DESIGN.md §4 C02): one idempotent producer (the
// default), two brokers, topic t; every record is its own batch (the batch
// size limit admits exactly one padded record), so the produce requests of one
// partition pipeline once the first one was acknowledged. An ENV thread moves
// the leader of t/0 once. The oracle compares what the promises said with the
// partition logs read back by an uncontrolled raw reader.

// pad makes one record fill more than half of the smallest legal batch
// (ProducerBatchMaxBytes 512), so two records never share a batch.
var pad = strings.Repeat("x", 300)

type outcome struct {
	err       error
	offset    int64
	partition int32
}

// attempt is one Produce request attempt for one record, as far as the
// proxy can see it (history class of a failed-in-log violation).
type attempt struct {
	name       string
	pid        int64 // producer id / epoch the batch was stamped with
	epoch      int16
	reqAt      int   // clock when the request was delivered to the broker (for fabricated answers: when the answer was delivered)
	fabricated bool  // answered by the proxy with an err:<code> response: kfake never saw the request
	respAt     int   // clock when a response was delivered to the client (0: never)
	code       int16 // partition error code of that response
	// discarded: at delivery an earlier record of the partition was still
	// unpromised, so the batch was not the owner's first batch and the client
	// ignores the response (sink.go handleReqRespBatch, !isOwnersFirstBatch).
	discarded bool
}

type corrKey struct {
	conn *netctl.Conn
	corr int32
}

// KnownClass is the history class of the known finding: an attempt that the
// broker processed stayed unanswered (or its answer was discarded), and a later
// attempt was answered before the record was failed.
const KnownClass = "failed-in-log:unanswered-attempt-then-answered-retry"

// SeqReuseClass is the second known finding, a consequence of the first: a
// record of the known class was failed although its batch is in the log, the
// client rewound the partition's sequence numbers, and a LATER record sent
// with the same producer id/epoch and the same sequence numbers is answered
// by the broker as a duplicate of the appended batch: it is promised success
// at the earlier record's offset and is not in the log.
const SeqReuseClass = "acked-missing:sequence-reuse-after-failed-unanswered-attempt"

// KeyOf is the nrun.Check.KeyOf of checks built on this family: the known
// classes are reported without the scenario name.
func KeyOf(id string) func(scenario, key string) string {
	return func(scenario, key string) string {
		if key == KnownClass || key == SeqReuseClass {
			return id + ":" + key
		}
		return id + ":" + scenario + ":" + key
	}
}

type spec struct {
	name      string
	partition int32
}

type state struct {
	c   *kfake.Cluster
	cl  *kgo.Client
	led *nscen.Ledger

	mu        sync.Mutex
	names     map[*kgo.Record]string
	outcomes  map[string][]outcome // what each promise invocation saw (Offset/Partition read inside the promise)
	produced  map[int32][]string   // order in which Produce was called, per partition
	attempts  map[string]int       // Produce requests delivered to a broker that carried the record
	partOf    map[string]int32     // record name -> partition
	clock     int                  // order of hook / promise events
	hist      map[string][]*attempt
	byCorr    map[corrKey][]*attempt // delivered, not yet answered Produce requests
	promised  map[string]int         // clock value of the first promise invocation
	initAt    []int                  // clock values of InitProducerID requests delivered to a broker
	onProduce func()
	nparts    int32
	total     int           // records the scenario produces
	allDone   chan struct{} // closed when every record was promised
	relaxed   bool          // AllowIdempotentProduceCancellation: an error-promised record may be in the log
}

func (st *state) record(name string, p int32) *kgo.Record {
	r := &kgo.Record{Topic: "t", Partition: p, Value: []byte(name + "|" + pad)}
	st.led.Hand(name, r)
	st.mu.Lock()
	st.names[r] = name
	st.partOf[name] = p
	st.produced[p] = append(st.produced[p], name)
	st.mu.Unlock()
	return r
}

func (st *state) promise() func(*kgo.Record, error) {
	lp := st.led.Promise()
	return func(r *kgo.Record, err error) {
		st.mu.Lock()
		if n, ok := st.names[r]; ok {
			st.outcomes[n] = append(st.outcomes[n], outcome{err: err, offset: r.Offset, partition: r.Partition})
			if _, dup := st.promised[n]; !dup {
				st.clock++
				st.promised[n] = st.clock
			}
			if len(st.outcomes) == st.total && len(st.outcomes[n]) == 1 {
				close(st.allDone)
			}
		}
		st.mu.Unlock()
		lp(r, err)
	}
}

// head returns the earliest produced record of partition p whose promise has
// not run: the owner's first batch. Called with st.mu held.
func (st *state) head(p int32) string {
	for _, n := range st.produced[p] {
		if _, done := st.promised[n]; !done {
			return n
		}
	}
	return ""
}

// frameHook sees every frame the proxy delivers. A Produce request that
// passes here reached kfake (processed; errafter included); a request answered
// with a fabricated err:<code> response never passes here, only its response
// does. It records per record the attempt history used to classify
// failed-in-log violations.
func (st *state) frameHook(c *netctl.Conn, dir string, key, ver int16, frame []byte) {
	if key == 22 && dir == "req" {
		st.mu.Lock()
		st.clock++
		st.initAt = append(st.initAt, st.clock)
		st.mu.Unlock()
	}
	if key != 0 {
		return
	}
	if dir == "req" {
		st.mu.Lock()
		f := st.onProduce
		st.mu.Unlock()
		if f != nil {
			f()
		}
		if len(frame) < 12 {
			return
		}
		k := corrKey{c, int32(binary.BigEndian.Uint32(frame[8:]))}
		st.mu.Lock()
		st.clock++
		for _, pn := range producedNames(frame) {
			n := pn.name
			st.attempts[n]++
			a := &attempt{name: n, pid: pn.pid, epoch: pn.epoch, reqAt: st.clock}
			st.hist[n] = append(st.hist[n], a)
			st.byCorr[k] = append(st.byCorr[k], a)
		}
		st.mu.Unlock()
		return
	}
	if len(frame) < 8 {
		return
	}
	k := corrKey{c, int32(binary.BigEndian.Uint32(frame[4:]))}
	codes := map[int32]int16{}
	if resp, ok := netctl.DecodeResponse(frame, key, ver); ok {
		if pr, ok := resp.(*kmsg.ProduceResponse); ok {
			for _, t := range pr.Topics {
				for _, p := range t.Partitions {
					codes[p.Partition] = p.ErrorCode
				}
			}
		}
	}
	st.mu.Lock()
	defer st.mu.Unlock()
	st.clock++
	if as, ok := st.byCorr[k]; ok {
		// Answer to a request kfake processed.
		delete(st.byCorr, k)
		first := map[int32]bool{} // partitions whose batch in this request is the owner's first batch
		for _, a := range as {
			if p := st.partOf[a.name]; st.head(p) == a.name {
				first[p] = true
			}
		}
		for _, a := range as {
			p := st.partOf[a.name]
			a.respAt, a.code = st.clock, codes[p]
			a.discarded = !first[p]
		}
		return
	}
	// Fabricated answer (err:<code>): the request is invisible to the hook. The
	// client resends a partition from its first unfinished batch, so the answer
	// is attributed to the partition's head record (approximation: a fabricated
	// answer to a request pipelined behind another one is attributed to the
	// head as well).
	for p, code := range codes {
		if n := st.head(p); n != "" {
			st.hist[n] = append(st.hist[n], &attempt{name: n, reqAt: st.clock, fabricated: true, respAt: st.clock, code: code})
		}
	}
}

// history renders the attempts of a record for a violation text.
func (st *state) history(n string) string {
	var out []string
	for _, a := range st.hist[n] {
		switch {
		case a.fabricated:
			out = append(out, fmt.Sprintf("not-processed,answered(code %d)", a.code))
		case a.respAt == 0 || a.respAt > st.promised[n]:
			out = append(out, "processed,unanswered")
		case a.discarded:
			out = append(out, fmt.Sprintf("processed,answer(code %d)-discarded", a.code))
		default:
			out = append(out, fmt.Sprintf("processed,answered(code %d)", a.code))
		}
	}
	return "attempts: " + strings.Join(out, " -> ")
}

// unanswered reports the first attempt of record n that kfake processed and
// whose answer the client never used before n was failed: condition (a).
func (st *state) unanswered(n string) *attempt {
	failed := st.promised[n]
	for _, a := range st.hist[n] {
		if !a.fabricated && (a.respAt == 0 || a.respAt > failed || a.discarded) {
			return a
		}
	}
	return nil
}

// knownClass: (a) an attempt processed by the broker stayed unanswered and (b) a
// later attempt was answered, and the answer used, before the record failed.
func (st *state) knownClass(n string) bool {
	a := st.unanswered(n)
	if a == nil {
		return false
	}
	failed := st.promised[n]
	for _, b := range st.hist[n] {
		if b != a && b.reqAt > a.reqAt && b.respAt != 0 && b.respAt < failed && !b.discarded {
			return true
		}
	}
	return false
}

type producedName struct {
	name  string
	pid   int64
	epoch int16
}

// producedNames decodes a Produce request frame and returns the names of the
// records in it with the producer id/epoch of their batch.
func producedNames(frame []byte) []producedName {
	req, _, ok := netctl.DecodeRequest(frame)
	if !ok {
		return nil
	}
	pr, ok := req.(*kmsg.ProduceRequest)
	if !ok {
		return nil
	}
	var out []producedName
	for _, t := range pr.Topics {
		for _, p := range t.Partitions {
			var b kmsg.RecordBatch
			if err := b.ReadFrom(p.Records); err != nil {
				continue
			}
			recs := b.Records
			for i := int32(0); i < b.NumRecords; i++ {
				var r kmsg.Record
				rl, n := kbin.Varint(recs)
				if n <= 0 || int(rl)+n > len(recs) || r.ReadFrom(recs[:int(rl)+n]) != nil {
					break
				}
				recs = recs[int(rl)+n:]
				out = append(out, producedName{nameOf(string(r.Value)), b.ProducerID, b.ProducerEpoch})
			}
		}
	}
	return out
}

// seqReuse: record n (promised success, absent from the log) was answered as
// a duplicate of the earlier record e of its partition: an attempt carrying n
// got a used success answer, with the producer id/epoch of an attempt of e
// that the broker processed, and no InitProducerID request went out in between.
func (st *state) seqReuse(n, e string) bool {
	for _, b := range st.hist[n] {
		if b.fabricated || b.respAt == 0 || b.code != 0 || b.discarded {
			continue
		}
		for _, a := range st.hist[e] {
			if a.fabricated || a.reqAt >= b.reqAt || a.pid != b.pid || a.epoch != b.epoch {
				continue
			}
			reinit := false
			for _, t := range st.initAt {
				reinit = reinit || (t > a.reqAt && t < b.reqAt)
			}
			if !reinit {
				return true
			}
		}
	}
	return false
}

func nameOf(v string) string {
	if i := strings.IndexByte(v, '|'); i >= 0 {
		return v[:i]
	}
	return "?" + nscen.ErrClass(fmt.Errorf("%s", v))
}

// errKind is the stable class of a promise error (part of the violation key).
func errKind(err error) string {
	var ke *kerr.Error
	switch {
	case errors.Is(err, kgo.ErrRecordTimeout):
		return "record-timeout"
	case errors.Is(err, kgo.ErrRecordRetries):
		return "record-retries"
	case errors.Is(err, context.Canceled):
		return "context-canceled"
	case errors.As(err, &ke):
		return ke.Message
	}
	return "other"
}

func faults(x *netctl.Exec, dir string, key int16, c *netctl.Conn) []string {
	switch {
	case key == 0 && dir == "req":
		// killbefore: never reached the broker. err:6 NOT_LEADER, err:19
		// NOT_ENOUGH_REPLICAS, err:7 REQUEST_TIMED_OUT: answered without
		// being processed. errafter:7 / errafter:20
		// (NOT_ENOUGH_REPLICAS_AFTER_APPEND): appended, then answered with
		// the ambiguous error. stall: frozen until the client gives up.
		return []string{"killbefore", "err:6", "err:19", "err:7", "errafter:7", "errafter:20", "stall"}
	case key == 0 && dir == "resp":
		return []string{"killafter"} // appended, response lost
	case (key == 3 || key == 22) && dir == "req":
		return []string{"killbefore"}
	case (key == 3 || key == 22) && dir == "resp":
		return []string{"killafter"}
	}
	return nil
}

type variant struct {
	name    string
	nparts  int32
	recs    []spec
	opts    []kgo.Opt
	relaxed bool
	move    bool
	// cancelRec, if set, is produced with a cancellable context that a
	// second thread cancels.
	cancelRec string
}

func scenario(v variant) *netctl.Scenario {
	return &netctl.Scenario{
		Name:    v.name,
		Faults:  faults,
		Horizon: 4 * time.Minute,
		Setup: func(x *netctl.Exec) {
			c := x.Cluster(2, kfake.SeedTopics(v.nparts, "t"))
			c.MoveTopicPartition("t", 0, 0)
			if v.nparts > 1 {
				c.MoveTopicPartition("t", 1, 1)
			}
			st := &state{c: c, led: nscen.NewLedger(), names: map[*kgo.Record]string{}, outcomes: map[string][]outcome{},
				produced: map[int32][]string{}, attempts: map[string]int{}, partOf: map[string]int32{}, hist: map[string][]*attempt{}, byCorr: map[corrKey][]*attempt{}, promised: map[string]int{}, nparts: v.nparts, relaxed: v.relaxed, total: len(v.recs), allDone: make(chan struct{})}
			x.Data = st
			opts := append([]kgo.Opt{
				kgo.RecordPartitioner(kgo.ManualPartitioner()),
				kgo.ProducerLinger(0),
				kgo.ProducerBatchMaxBytes(512), // one padded record per batch
				kgo.ProducerBatchCompression(kgo.NoCompression()),
				kgo.ProduceRequestTimeout(5 * time.Second),
			}, v.opts...)
			st.cl = nscen.NewClient(x, "p", c, opts...)
			x.FrameHook = st.frameHook
			cctx, cancel := context.WithCancel(context.Background())
			x.OnCleanup(cancel)
			x.Thread("T1", func(t *netctl.Thread) {
				for _, s := range v.recs {
					t.Step("produce-" + s.name)
					ctx := context.Background()
					if s.name == v.cancelRec {
						ctx = cctx
					}
					st.cl.Produce(ctx, st.record(s.name, s.partition), st.promise())
				}
			})
			if v.cancelRec != "" {
				x.Thread("T2", func(t *netctl.Thread) {
					t.Step("cancel-" + v.cancelRec + "-ctx")
					cancel()
				})
			}
			if v.move {
				// The move becomes possible once the first Produce request reached
				// a broker (a move before that is only a different initial
				// placement); by default it happens right then, i.e. while that
				// request is unanswered, and deviations delay it.
				first, giveUp := make(chan struct{}), make(chan struct{})
				var once sync.Once
				st.onProduce = func() { once.Do(func() { close(first) }) }
				x.OnCleanup(func() { close(giveUp) })
				x.Thread("ENV", func(t *netctl.Thread) {
					select {
					case <-first:
					case <-giveUp:
						return
					case <-st.allDone: // every record failed before any Produce request was sent
						return
					}
					t.Step("move-t0-to-b1")
					c.MoveTopicPartition("t", 0, 1)
				})
			}
		},
		Done: func(x *netctl.Exec) bool {
			st := x.Data.(*state)
			return x.ThreadsDone() && len(st.led.Outstanding()) == 0
		},
		Final: final,
	}
}

func final(x *netctl.Exec) {
	st := x.Data.(*state)
	// The environment is well behaved from here on: wait (virtual time) for
	// the promises still outstanding, so that every record has a verdict.
	deadline := time.Now().Add(3 * time.Minute)
	for len(st.led.Outstanding()) > 0 && time.Now().Before(deadline) {
		time.Sleep(100 * time.Millisecond)
	}
	if out := st.led.Outstanding(); len(out) > 0 {
		// C01's subject; reported because those records escape C02's oracle.
		x.Violate("aux-promise-never", "records %v not promised 3 virtual minutes into a fault-free suffix (they cannot be judged)", out)
	}
	st.led.Check(x, false) // a record promised twice has no single verdict

	// Independent view of the log.
	type hit struct {
		partition int32
		offset    int64
	}
	where := map[string][]hit{}
	var logs []string
	for p := int32(0); p < st.nparts; p++ {
		var l []string
		for _, r := range nscen.ReadRaw(x, st.c, "t", p) {
			if r.Control {
				continue
			}
			n := nameOf(r.Value)
			where[n] = append(where[n], hit{p, r.Offset})
			l = append(l, fmt.Sprintf("%s@%d", n, r.Offset))
		}
		logs = append(logs, fmt.Sprintf("p%d=[%s]", p, strings.Join(l, " ")))
	}

	st.mu.Lock()
	defer st.mu.Unlock()
	known := map[string]int32{}
	for p, names := range st.produced {
		for _, n := range names {
			known[n] = p
		}
	}
	var inLog []string
	for n := range where {
		inLog = append(inLog, n)
	}
	sort.Strings(inLog)
	for _, n := range inLog {
		hs := where[n]
		if _, ok := known[n]; !ok {
			x.Violate("foreign-record", "log holds %q at %v which was never produced", n, hs)
		}
		if len(hs) > 1 {
			x.Violate("duplicate-in-log", "record %s appears %d times in the log: %v  (%s)", n, len(hs), hs, strings.Join(logs, " "))
		}
		for _, h := range hs {
			if want, ok := known[n]; ok && h.partition != want {
				x.Violate("wrong-partition", "record %s produced to partition %d is in partition %d", n, want, h.partition)
			}
		}
	}
	var all []string
	for n := range known {
		all = append(all, n)
	}
	sort.Strings(all)
	// One violation per class and execution (the records of a partition fail
	// together, so a per-record report would only repeat itself).
	agg := map[string][]string{}
	failKey := map[string]string{} // error-promised records that are in the log -> violation key
	for _, n := range all {
		want := known[n]
		oc := st.outcomes[n]
		if len(oc) == 0 || oc[0].err == nil || st.relaxed || len(where[n]) == 0 {
			continue
		}
		o, hs := oc[0], where[n]
		k := "failed-in-log:" + errKind(o.err)
		if st.knownClass(n) {
			k = KnownClass
		} else if st.unanswered(n) != nil {
			// Failed together with an earlier record of the partition
			// (failAllRecords) that is of the known class.
			for _, n0 := range st.produced[want] {
				if n0 == n {
					break
				}
				if failKey[n0] == KnownClass && errKind(st.outcomes[n0][0].err) == errKind(o.err) {
					k = KnownClass
					break
				}
			}
		}
		failKey[n] = k
		agg[k] = append(agg[k], fmt.Sprintf("%s promised error %q but is in the log at partition %d offset %d [%s]", n, o.err, hs[0].partition, hs[0].offset, st.history(n)))
	}
	for _, n := range all {
		want := known[n]
		oc := st.outcomes[n]
		if len(oc) == 0 || oc[0].err != nil {
			continue
		}
		o, hs := oc[0], where[n]
		if len(hs) == 0 {
			k := "acked-missing"
			what := fmt.Sprintf("%s promised success at offset %d but is not in the log", n, o.offset)
			// Answered as a duplicate of an earlier, wrongly failed record of the
			// partition whose sequence numbers the client reused?
			for _, e := range st.produced[want] {
				if e == n {
					break
				}
				if failKey[e] == KnownClass && len(where[e]) == 1 && where[e][0].partition == want && where[e][0].offset == o.offset && st.seqReuse(n, e) {
					k = SeqReuseClass
					what += fmt.Sprintf(" (offset of %s, which was promised an error although appended: same producer id/epoch and sequence numbers reused)", e)
					break
				}
			}
			agg[k] = append(agg[k], what)
			continue
		}
		if len(hs) == 1 && (hs[0].offset != o.offset || o.partition != want) {
			agg["acked-offset-mismatch"] = append(agg["acked-offset-mismatch"], fmt.Sprintf("%s promised success with partition %d offset %d but the log has it at partition %d offset %d", n, o.partition, o.offset, hs[0].partition, hs[0].offset))
		}
	}
	var keys []string
	for k := range agg {
		keys = append(keys, k)
	}
	sort.Strings(keys)
	for _, k := range keys {
		x.Violate(k, "%s  (%s)", strings.Join(agg[k], "; "), strings.Join(logs, " "))
	}
	// Produce order among the acknowledged records of a partition.
	for p := int32(0); p < st.nparts; p++ {
		names := st.produced[p]
		last, lastName := int64(-1), ""
		for _, n := range names {
			oc := st.outcomes[n]
			if len(oc) == 0 || oc[0].err != nil || len(where[n]) != 1 {
				continue
			}
			off := where[n][0].offset
			if off <= last {
				x.Violate("acked-out-of-order", "partition %d: %s was produced before %s but sits at offset %d >= %d  (%s)", p, lastName, n, last, off, strings.Join(logs, " "))
			}
			last, lastName = off, n
		}
	}
	// Terminal observation: outcome class per record plus log contents.
	var cls []string
	for n := range known {
		oc := st.outcomes[n]
		switch {
		case len(oc) == 0:
			cls = append(cls, n+"=none")
		case oc[0].err == nil:
			cls = append(cls, fmt.Sprintf("%s=ok/%d", n, st.attempts[n]))
		default:
			cls = append(cls, fmt.Sprintf("%s=err:%s/%d", n, errKind(oc[0].err), st.attempts[n]))
		}
	}
	sort.Strings(cls)
	x.Observe("%s %s", strings.Join(cls, ","), strings.Join(logs, " "))
}

var (
	six  = []spec{{"r1", 0}, {"r2", 1}, {"r3", 0}, {"r4", 1}, {"r5", 0}, {"r6", 1}}
	four = []spec{{"r1", 0}, {"r2", 0}, {"r3", 0}, {"r4", 0}}
	// Fail paths. A batch may be failed once it was sent more than
	// RecordRetries times or is older than RecordDeliveryTimeout, but only if
	// the client is certain it was not appended. The limits are chosen so that
	// two deviations reach them: with RecordRetries(1) the second failed
	// attempt is the last; with ProduceRequestTimeout 5s (+1s overhead) one
	// stalled or never-answered request outlives RecordDeliveryTimeout(5s).
	retryOpts   = []kgo.Opt{kgo.RecordRetries(1), kgo.RecordDeliveryTimeout(30 * time.Second)}
	timeoutOpts = []kgo.Opt{kgo.RecordRetries(3), kgo.RecordDeliveryTimeout(5 * time.Second)}
	cancelOpts  = []kgo.Opt{kgo.AllowIdempotentProduceCancellation(), kgo.RecordRetries(1), kgo.RecordDeliveryTimeout(5 * time.Second)}
)

// Plans returns the exploration plans of C02 (fresh scenario values on every
// call). I-1p comes last: the k=1 scenarios finish early and their unused time
// rolls over to its deeper levels.
func Plans() []nrun.Plan {
	return []nrun.Plan{
		{Scenario: scenario(variant{name: "I-2p", nparts: 2, move: true, recs: six}),
			QuickBudget: 2, QuickFaultOnlyFrom: 2, ThoroughBudget: 3, ThoroughFaultOnlyFrom: 3, Weight: 5},
		{Scenario: scenario(variant{name: "I-fail", nparts: 2, move: true, recs: six, opts: timeoutOpts}),
			QuickBudget: 2, QuickFaultOnlyFrom: 2, ThoroughBudget: 3, ThoroughFaultOnlyFrom: 3, Weight: 5},
		{Scenario: scenario(variant{name: "I-cancel", nparts: 2, move: true, recs: six, relaxed: true, cancelRec: "r3", opts: cancelOpts}),
			QuickBudget: 2, QuickFaultOnlyFrom: 2, ThoroughBudget: 2, Weight: 3},
		{Scenario: scenario(variant{name: "I-1p", nparts: 1, move: true, recs: four, opts: retryOpts}),
			QuickBudget: 2, QuickFaultOnlyFrom: 2, ThoroughBudget: 3, ThoroughFaultOnlyFrom: 3, Weight: 5},
	}
}
