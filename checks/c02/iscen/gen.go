package iscen

import (
	"context"
	"fmt"
	"os"
	"strings"
	"sync"
	"time"

	"github.com/twmb/franz-go/pkg/kfake"
	"github.com/twmb/franz-go/pkg/kgo"

	"verif.local/ev"
	"verif/lib/explore"
	"verif/lib/netctl"
	"verif/lib/nrun"
	"verif/lib/nscen"
)

// Generated family IG: instead of one fixed application script per scenario,
// ONE scenario whose Setup lets the explorer choose (cost 0: every combination
// is executed at every deviation level)
//
//	cfg     the producer configuration (batching, linger, fail limits, stop-on-data-loss),
//	place   the initial placement of t/0 and t/1 (two brokers / both on b0),
//	script  the producing thread's script: 3..5 Produce calls over the two
//	        partitions with, between two calls, nothing, a Flush, a short think
//	        time (longer than linger) or a long one (longer than the produce
//	        request timeout),
//	env     what the environment does and where: the leader of t/1 moves to the
//	        other broker after the g-th script item (M), moves and moves back
//	        after the next item (MBc) or right after the next Produce request
//	        reached a broker (MBf), or all connections of the client die right
//	        after the next Produce request reached a broker (Kf: processed,
//	        never answered).
//
// The ENV thread is declared first, so on the default schedule its actions run
// as soon as their gate opens. The oracle is final(): it follows any script
// (produce order per partition is recorded as the calls are made).

type gcfg struct {
	name string
	opts []kgo.Opt
}

var (
	tiny     = kgo.ProducerBatchMaxBytes(512) // one padded record per batch
	nolinger = kgo.ProducerLinger(0)          // the default is 10ms
	// MaxProduceRequestsInflightPerBroker is absent on purpose: with idempotence
	// enabled the option must be 1 (config validation) and switches no path.
	gcfgs = []gcfg{
		{"base", []kgo.Opt{nolinger, tiny}}, // a batch per record, no limits
		{"onebatch", []kgo.Opt{nolinger}},   // records waiting together share a batch
		{"linger5", []kgo.Opt{kgo.ProducerLinger(5 * time.Millisecond)}},
		{"linger5-tiny", []kgo.Opt{kgo.ProducerLinger(5 * time.Millisecond), tiny}},
		{"retries1", []kgo.Opt{nolinger, tiny, kgo.RecordRetries(1)}},
		{"timeout5", []kgo.Opt{nolinger, tiny, kgo.RecordDeliveryTimeout(5 * time.Second)}},
		{"stoploss", []kgo.Opt{nolinger, tiny, kgo.StopProducerOnDataLossDetected()}},
	}
)

const (
	thinkShort = 20 * time.Millisecond // longer than linger
	thinkLong  = 7 * time.Second       // longer than ProduceRequestTimeout (5s) + overhead (1s)
)

// genScripts enumerates scripts as strings over
//
//	0 Produce(t/0)   1 Produce(t/1)   F Flush   s short think   L long think
//
// n Produce calls with at most maxSep separators drawn from seps between them.
func genScripts(n, maxSep int, seps string) []string {
	var out []string
	var rec func(i, used int, cur []byte)
	rec = func(i, used int, cur []byte) {
		if i == n {
			out = append(out, string(cur))
			return
		}
		for _, p := range "01" {
			if i == 0 {
				rec(1, used, append(append([]byte{}, cur...), byte(p)))
				continue
			}
			rec(i+1, used, append(append([]byte{}, cur...), byte(p)))
			if used < maxSep {
				for _, s := range seps {
					rec(i+1, used+1, append(append([]byte{}, cur...), byte(s), byte(p)))
				}
			}
		}
	}
	rec(0, 0, nil)
	return out
}

// scripts returns the family's scripts for the tier. The first one is the
// default choice (and part of every representative subset).
func scripts(thorough bool) []string {
	if !thorough {
		return genScripts(3, 1, "FsL") // 56
	}
	out := genScripts(3, 2, "FsL")               // 128
	out = append(out, genScripts(4, 1, "FL")...) // 112
	out = append(out, genScripts(5, 0, "")...)   // 32
	return out
}

// envs returns the environment options for a script of nitems items.
func envs(nitems int) []string {
	out := []string{"-"}
	for _, k := range []string{"M", "MBf", "Kf", "MBc"} {
		for g := 1; g <= nitems; g++ {
			if k == "MBc" && g == nitems {
				continue
			}
			out = append(out, fmt.Sprintf("%s@%d", k, g))
		}
	}
	return out
}

func genScenario() *netctl.Scenario {
	return &netctl.Scenario{
		Name:    "IG",
		Faults:  faults,
		Horizon: 4 * time.Minute,
		Setup: func(x *netctl.Exec) {
			var cfgNames []string
			for _, c := range gcfgs {
				cfgNames = append(cfgNames, c.name)
			}
			ss := scripts(ev.Thorough())
			cfg := gcfgs[x.ChooseOf("cfg", cfgNames)]
			same := x.ChooseOf("place", []string{"split", "same"}) == 1
			script := ss[x.ChooseOf("script", ss)]
			es := envs(len(script))
			env := es[x.ChooseOf("env", es)]
			kind, gate := env, 0
			if i := strings.IndexByte(env, '@'); i > 0 {
				kind = env[:i]
				fmt.Sscanf(env[i+1:], "%d", &gate)
			}

			c := x.Cluster(2, kfake.SeedTopics(2, "t"))
			c.MoveTopicPartition("t", 0, 0)
			home := int32(1)
			if same {
				home = 0
			}
			c.MoveTopicPartition("t", 1, home)
			total := strings.Count(script, "0") + strings.Count(script, "1")
			st := &state{c: c, led: nscen.NewLedger(), names: map[*kgo.Record]string{}, outcomes: map[string][]outcome{},
				produced: map[int32][]string{}, attempts: map[string]int{}, partOf: map[string]int32{}, hist: map[string][]*attempt{}, byCorr: map[corrKey][]*attempt{}, promised: map[string]int{}, nparts: 2, total: total, allDone: make(chan struct{})}
			x.Data = st
			opts := append([]kgo.Opt{
				kgo.RecordPartitioner(kgo.ManualPartitioner()),
				kgo.ProducerBatchCompression(kgo.NoCompression()),
				kgo.ProduceRequestTimeout(5 * time.Second),
			}, cfg.opts...)
			if os.Getenv("C02_KGOLOG") != "" { // debugging aid for single replayed executions
				opts = append(opts, kgo.WithLogger(kgo.BasicLogger(os.Stderr, kgo.LogLevelDebug, nil)))
			}
			st.cl = nscen.NewClient(x, "p", c, opts...)
			x.FrameHook = st.frameHook

			gates := make([]chan struct{}, len(script)+1)
			for i := range gates {
				gates[i] = make(chan struct{})
			}
			giveUp := make(chan struct{})
			x.OnCleanup(func() { close(giveUp) })
			// wait blocks until ch is closed; false if the execution is over first.
			wait := func(ch <-chan struct{}, orDone bool) bool {
				var done <-chan struct{}
				if orDone {
					done = st.allDone
				}
				select {
				case <-ch:
					return true
				case <-done:
					return true
				case <-giveUp:
					return false
				}
			}
			// nextProduce arms the frame gate: the returned channel is closed when
			// the next Produce request is delivered to a broker.
			nextProduce := func() <-chan struct{} {
				ch := make(chan struct{})
				var once sync.Once
				st.mu.Lock()
				st.onProduce = func() { once.Do(func() { close(ch) }) }
				st.mu.Unlock()
				return ch
			}
			if kind != "-" {
				// ENV first: once its gate is open its step comes before T1's next one.
				x.Thread("ENV", func(t *netctl.Thread) {
					if !wait(gates[gate], false) {
						return
					}
					switch kind {
					case "M", "MBc", "MBf":
						var fr <-chan struct{}
						if kind == "MBf" {
							fr = nextProduce()
						}
						t.Step("move-t1")
						c.MoveTopicPartition("t", 1, 1-home)
						switch kind {
						case "MBc":
							if !wait(gates[gate+1], false) {
								return
							}
						case "MBf":
							if !wait(fr, true) {
								return
							}
						default:
							return
						}
						t.Step("move-t1-back")
						c.MoveTopicPartition("t", 1, home)
					case "Kf":
						fr := nextProduce()
						if !wait(fr, true) {
							return
						}
						select {
						case <-fr:
						default:
							return // every record was promised without another Produce request
						}
						t.Step("kill-conns")
						for _, cn := range x.Conns() {
							if cn.Client == "p" {
								cn.Kill()
							}
						}
					}
				})
			}
			x.Thread("T1", func(t *netctl.Thread) {
				n := 0
				for i, op := range script {
					switch op {
					case '0', '1':
						n++
						name := fmt.Sprintf("r%d", n)
						t.Step(fmt.Sprintf("produce-%s-t%c", name, op))
						st.cl.Produce(context.Background(), st.record(name, int32(op-'0')), st.promise())
					case 'F':
						t.Step("flush")
						ctx, cancel := context.WithTimeout(context.Background(), 200*time.Second)
						st.cl.Flush(ctx) // its result is C01's subject
						cancel()
					case 's':
						time.Sleep(thinkShort)
					case 'L':
						time.Sleep(thinkLong)
					}
					close(gates[i+1])
				}
			})
		},
		Done: func(x *netctl.Exec) bool {
			st := x.Data.(*state)
			return x.ThreadsDone() && len(st.led.Outstanding()) == 0
		},
		Final: final,
	}
}

// pick returns the chosen alternative of a cost-0 choice from a job's picks
// ("" = the default alternative).
func pick(picks []string, what string) string {
	for _, p := range picks {
		if strings.HasPrefix(p, what+"=") {
			return p[len(what)+1:]
		}
	}
	return ""
}

func in(s string, set ...string) bool {
	for _, x := range set {
		if s == x {
			return true
		}
	}
	return false
}

// representative says whether single deviations are explored below the
// (cfg, place, script, env) combination of a job: a stated subset, so that the
// k=1 level is a complete enumeration of something rather than whatever a
// time cut leaves.
func representative(picks []string, thorough bool) bool {
	cfg, script, env := pick(picks, "cfg"), pick(picks, "script"), pick(picks, "env")
	kind := env
	if i := strings.IndexByte(env, '@'); i > 0 {
		kind = env[:i]
	}
	if !thorough {
		return in(cfg, "", "retries1") && in(script, "", "0F11", "1s01", "11L1") && in(kind, "", "M", "MBf", "Kf")
	}
	return in(cfg, "", "onebatch", "linger5", "retries1") && in(script, "", "0F11", "1s01", "11L1", "111", "0s11")
}

// GenPlans returns the generated family: quick = every (cfg, place, script of
// three Produce calls with at most one separator, env) on the default schedule
// and every single deviation below a representative subset; thorough = the
// longer scripts on the default schedule and single deviations below a larger
// subset (time-capped).
func GenPlans() []nrun.Plan {
	return []nrun.Plan{{Scenario: genScenario(), QuickBudget: 1, ThoroughBudget: 1, Weight: 12,
		Allow: func(parent explore.Job, _ int, _ string, cost int) bool {
			return cost == 0 || representative(parent.Picks, ev.Thorough())
		}}}
}
