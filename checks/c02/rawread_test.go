package c02

import (
	"context"
	"encoding/binary"
	"time"

	"github.com/twmb/franz-go/pkg/kbin"
	"github.com/twmb/franz-go/pkg/kfake"
	"github.com/twmb/franz-go/pkg/kgo"
	"github.com/twmb/franz-go/pkg/kmsg"
	"github.com/twmb/franz-go/pkg/kversion"

	"verif/lib/netctl"
	"verif/lib/nscen"
)

// readRaw is nscen.ReadRaw with the helper client pinned to Fetch v11 (the
// library version lets the client negotiate Fetch v13+, where topics are
// addressed by id, and every fetch then answers UNKNOWN_TOPIC_ID). It reads the complete log of one partition (read_uncommitted, control
// records included) with raw Fetch requests sent by an uncontrolled client,
// decoding record batches directly (independent of the client's fetch path).
func readRaw(x *netctl.Exec, c *kfake.Cluster, topic string, partition int32) []nscen.LogRecord {
	v := kversion.Stable()
	v.SetMaxKeyVersion(1, 11)
	cl := nscen.Helper(x, c, kgo.MaxVersions(v))
	defer cl.Close()
	ctx, cancel := context.WithTimeout(context.Background(), 120*time.Second)
	defer cancel()
	var out []nscen.LogRecord
	next := int64(0)
	start := true
	for tries := 0; tries < 200; tries++ {
		leader := c.LeaderFor(topic, partition)
		if leader < 0 {
			x.Violate("harness:no-leader", "no leader for %s/%d", topic, partition)
			return out
		}
		req := kmsg.NewPtrFetchRequest()
		req.Version = 11
		req.ReplicaID = -1
		req.MaxWaitMillis = 0
		req.MinBytes = 0
		req.MaxBytes = 64 << 20
		req.SessionEpoch = -1
		rt := kmsg.NewFetchRequestTopic()
		rt.Topic = topic
		rp := kmsg.NewFetchRequestTopicPartition()
		rp.Partition = partition
		rp.FetchOffset = next
		rp.CurrentLeaderEpoch = -1
		rp.PartitionMaxBytes = 64 << 20
		rt.Partitions = append(rt.Partitions, rp)
		req.Topics = append(req.Topics, rt)
		kresp, err := cl.Broker(int(leader)).RetriableRequest(ctx, req)
		if err != nil {
			x.Violate("harness:rawfetch", "raw fetch %s/%d: %v", topic, partition, err)
			return out
		}
		resp := kresp.(*kmsg.FetchResponse)
		if len(resp.Topics) != 1 || len(resp.Topics[0].Partitions) != 1 {
			x.Violate("harness:rawfetch", "raw fetch %s/%d: unexpected shape", topic, partition)
			return out
		}
		p := resp.Topics[0].Partitions[0]
		if p.ErrorCode == 1 && start { // OFFSET_OUT_OF_RANGE: log start moved
			next = p.LogStartOffset
			start = false
			continue
		}
		if p.ErrorCode != 0 {
			time.Sleep(20 * time.Millisecond)
			continue
		}
		in := p.RecordBatches
		for len(in) > 12 {
			l := int(int32(binary.BigEndian.Uint32(in[8:]))) + 12
			if l > len(in) || l < 61 {
				break
			}
			var b kmsg.RecordBatch
			if err := b.ReadFrom(in[:l]); err != nil {
				x.Violate("harness:rawfetch", "undecodable batch in %s/%d at %d: %v", topic, partition, next, err)
				return out
			}
			in = in[l:]
			if b.Attributes&7 != 0 {
				x.Violate("harness:rawfetch", "compressed batch in %s/%d: the raw reader expects uncompressed scenarios", topic, partition)
				return out
			}
			recs := b.Records
			for i := int32(0); i < b.NumRecords; i++ {
				var r kmsg.Record
				rl, n := kbin.Varint(recs)
				if n <= 0 || int(rl)+n > len(recs) {
					break
				}
				if err := r.ReadFrom(recs[:int(rl)+n]); err != nil {
					break
				}
				recs = recs[int(rl)+n:]
				lr := nscen.LogRecord{Topic: topic, Partition: partition, Offset: b.FirstOffset + int64(r.OffsetDelta), Value: string(r.Value), Key: string(r.Key),
					PID: b.ProducerID, Epoch: b.ProducerEpoch, Txn: b.Attributes&0x10 != 0, Control: b.Attributes&0x20 != 0}
				if lr.Control && len(r.Key) >= 4 {
					lr.Commit = binary.BigEndian.Uint16(r.Key[2:]) == 1
				}
				if lr.Offset >= next {
					out = append(out, lr)
				}
			}
			next = b.FirstOffset + int64(b.LastOffsetDelta) + 1
		}
		if next >= p.HighWatermark {
			return out
		}
	}
	x.Violate("harness:rawfetch", "raw fetch %s/%d did not reach the high watermark", topic, partition)
	return out
}
