package c02

import (
	"os"
	"runtime"
	"testing"
	"time"

	"verif/checks/c02/iscen"
	"verif/lib/explore"
	"verif/lib/netctl"
	"verif/lib/nrun"
)

func plans() []nrun.Plan { return append(iscen.Plans(), iscen.GenPlans()...) }

func TestC02(t *testing.T) {
	if explore.IsWorker() || os.Getenv("VERIF_REPLAY") != "" {
		// The first execution of a fresh process occasionally orders two
		// frames that arrive inside one event differently from every later
		// (warm) execution; if that execution is the level-0 run, all its
		// children diverge on replay. One throw-away default execution per
		// scenario makes every execution that counts (replays included) a
		// warm one.
		if !explore.IsWorker() {
			runtime.GOMAXPROCS(1) // as in the workers: with several Ps a replay diverges about one time in three
		}
		for _, p := range plans() {
			netctl.Run(t, p.Scenario, explore.Job{Scenario: p.Scenario.Name})
		}
	}
	nrun.Main(t, &nrun.Check{
		ID: "C02", TestName: "TestC02", Plans: plans(), KeyOf: iscen.KeyOf("C02"),
		QuickTime: 110 * time.Second, ThorTime: 20 * time.Minute,
		Rule:   "engine N: every order of Produce calls, a leader move, request/response frame deliveries, timer ticks and injected faults (produce: connection kill before/after handling, NOT_LEADER, NOT_ENOUGH_REPLICAS, REQUEST_TIMED_OUT before and after append, NOT_ENOUGH_REPLICAS_AFTER_APPEND, stalled request; metadata/InitProducerID: kill before/after) within k deviations of the default order, for four hand-written idempotent-producer scenarios (one record per batch, pipelined requests; two partitions on two brokers; small RecordRetries + RecordDeliveryTimeout; single partition; AllowIdempotentProduceCancellation with a cancelled record context), plus the generated family IG: every combination of 7 producer configurations (linger 0 or 5ms x a batch per record or shared batches; RecordRetries 1; RecordDeliveryTimeout 5s; StopProducerOnDataLossDetected) x 2 initial placements (t/0 and t/1 on two brokers or on one) x producing script (3 Produce calls over the two partitions with at most one Flush / short think / long think between calls: 56 quick; 3 to 5 calls: 272 thorough) x environment option (nothing; leader of t/1 moves after the g-th script item; moves and moves back after the next item or right after the next Produce request reached a broker; all client connections die right after the next Produce request reached a broker), on the default schedule, and every single deviation below a stated representative subset of combinations (time-capped); distinct = distinct terminal outcomes (per-record promise class and number of Produce requests that carried the record, plus final log contents) per scenario",
		Assume: []string{"kfake is the broker, including its duplicate window (C29/C32 check that)", "synctests build of xsync (C31 covers the channel mutexes)", "goroutine micro-interleavings inside one event are the Go runtime's"},
	})
}
